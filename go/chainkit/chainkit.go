// Package chainkit builds synthetic gocoin chains for the harnesses: a temp-dir chain.Chain with a
// synthetic genesis and a regtest-style easy proof-of-work target, deterministic keys, transaction and
// block builders (every rule can be violated on purpose), a miner, and a canonical UTXO dump.
//
// Proof-of-work is made cheap WITHOUT touching gocoin: Chain.Consensus.MaxPOWBits/MaxPOWValue and
// BlockTreeRoot.BlockHeader are exported, so the kit sets 0x207fffff right after NewChainExt. The
// genesis hash bytes select the rule set exactly as gocoin does (Hash[0]==0x43 testnet, Hash[1]==0xf0
// testnet4).
package chainkit

import (
	"bytes"
	"crypto/sha256"
	"encoding/binary"
	"encoding/hex"
	"fmt"
	"math/big"
	"os"
	"sort"
	"time"

	"github.com/piotrnar/gocoin/lib/btc"
	"github.com/piotrnar/gocoin/lib/chain"
	"github.com/piotrnar/gocoin/lib/utxo"
	"verif/vlib"
)

const EasyBits = 0x207fffff

type Opts struct {
	Testnet, Testnet4 bool   // rule set selected through the genesis hash bytes
	Dir               string // "" = fresh temp dir
	GenesisTime       uint32 // 0 = now - 400 days
	// activation heights; 0 = active from height 1 (for the three BIP heights) / from 1 for CSV, SEGWIT, Taproot.
	// Use NoXxx to switch a soft fork off completely (height = 0xffffffff, or 0 for the Enforce_* fields).
	BIP34, BIP65, BIP66, CSV, SegWit, Taproot uint32
	NoCSV, NoSegWit, NoTaproot               bool
	ChainOpts                                *chain.NewChanOpts
	BlockDBOpts                              *chain.BlockDBOpts
	KeepDir                                  bool
}

type Kit struct {
	Ch      *chain.Chain
	Dir     string
	Genesis *btc.Uint256
	Opts    Opts
	Rng     *vlib.Rng
	extra   uint64
}

// GenesisHash returns the synthetic genesis hash for a rule set.
func GenesisHash(testnet, testnet4 bool) *btc.Uint256 {
	var h [32]byte
	for i := range h {
		h[i] = byte(0xA0 + i)
	}
	h[0], h[1] = 0x6f, 0xe2 // mainnet-like: neither 0x43 nor 0xf0
	if testnet || testnet4 {
		h[0] = 0x43
		h[1] = 0x49
	}
	if testnet4 {
		h[1] = 0xf0
	}
	return btc.NewUint256(h[:])
}

func def(v, d uint32) uint32 {
	if v == 0 {
		return d
	}
	return v
}

// New opens (or re-opens, when o.Dir already holds a chain) a synthetic chain.
func New(o Opts, rng *vlib.Rng) (*Kit, error) {
	k := &Kit{Opts: o, Rng: rng}
	if o.Dir == "" {
		d, err := os.MkdirTemp("", "vchain")
		if err != nil {
			return nil, err
		}
		k.Dir = d + string(os.PathSeparator)
	} else {
		k.Dir = o.Dir
		os.MkdirAll(k.Dir, 0770)
	}
	k.Genesis = GenesisHash(o.Testnet, o.Testnet4)
	k.Ch = chain.NewChainExt(k.Dir, k.Genesis, false, o.ChainOpts, o.BlockDBOpts)
	k.Configure(k.Ch)
	return k, nil
}

// Configure applies the easy target and the activation heights to a chain object (also used after
// a re-open, and by harnesses that call chain.NewChainExt themselves).
// NOTE: NewChainExt itself runs loadBlockIndex/ParseTillBlock BEFORE this can be applied; that code
// does not consult the PoW limit, only stored blocks, so re-opening works.
func (k *Kit) Configure(ch *chain.Chain) {
	o := k.Opts
	ch.Consensus.MaxPOWBits = EasyBits
	ch.Consensus.MaxPOWValue = btc.SetCompact(EasyBits)
	gt := o.GenesisTime
	if gt == 0 {
		gt = uint32(time.Now().Unix()) - 400*24*3600
		gt -= gt % 600
	}
	k.Opts.GenesisTime = gt
	ch.Consensus.GensisTimestamp = gt
	ch.Consensus.BIP34Height = def(o.BIP34, 1)
	ch.Consensus.BIP65Height = def(o.BIP65, 1)
	ch.Consensus.BIP66Height = def(o.BIP66, 1)
	ch.Consensus.Enforce_CSV = def(o.CSV, 1)
	ch.Consensus.Enforce_SEGWIT = def(o.SegWit, 1)
	ch.Consensus.Enforce_Taproot = def(o.Taproot, 1)
	if o.NoCSV {
		ch.Consensus.Enforce_CSV = 0
	}
	if o.NoSegWit {
		ch.Consensus.Enforce_SEGWIT = 0
	}
	if o.NoTaproot {
		ch.Consensus.Enforce_Taproot = 0
	}
	ch.RebuildGenesisHeader()
}

// Close closes the chain and removes the directory (unless KeepDir).
func (k *Kit) Close() {
	if k.Ch != nil {
		k.Ch.Close()
		k.Ch = nil
	}
	if !k.Opts.KeepDir {
		os.RemoveAll(k.Dir)
	}
}

// ---------------------------------------------------------------------------------------- keys

type Key struct {
	Priv []byte
	Pub  []byte // compressed
}

func (k *Kit) NewKey() *Key {
	for {
		p := k.Rng.Bytes(32)
		p[0] &= 0x7f
		pub := btc.PublicFromPrivate(p, true)
		if pub != nil {
			return &Key{Priv: p, Pub: pub}
		}
	}
}

func Hash160(b []byte) []byte {
	var out [20]byte
	btc.RimpHash(b, out[:])
	return out[:]
}

func (key *Key) P2PKH() []byte {
	return append(append([]byte{0x76, 0xa9, 20}, Hash160(key.Pub)...), 0x88, 0xac)
}
func (key *Key) P2WPKH() []byte { return append([]byte{0x00, 20}, Hash160(key.Pub)...) }
func (key *Key) P2SH_P2WPKH() []byte {
	return append(append([]byte{0xa9, 20}, Hash160(key.P2WPKH())...), 0x87)
}

// ---------------------------------------------------------------------------------------- transactions

// Coin is a spendable output known to the harness.
type Coin struct {
	Out      btc.TxPrevOut
	Value    uint64
	Script   []byte
	Key      *Key
	Kind     string // "p2pkh" | "p2wpkh" | "p2sh-p2wpkh" | "anyone" (OP_TRUE) | "raw"
	Height   uint32
	Coinbase bool
}

type OutSpec struct {
	Value  uint64
	Script []byte
}

// AnyoneScript is OP_TRUE: spendable with an empty scriptSig (keeps script checks cheap when they are
// not the subject of the test).
var AnyoneScript = []byte{0x51}

// BuildTx builds and signs a transaction spending the given coins. version/locktime/sequences are free.
// Signing uses gocoin's own Tx.Sign/SignWitness (SIGHASH_ALL).
func BuildTx(version uint32, ins []*Coin, seqs []uint32, outs []OutSpec, locktime uint32) *btc.Tx {
	tx := new(btc.Tx)
	tx.Version = version
	tx.Lock_time = locktime
	for i, c := range ins {
		seq := uint32(0xffffffff)
		if i < len(seqs) {
			seq = seqs[i]
		}
		tx.TxIn = append(tx.TxIn, &btc.TxIn{Input: c.Out, Sequence: seq})
	}
	for _, o := range outs {
		tx.TxOut = append(tx.TxOut, &btc.TxOut{Value: o.Value, Pk_script: o.Script})
	}
	tx.AllocVerVars()
	for i, c := range ins {
		switch c.Kind {
		case "p2pkh":
			tx.Sign(i, c.Script, 1, c.Key.Pub, c.Key.Priv)
		case "p2wpkh":
			sc := append(append([]byte{0x76, 0xa9, 20}, Hash160(c.Key.Pub)...), 0x88, 0xac)
			tx.SignWitness(i, sc, c.Value, 1, c.Key.Pub, c.Key.Priv)
		case "p2sh-p2wpkh":
			sc := append(append([]byte{0x76, 0xa9, 20}, Hash160(c.Key.Pub)...), 0x88, 0xac)
			tx.SignWitness(i, sc, c.Value, 1, c.Key.Pub, c.Key.Priv)
			rs := c.Key.P2WPKH()
			tx.TxIn[i].ScriptSig = append([]byte{byte(len(rs))}, rs...)
		case "anyone", "raw":
		}
	}
	tx.Clean()
	if tx.SegWit != nil {
		for i := range tx.SegWit {
			if tx.SegWit[i] == nil {
				tx.SegWit[i] = [][]byte{}
			}
		}
	}
	Finish(tx)
	return tx
}

// Finish (re)computes Raw, Hash, sizes of a hand-edited transaction.
func Finish(tx *btc.Tx) {
	raw := tx.Serialize()
	tx.SetHash(raw)
}

// OutCoins returns the coins created by tx (for the outputs whose script the harness can spend).
func OutCoins(tx *btc.Tx, keys map[string]*Key, height uint32, coinbase bool) []*Coin {
	var res []*Coin
	for i, o := range tx.TxOut {
		c := &Coin{Out: btc.TxPrevOut{Hash: tx.Hash.Hash, Vout: uint32(i)}, Value: o.Value, Script: o.Pk_script, Height: height, Coinbase: coinbase, Kind: "raw"}
		if bytes.Equal(o.Pk_script, AnyoneScript) {
			c.Kind = "anyone"
		} else if k, ok := keys[string(o.Pk_script)]; ok {
			c.Key = k
			switch {
			case len(o.Pk_script) == 25:
				c.Kind = "p2pkh"
			case len(o.Pk_script) == 22:
				c.Kind = "p2wpkh"
			case len(o.Pk_script) == 23:
				c.Kind = "p2sh-p2wpkh"
			}
		}
		res = append(res, c)
	}
	return res
}

// ---------------------------------------------------------------------------------------- blocks

func dsha(b []byte) []byte {
	a := sha256.Sum256(b)
	c := sha256.Sum256(a[:])
	return c[:]
}

// MerkleRoot computes Bitcoin's merkle root over 32-byte hashes (independent of gocoin's CalcMerkle).
func MerkleRoot(hs [][]byte) []byte {
	if len(hs) == 0 {
		return make([]byte, 32)
	}
	for len(hs) > 1 {
		if len(hs)%2 == 1 {
			hs = append(hs, hs[len(hs)-1])
		}
		var nx [][]byte
		for i := 0; i < len(hs); i += 2 {
			nx = append(nx, dsha(append(append([]byte{}, hs[i]...), hs[i+1]...)))
		}
		hs = nx
	}
	return hs[0]
}

// HeightPush is BIP34's `CScript() << height` (minimal push), written from the BIP.
func HeightPush(h uint32) []byte {
	if h == 0 {
		return []byte{0x00}
	}
	if h <= 16 {
		return []byte{byte(0x50 + h)}
	}
	var b []byte
	v := h
	for v > 0 {
		b = append(b, byte(v))
		v >>= 8
	}
	if b[len(b)-1]&0x80 != 0 {
		b = append(b, 0)
	}
	return append([]byte{byte(len(b))}, b...)
}

// BlockSpec describes a block to build; zero values give a valid block.
type BlockSpec struct {
	Parent        *chain.BlockTreeNode
	Time          uint32 // 0 = parent time + 600
	Bits          uint32 // 0 = what GetNextWorkRequired asks for
	Version       uint32 // 0 = 0x20000000
	Txs           []*btc.Tx
	CoinbaseOuts  []OutSpec // nil = one output (subsidy + Fees) to OP_TRUE
	Fees          uint64    // added to the subsidy for the default coinbase output
	CoinbaseExtra []byte    // appended to the BIP34 push (default: 8 byte extranonce)
	CoinbaseRaw   []byte    // full coinbase scriptSig override
	NoCommitment  bool      // do not add a witness commitment even if witnesses are present
	BadCommitment bool      // add a wrong commitment
	ForceCommit   bool      // add a commitment even without witness txs
	MerkleOverride []byte
	BadPoW        bool // search for a nonce whose hash is ABOVE the target
	TrailingBytes []byte
}

func putVarInt(b *bytes.Buffer, v uint64) {
	var t [9]byte
	n := btc.PutULe(t[:], v)
	b.Write(t[:n])
}

// Build assembles, commits and mines a block.
func (k *Kit) Build(s BlockSpec) []byte {
	parent := s.Parent
	if parent == nil {
		parent = k.Ch.LastBlock()
	}
	height := parent.Height + 1
	ts := s.Time
	if ts == 0 {
		ts = parent.Timestamp() + 600
	}
	bits := s.Bits
	if bits == 0 {
		bits = k.Ch.GetNextWorkRequired(parent, ts)
	}
	ver := s.Version
	if ver == 0 {
		ver = 0x20000000
	}
	// coinbase
	cb := new(btc.Tx)
	cb.Version = 1
	script := s.CoinbaseRaw
	if script == nil {
		script = HeightPush(height)
		if s.CoinbaseExtra != nil {
			script = append(script, s.CoinbaseExtra...)
		} else {
			k.extra++
			var e [8]byte
			binary.LittleEndian.PutUint64(e[:], k.extra)
			script = append(script, 8)
			script = append(script, e[:]...)
		}
	}
	cb.TxIn = []*btc.TxIn{{Input: btc.TxPrevOut{Vout: 0xffffffff}, ScriptSig: script, Sequence: 0xffffffff}}
	outs := s.CoinbaseOuts
	if outs == nil {
		outs = []OutSpec{{Value: btc.GetBlockReward(height) + s.Fees, Script: AnyoneScript}}
	}
	for _, o := range outs {
		cb.TxOut = append(cb.TxOut, &btc.TxOut{Value: o.Value, Pk_script: o.Script})
	}
	haveWit := s.ForceCommit
	for _, t := range s.Txs {
		if t.SegWit != nil {
			haveWit = true
		}
	}
	if (haveWit && !s.NoCommitment) || s.BadCommitment {
		nonce := make([]byte, 32)
		cb.SegWit = [][][]byte{{nonce}}
		wh := [][]byte{make([]byte, 32)}
		for _, t := range s.Txs {
			wh = append(wh, dsha(t.SerializeNew()))
		}
		root := MerkleRoot(wh)
		com := dsha(append(append([]byte{}, root...), nonce...))
		if s.BadCommitment {
			com[0] ^= 1
		}
		cb.TxOut = append(cb.TxOut, &btc.TxOut{Value: 0, Pk_script: append([]byte{0x6a, 0x24, 0xaa, 0x21, 0xa9, 0xed}, com...)})
	}
	Finish(cb)
	all := append([]*btc.Tx{cb}, s.Txs...)
	var hs [][]byte
	for _, t := range all {
		hs = append(hs, dsha(t.Serialize()))
	}
	mr := MerkleRoot(hs)
	if s.MerkleOverride != nil {
		mr = s.MerkleOverride
	}
	hdr := make([]byte, 80)
	binary.LittleEndian.PutUint32(hdr[0:4], ver)
	copy(hdr[4:36], parent.BlockHash.Hash[:])
	copy(hdr[36:68], mr)
	binary.LittleEndian.PutUint32(hdr[68:72], ts)
	binary.LittleEndian.PutUint32(hdr[72:76], bits)
	Mine(hdr, s.BadPoW)
	body := new(bytes.Buffer)
	body.Write(hdr)
	putVarInt(body, uint64(len(all)))
	for _, t := range all {
		body.Write(t.SerializeNew())
	}
	body.Write(s.TrailingBytes)
	return body.Bytes()
}

// TargetOf expands compact bits to a big integer, independently of gocoin (positive mantissa only).
func TargetOf(bits uint32) *big.Int {
	exp := int(bits >> 24)
	man := big.NewInt(int64(bits & 0x007fffff))
	if bits&0x00800000 != 0 {
		return big.NewInt(0)
	}
	if exp <= 3 {
		return man.Rsh(man, uint(8*(3-exp)))
	}
	return man.Lsh(man, uint(8*(exp-3)))
}

// Mine searches the nonce (and if needed bumps the timestamp's low bits — never: only nonce) so that the
// header hash is ≤ target (or > target when bad is set).
func Mine(hdr []byte, bad bool) {
	bits := binary.LittleEndian.Uint32(hdr[72:76])
	tgt := TargetOf(bits)
	for n := uint32(0); ; n++ {
		binary.LittleEndian.PutUint32(hdr[76:80], n)
		h := dsha(hdr)
		// hash as little-endian number
		rev := make([]byte, 32)
		for i := range h {
			rev[31-i] = h[i]
		}
		v := new(big.Int).SetBytes(rev)
		if (v.Cmp(tgt) <= 0) != bad {
			return
		}
		if n == 0xffffffff {
			panic("chainkit.Mine: nonce space exhausted")
		}
	}
}

// Result of submitting a block.
type Result struct {
	ParseErr   error
	Dos, Later bool
	CheckErr   error
	AcceptErr  error
	Panic      string
	Block      *btc.Block
}

// OK reports whether the block was checked and accepted without error.
func (r *Result) OK() bool {
	return r.Panic == "" && r.ParseErr == nil && r.CheckErr == nil && r.AcceptErr == nil
}

func (r *Result) String() string {
	switch {
	case r.Panic != "":
		return "panic: " + r.Panic
	case r.ParseErr != nil:
		return "parse: " + r.ParseErr.Error()
	case r.CheckErr != nil:
		return fmt.Sprintf("check(dos=%v,later=%v): %s", r.Dos, r.Later, r.CheckErr.Error())
	case r.AcceptErr != nil:
		return "accept: " + r.AcceptErr.Error()
	}
	return "ok"
}

// Submit runs btc.NewBlock + Chain.CheckBlock + Chain.AcceptBlock, the way tools/importblocks and the
// client's RPC path do.
func (k *Kit) Submit(raw []byte) (res *Result) {
	res = &Result{}
	defer func() {
		if x := recover(); x != nil {
			res.Panic = fmt.Sprint(x)
		}
	}()
	bl, err := btc.NewBlock(raw)
	if err != nil {
		res.ParseErr = err
		return
	}
	res.Block = bl
	k.Ch.BlockIndexAccess.Lock()
	res.Dos, res.Later, res.CheckErr = k.Ch.CheckBlock(bl)
	k.Ch.BlockIndexAccess.Unlock()
	if res.CheckErr != nil {
		return
	}
	res.AcceptErr = k.Ch.AcceptBlock(bl)
	return
}

// MustExtend builds and submits a valid block on the current tip and panics if it is refused.
func (k *Kit) MustExtend(txs []*btc.Tx, fees uint64) (*btc.Tx, []byte) {
	raw := k.Build(BlockSpec{Txs: txs, Fees: fees})
	r := k.Submit(raw)
	if !r.OK() {
		panic("chainkit: valid block refused: " + r.String())
	}
	bl, _ := btc.NewBlock(raw)
	bl.BuildTxList()
	return bl.Txs[0], raw
}

// ---------------------------------------------------------------------------------------- observation

// UtxoDump is the canonical, sorted text dump of the whole unspent set:
// one line per unspent output "txid:vout value height coinbase script".
func UtxoDump(db *utxo.UnspentDB) []string {
	var lines []string
	for i := range db.HashMap {
		db.MapMutex[i].RLock()
		for _, v := range db.HashMap[i] {
			full := utxo.NewUtxoRec(*v)
			for vout, o := range full.Outs {
				if o == nil {
					continue
				}
				cb := 0
				if full.Coinbase {
					cb = 1
				}
				lines = append(lines, fmt.Sprintf("%s:%d %d %d %d %s", hex.EncodeToString(full.TxID[:]), vout, o.Value, full.InBlock, cb, hex.EncodeToString(o.PKScr)))
			}
		}
		db.MapMutex[i].RUnlock()
	}
	sort.Strings(lines)
	return lines
}

// DumpHash is a short digest of a dump.
func DumpHash(lines []string) string {
	h := sha256.New()
	for _, l := range lines {
		h.Write([]byte(l))
		h.Write([]byte{'\n'})
	}
	return hex.EncodeToString(h.Sum(nil)[:8])
}

// Tip returns the tip hash (hex, internal byte order) and height.
func (k *Kit) Tip() (string, uint32) {
	l := k.Ch.LastBlock()
	return hex.EncodeToString(l.BlockHash.Hash[:]), l.Height
}
