package vlib

import (
	"bufio"
	"encoding/hex"
	"fmt"
	"io"
	"os"
	"os/exec"
	"strings"
)

// Oracle is a running Lean model driver speaking the line protocol.
type Oracle struct {
	cmd *exec.Cmd
	in  io.WriteCloser
	out *bufio.Reader
	N   int // requests served
}

// StartOracle starts the compiled Lean driver for a property, e.g. "c15".
// The binary path is <verif>/lean/.lake/build/bin/oracle_<id>; VERIF_ROOT overrides /verif.
func StartOracle(id string, args ...string) (*Oracle, error) {
	bin := Root() + "/lean/.lake/build/bin/oracle_" + strings.ToLower(id)
	cmd := exec.Command(bin, args...)
	cmd.Stderr = os.Stderr
	in, err := cmd.StdinPipe()
	if err != nil {
		return nil, err
	}
	out, err := cmd.StdoutPipe()
	if err != nil {
		return nil, err
	}
	if err := cmd.Start(); err != nil {
		return nil, err
	}
	return &Oracle{cmd: cmd, in: in, out: bufio.NewReaderSize(out, 1<<20)}, nil
}

// Ask sends one request line and returns the one reply line.
func (o *Oracle) Ask(line string) (string, error) {
	if strings.ContainsAny(line, "\n\r") {
		return "", fmt.Errorf("newline in request")
	}
	if _, err := io.WriteString(o.in, line+"\n"); err != nil {
		return "", err
	}
	rep, err := o.out.ReadString('\n')
	if err != nil {
		return "", fmt.Errorf("oracle died on %q: %v", line, err)
	}
	o.N++
	return strings.TrimRight(rep, "\r\n"), nil
}

// MustAsk is Ask that aborts the run (exit 3: infrastructure failure) when the oracle died.
func (o *Oracle) MustAsk(line string) string {
	rep, err := o.Ask(line)
	if err != nil {
		fmt.Fprintln(os.Stderr, "ORACLE-ERROR:", err)
		os.Exit(3)
	}
	return rep
}

func (o *Oracle) Close() {
	o.in.Close()
	o.cmd.Wait()
}

// Root is the verification root directory (/verif unless VERIF_ROOT is set).
func Root() string {
	if r := os.Getenv("VERIF_ROOT"); r != "" {
		return r
	}
	return "/verif"
}

// Hex is the protocol encoding of a byte string ("-" when empty).
func Hex(b []byte) string {
	if len(b) == 0 {
		return "-"
	}
	return hex.EncodeToString(b)
}

// UnHex decodes the protocol encoding.
func UnHex(s string) []byte {
	if s == "-" || s == "" {
		return nil
	}
	b, err := hex.DecodeString(s)
	if err != nil {
		return nil
	}
	return b
}
