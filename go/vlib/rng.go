// Package vlib is the shared part of the correspondence harnesses:
// one PRNG (every random choice derives from VERIF_SEED), the oracle pipe,
// and the run report (evidence file, VIOLATION / KNOWN-FINDING lines).
package vlib

import (
	"os"
	"strconv"
)

// Rng is splitmix64; deterministic for a given seed.
type Rng struct{ s uint64 }

func NewRng(seed uint64) *Rng {
	// the seed is scrambled first: with a plain affine start, seed k+1 would yield seed k's stream shifted by one
	z := seed*0x9E3779B97F4A7C15 + 0x1234567
	z = (z ^ (z >> 30)) * 0xBF58476D1CE4E5B9
	z = (z ^ (z >> 27)) * 0x94D049BB133111EB
	return &Rng{s: z ^ (z >> 31)}
}

func (r *Rng) U64() uint64 {
	r.s += 0x9E3779B97F4A7C15
	z := r.s
	z = (z ^ (z >> 30)) * 0xBF58476D1CE4E5B9
	z = (z ^ (z >> 27)) * 0x94D049BB133111EB
	return z ^ (z >> 31)
}

// Intn returns a value in [0,n).
func (r *Rng) Intn(n int) int {
	if n <= 0 {
		return 0
	}
	return int(r.U64() % uint64(n))
}

func (r *Rng) Bool() bool { return r.U64()&1 == 1 }

// Chance returns true with probability num/den.
func (r *Rng) Chance(num, den int) bool { return r.Intn(den) < num }

func (r *Rng) Bytes(n int) []byte {
	b := make([]byte, n)
	for i := range b {
		b[i] = byte(r.U64())
	}
	return b
}

// Pick returns one of the given ints.
func (r *Rng) Pick(xs ...int) int { return xs[r.Intn(len(xs))] }

// Fork derives an independent stream (for shards) from this one.
func (r *Rng) Fork() *Rng { return NewRng(r.U64()) }

// Seed reads VERIF_SEED (default 1).
func Seed() uint64 {
	if s := os.Getenv("VERIF_SEED"); s != "" {
		if v, e := strconv.ParseUint(s, 10, 64); e == nil {
			return v
		}
	}
	return 1
}
