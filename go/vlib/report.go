package vlib

import (
	"bufio"
	"crypto/sha256"
	"encoding/hex"
	"encoding/json"
	"flag"
	"fmt"
	"os"
	"path/filepath"
	"sort"
	"strings"
	"sync"
	"time"
)

// Violation is one failure seen by a harness.
//   Kind "prop": the property itself fails on the real code for the recorded input.
//   Kind "tie":  model and implementation disagree on the recorded input, but the harness could
//                not show the property failing there (reported as no-failing-input-found).
type Violation struct {
	Kind   string      `json:"kind"`
	Key    string      `json:"key"` // stable id of the failing input class / call site (matched against known_findings.txt)
	What   string      `json:"what"`
	Replay interface{} `json:"replay"`
}

// ProofInfo is written by ./check after the Lean build and handed to the harness.
type ProofInfo struct {
	Obligations int                 `json:"obligations"`
	Discharged  int                 `json:"discharged"`
	Theorems    []string            `json:"theorems"`
	Axioms      map[string][]string `json:"axioms"`
	CheckerCmd  string              `json:"checker_cmd"`
	Broken      []string            `json:"broken"` // theorems / modules / translator facts that no longer check
	BrokenLog   string              `json:"broken_log"`
	TrustedBase []string            `json:"trusted_base"`
	Facts       int                 `json:"facts"` // regenerated source facts re-checked this run
}

type Run struct {
	ID       string
	Tier     string
	Level    string
	Seed     uint64
	Rng      *Rng
	Replay   string // -replay file: the harness re-runs just that input
	evidence string
	proof    ProofInfo
	haveProof bool

	mu       sync.Mutex
	evals    int
	hist     map[string]int
	distinct map[[8]byte]struct{}
	samples  []interface{}
	viol     []Violation
	tieOK    int // model-vs-impl comparisons that agreed
	start    time.Time
	Assume   []string
	Extra    map[string]interface{}
}

// NewRun parses the common flags: -tier quick|thorough -level <manifest level> -proofinfo f -evidence f -replay f
func NewRun(id string) *Run {
	r := &Run{ID: id, hist: map[string]int{}, distinct: map[[8]byte]struct{}{}, start: time.Now(), Extra: map[string]interface{}{}}
	tier := flag.String("tier", "quick", "quick|thorough")
	level := flag.String("level", "other", "level claimed in MANIFEST.json")
	pi := flag.String("proofinfo", "", "json written by ./check after the Lean build")
	ev := flag.String("evidence", Root()+"/evidence/"+id+".json", "evidence file to write")
	rp := flag.String("replay", "", "replay file to re-run")
	t0 := flag.Float64("t0", 0, "unix time at which ./check started (so that wall_s includes the builds)")
	flag.Parse()
	if *t0 > 0 {
		r.start = time.Unix(0, int64(*t0*1e9))
	}
	r.Tier, r.Level, r.evidence, r.Replay = *tier, *level, *ev, *rp
	r.Seed = Seed()
	r.Rng = NewRng(r.Seed)
	if *pi != "" {
		if b, err := os.ReadFile(*pi); err == nil {
			if json.Unmarshal(b, &r.proof) == nil {
				r.haveProof = true
			}
		}
	}
	return r
}

// Thorough reports whether the thorough tier was asked for.
func (r *Run) Thorough() bool { return r.Tier == "thorough" }

// N picks a case count by tier.
func (r *Run) N(quick, thorough int) int {
	if r.Thorough() {
		return thorough
	}
	return quick
}

// Eval counts one evaluated case. kind feeds the histogram; distinctKey (may be "") identifies
// the case for the distinct-nontrivial count — pass "" for trivial cases.
func (r *Run) Eval(kind string, distinctKey string) {
	r.mu.Lock()
	defer r.mu.Unlock()
	r.evals++
	r.hist[kind]++
	if distinctKey != "" {
		h := sha256.Sum256([]byte(distinctKey))
		var k [8]byte
		copy(k[:], h[:8])
		r.distinct[k] = struct{}{}
	}
}

// Hit adds to the histogram only (branches taken, error kinds seen, …).
func (r *Run) Hit(kind string) {
	r.mu.Lock()
	r.hist[kind]++
	r.mu.Unlock()
}

// TieOK counts one agreeing model-vs-implementation comparison.
func (r *Run) TieOK() {
	r.mu.Lock()
	r.tieOK++
	r.mu.Unlock()
}

// Sample keeps up to 12 actual cases for the evidence file.
func (r *Run) Sample(v interface{}) {
	r.mu.Lock()
	if len(r.samples) < 12 {
		r.samples = append(r.samples, v)
	}
	r.mu.Unlock()
}

// PropFail records that the property fails on the real code for a concrete input.
func (r *Run) PropFail(key, what string, replay interface{}) {
	r.mu.Lock()
	r.viol = append(r.viol, Violation{"prop", key, what, replay})
	r.mu.Unlock()
}

// TieFail records a model/implementation disagreement for which no property failure was shown.
func (r *Run) TieFail(key, what string, replay interface{}) {
	r.mu.Lock()
	r.viol = append(r.viol, Violation{"tie", key, what, replay})
	r.mu.Unlock()
}

// Violations so far (used by search phases to decide whether to continue).
func (r *Run) Violations() int {
	r.mu.Lock()
	defer r.mu.Unlock()
	return len(r.viol)
}

type knownEntry struct {
	fixed bool
	prop  string
	key   string
	text  string
}

func loadKnown() []knownEntry {
	var out []knownEntry
	f, err := os.Open(Root() + "/known_findings.txt")
	if err != nil {
		return nil
	}
	defer f.Close()
	sc := bufio.NewScanner(f)
	for sc.Scan() {
		l := strings.TrimSpace(sc.Text())
		if l == "" || strings.HasPrefix(l, "#") {
			continue
		}
		var e knownEntry
		if strings.HasPrefix(l, "fixed:") {
			e.fixed = true
			l = strings.TrimSpace(l[6:])
		} else if strings.HasPrefix(l, "known:") {
			l = strings.TrimSpace(l[6:])
		} else {
			continue
		}
		for _, f := range strings.Fields(l) {
			if strings.HasPrefix(f, "property=") && e.prop == "" {
				e.prop = f[9:]
			} else if strings.HasPrefix(f, "key=") && e.key == "" {
				e.key = f[4:] // only the first key= token names the entry; later ones are free text
			}
		}
		e.text = l
		out = append(out, e)
	}
	return out
}

// Finish writes the evidence file, prints VIOLATION / KNOWN-FINDING lines and exits (0 or 1).
// rule describes how cases are generated and what makes one distinct and non-trivial.
func (r *Run) Finish(rule string, explanation string) {
	known := loadKnown()
	isKnown := func(v Violation) *knownEntry {
		for i := range known {
			k := &known[i]
			if !k.fixed && k.prop == r.ID && k.key != "" && k.key == v.Key {
				return k
			}
		}
		return nil
	}
	printedKnown := map[string]bool{}
	printedViol := map[string]bool{}
	nviol := 0
	os.MkdirAll(Root()+"/replays", 0755)
	propFound := false
	for _, v := range r.viol {
		if v.Kind == "prop" && isKnown(v) == nil {
			propFound = true
		}
	}
	for _, v := range r.viol {
		if v.Kind != "prop" && propFound {
			continue // a model/impl disagreement is subsumed by a concrete property failure
		}
		if k := isKnown(v); k != nil {
			if !printedKnown[v.Key] {
				printedKnown[v.Key] = true
				fmt.Printf("KNOWN-FINDING: property=%s key=%s %s\n", r.ID, v.Key, v.What)
			}
			continue
		}
		if printedViol[v.Kind+v.Key] {
			continue
		}
		printedViol[v.Kind+v.Key] = true
		nviol++
		if v.Kind == "prop" {
			propFound = true
		}
		path := r.writeReplay(v, nviol)
		tail := ""
		if v.Kind != "prop" {
			tail = " no-failing-input-found"
		}
		fmt.Printf("VIOLATION property=%s replay=%s%s\n", r.ID, path, tail)
		fmt.Printf("  (%s) key=%s %s\n", v.Kind, v.Key, v.What)
	}
	// a broken proof obligation / source fact without any concrete failing input
	if r.haveProof && len(r.proof.Broken) > 0 && !propFound {
		nviol++
		v := Violation{"proof", "proof-broken", "proof obligations or regenerated source facts no longer check: " + strings.Join(r.proof.Broken, ", "),
			map[string]interface{}{"broken": r.proof.Broken, "log": r.proof.BrokenLog,
				"searched": fmt.Sprintf("%d evaluations of the property on the real code, none failing", r.evals)}}
		path := r.writeReplay(v, nviol)
		fmt.Printf("VIOLATION property=%s replay=%s no-failing-input-found\n", r.ID, path)
		fmt.Printf("  (proof) %s\n", v.What)
	}
	r.writeEvidence(rule, explanation, nviol, len(printedKnown))
	if nviol > 0 {
		os.Exit(1)
	}
	fmt.Printf("OK property=%s tier=%s seed=%d evaluations=%d tie_agreements=%d known_findings=%d\n", r.ID, r.Tier, r.Seed, r.evals, r.tieOK, len(printedKnown))
	os.Exit(0)
}

func (r *Run) writeReplay(v Violation, n int) string {
	path := fmt.Sprintf("%s/replays/%s-%s-seed%d-%d.json", Root(), r.ID, r.Tier, r.Seed, n)
	doc := map[string]interface{}{
		"property": r.ID, "kind": v.Kind, "key": v.Key, "what": v.What, "replay": v.Replay,
		"seed": r.Seed, "tier": r.Tier,
		"rerun": fmt.Sprintf("cd %s && ./check %s --replay %s", Root(), r.ID, path),
	}
	b, _ := json.MarshalIndent(doc, "", " ")
	os.WriteFile(path, b, 0644)
	return path
}

func (r *Run) writeEvidence(rule, explanation string, nviol, nknown int) {
	cov := map[string]interface{}{}
	for k, v := range r.Extra {
		cov[k] = v
	}
	cov["evaluations"] = r.evals
	cov["distinct_nontrivial"] = len(r.distinct)
	cov["rule"] = rule
	samples := r.samples
	if len(samples) == 0 {
		samples = []interface{}{"(no case sampled)"}
	}
	cov["samples"] = samples
	keys := make([]string, 0, len(r.hist))
	for k := range r.hist {
		keys = append(keys, k)
	}
	sort.Strings(keys)
	h := map[string]int{}
	for _, k := range keys {
		h[k] = r.hist[k]
	}
	cov["histogram"] = h
	cov["traces_validated_against_impl"] = r.tieOK
	cov["known_findings_reported"] = nknown
	cov["explanation"] = explanation
	tb := []string{}
	if r.haveProof {
		cov["obligations"] = r.proof.Obligations
		cov["discharged"] = r.proof.Discharged
		cov["checker_cmd"] = r.proof.CheckerCmd
		cov["theorems"] = r.proof.Theorems
		cov["axioms"] = r.proof.Axioms
		cov["source_facts_rechecked"] = r.proof.Facts
		if len(r.proof.Broken) > 0 {
			cov["broken"] = r.proof.Broken
		}
		tb = append(tb, r.proof.TrustedBase...)
	}
	cov["trusted_base"] = tb
	tier := r.Tier
	if tier != "quick" && tier != "thorough" {
		tier = "quick"
	}
	doc := map[string]interface{}{
		"property_id": r.ID, "tier": tier, "seed": r.Seed, "level": r.Level, "coverage": cov,
		"assumptions": r.Assume, "wall_s": time.Since(r.start).Seconds(), "violations": nviol,
	}
	b, _ := json.MarshalIndent(doc, "", " ")
	os.MkdirAll(filepath.Dir(r.evidence), 0755)
	os.WriteFile(r.evidence, b, 0644)
}

// ShortHash is a helper for distinct keys / replay names.
func ShortHash(b []byte) string {
	h := sha256.Sum256(b)
	return hex.EncodeToString(h[:6])
}
