package main

// canon.go — the name-free normal form both links.go and locks.go read the source through.
//
// An expression of lib/others/memory is printed as a term in which
//   * every local that has ONE defining expression (`x := e`, `var x = e`, `x, y := e1, e2`) and is never
//     assigned again / never has its address taken is replaced by that expression (resolved with Go's block
//     scoping: each identifier is looked up at its own position, so a name re-used in another block is another
//     variable);
//   * the receiver is `a`; a parameter of the ENTRY function (an exported method: Malloc, Free,
//     DefragAllImproved) is §0, §1, …; a parameter of a function reached by following a call is replaced by the
//     caller's normalised argument (so extracting a helper or inlining one does not change the term);
//   * every other local (loop variable, range variable, multi-value result, named result, closure parameter)
//     is an anonymous variable, numbered $1, $2, … in order of first appearance inside the one fact it occurs in;
//   * `(*node)(unsafe.Pointer(E))` is N(E), `(*page_header)(unsafe.Pointer(E))` is H(E),
//     `(*reflect.SliceHeader)(unsafe.Pointer(E))` is S(E) — the pointee type is kept, it tells a node link from a
//     page link; `uintptr(unsafe.Pointer(E))`, `unsafe.Pointer(E)` and the value-preserving widenings `int(E)`,
//     `uintptr(E)` are E; `E &^ pageMask` is page(E); parentheses are dropped, every binary operation is
//     parenthesised, sums are flattened.
// No identifier chosen by the programmer for a local, parameter, named result, label or unexported
// function/method survives; what survives are field names, package-level names and exported API names.

import (
	"fmt"
	"go/ast"
	"go/token"
	"regexp"
	"sort"
	"strconv"
	"strings"

	"verif/vtrans"
)

// decl is one declaration of a local name.
type decl struct {
	name     string
	id       string    // unique: file:offset
	from, to token.Pos // visible for identifiers at from <= pos < to
	scope    ast.Node  // the node that opens the scope the declaration lives in
	rhs      ast.Expr  // defining expression, nil when there is none (loop/range variable, multi-value call, parameter)
	mutable  bool      // assigned again, ++/--, address taken, redeclared by a later `:=` of the same scope
	param    int       // ≥0: k-th parameter of the function; -1 otherwise
	recv     bool
}

// fun is one function of the package with its resolved declarations.
type fun struct {
	f       *vtrans.File
	fd      *ast.FuncDecl
	name    string
	method  bool // method of Allocator
	decls   map[string][]*decl
	nparams int
}

type world struct {
	funs map[string]*fun // "Allocator.name" for methods of Allocator, "name" for plain functions
}

func funKey(fd *ast.FuncDecl) (string, bool) {
	if fd.Recv == nil {
		return fd.Name.Name, false
	}
	if len(fd.Recv.List) != 1 {
		return "", false
	}
	t := fd.Recv.List[0].Type
	if s, ok := t.(*ast.StarExpr); ok {
		t = s.X
	}
	if id, ok := t.(*ast.Ident); ok && id.Name == "Allocator" {
		return "Allocator." + fd.Name.Name, true
	}
	return "", false
}

func newWorld(files ...*vtrans.File) *world {
	w := &world{funs: map[string]*fun{}}
	for _, f := range files {
		for _, d := range f.AST.Decls {
			fd, ok := d.(*ast.FuncDecl)
			if !ok || fd.Body == nil {
				continue
			}
			key, method := funKey(fd)
			if key == "" {
				continue
			}
			w.funs[key] = newFun(f, fd, key, method)
		}
	}
	return w
}

func (w *world) method(name string) *fun { return w.funs["Allocator."+name] }

// ---------------------------------------------------------------------------------------------
// scopes

func newFun(f *vtrans.File, fd *ast.FuncDecl, name string, method bool) *fun {
	fn := &fun{f: f, fd: fd, name: name, method: method, decls: map[string][]*decl{}}
	body := fd.Body
	add := func(id *ast.Ident, from token.Pos, scope ast.Node, rhs ast.Expr) *decl {
		if id == nil || id.Name == "_" {
			return nil
		}
		// `:=` with a name already declared in the SAME scope assigns to it
		for _, d := range fn.decls[id.Name] {
			if d.scope == scope && d.from <= from {
				d.mutable = true
				return d
			}
		}
		d := &decl{name: id.Name, id: fmt.Sprintf("%s:%d", f.Path, f.Fset.Position(id.Pos()).Offset), from: from, to: scope.End(), scope: scope, rhs: rhs, param: -1}
		fn.decls[id.Name] = append(fn.decls[id.Name], d)
		return d
	}
	if fd.Recv != nil && len(fd.Recv.List) == 1 {
		for _, id := range fd.Recv.List[0].Names {
			if d := add(id, body.Pos(), body, nil); d != nil {
				d.recv = true
			}
		}
	}
	for _, fl := range fd.Type.Params.List {
		if len(fl.Names) == 0 {
			fn.nparams++
		}
		for _, id := range fl.Names {
			if d := add(id, body.Pos(), body, nil); d != nil {
				d.param = fn.nparams
			}
			fn.nparams++
		}
	}
	if fd.Type.Results != nil {
		for _, fl := range fd.Type.Results.List {
			for _, id := range fl.Names {
				if d := add(id, body.Pos(), body, nil); d != nil {
					d.mutable = true // a named result is assigned by every `return e`
				}
			}
		}
	}
	// scope of a statement list: the innermost enclosing block-like node
	var walk func(n ast.Node, scope ast.Node)
	walkList := func(l []ast.Stmt, scope ast.Node) {
		for _, s := range l {
			walk(s, scope)
		}
	}
	declare := func(s *ast.AssignStmt, scope ast.Node) {
		for i, l := range s.Lhs {
			id, ok := l.(*ast.Ident)
			if !ok {
				continue
			}
			var rhs ast.Expr
			if len(s.Lhs) == len(s.Rhs) {
				rhs = s.Rhs[i]
			}
			add(id, s.End(), scope, rhs)
		}
	}
	walk = func(n ast.Node, scope ast.Node) {
		switch s := n.(type) {
		case nil:
			return
		case *ast.BlockStmt:
			walkList(s.List, s)
		case *ast.AssignStmt:
			for _, e := range s.Rhs {
				walk(e, scope)
			}
			for _, e := range s.Lhs {
				walk(e, scope)
			}
			if s.Tok == token.DEFINE {
				declare(s, scope)
			}
		case *ast.DeclStmt:
			gd, ok := s.Decl.(*ast.GenDecl)
			if !ok || gd.Tok != token.VAR {
				return
			}
			for _, sp := range gd.Specs {
				vs := sp.(*ast.ValueSpec)
				for _, v := range vs.Values {
					walk(v, scope)
				}
				for i, id := range vs.Names {
					var rhs ast.Expr
					if len(vs.Values) == len(vs.Names) {
						rhs = vs.Values[i]
					}
					d := add(id, s.End(), scope, rhs)
					if d != nil && rhs == nil {
						d.mutable = true // zero value now, assigned later or never: keep it a variable
					}
				}
			}
		case *ast.IfStmt:
			// the init statement's variables are visible in cond, body and else
			walk(s.Init, s)
			walk(s.Cond, s)
			walk(s.Body, s)
			walk(s.Else, s)
		case *ast.ForStmt:
			walk(s.Init, s)
			walk(s.Cond, s)
			walk(s.Post, s)
			walk(s.Body, s)
		case *ast.RangeStmt:
			walk(s.X, scope)
			if s.Tok == token.DEFINE {
				for _, e := range []ast.Expr{s.Key, s.Value} {
					if id, ok := e.(*ast.Ident); ok {
						if d := add(id, s.Body.Pos(), s, nil); d != nil {
							d.mutable = true // takes a new value every iteration
						}
					}
				}
			}
			walk(s.Body, s)
		case *ast.SwitchStmt:
			walk(s.Init, s)
			walk(s.Tag, s)
			walk(s.Body, s)
		case *ast.TypeSwitchStmt:
			walk(s.Init, s)
			if as, ok := s.Assign.(*ast.AssignStmt); ok && as.Tok == token.DEFINE {
				for _, l := range as.Lhs {
					if id, ok := l.(*ast.Ident); ok {
						if d := add(id, s.Body.Pos(), s, nil); d != nil {
							d.mutable = true
						}
					}
				}
			}
			walk(s.Body, s)
		case *ast.CaseClause:
			for _, e := range s.List {
				walk(e, scope)
			}
			walkList(s.Body, s)
		case *ast.CommClause:
			walk(s.Comm, s)
			walkList(s.Body, s)
		case *ast.SelectStmt:
			walk(s.Body, s)
		case *ast.LabeledStmt:
			walk(s.Stmt, scope)
		case *ast.FuncLit:
			for _, fl := range s.Type.Params.List {
				for _, id := range fl.Names {
					if d := add(id, s.Body.Pos(), s, nil); d != nil {
						d.mutable = true // bound at every call of the closure
					}
				}
			}
			if s.Type.Results != nil {
				for _, fl := range s.Type.Results.List {
					for _, id := range fl.Names {
						if d := add(id, s.Body.Pos(), s, nil); d != nil {
							d.mutable = true
						}
					}
				}
			}
			walkList(s.Body.List, s)
		default:
			// expression statements, go/defer/return, and all expressions: look for closures inside
			ast.Inspect(n, func(x ast.Node) bool {
				if x == n {
					return true
				}
				switch x.(type) {
				case *ast.FuncLit, *ast.BlockStmt:
					walk(x, scope)
					return false
				}
				return true
			})
		}
	}
	walk(body, body)
	// mutability: plain assignments, ++/--, &x
	mark := func(e ast.Expr) {
		for {
			if p, ok := e.(*ast.ParenExpr); ok {
				e = p.X
				continue
			}
			break
		}
		if id, ok := e.(*ast.Ident); ok {
			if d := fn.resolve(id); d != nil {
				d.mutable = true
			}
		}
	}
	ast.Inspect(body, func(x ast.Node) bool {
		switch s := x.(type) {
		case *ast.AssignStmt:
			if s.Tok != token.DEFINE {
				for _, l := range s.Lhs {
					mark(l)
				}
			}
		case *ast.IncDecStmt:
			mark(s.X)
		case *ast.UnaryExpr:
			if s.Op == token.AND {
				mark(s.X)
			}
		case *ast.RangeStmt:
			if s.Tok == token.ASSIGN {
				mark(s.Key)
				if s.Value != nil {
					mark(s.Value)
				}
			}
		}
		return true
	})
	return fn
}

// resolve finds the declaration an identifier (at its own position) refers to; nil for package-level names.
func (fn *fun) resolve(id *ast.Ident) *decl {
	var best *decl
	for _, d := range fn.decls[id.Name] {
		if d.from <= id.Pos() && id.Pos() < d.to && (best == nil || d.from >= best.from) {
			best = d
		}
	}
	return best
}

// ---------------------------------------------------------------------------------------------
// terms

// frame is one activation: a function and what its parameters stand for.
type frame struct {
	fn    *fun
	args  []string // normalised actual arguments; nil for the entry function (§k)
	depth int
	async bool // the call that opened this frame sits inside a go statement / stored closure of a callee
}

const (
	mOpen  = "‹"
	mClose = "›"
)

var markRe = regexp.MustCompile(mOpen + `[^` + mClose + `]*` + mClose)

// number replaces the anonymous-variable marks of one fact by $1, $2, … in order of first appearance.
func number(s string) string {
	seen := map[string]string{}
	return markRe.ReplaceAllStringFunc(s, func(m string) string {
		if v, ok := seen[m]; ok {
			return v
		}
		v := "$" + strconv.Itoa(len(seen)+1)
		seen[m] = v
		return v
	})
}

func stripParens(e ast.Expr) ast.Expr {
	for {
		p, ok := e.(*ast.ParenExpr)
		if !ok {
			return e
		}
		e = p.X
	}
}

// ptrCast recognises (*T)(unsafe.Pointer(E)) and returns T's rendering and E.
func (fr *frame) ptrCast(c *ast.CallExpr) (string, ast.Expr, bool) {
	if len(c.Args) != 1 {
		return "", nil, false
	}
	st, ok := stripParens(c.Fun).(*ast.StarExpr)
	if !ok {
		return "", nil, false
	}
	inner, ok := stripParens(c.Args[0]).(*ast.CallExpr)
	if !ok || len(inner.Args) != 1 || render(fr.fn.f, inner.Fun) != "unsafe.Pointer" {
		return "", nil, false
	}
	return render(fr.fn.f, st.X), inner.Args[0], true
}

func (fr *frame) canon(e ast.Expr) string { return fr.canonD(e, 0) }

func (fr *frame) canonD(e ast.Expr, d int) string {
	if d > 24 {
		die(fmt.Errorf("%s: definitions nest too deep to normalise", fr.fn.name))
	}
	f := fr.fn.f
	switch x := e.(type) {
	case *ast.ParenExpr:
		return fr.canonD(x.X, d)
	case *ast.BasicLit:
		return x.Value
	case *ast.Ident:
		dc := fr.fn.resolve(x)
		if dc == nil {
			return x.Name // package-level name, builtin, type
		}
		switch {
		case dc.recv:
			return "a"
		case dc.param >= 0 && !dc.mutable:
			if fr.args == nil {
				return "§" + strconv.Itoa(dc.param)
			}
			return fr.args[dc.param]
		case dc.rhs != nil && !dc.mutable:
			return fr.canonD(dc.rhs, d+1)
		}
		return mOpen + dc.id + "@" + strconv.Itoa(fr.depth) + mClose
	case *ast.SelectorExpr:
		if id, ok := x.X.(*ast.Ident); ok && fr.fn.resolve(id) == nil {
			return id.Name + "." + x.Sel.Name // package-qualified name
		}
		return fr.canonD(x.X, d) + "." + x.Sel.Name
	case *ast.IndexExpr:
		return fr.canonD(x.X, d) + "[" + fr.canonD(x.Index, d) + "]"
	case *ast.StarExpr:
		return "*" + fr.canonD(x.X, d)
	case *ast.UnaryExpr:
		return x.Op.String() + fr.canonD(x.X, d)
	case *ast.BinaryExpr:
		if x.Op == token.AND_NOT && fr.canonD(x.Y, d) == "pageMask" {
			return "page(" + fr.canonD(x.X, d) + ")"
		}
		if x.Op == token.ADD {
			var terms []string
			var flat func(e ast.Expr)
			flat = func(e ast.Expr) {
				e = stripParens(e)
				if b, ok := e.(*ast.BinaryExpr); ok && b.Op == token.ADD {
					flat(b.X)
					flat(b.Y)
					return
				}
				s := fr.canonD(e, d)
				// a substituted definition may itself be a sum
				if strings.HasPrefix(s, "(+ ") {
					terms = append(terms, splitTop(s[3:len(s)-1])...)
					return
				}
				terms = append(terms, s)
			}
			flat(x)
			// integer addition commutes: order the terms (anonymous variables compare equal, ties keep source
			// order); string concatenation is left alone
			isStr := false
			for _, t := range terms {
				if strings.HasPrefix(t, "\"") || strings.HasPrefix(t, "`") {
					isStr = true
				}
			}
			if !isStr {
				key := func(t string) string { return markRe.ReplaceAllString(t, "$") }
				sort.SliceStable(terms, func(i, j int) bool { return key(terms[i]) < key(terms[j]) })
			}
			return "(+ " + strings.Join(terms, " ") + ")"
		}
		return "(" + fr.canonD(x.X, d) + " " + x.Op.String() + " " + fr.canonD(x.Y, d) + ")"
	case *ast.CallExpr:
		if t, arg, ok := fr.ptrCast(x); ok {
			switch t {
			case "node":
				return "N(" + fr.canonD(arg, d) + ")"
			case "page_header":
				return "H(" + fr.canonD(arg, d) + ")"
			case "reflect.SliceHeader":
				return "S(" + fr.canonD(arg, d) + ")"
			}
			return "(*" + t + ")(" + fr.canonD(arg, d) + ")"
		}
		fun := render(f, x.Fun)
		if len(x.Args) == 1 {
			switch fun {
			case "unsafe.Pointer", "int", "uintptr":
				if id, ok := stripParens(x.Fun).(*ast.Ident); !ok || fr.fn.resolve(id) == nil {
					return fr.canonD(x.Args[0], d)
				}
			}
		}
		var args []string
		for _, a := range x.Args {
			args = append(args, fr.canonD(a, d))
		}
		return fr.canonD(x.Fun, d) + "(" + strings.Join(args, ", ") + ")"
	case *ast.CompositeLit, *ast.FuncLit, *ast.ArrayType, *ast.MapType, *ast.StructType, *ast.TypeAssertExpr, *ast.SliceExpr, *ast.KeyValueExpr:
		return "«" + render(f, e) + "»"
	}
	return "«" + render(f, e) + "»"
}

// splitTop splits "t1 t2 t3" at top-level spaces (terms may contain parenthesised spaces).
func splitTop(s string) []string {
	var out []string
	depth, start := 0, 0
	for i := 0; i < len(s); i++ {
		switch s[i] {
		case '(', '[':
			depth++
		case ')', ']':
			depth--
		case ' ':
			if depth == 0 {
				out = append(out, s[start:i])
				start = i + 1
			}
		}
	}
	return append(out, s[start:])
}

// ---------------------------------------------------------------------------------------------
// walking an entry function together with everything it calls inside the package

const maxInline = 5

// event is something found in the entry function or, through calls, below it.
type event struct {
	kind string    // "write", "index", "mu", "hmem" (field of a *page_header / *node), "hmem?" (memory reached through a pointer canon.go cannot classify)
	pos  token.Pos // position IN THE ENTRY FUNCTION (of the statement itself, or of the outermost call that leads to it)
	end  token.Pos
	a, b string // write: lhs, rhs · index: field, index expr · mu: method, index expr
	node ast.Node
	top  bool   // found directly in the entry function
	via  string // call path, for messages
	// async: the event lies inside a `go` statement or a function literal that is not called on the spot, in a
	// function reached through a call — it does NOT run at the position of that call
	async bool
	lhs   bool // hmem / hmem?: the access is the target of an assignment / ++ / -- / & (a write or an escape)
}

func (w *world) walk(entry *fun, visit func(event)) {
	busy := map[string]bool{}
	var rec func(fr *frame, top, topEnd token.Pos, via string)
	rec = func(fr *frame, top, topEnd token.Pos, via string) {
		if busy[fr.fn.name] {
			die(fmt.Errorf("%s is recursive: cannot normalise", fr.fn.name))
		}
		busy[fr.fn.name] = true
		defer func() { busy[fr.fn.name] = false }()
		at := func(n ast.Node) (token.Pos, token.Pos) {
			if fr.depth == 0 {
				return n.Pos(), n.End()
			}
			return top, topEnd
		}
		asyncN := 0
		lhsOf := map[ast.Node]bool{}  // selector / star expressions that are written (or whose address is taken)
		called := map[ast.Node]bool{} // function literals called on the spot, selector expressions that are the callee of a call
		markLhs := func(e ast.Expr) {
			for {
				e = stripParens(e)
				lhsOf[e] = true
				// a write to x.f.g / x.f[i] writes inside x.f
				switch y := e.(type) {
				case *ast.SelectorExpr:
					e = y.X
					continue
				case *ast.IndexExpr:
					e = y.X
					continue
				}
				return
			}
		}
		emit := func(kind string, n ast.Node, a, b string) {
			p, e := at(n)
			visit(event{kind: kind, pos: p, end: e, a: a, b: b, node: n, top: fr.depth == 0, via: via, async: fr.async || asyncN > 0, lhs: lhsOf[n]})
		}
		isHeapLhs := func(e ast.Expr) bool {
			switch stripParens(e).(type) {
			case *ast.SelectorExpr, *ast.IndexExpr, *ast.StarExpr:
				return true
			}
			return false
		}
		// a `defer` inside a CALLEE runs when the callee returns: its events come after the rest of the callee's
		// (in the entry function itself the consumer sees the DeferStmt and decides)
		var deferred []*ast.CallExpr
		var visitNode func(x ast.Node) bool
		visitNode = func(x ast.Node) bool {
			switch s := x.(type) {
			case *ast.DeferStmt:
				if fr.depth > 0 {
					deferred = append(deferred, s.Call)
					return false
				}
			case *ast.GoStmt:
				if fr.depth > 0 {
					asyncN++
					ast.Inspect(s.Call, visitNode)
					asyncN--
					return false
				}
			case *ast.FuncLit:
				if fr.depth > 0 && !called[s] {
					asyncN++
					ast.Inspect(s.Body, visitNode)
					asyncN--
					return false
				}
			case *ast.UnaryExpr:
				if s.Op == token.AND {
					markLhs(s.X)
				}
			case *ast.SelectorExpr:
				fr.memAccess(s, called[s], emit)
			case *ast.StarExpr:
				fr.derefAccess(s, emit)
			case *ast.AssignStmt:
				if s.Tok == token.DEFINE {
					return true
				}
				for _, l := range s.Lhs {
					markLhs(l)
				}
				for i, l := range s.Lhs {
					if !isHeapLhs(l) {
						continue
					}
					rhs := "?"
					if len(s.Lhs) == len(s.Rhs) {
						rhs = fr.canon(s.Rhs[i])
					}
					lhs := fr.canon(l)
					if s.Tok != token.ASSIGN {
						op := strings.TrimSuffix(s.Tok.String(), "=")
						rhs = "(" + lhs + " " + op + " " + rhs + ")"
					}
					emit("write", s, lhs, rhs)
				}
			case *ast.IncDecStmt:
				markLhs(s.X)
				if isHeapLhs(s.X) {
					lhs := fr.canon(s.X)
					op := "+"
					if s.Tok == token.DEC {
						op = "-"
					}
					emit("write", s, lhs, "("+lhs+" "+op+" 1)")
				}
			case *ast.IndexExpr:
				if se, ok := stripParens(s.X).(*ast.SelectorExpr); ok && fr.canon(se.X) == "a" {
					emit("index", s, se.Sel.Name, fr.canon(s.Index))
				}
			case *ast.CallExpr:
				called[stripParens(s.Fun)] = true
				se, ok := stripParens(s.Fun).(*ast.SelectorExpr)
				// a.classMu[E].Lock() / Unlock()
				if ok {
					if ie, ok := stripParens(se.X).(*ast.IndexExpr); ok {
						if fe, ok := stripParens(ie.X).(*ast.SelectorExpr); ok && fe.Sel.Name == "classMu" && fr.canon(fe.X) == "a" {
							emit("mu", s, se.Sel.Name, fr.canon(ie.Index))
						}
					}
				}
				var callee *fun
				if ok && fr.canon(se.X) == "a" {
					if id, isId := stripParens(se.X).(*ast.Ident); isId && fr.fn.resolve(id) != nil {
						callee = w.funs["Allocator."+se.Sel.Name]
						if callee == nil {
							emit("unknown-method", s, se.Sel.Name, "")
						}
					}
				} else if id, isId := stripParens(s.Fun).(*ast.Ident); isId && fr.fn.resolve(id) == nil {
					if c := w.funs[id.Name]; c != nil && !c.method {
						callee = c
					}
				}
				if callee == nil {
					return true
				}
				if fr.depth+1 > maxInline {
					die(fmt.Errorf("%s: calls nest deeper than %d below %s: cannot normalise", callee.name, maxInline, entry.name))
				}
				if len(s.Args) != callee.nparams || s.Ellipsis != token.NoPos {
					die(fmt.Errorf("%s: call of %s with %d arguments, expected %d", fr.fn.name, callee.name, len(s.Args), callee.nparams))
				}
				var args []string
				for _, a := range s.Args {
					args = append(args, fr.canon(a))
				}
				p, e := at(s)
				rec(&frame{fn: callee, args: args, depth: fr.depth + 1, async: fr.async || asyncN > 0}, p, e, via+"→"+strings.TrimPrefix(callee.name, "Allocator."))
			}
			return true
		}
		ast.Inspect(fr.fn.fd.Body, visitNode)
		for i := len(deferred) - 1; i >= 0; i-- {
			ast.Inspect(deferred[i], visitNode)
		}
	}
	rec(&frame{fn: entry}, 0, 0, strings.TrimPrefix(entry.name, "Allocator."))
}

// memAccess classifies `X.f` by the normal form of X:
//   a, a.…            fields of the Allocator itself (its per-class slices are "index" events)        — nothing
//   pkg.Name           package-qualified name                                                          — nothing
//   S(…)               the slice header at the start of a slot: belongs to the caller once handed out — nothing
//   H(…) / N(…)        a field of a page header / of a free-list node in mmap'd memory                — "hmem"
//   anything else      a pointer whose pointee canon.go cannot name (a local assigned more than once, a
//                      call result, …); unless X.f is the callee of a call (a method call: page_header and
//                      node have no methods, checked in memoryWorld)                                   — "hmem?"
func (fr *frame) memAccess(s *ast.SelectorExpr, isCallee bool, emit func(kind string, n ast.Node, a, b string)) {
	if id, ok := stripParens(s.X).(*ast.Ident); ok && fr.fn.resolve(id) == nil {
		return // package-qualified or a package-level variable's field
	}
	c := fr.canon(s.X)
	switch {
	case c == "a" || strings.HasPrefix(c, "a.") || strings.HasPrefix(c, "a["):
		return
	case strings.HasPrefix(c, "S("):
		return
	case strings.HasPrefix(c, "H(") || strings.HasPrefix(c, "N("):
		emit("hmem", s, c, s.Sel.Name)
	default:
		if !isCallee {
			emit("hmem?", s, c, s.Sel.Name)
		}
	}
}

// derefAccess: `*E` in expression position with E not a type name reads or writes raw memory.
func (fr *frame) derefAccess(s *ast.StarExpr, emit func(kind string, n ast.Node, a, b string)) {
	switch x := stripParens(s.X).(type) {
	case *ast.Ident:
		if fr.fn.resolve(x) == nil {
			return // *T: a type
		}
	case *ast.SelectorExpr:
		if id, ok := x.X.(*ast.Ident); ok && fr.fn.resolve(id) == nil {
			return // *pkg.T
		}
	case *ast.ArrayType, *ast.StarExpr, *ast.MapType, *ast.StructType, *ast.FuncType, *ast.ChanType, *ast.InterfaceType:
		return
	}
	emit("hmem?", s, fr.canon(s.X), "*")
}

func memoryWorld() *world {
	var files []*vtrans.File
	for _, fnm := range []string{"malloc.go", "free.go", "memory.go", "defrag.go"} {
		f, err := vtrans.Parse(dir + fnm)
		if err != nil {
			die(err)
		}
		files = append(files, f)
		// memAccess treats `x.m(…)` on an unclassified x as harmless: true as long as the types that live in
		// mmap'd memory have no methods
		for _, d := range f.AST.Decls {
			if fd, ok := d.(*ast.FuncDecl); ok && fd.Recv != nil && len(fd.Recv.List) == 1 {
				t := fd.Recv.List[0].Type
				if st, ok := t.(*ast.StarExpr); ok {
					t = st.X
				}
				if id, ok := t.(*ast.Ident); ok && (id.Name == "page_header" || id.Name == "node") {
					die(fmt.Errorf("%s%s: %s has a method (%s); the lock analysis was written for header / node memory accessed through field selectors only", dir, fnm, id.Name, fd.Name.Name))
				}
			}
		}
	}
	return newWorld(files...)
}

func (w *world) entry(name string) *fun {
	fn := w.method(name)
	if fn == nil {
		die(fmt.Errorf("exported method Allocator.%s not found in %s{malloc,free,memory,defrag}.go", name, dir))
	}
	return fn
}
