package main

// A started defragmentation pass has no way out but its end.
//
// From the statement that marks a page `evacuating` on, the pass owns state that is on no list: the free slots of
// every selected page were taken off the global list, `freeList` is 0, and slots released by classFree stay off
// the lists.  All of that is repaired only by running the pass to its end (the pages are unlinked and unmapped).
// The Lean model's pass (beginEvac … moveNext … endEvac) has no abort path at all: when the OS refuses a fresh
// page the Go code panics, which ends the process (fail-stop), and the model simply has no step.  That agreement is
// a property of the source text: in every function of the package that assigns `….evacuating = true`, no
// `return` statement follows that assignment except one that closes the function body.  (A `return` inside a
// function literal is the literal's own; `panic` is not an exit the allocator survives.)  The harness stream
// go/cmd/c20/fault.go is the run-time counterpart: it makes mmap fail inside a pass.

import (
	"fmt"
	"go/ast"
	"go/token"
	"strings"

	"verif/vtrans"
)

func abortFacts(sb *strings.Builder) {
	ok, found := true, 0
	var why []string
	for _, fnm := range []string{"malloc.go", "free.go", "memory.go", "defrag.go"} {
		f, err := vtrans.Parse(dir + fnm)
		if err != nil {
			die(err)
		}
		for _, d := range f.AST.Decls {
			fd, isF := d.(*ast.FuncDecl)
			if !isF || fd.Body == nil {
				continue
			}
			mark := token.NoPos
			var rets []*ast.ReturnStmt
			ast.Inspect(fd.Body, func(n ast.Node) bool {
				switch x := n.(type) {
				case *ast.FuncLit:
					return false
				case *ast.AssignStmt:
					for i, l := range x.Lhs {
						se, isSel := l.(*ast.SelectorExpr)
						if !isSel || se.Sel.Name != "evacuating" || i >= len(x.Rhs) {
							continue
						}
						if id, isID := x.Rhs[i].(*ast.Ident); isID && id.Name == "false" {
							continue
						}
						if mark == token.NoPos || x.Pos() < mark {
							mark = x.Pos() // anything but the literal false may set the flag
						}
					}
				case *ast.ReturnStmt:
					rets = append(rets, x)
				}
				return true
			})
			if mark == token.NoPos {
				continue
			}
			found++
			var last ast.Stmt
			if n := len(fd.Body.List); n > 0 {
				last = fd.Body.List[n-1]
			}
			for _, rt := range rets {
				if rt.Pos() > mark && ast.Stmt(rt) != last {
					ok = false
					why = append(why, fmt.Sprintf("%s:%d (%s)", fnm, f.Fset.Position(rt.Pos()).Line, fd.Name.Name))
				}
			}
		}
	}
	if found == 0 {
		die(fmt.Errorf("no function of %s{malloc,free,memory,defrag}.go sets a page header's `evacuating` flag any more; the model's pass (beginEvac … endEvac) was written for a pass that marks its pages", dir))
	}
	note := ""
	if !ok {
		note = " — EARLY RETURN AT " + strings.Join(why, ", ")
	}
	fmt.Fprintf(sb, `
/-! a started defragmentation pass runs to its end (go/cmd/gen_c20/abort.go) -/
/-- in every function that sets a page header's `+"`evacuating`"+` flag no `+"`return`"+` follows that statement except the one closing the function body: once a pass has taken the free slots of its pages off the lists, the only way out other than finishing is a panic (the process stops)%s -/
def defragNoEarlyExit : Bool := %v
`, note, ok)
	facts++
}
