package main

// Link facts: which back-link writes (the `prev`-direction stores of the doubly linked free lists and of
// the page chain) the source of lib/others/memory contains.  A plain Malloc/Free workload never reads
// these fields, so their loss is silent until a middle-of-list removal (defragmentation) — the model
// performs a back-link write only if the source does (Gen.MemClasses.lnk*), and Proofs/C20Ptr.lean
// proves "the pointer structure spells the abstract lists" from lnk* = true.
//
// Every assignment `<selector> = <expr>` of a function is normalised: locals with a `:=` definition and
// no later plain assignment are replaced by their defining expression (closest preceding definition),
// `(*node)(unsafe.Pointer(E))` / `(*page_header)(unsafe.Pointer(E))` are written `E`, parameters keep
// their names.  E.g. `(*node)(unsafe.Pointer(next)).prev = p` after `if next := a.lists[class]; …`
// becomes `a.lists[class].prev = p`.

import (
	"fmt"
	"go/ast"
	"go/token"
	"regexp"
	"strings"

	"verif/vtrans"
)

type def struct {
	pos token.Pos
	rhs string
}

var pageRe = regexp.MustCompile(`([\w.\[\]]+) &\^ uintptr\(pageMask\)`)

// uncast rewrites (*node)(unsafe.Pointer(E)) and (*page_header)(unsafe.Pointer(E)) as E (balanced parentheses).
func uncast(s string) string {
	for _, pre := range []string{"(*node)(unsafe.Pointer(", "(*page_header)(unsafe.Pointer("} {
		for {
			i := strings.Index(s, pre)
			if i < 0 {
				break
			}
			j, depth := i+len(pre), 1
			for j < len(s) && depth > 0 {
				switch s[j] {
				case '(':
					depth++
				case ')':
					depth--
				}
				j++
			}
			if depth != 0 || j >= len(s) || s[j] != ')' {
				return s
			}
			s = s[:i] + s[i+len(pre):j-1] + s[j+1:]
		}
	}
	return s
}

func isIdentByte(c byte) bool {
	return c == '_' || c >= '0' && c <= '9' || c >= 'a' && c <= 'z' || c >= 'A' && c <= 'Z'
}

// writesOf returns the normalised selector assignments of a function.
func writesOf(f *vtrans.File, recv, name string) map[string]bool {
	fn, err := f.Func(recv, name)
	if err != nil {
		die(err)
	}
	defs := map[string][]def{}
	reassigned := map[string]bool{}
	ast.Inspect(fn.Body, func(n ast.Node) bool {
		switch s := n.(type) {
		case *ast.AssignStmt:
			if s.Tok == token.DEFINE && len(s.Lhs) == 1 && len(s.Rhs) == 1 {
				if id, ok := s.Lhs[0].(*ast.Ident); ok {
					defs[id.Name] = append(defs[id.Name], def{s.Pos(), render(f, s.Rhs[0])})
				}
			} else if s.Tok != token.DEFINE {
				for _, l := range s.Lhs {
					if id, ok := l.(*ast.Ident); ok {
						reassigned[id.Name] = true
					}
				}
			}
		case *ast.IncDecStmt:
			if id, ok := s.X.(*ast.Ident); ok {
				reassigned[id.Name] = true
			}
		}
		return true
	})
	var subst func(s string, at token.Pos, depth int) string
	subst = func(s string, at token.Pos, depth int) string {
		if depth > 6 {
			return s
		}
		var b strings.Builder
		for i := 0; i < len(s); {
			if !isIdentByte(s[i]) || (s[i] >= '0' && s[i] <= '9') {
				b.WriteByte(s[i])
				i++
				continue
			}
			j := i
			for j < len(s) && isIdentByte(s[j]) {
				j++
			}
			w := s[i:j]
			field := i > 0 && s[i-1] == '.'
			if ds, ok := defs[w]; ok && !field && !reassigned[w] {
				var best *def
				for k := range ds {
					if ds[k].pos < at && (best == nil || ds[k].pos > best.pos) {
						best = &ds[k]
					}
				}
				if best != nil {
					b.WriteString(subst(best.rhs, best.pos, depth+1))
					i = j
					continue
				}
			}
			b.WriteString(w)
			i = j
		}
		return b.String()
	}
	norm := func(s string, at token.Pos) string {
		s = subst(s, at, 0)
		s = pageRe.ReplaceAllString(s, "page($1)")
		return uncast(s)
	}
	out := map[string]bool{}
	ast.Inspect(fn.Body, func(n ast.Node) bool {
		s, ok := n.(*ast.AssignStmt)
		if !ok || s.Tok != token.ASSIGN || len(s.Lhs) != 1 || len(s.Rhs) != 1 {
			return true
		}
		if _, ok := s.Lhs[0].(*ast.SelectorExpr); !ok {
			return true
		}
		out[norm(render(f, s.Lhs[0]), s.Pos())+" = "+norm(render(f, s.Rhs[0]), s.Pos())] = true
		return true
	})
	return out
}

func hasSuffix(ws map[string]bool, suf string) bool {
	for w := range ws {
		if strings.HasSuffix(w, suf) {
			return true
		}
	}
	return false
}

// linkFacts renders the lnk* definitions.
func linkFacts(sb *strings.Builder) {
	mal, err := vtrans.Parse(dir + "malloc.go")
	if err != nil {
		die(err)
	}
	fre, err := vtrans.Parse(dir + "free.go")
	if err != nil {
		die(err)
	}
	df, err := vtrans.Parse(dir + "defrag.go")
	if err != nil {
		die(err)
	}
	fs := writesOf(fre, "Allocator", "uintptrFreeShared")
	ms := writesOf(mal, "Allocator", "uintptrMallocShared")
	cm := writesOf(df, "Allocator", "classMalloc")
	dc := writesOf(df, "Allocator", "defragClass")
	lp := writesOf(mal, "Allocator", "linkSharedPage")
	np := writesOf(df, "Allocator", "newSharedPageLocal")
	if os_debug() {
		for name, ws := range map[string]map[string]bool{"uintptrFreeShared": fs, "uintptrMallocShared": ms, "classMalloc": cm, "defragClass": dc, "linkSharedPage": lp, "newSharedPageLocal": np} {
			for w := range ws {
				fmt.Println("WRITE", name, ":", w)
			}
		}
	}
	popBack := func(ws map[string]bool) bool { return ws["a.lists[class].next.prev = 0"] }
	popPage := func(ws map[string]bool) bool {
		return ws["a.lists[class].nextInPage.prevInPage = 0"] && ws["a.lists[class].nextInPage.prevInPage = a.lists[class].prevInPage"]
	}
	b := func(name, doc string, v bool) {
		fmt.Fprintf(sb, "/-- %s -/\ndef %s : Bool := %v\n", doc, name, v)
		facts++
	}
	sb.WriteString("\n/-! back-link writes present in the source (go/cmd/gen_c20/links.go) -/\n")
	b("lnkPushGlobalBack", "uintptrFreeShared: `next.prev = p` when pushing p in front of the old head `next := a.lists[class]`",
		fs["a.lists[int(page(p).class)].prev = p"] || fs["a.lists[class].prev = p"])
	b("lnkPushPageBack", "uintptrFreeShared: `nextInPage.prevInPage = p` for the old head of the per-page list",
		hasSuffix(fs, ".freeList.prevInPage = p"))
	b("lnkPopGlobalBack", "uintptrMallocShared and classMalloc: `next.prev = 0` for the new head after popping `a.lists[class]`",
		popBack(ms) && popBack(cm))
	b("lnkPopPageBack", "uintptrMallocShared and classMalloc: the popped node's per-page successor gets `prevInPage = 0` / `= prevInPage`",
		popPage(ms) && popPage(cm))
	b("lnkPurgeBack", "defragClass, removal of an evacuated page's free slots from the global list: `next.prev = 0` / `next.prev = prev`",
		dc["n.next.prev = 0"] && dc["n.next.prev = n.prev"])
	b("lnkLinkPagePrev", "linkSharedPage and newSharedPageLocal: `header.prev = a.lastPage[class]`",
		lp["p.prev = a.lastPage[class]"] && np["p.prev = a.lastPage[class]"])
	b("lnkUnlinkPageBack", "defragClass, removal of an evacuated page from the page chain: `header.next.prev = header.prev`",
		dc["pg.next.prev = pg.prev"])
}
