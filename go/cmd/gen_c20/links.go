package main

// Link facts: which back-link writes (the `prev`-direction stores of the doubly linked free lists and of
// the page chain) the source of lib/others/memory contains.  A plain Malloc/Free workload never reads
// these fields, so their loss is silent until a middle-of-list removal (defragmentation) — the model
// performs a back-link write only if the source does (Gen.MemClasses.lnk*), and Proofs/C20Ptr.lean
// proves "the pointer structure spells the abstract lists" from lnk* = true.
//
// The facts are read off the set of heap writes REACHABLE from an exported entry point (Malloc, Free,
// DefragAllImproved): the entry function's own assignments to `X.field` / `X[i]` plus those of every function of
// the package it calls (calls are followed, the callee's parameters stand for the caller's arguments), each
// printed in the name-free normal form of canon.go.  E.g. in Free→uintptrFreeShared
//     (*node)(unsafe.Pointer(next)).prev = p          after  if next := a.lists[class]; next != 0 {
// is the write   N(a.lists[H(page(§0)).class]).prev = §0 .
// So the names of locals, parameters, results and of the unexported functions, the split of the work into
// helpers, and the order of declarations do not matter; the field names, the pointee types and the exported entry
// points do.  C below is the one index expression of all per-class accesses of the entry point (locks.go finds it
// and Props.C20.*_locks_own_class prove it is the locked class).

import (
	"fmt"
	"sort"
	"strings"
)

// writesFrom returns the normalised heap writes reachable from the exported method `name`.
func writesFrom(w *world, name string) map[string]bool {
	out := map[string]bool{}
	w.walk(w.entry(name), func(e event) {
		if e.kind == "write" {
			out[number(e.a+" = "+e.b)] = true
		}
	})
	return out
}

// linkFacts renders the lnk* definitions.
// cm / cf: the (single) normalised index of the per-class accesses reachable from Malloc / Free (locks.go).
func linkFacts(sb *strings.Builder, w *world, cm, cf string) {
	wf := writesFrom(w, "Free")
	wm := writesFrom(w, "Malloc")
	wd := writesFrom(w, "DefragAllImproved")
	if os_debug() {
		for _, p := range []struct {
			n  string
			ws map[string]bool
		}{{"Free", wf}, {"Malloc", wm}, {"DefragAllImproved", wd}} {
			var l []string
			for s := range p.ws {
				l = append(l, s)
			}
			sort.Strings(l)
			for _, s := range l {
				fmt.Println("WRITE", p.n, ":", s)
			}
		}
		fmt.Println("CLASSIDX Free:", cf, " Malloc:", cm)
	}
	// the defragmentation code is handed its class as a plain variable: $1 when it is the only variable of the fact
	popBack := func(ws map[string]bool, c string) bool { return ws["N(N(a.lists["+c+"]).next).prev = 0"] }
	popPage := func(ws map[string]bool, c string) bool {
		return ws["N(N(a.lists["+c+"]).nextInPage).prevInPage = 0"] &&
			ws["N(N(a.lists["+c+"]).nextInPage).prevInPage = N(a.lists["+c+"]).prevInPage"]
	}
	b := func(name, doc string, v bool) {
		fmt.Fprintf(sb, "/-- %s -/\ndef %s : Bool := %v\n", doc, name, v)
		facts++
	}
	sb.WriteString("\n/-! back-link writes present in the source (go/cmd/gen_c20/links.go; normal form of go/cmd/gen_c20/canon.go:\n" +
		"    N(x) / H(x) = x read as *node / *page_header, §0 = the entry point's argument, $k = a loop variable,\n" +
		"    C = the index of every per-class access a.lists[C], a.pages[C], … reachable from the entry point) -/\n")
	b("lnkPushGlobalBack", "reachable from Free: `N(a.lists[C]).prev = §0` — the old head of the global list gets the freed slot as `prev`",
		wf["N(a.lists["+cf+"]).prev = §0"])
	b("lnkPushPageBack", "reachable from Free: `N(H(page(§0)).freeList).prevInPage = §0` — same for the old head of the per-page list",
		wf["N(H(page(§0)).freeList).prevInPage = §0"])
	b("lnkPopGlobalBack", "reachable from Malloc and from DefragAllImproved: `N(N(a.lists[C]).next).prev = 0` for the new head after popping `a.lists[C]`",
		popBack(wm, cm) && popBack(wd, "$1"))
	b("lnkPopPageBack", "reachable from Malloc and from DefragAllImproved: the popped node's per-page successor gets `prevInPage = 0` / `= N(a.lists[C]).prevInPage`",
		popPage(wm, cm) && popPage(wd, "$1"))
	b("lnkPurgeBack", "reachable from DefragAllImproved, removal of an evacuated page's free slots from the global list: `N(N($1).next).prev = 0` / `= N($1).prev`",
		wd["N(N($1).next).prev = 0"] && wd["N(N($1).next).prev = N($1).prev"])
	b("lnkLinkPagePrev", "reachable from Malloc and from DefragAllImproved: a new page's header gets `prev = a.lastPage[C]`",
		wm["H($1).prev = a.lastPage["+cm+"]"] && wd["H($1).prev = a.lastPage[$2]"])
	b("lnkUnlinkPageBack", "reachable from DefragAllImproved, removal of an evacuated page from the page chain: `H(H($1).next).prev = H($1).prev`",
		wd["H(H($1).next).prev = H($1).prev"])
}
