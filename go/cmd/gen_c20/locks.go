package main

// Lock facts: which class's mutex Malloc / Free lock, and which class's per-class state (a.lists, a.pages,
// a.firstPage, a.lastPage, a.pageCount, a.freeSlots, a.cap — every slice field of Allocator except classMu
// and classIdx) their bodies and the methods they call read and write.
//
// The op-sequence theorems of Props/C20.lean treat one Malloc / Free as one atomic step.  That rests on
// "the body runs under the mutex OF THE CLASS IT EDITS".  Here this is extracted from the source:
//   * lock   = the index expression E of the single `a.classMu[E].Lock()` of the function,
//   * edit   = the index expressions of every per-class slice access of the function and, transitively, of
//              the Allocator methods it calls (callee parameters replaced by the actual arguments),
//   * bracket= every such access / call lies between the Lock() and the last Unlock() of the same index and
//              every `return` in between is directly preceded by that Unlock().
// All expressions are normalised (see norm): `:=` locals that are never reassigned are replaced by their
// defining expression, parameters by §0, §1, …, the receiver by `a`, pointer casts are dropped, and
// `X &^ uintptr(pageMask)` is written page(X) — so renaming a local or introducing/removing a temporary
// does not change the result.  The normal form is then read as a `ClassSel` term:
//   int(page(§0).class)                      -> .pageHeader                    (class byte of the page header)
//   a.getSizeClass(§0 + sliceHdrLen)         -> .sizeClass .reqSize sliceHdrLen (Malloc, §0 = size)
//   a.getSizeClass(§0.Cap [+ k])             -> .sizeClass .slotCap k           (Free, §0 = the pointer)
// Anything else is a shape this translator does not understand: exit non-zero (broken tie).
// The emitted terms DESCRIBE the source; Props.C20.malloc_locks_own_class / free_locks_own_class prove from
// them that the locked class is the edited class (and the class of the model's step).  A source that locks
// by another expression yields another term and those theorems stop compiling.

import (
	"fmt"
	"go/ast"
	"go/token"
	"regexp"
	"sort"
	"strconv"
	"strings"

	"verif/vtrans"
)

type fnorm struct {
	f          *vtrans.File
	fn         *ast.FuncDecl
	defs       map[string][]def
	reassigned map[string]bool
	recv       string
	nparams    int
}

func newFnorm(f *vtrans.File, fn *ast.FuncDecl) *fnorm {
	n := &fnorm{f: f, fn: fn, defs: map[string][]def{}, reassigned: map[string]bool{}}
	if fn.Recv != nil && len(fn.Recv.List) == 1 && len(fn.Recv.List[0].Names) == 1 {
		n.recv = fn.Recv.List[0].Names[0].Name
		if n.recv != "a" {
			n.defs[n.recv] = append(n.defs[n.recv], def{fn.Pos(), "a"})
		}
	}
	for _, fl := range fn.Type.Params.List {
		for _, id := range fl.Names {
			n.defs[id.Name] = append(n.defs[id.Name], def{fn.Pos(), "§" + strconv.Itoa(n.nparams)})
			n.nparams++
		}
	}
	ast.Inspect(fn.Body, func(x ast.Node) bool {
		switch s := x.(type) {
		case *ast.AssignStmt:
			if s.Tok == token.DEFINE && len(s.Lhs) == 1 && len(s.Rhs) == 1 {
				if id, ok := s.Lhs[0].(*ast.Ident); ok {
					n.defs[id.Name] = append(n.defs[id.Name], def{s.Pos(), render(f, s.Rhs[0])})
				}
			} else {
				for _, l := range s.Lhs {
					if id, ok := l.(*ast.Ident); ok && s.Tok != token.DEFINE {
						n.reassigned[id.Name] = true
					}
				}
			}
		case *ast.IncDecStmt:
			if id, ok := s.X.(*ast.Ident); ok {
				n.reassigned[id.Name] = true
			}
		}
		return true
	})
	return n
}

func (n *fnorm) subst(s string, at token.Pos, depth int) string {
	if depth > 8 {
		return s
	}
	var b strings.Builder
	for i := 0; i < len(s); {
		if !isIdentByte(s[i]) || (s[i] >= '0' && s[i] <= '9') {
			// numbers (and the digits of §k) are copied, not looked up
			j := i + 1
			if s[i] >= '0' && s[i] <= '9' {
				for j < len(s) && isIdentByte(s[j]) {
					j++
				}
			}
			b.WriteString(s[i:j])
			i = j
			continue
		}
		j := i
		for j < len(s) && isIdentByte(s[j]) {
			j++
		}
		w := s[i:j]
		field := i > 0 && s[i-1] == '.'
		if ds, ok := n.defs[w]; ok && !field && !n.reassigned[w] {
			var best *def
			for k := range ds {
				if ds[k].pos < at && (best == nil || ds[k].pos > best.pos) {
					best = &ds[k]
				}
			}
			if best != nil {
				b.WriteString(n.subst(best.rhs, best.pos, depth+1))
				i = j
				continue
			}
		}
		b.WriteString(w)
		i = j
	}
	return b.String()
}

// dropCast rewrites pre E `))` as E for every occurrence of the prefix (balanced parentheses).
func dropCast(s, pre string) string {
	from := 0
	for {
		k := strings.Index(s[from:], pre)
		if k < 0 {
			return s
		}
		i := from + k
		j, depth := i+len(pre), 1
		for j < len(s) && depth > 0 {
			switch s[j] {
			case '(':
				depth++
			case ')':
				depth--
			}
			j++
		}
		if depth != 0 || j >= len(s) || s[j] != ')' {
			from = i + len(pre)
			continue
		}
		s = s[:i] + s[i+len(pre):j-1] + s[j+1:]
		from = i
	}
}

var pageRe2 = regexp.MustCompile(`([\w.\[\]§]+) &\^ uintptr\(pageMask\)`)

func (n *fnorm) norm(e ast.Node, at token.Pos) string {
	s := n.subst(render(n.f, e), at, 0)
	s = dropCast(s, "uintptr(unsafe.Pointer(")
	s = pageRe2.ReplaceAllString(s, "page($1)")
	for _, pre := range []string{"(*node)(unsafe.Pointer(", "(*page_header)(unsafe.Pointer(", "(*reflect.SliceHeader)(unsafe.Pointer("} {
		s = dropCast(s, pre)
	}
	return s
}

// ---------------------------------------------------------------------------------------------

type lockWorld struct {
	methods  map[string]*fnorm   // Allocator methods of malloc.go, free.go, memory.go, defrag.go
	perClass map[string]bool     // per-class slice fields of Allocator
	memo     map[string][]string // method -> class expressions in terms of its own §k
	busy     map[string]bool
}

func allocatorMethods(files ...*vtrans.File) map[string]*fnorm {
	out := map[string]*fnorm{}
	for _, f := range files {
		for _, d := range f.AST.Decls {
			fd, ok := d.(*ast.FuncDecl)
			if !ok || fd.Recv == nil || fd.Body == nil || len(fd.Recv.List) != 1 {
				continue
			}
			t := fd.Recv.List[0].Type
			if s, ok := t.(*ast.StarExpr); ok {
				t = s.X
			}
			if id, ok := t.(*ast.Ident); ok && id.Name == "Allocator" {
				out[fd.Name.Name] = newFnorm(f, fd)
			}
		}
	}
	return out
}

func perClassFields(mem *vtrans.File) map[string]bool {
	out := map[string]bool{}
	for _, d := range mem.AST.Decls {
		gd, ok := d.(*ast.GenDecl)
		if !ok {
			continue
		}
		for _, s := range gd.Specs {
			ts, ok := s.(*ast.TypeSpec)
			if !ok || ts.Name.Name != "Allocator" {
				continue
			}
			st, ok := ts.Type.(*ast.StructType)
			if !ok {
				die(fmt.Errorf("memory.go: Allocator is not a struct"))
			}
			for _, fl := range st.Fields.List {
				if at, ok := fl.Type.(*ast.ArrayType); ok && at.Len == nil {
					for _, id := range fl.Names {
						if id.Name != "classMu" && id.Name != "classIdx" {
							out[id.Name] = true
						}
					}
				}
			}
		}
	}
	for _, want := range []string{"lists", "pages", "firstPage", "lastPage", "pageCount", "freeSlots"} {
		if !out[want] {
			die(fmt.Errorf("memory.go: Allocator has no per-class slice field %q any more", want))
		}
	}
	return out
}

// recvField: x is `<recv>.<field>` -> field
func (n *fnorm) recvField(x ast.Expr) (string, bool) {
	se, ok := x.(*ast.SelectorExpr)
	if !ok {
		return "", false
	}
	id, ok := se.X.(*ast.Ident)
	if !ok || id.Name != n.recv {
		return "", false
	}
	return se.Sel.Name, true
}

type access struct {
	pos   token.Pos
	expr  string // normalised class expression
	where string
}

// accesses lists the per-class accesses of one method: direct index expressions and calls of methods that
// (transitively) have some.
func (w *lockWorld) accesses(name string) []access {
	n := w.methods[name]
	var out []access
	ast.Inspect(n.fn.Body, func(x ast.Node) bool {
		switch e := x.(type) {
		case *ast.IndexExpr:
			if fld, ok := n.recvField(e.X); ok && w.perClass[fld] {
				out = append(out, access{e.Pos(), n.norm(e.Index, e.Pos()), "a." + fld + "[…]"})
			}
		case *ast.CallExpr:
			se, ok := e.Fun.(*ast.SelectorExpr)
			if !ok {
				return true
			}
			if id, ok := se.X.(*ast.Ident); !ok || id.Name != n.recv {
				return true
			}
			callee, ok := w.methods[se.Sel.Name]
			if !ok {
				die(fmt.Errorf("%s calls Allocator method %s, which is not in malloc.go/free.go/memory.go/defrag.go: cannot tell which class it edits", name, se.Sel.Name))
			}
			sub := w.classExprs(se.Sel.Name)
			if len(sub) == 0 {
				return true
			}
			if len(e.Args) != callee.nparams {
				die(fmt.Errorf("%s: call of %s with %d arguments, expected %d", name, se.Sel.Name, len(e.Args), callee.nparams))
			}
			var rep []string
			for k, a := range e.Args {
				rep = append(rep, "§"+strconv.Itoa(k), n.norm(a, e.Pos()))
			}
			rp := strings.NewReplacer(rep...)
			for _, s := range sub {
				out = append(out, access{e.Pos(), rp.Replace(s), "a." + se.Sel.Name + "(…)"})
			}
		}
		return true
	})
	return out
}

func (w *lockWorld) classExprs(name string) []string {
	if v, ok := w.memo[name]; ok {
		return v
	}
	if w.busy[name] {
		die(fmt.Errorf("recursive Allocator method %s: cannot tell which class it edits", name))
	}
	w.busy[name] = true
	set := map[string]bool{}
	for _, a := range w.accesses(name) {
		set[a.expr] = true
	}
	var out []string
	for s := range set {
		out = append(out, s)
	}
	sort.Strings(out)
	w.busy[name] = false
	w.memo[name] = out
	return out
}

type lockFact struct {
	lock, edit string
	brackets   bool
	why        string
}

// muCall: stmt/expr is `<recv>.classMu[IDX].<method>()`
func (n *fnorm) muCall(x ast.Node) (method string, idx ast.Expr, ok bool) {
	if es, isStmt := x.(*ast.ExprStmt); isStmt {
		x = es.X
	}
	c, isCall := x.(*ast.CallExpr)
	if !isCall {
		return
	}
	se, isSel := c.Fun.(*ast.SelectorExpr)
	if !isSel {
		return
	}
	ie, isIdx := se.X.(*ast.IndexExpr)
	if !isIdx {
		return
	}
	if fld, isF := n.recvField(ie.X); !isF || fld != "classMu" {
		return
	}
	return se.Sel.Name, ie.Index, true
}

func (w *lockWorld) lockFact(name string) lockFact {
	n, ok := w.methods[name]
	if !ok {
		die(fmt.Errorf("Allocator.%s not found", name))
	}
	var lockPos, lockEnd, lastUnlock token.Pos
	var lockExpr string
	nLock := 0
	unlockSame := true
	ast.Inspect(n.fn.Body, func(x ast.Node) bool {
		if _, isDefer := x.(*ast.DeferStmt); isDefer {
			die(fmt.Errorf("%s: defer statement: lock extent not understood", name))
		}
		c, isCall := x.(*ast.CallExpr)
		if !isCall {
			return true
		}
		m, idx, ok := n.muCall(c)
		if !ok {
			return true
		}
		switch m {
		case "Lock":
			nLock++
			lockPos, lockEnd = c.Pos(), c.End()
			lockExpr = n.norm(idx, c.Pos())
		case "Unlock":
			if c.Pos() > lastUnlock {
				lastUnlock = c.Pos()
			}
			if nLock == 0 || n.norm(idx, c.Pos()) != lockExpr {
				unlockSame = false
			}
		default:
			die(fmt.Errorf("%s: a.classMu[…].%s(): not understood", name, m))
		}
		return true
	})
	if nLock != 1 {
		die(fmt.Errorf("%s: %d calls of a.classMu[…].Lock(), the model was written for exactly one", name, nLock))
	}
	if lastUnlock == 0 {
		die(fmt.Errorf("%s: a.classMu[…].Lock() without Unlock()", name))
	}
	acc := w.accesses(name)
	if len(acc) == 0 {
		die(fmt.Errorf("%s: no access to per-class state found (shape not understood)", name))
	}
	set := map[string]bool{}
	fact := lockFact{lock: lockExpr, brackets: true}
	if !unlockSame {
		fact.brackets, fact.why = false, "an Unlock() uses another index than the Lock()"
	}
	for _, a := range acc {
		set[a.expr] = true
		if a.pos < lockEnd || a.pos >= lastUnlock {
			fact.brackets = false
			fact.why = fmt.Sprintf("%s at %s is outside Lock()…Unlock()", a.where, n.f.Fset.Position(a.pos))
		}
	}
	if len(set) != 1 {
		var l []string
		for s := range set {
			l = append(l, "`"+s+"`")
		}
		sort.Strings(l)
		die(fmt.Errorf("%s edits per-class state selected by %d different expressions (%s); the model's step edits one class", name, len(set), strings.Join(l, ", ")))
	}
	for s := range set {
		fact.edit = s
	}
	// every return between Lock and the last Unlock is directly preceded by an Unlock of the same index
	ast.Inspect(n.fn.Body, func(x ast.Node) bool {
		var list []ast.Stmt
		switch b := x.(type) {
		case *ast.BlockStmt:
			list = b.List
		case *ast.CaseClause:
			list = b.Body
		case *ast.CommClause:
			list = b.Body
		default:
			return true
		}
		for i, st := range list {
			rs, isRet := st.(*ast.ReturnStmt)
			if !isRet || rs.Pos() < lockPos || rs.Pos() > lastUnlock {
				continue
			}
			okPrev := false
			if i > 0 {
				if m, idx, ok := n.muCall(list[i-1]); ok && m == "Unlock" && n.norm(idx, list[i-1].Pos()) == lockExpr {
					okPrev = true
				}
			}
			if !okPrev {
				fact.brackets = false
				fact.why = fmt.Sprintf("return at %s leaves the function with the class mutex held", n.f.Fset.Position(rs.Pos()))
			}
		}
		return true
	})
	return fact
}

var litRe = regexp.MustCompile(`^[0-9]+$`)

// selTerm reads a normalised class expression as a Lean `ClassSel` term.
func selTerm(fn, role, s string, base map[string]string) string {
	if s == "int(page(§0).class)" || s == "page(§0).class" {
		if _, isFree := base["§0.Cap"]; isFree {
			return ".pageHeader"
		}
	}
	const pre = "a.getSizeClass("
	if strings.HasPrefix(s, pre) && strings.HasSuffix(s, ")") {
		arg := s[len(pre) : len(s)-1]
		var b string
		var plus []string
		ok := true
		for _, t := range strings.Split(arg, " + ") {
			t = strings.TrimSpace(t)
			switch {
			case base[t] != "":
				if b != "" {
					ok = false
				}
				b = base[t]
			case t == "sliceHdrLen" || t == "sizeIncrease":
				plus = append(plus, t)
			case litRe.MatchString(t):
				plus = append(plus, t)
			default:
				ok = false
			}
		}
		if ok && b != "" {
			p := "0"
			if len(plus) > 0 {
				p = strings.Join(plus, " + ")
			}
			return fmt.Sprintf(".sizeClass %s (%s)", b, p)
		}
	}
	die(fmt.Errorf("%s: the class whose %s is selected by `%s` — not a shape this translator understands (expected the page header's class byte or a.getSizeClass(size/Cap + constant))", fn, role, s))
	return ""
}

func lockFacts(sb *strings.Builder) {
	var files []*vtrans.File
	for _, fnm := range []string{"malloc.go", "free.go", "memory.go", "defrag.go"} {
		f, err := vtrans.Parse(dir + fnm)
		if err != nil {
			die(err)
		}
		files = append(files, f)
	}
	w := &lockWorld{methods: allocatorMethods(files...), perClass: perClassFields(files[2]), memo: map[string][]string{}, busy: map[string]bool{}}
	mf := w.lockFact("Malloc")
	ff := w.lockFact("Free")
	if os_debug() {
		fmt.Printf("LOCK Malloc: lock=%q edit=%q brackets=%v %s\n", mf.lock, mf.edit, mf.brackets, mf.why)
		fmt.Printf("LOCK Free:   lock=%q edit=%q brackets=%v %s\n", ff.lock, ff.edit, ff.brackets, ff.why)
	}
	mbase := map[string]string{"§0": ".reqSize"}
	fbase := map[string]string{"§0.Cap": ".slotCap"}
	sb.WriteString(`
/-! which class's mutex Malloc / Free lock and which class's per-class state they edit
    (go/cmd/gen_c20/locks.go; §0 = the function's first parameter, page(X) = X &^ pageMask, casts dropped) -/
inductive SelBase where
  /-- Malloc's ` + "`size`" + ` argument -/
  | reqSize
  /-- ` + "`(*reflect.SliceHeader)(unsafe.Pointer(p)).Cap`" + ` of the pointer given to Free -/
  | slotCap
  deriving DecidableEq, Repr
/-- how the source selects a size class -/
inductive ClassSel where
  /-- the ` + "`class`" + ` byte of the header of the page that contains the pointer given to Free -/
  | pageHeader
  /-- ` + "`a.getSizeClass(base + plus)`" + ` -/
  | sizeClass (base : SelBase) (plus : Nat)
  deriving DecidableEq, Repr
`)
	one := func(name, doc, src, term string) {
		fmt.Fprintf(sb, "/-- %s; source (normalised): `%s` -/\ndef %s : ClassSel := %s\n", doc, src, name, term)
		facts++
	}
	one("mallocLockSel", "Malloc: index of the `a.classMu[…].Lock()`", mf.lock, selTerm("Malloc", "mutex is locked", mf.lock, mbase))
	one("mallocEditSel", "Malloc: index of every per-class slice access of Malloc, linkSharedPage, uintptrMallocShared", mf.edit, selTerm("Malloc", "lists are edited", mf.edit, mbase))
	one("freeLockSel", "Free: index of the `a.classMu[…].Lock()`", ff.lock, selTerm("Free", "mutex is locked", ff.lock, fbase))
	one("freeEditSel", "Free: index of every per-class slice access of uintptrFreeShared", ff.edit, selTerm("Free", "lists are edited", ff.edit, fbase))
	br := func(name, fn string, f lockFact) {
		why := ""
		if !f.brackets {
			why = " — NOT SO: " + f.why
		}
		fmt.Fprintf(sb, "/-- %s: every per-class access lies between the Lock() and the last Unlock() of the same index, every return in between follows an Unlock()%s -/\ndef %s : Bool := %v\n", fn, why, name, f.brackets)
		facts++
	}
	br("mallocLockBrackets", "Malloc", mf)
	br("freeLockBrackets", "Free", ff)
}
