package main

// Lock facts: which class's mutex Malloc / Free lock, and which class's per-class state (a.lists, a.pages,
// a.firstPage, a.lastPage, a.pageCount, a.freeSlots, a.cap — every slice field of Allocator except classMu
// and classIdx) their bodies and the functions they call read and write.
//
// The op-sequence theorems of Props/C20.lean treat one Malloc / Free as one atomic step.  That rests on
// "the body runs under the mutex OF THE CLASS IT EDITS".  Here this is extracted from the source:
//   * lock   = the index expression E of the `a.classMu[E].Lock()` reached from the function,
//   * edit   = the index expressions of every per-class slice access of the function and, transitively, of
//              the package functions it calls (callee parameters replaced by the actual arguments),
//   * bracket= on EVERY control path of the function the mutex goes  not-held → Lock() → held → Unlock() → released
//              at most once, every per-class slice access AND every access (read or write, also in a condition) to a
//              field of a page header or free-list node — `X.f` with X of normal form H(…) / N(…), i.e. the shared
//              state in mmap'd memory: used, brk, free, freeList, evacuating and all link fields — own or inside
//              a callee, happens while it is held, and the function is left (return / end of body) not holding it.
//              One exception, which is what the source does: READING H(…).class before Lock() to choose the mutex.
//              `X.f` / `*X` with an X the normal form cannot classify (a local assigned twice, a call result) counts
//              as header memory (unknown ⇒ flagged); S(…) — the slice header of a slot — does not (after Malloc's
//              Unlock the slot belongs to the caller).  An access inside a `go` statement or a stored closure of a
//              CALLEE does not run at the call's position and is flagged wherever it is.  This is computed by a small abstract
//              execution of the function's statements (if / switch arms are joined, a loop body must preserve
//              the state, `defer a.classMu[E].Unlock()` releases at every exit), so early-return vs else,
//              an if-chain vs a switch, or Lock()/Unlock() moved into a helper do not change the answer.
// All expressions are in the name-free normal form of canon.go.  The normal form is then read as a `ClassSel`:
//   H(page(§0)).class                         -> .pageHeader                     (class byte of the page header)
//   a.getSizeClass((+ sliceHdrLen §0))        -> .sizeClass .reqSize sliceHdrLen (Malloc, §0 = size)
//   a.getSizeClass((+ k S(§0).Cap))           -> .sizeClass .slotCap k           (Free, §0 = the slice pointer)
// Anything else is a shape this translator does not understand: exit non-zero (broken tie).
// The emitted terms DESCRIBE the source; Props.C20.malloc_locks_own_class / free_locks_own_class prove from
// them that the locked class is the edited class (and the class of the model's step).  A source that locks
// by another expression yields another term and those theorems stop compiling.

import (
	"fmt"
	"go/ast"
	"go/token"
	"regexp"
	"sort"
	"strings"

	"verif/vtrans"
)

func perClassFields(mem *vtrans.File) map[string]bool {
	out := map[string]bool{}
	for _, d := range mem.AST.Decls {
		gd, ok := d.(*ast.GenDecl)
		if !ok {
			continue
		}
		for _, s := range gd.Specs {
			ts, ok := s.(*ast.TypeSpec)
			if !ok || ts.Name.Name != "Allocator" {
				continue
			}
			st, ok := ts.Type.(*ast.StructType)
			if !ok {
				die(fmt.Errorf("memory.go: Allocator is not a struct"))
			}
			for _, fl := range st.Fields.List {
				if at, ok := fl.Type.(*ast.ArrayType); ok && at.Len == nil {
					for _, id := range fl.Names {
						if id.Name != "classMu" && id.Name != "classIdx" {
							out[id.Name] = true
						}
					}
				}
			}
		}
	}
	for _, want := range []string{"lists", "pages", "firstPage", "lastPage", "pageCount", "freeSlots"} {
		if !out[want] {
			die(fmt.Errorf("memory.go: Allocator has no per-class slice field %q any more", want))
		}
	}
	return out
}

type lockFact struct {
	lock, edit string
	brackets   bool
	why        string
}

// mutex state of the abstract execution
const (
	stFree     = 0 // never locked on this path
	stHeld     = 1
	stReleased = 2
)

type lockExec struct {
	fn       *fun
	evs      []event // mu / access events in the entry function's coordinates, source order
	used     []bool
	lockIdx  string
	deferred bool // `defer a.classMu[lock].Unlock()` seen while held
	bad      string
	loops    []int // mutex state at entry of the enclosing loops
}

func (x *lockExec) fail(pos token.Pos, format string, a ...interface{}) {
	if x.bad == "" {
		x.bad = fmt.Sprintf(format, a...) + " at " + x.fn.f.Fset.Position(pos).String()
	}
}

// apply runs the events that lie inside node n (which must not contain nested statements that are executed
// separately) in source order.
func (x *lockExec) apply(n ast.Node, st int) int {
	if n == nil || (n.Pos() == token.NoPos) {
		return st
	}
	for i, e := range x.evs {
		if x.used[i] || e.pos < n.Pos() || e.pos >= n.End() {
			continue
		}
		x.used[i] = true
		if e.async {
			x.fail(e.pos, "%s (%s) inside a goroutine / stored closure started by a callee: it does not run inside the caller's critical section", e.a, e.via)
			continue
		}
		switch e.kind {
		case "hmem":
			// a field of a page header / free-list node.  The one access the allocator makes outside the critical
			// section is READING header.class to choose the mutex (written once when the page is linked, under
			// the mutex, and constant while the page holds a live slot).
			if st != stHeld && !(e.b == "class" && !e.lhs) {
				x.fail(e.pos, "%s.%s (page header / node memory, %s) is accessed while the class mutex is not held", e.a, e.b, e.via)
			}
		case "hmem?":
			if st != stHeld {
				x.fail(e.pos, "memory behind `%s` (.%s, %s) is accessed while the class mutex is not held and the translator cannot tell that it is not page header / node memory", e.a, e.b, e.via)
			}
		case "mu":
			switch e.a {
			case "Lock":
				if st != stFree {
					x.fail(e.pos, "a.classMu[…].Lock() while the mutex is held or after it was released (the model's step is ONE critical section)")
				}
				if x.lockIdx != "" && x.lockIdx != e.b {
					x.fail(e.pos, "a.classMu[…].Lock() with index `%s`, another path locks `%s`", e.b, x.lockIdx)
				}
				x.lockIdx = e.b
				st = stHeld
			case "Unlock":
				if st != stHeld || e.b != x.lockIdx {
					x.fail(e.pos, "a.classMu[%s].Unlock() without a matching Lock() on this path", e.b)
				}
				st = stReleased
			default:
				die(fmt.Errorf("%s: a.classMu[…].%s(): not understood", x.fn.name, e.a))
			}
		case "index":
			if st != stHeld {
				x.fail(e.pos, "a.%s[…] (%s) is accessed while the class mutex is not held", e.a, e.via)
			}
		}
	}
	return st
}

func (x *lockExec) hasEvents(n ast.Node) bool {
	for i, e := range x.evs {
		if !x.used[i] && e.pos >= n.Pos() && e.pos < n.End() {
			return true
		}
	}
	return false
}

func (x *lockExec) exit(pos token.Pos, st int) {
	if st == stHeld && !x.deferred {
		x.fail(pos, "the function is left with the class mutex held")
	}
}

func (x *lockExec) join(pos token.Pos, states []int) int {
	if len(states) == 0 {
		return -1 // every arm terminated
	}
	for _, s := range states[1:] {
		if s != states[0] {
			x.fail(pos, "the arms of this statement leave the class mutex in different states")
		}
	}
	return states[0]
}

// list executes a statement list; the result is -1 when control never reaches its end.
func (x *lockExec) list(l []ast.Stmt, st int) int {
	for _, s := range l {
		if st < 0 {
			return st // unreachable code
		}
		st = x.stmt(s, st)
	}
	return st
}

func isPanic(s ast.Stmt) bool {
	es, ok := s.(*ast.ExprStmt)
	if !ok {
		return false
	}
	c, ok := es.X.(*ast.CallExpr)
	if !ok {
		return false
	}
	id, ok := c.Fun.(*ast.Ident)
	return ok && id.Name == "panic"
}

func (x *lockExec) stmt(s ast.Stmt, st int) int {
	switch s := s.(type) {
	case nil:
		return st
	case *ast.BlockStmt:
		return x.list(s.List, st)
	case *ast.LabeledStmt:
		return x.stmt(s.Stmt, st)
	case *ast.IfStmt:
		if s.Init != nil {
			st = x.stmt(s.Init, st)
		}
		st = x.apply(s.Cond, st)
		var outs []int
		if r := x.stmt(s.Body, st); r >= 0 {
			outs = append(outs, r)
		}
		if s.Else != nil {
			if r := x.stmt(s.Else, st); r >= 0 {
				outs = append(outs, r)
			}
		} else {
			outs = append(outs, st)
		}
		return x.join(s.Pos(), outs)
	case *ast.SwitchStmt:
		if s.Init != nil {
			st = x.stmt(s.Init, st)
		}
		if s.Tag != nil {
			st = x.apply(s.Tag, st)
		}
		var outs []int
		hasDefault := false
		for _, c := range s.Body.List {
			cc := c.(*ast.CaseClause)
			if cc.List == nil {
				hasDefault = true
			}
			in := st
			for _, e := range cc.List {
				in = x.apply(e, in)
			}
			x.loops = append(x.loops, -2) // `break` leaves the switch: treated as reaching its end
			r := x.list(cc.Body, in)
			x.loops = x.loops[:len(x.loops)-1]
			if r >= 0 {
				outs = append(outs, r)
			}
		}
		if !hasDefault {
			outs = append(outs, st)
		}
		return x.join(s.Pos(), outs)
	case *ast.ForStmt:
		if s.Init != nil {
			st = x.stmt(s.Init, st)
		}
		if s.Cond != nil {
			st = x.apply(s.Cond, st)
		}
		x.loops = append(x.loops, st)
		r := x.stmt(s.Body, st)
		if r >= 0 && s.Post != nil {
			r = x.stmt(s.Post, r)
		}
		x.loops = x.loops[:len(x.loops)-1]
		if r >= 0 && r != st {
			x.fail(s.Pos(), "the loop body changes the state of the class mutex")
		}
		return st
	case *ast.RangeStmt:
		st = x.apply(s.X, st)
		x.loops = append(x.loops, st)
		r := x.stmt(s.Body, st)
		x.loops = x.loops[:len(x.loops)-1]
		if r >= 0 && r != st {
			x.fail(s.Pos(), "the loop body changes the state of the class mutex")
		}
		return st
	case *ast.BranchStmt:
		if s.Tok == token.GOTO || s.Tok == token.FALLTHROUGH || s.Label != nil || len(x.loops) == 0 {
			if x.hasAnyMu() {
				x.fail(s.Pos(), "%s: control flow not understood", s.Tok)
			}
			return -1
		}
		if want := x.loops[len(x.loops)-1]; want != -2 && want != st {
			x.fail(s.Pos(), "%s with the class mutex in another state than at loop entry", s.Tok)
		}
		return -1
	case *ast.ReturnStmt:
		st = x.apply(s, st)
		x.exit(s.Pos(), st)
		return -1
	case *ast.DeferStmt:
		// defer a.classMu[E].Unlock() directly in the entry function: released at every exit from here on
		for i, e := range x.evs {
			if !x.used[i] && e.node == ast.Node(s.Call) && e.kind == "mu" && e.a == "Unlock" && e.top {
				x.used[i] = true
				if st != stHeld || e.b != x.lockIdx {
					x.fail(s.Pos(), "defer a.classMu[%s].Unlock() without a matching Lock() before it", e.b)
				}
				x.deferred = true
				return st
			}
		}
		if x.hasEvents(s) {
			x.fail(s.Pos(), "deferred call touches per-class state or the class mutex: not understood")
		}
		return st
	case *ast.GoStmt:
		if x.hasEvents(s) {
			x.fail(s.Pos(), "goroutine started from here touches per-class state or the class mutex: not understood")
		}
		return st
	case *ast.SelectStmt, *ast.TypeSwitchStmt:
		if x.hasEvents(s) {
			x.fail(s.Pos(), "select / type switch around per-class state: not understood")
		}
		return st
	default:
		// simple statement; closures with events inside are not understood
		bad := false
		ast.Inspect(s, func(n ast.Node) bool {
			if fl, ok := n.(*ast.FuncLit); ok && x.hasEvents(fl) {
				bad = true
			}
			return true
		})
		if bad {
			x.fail(s.Pos(), "closure touches per-class state or the class mutex: not understood")
		}
		st = x.apply(s, st)
		if isPanic(s) {
			return -1
		}
		return st
	}
}

func (x *lockExec) hasAnyMu() bool {
	for _, e := range x.evs {
		if e.kind == "mu" {
			return true
		}
	}
	return false
}

func lockFactOf(w *world, perClass map[string]bool, name string) lockFact {
	fn := w.entry(name)
	x := &lockExec{fn: fn}
	set := map[string]bool{}
	nmem := 0
	w.walk(fn, func(e event) {
		switch e.kind {
		case "unknown-method":
			die(fmt.Errorf("%s calls Allocator method %s, which is not in malloc.go/free.go/memory.go/defrag.go: cannot tell which class it edits", e.via, e.a))
		case "index":
			if !perClass[e.a] {
				return
			}
			e.b = number(e.b)
			set[e.b] = true
			x.evs = append(x.evs, e)
		case "mu":
			e.b = number(e.b)
			x.evs = append(x.evs, e)
		case "hmem", "hmem?":
			e.a = number(e.a)
			x.evs = append(x.evs, e)
			nmem++
		}
	})
	sort.SliceStable(x.evs, func(i, j int) bool { return x.evs[i].pos < x.evs[j].pos })
	x.used = make([]bool, len(x.evs))
	end := x.list(fn.fd.Body.List, stFree)
	if end >= 0 {
		x.exit(fn.fd.Body.Rbrace, end)
	}
	for i, e := range x.evs {
		if !x.used[i] {
			x.fail(e.pos, "a.%s (%s) in a place the lock analysis does not reach", e.a, e.via)
		}
	}
	if x.lockIdx == "" {
		die(fmt.Errorf("%s: no a.classMu[…].Lock() reached, the model was written for one critical section", name))
	}
	if len(set) == 0 {
		die(fmt.Errorf("%s: no access to per-class state found (shape not understood)", name))
	}
	if nmem == 0 {
		die(fmt.Errorf("%s: no access to page header / node memory found (shape not understood)", name))
	}
	if len(set) != 1 {
		var l []string
		for s := range set {
			l = append(l, "`"+s+"`")
		}
		sort.Strings(l)
		die(fmt.Errorf("%s edits per-class state selected by %d different expressions (%s); the model's step edits one class", name, len(set), strings.Join(l, ", ")))
	}
	fact := lockFact{lock: x.lockIdx, brackets: x.bad == "", why: x.bad}
	for s := range set {
		fact.edit = s
	}
	return fact
}

var litRe = regexp.MustCompile(`^[0-9]+$`)

// selTerm reads a normalised class expression as a Lean `ClassSel` term.
func selTerm(fn, role, s string, base map[string]string) string {
	if s == "H(page(§0)).class" {
		if _, isFree := base["S(§0).Cap"]; isFree {
			return ".pageHeader"
		}
	}
	const pre = "a.getSizeClass("
	if strings.HasPrefix(s, pre) && strings.HasSuffix(s, ")") {
		arg := s[len(pre) : len(s)-1]
		terms := []string{arg}
		if strings.HasPrefix(arg, "(+ ") && strings.HasSuffix(arg, ")") {
			terms = splitTop(arg[3 : len(arg)-1])
		}
		var b string
		var plus []string
		ok := true
		for _, t := range terms {
			switch {
			case base[t] != "":
				if b != "" {
					ok = false
				}
				b = base[t]
			case t == "sliceHdrLen" || t == "sizeIncrease":
				plus = append(plus, t)
			case litRe.MatchString(t):
				plus = append(plus, t)
			default:
				ok = false
			}
		}
		if ok && b != "" {
			p := "0"
			if len(plus) > 0 {
				p = strings.Join(plus, " + ")
			}
			return fmt.Sprintf(".sizeClass %s (%s)", b, p)
		}
	}
	die(fmt.Errorf("%s: the class whose %s is selected by `%s` — not a shape this translator understands (expected the page header's class byte or a.getSizeClass(size/Cap + constant))", fn, role, s))
	return ""
}

// lockAnalysis runs the lock analysis of Malloc and Free.
func lockAnalysis(w *world) (mf, ff lockFact) {
	mem, err := vtrans.Parse(dir + "memory.go")
	if err != nil {
		die(err)
	}
	perClass := perClassFields(mem)
	mf = lockFactOf(w, perClass, "Malloc")
	ff = lockFactOf(w, perClass, "Free")
	if os_debug() {
		fmt.Printf("LOCK Malloc: lock=%q edit=%q brackets=%v %s\n", mf.lock, mf.edit, mf.brackets, mf.why)
		fmt.Printf("LOCK Free:   lock=%q edit=%q brackets=%v %s\n", ff.lock, ff.edit, ff.brackets, ff.why)
	}
	return
}

func lockFacts(sb *strings.Builder, mf, ff lockFact) {
	mbase := map[string]string{"§0": ".reqSize"}
	fbase := map[string]string{"S(§0).Cap": ".slotCap"}
	sb.WriteString(`
/-! which class's mutex Malloc / Free lock and which class's per-class state they edit
    (go/cmd/gen_c20/locks.go; normal form of canon.go: §0 = the function's first parameter, page(X) = X &^ pageMask,
    H(X) / S(X) = X read as *page_header / *reflect.SliceHeader, (+ x y) = x + y, integer widenings dropped) -/
inductive SelBase where
  /-- Malloc's ` + "`size`" + ` argument -/
  | reqSize
  /-- ` + "`(*reflect.SliceHeader)(unsafe.Pointer(p)).Cap`" + ` of the pointer given to Free -/
  | slotCap
  deriving DecidableEq, Repr
/-- how the source selects a size class -/
inductive ClassSel where
  /-- the ` + "`class`" + ` byte of the header of the page that contains the pointer given to Free -/
  | pageHeader
  /-- ` + "`a.getSizeClass(base + plus)`" + ` -/
  | sizeClass (base : SelBase) (plus : Nat)
  deriving DecidableEq, Repr
`)
	one := func(name, doc, src, term string) {
		fmt.Fprintf(sb, "/-- %s; source (normalised): `%s` -/\ndef %s : ClassSel := %s\n", doc, src, name, term)
		facts++
	}
	one("mallocLockSel", "Malloc: index of the `a.classMu[…].Lock()`", mf.lock, selTerm("Malloc", "mutex is locked", mf.lock, mbase))
	one("mallocEditSel", "Malloc: index of every per-class slice access reachable from Malloc", mf.edit, selTerm("Malloc", "lists are edited", mf.edit, mbase))
	one("freeLockSel", "Free: index of the `a.classMu[…].Lock()`", ff.lock, selTerm("Free", "mutex is locked", ff.lock, fbase))
	one("freeEditSel", "Free: index of every per-class slice access reachable from Free", ff.edit, selTerm("Free", "lists are edited", ff.edit, fbase))
	br := func(name, fn string, f lockFact) {
		why := ""
		if !f.brackets {
			why = " — NOT SO: " + strings.ReplaceAll(f.why, "-/", "- /")
		}
		fmt.Fprintf(sb, "/-- %s: on every control path the class mutex is locked at most once; every access to a per-class slice of the Allocator and every access to a field of a page header / free-list node (H(…).f, N(…).f, or memory behind a pointer the translator cannot classify), own or in a callee, happens while it is held — except reading H(…).class to choose the mutex; no such access sits in a goroutine / stored closure started by a callee; the function is left with the mutex released.  NOT pinned: accesses through function values, through other packages, and the slot's slice header S(…)%s -/\ndef %s : Bool := %v\n", fn, why, name, f.brackets)
		facts++
	}
	br("mallocLockBrackets", "Malloc", mf)
	br("freeLockBrackets", "Free", ff)
}
