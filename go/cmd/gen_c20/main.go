// gen_c20 regenerates lean/GocoinV/Gen/MemClasses.lean from /repo/lib/others/memory
// (slots.go, memory.go, mmap_unix.go, defrag.go): the size-class table, the page geometry, the
// byte layout of page_header / node (computed from the struct declarations with the amd64 size
// rules), the slice-header size, the defrag thresholds and the page-cache bounds.
// Translator tie for C20: Model/Alloc.lean imports the generated file, Props/C20.lean proves the
// table facts (table_wf, class_fits, counters fit their integer types) about these definitions.
// links.go: which back-link writes the source contains (lnk*); locks.go: which class's mutex Malloc / Free
// lock and which class's state they edit (mallocLockSel, freeLockSel, …).
package main

import (
	"bytes"
	"fmt"
	"go/ast"
	"go/printer"
	"os"
	"strings"

	"verif/vlib"
	"verif/vtrans"
)

func die(err error) {
	fmt.Fprintln(os.Stderr, "TRANSLATE-ERROR:", err)
	os.Exit(2)
}

const dir = "lib/others/memory/"

var facts int

func render(f *vtrans.File, e ast.Node) string {
	var b bytes.Buffer
	printer.Fprint(&b, f.Fset, e)
	return strings.Join(strings.Fields(b.String()), " ")
}

// sizes of the basic types on the 64-bit targets memory64.go is built for
func basicSize(name string) (size, align int, bits int, ok bool) {
	switch name {
	case "byte", "uint8", "bool", "int8":
		return 1, 1, 8, true
	case "uint16", "int16":
		return 2, 2, 16, true
	case "uint32", "int32":
		return 4, 4, 32, true
	case "uint64", "int64", "uintptr", "int", "uint":
		return 8, 8, 64, true
	}
	return 0, 0, 0, false
}

type field struct {
	name             string
	off, size, nbits int
}

func structLayout(f *vtrans.File, name string) (fields []field, total int) {
	for _, d := range f.AST.Decls {
		gd, ok := d.(*ast.GenDecl)
		if !ok {
			continue
		}
		for _, s := range gd.Specs {
			ts, ok := s.(*ast.TypeSpec)
			if !ok || ts.Name.Name != name {
				continue
			}
			st, ok := ts.Type.(*ast.StructType)
			if !ok {
				die(fmt.Errorf("%s is not a struct", name))
			}
			off, maxal := 0, 1
			for _, fl := range st.Fields.List {
				id, ok := fl.Type.(*ast.Ident)
				if !ok {
					die(fmt.Errorf("%s: field type %s not understood", name, render(f, fl.Type)))
				}
				sz, al, nb, ok := basicSize(id.Name)
				if !ok {
					die(fmt.Errorf("%s: field type %s not understood", name, id.Name))
				}
				if al > maxal {
					maxal = al
				}
				for _, n := range fl.Names {
					off = (off + al - 1) / al * al
					fields = append(fields, field{n.Name, off, sz, nb})
					off += sz
				}
			}
			total = (off + maxal - 1) / maxal * maxal
			return
		}
	}
	die(fmt.Errorf("struct %s not found", name))
	return
}

func mustInt(f *vtrans.File, name string) uint64 {
	v, err := f.ConstInt(name)
	if err != nil {
		die(err)
	}
	facts++
	return v
}

func mustExpr(f *vtrans.File, name, want string) {
	e, err := f.ValueSpec(name)
	if err != nil {
		die(err)
	}
	if got := render(f, e); got != want {
		die(fmt.Errorf("%s: %s is defined as `%s`, the model was written for `%s`", f.Path, name, got, want))
	}
	facts++
}

func os_debug() bool { return os.Getenv("GEN_C20_DEBUG") != "" }

func main() {
	slots, err := vtrans.Parse(dir + "slots.go")
	if err != nil {
		die(err)
	}
	mem, err := vtrans.Parse(dir + "memory.go")
	if err != nil {
		die(err)
	}
	mm, err := vtrans.Parse(dir + "mmap_unix.go")
	if err != nil {
		die(err)
	}
	df, err := vtrans.Parse(dir + "defrag.go")
	if err != nil {
		die(err)
	}
	tab, err := slots.ArrayInts("sizeClassSlotSize")
	if err != nil {
		die(err)
	}
	if len(tab) == 0 {
		die(fmt.Errorf("empty sizeClassSlotSize"))
	}
	facts += len(tab)

	// geometry constants: the defining expressions must be the ones the model mirrors
	mustExpr(mem, "headerSize", "unsafe.Sizeof(page_header{})")
	mustExpr(mem, "pageAvail", "pageSize - headerSize")
	mustExpr(mem, "pageMask", "pageSize - 1")
	mustExpr(mem, "pageSize", "1 << pageSizeLog")
	mustExpr(mem, "sliceHdrLen", "int(unsafe.Sizeof([]byte{}))")
	mustExpr(mem, "sizeIncrease", "sliceHdrLen")
	pageSizeLog := mustInt(mm, "pageSizeLog")
	cacheLow := mustInt(mem, "pageCacheLow")
	cacheHigh := mustInt(mem, "pageCacheHigh")
	fromMB := mustInt(df, "defragFromWasteMB")
	toMB := mustInt(df, "defragToWasteMB")
	mustExpr(df, "minFreePagesFrom", "(defragFromWasteMB << 20) / pageSize")
	mustExpr(df, "minFreePagesTo", "(defragToWasteMB << 20) / pageSize")

	hdr, hdrSize := structLayout(mem, "page_header")
	node, nodeSize := structLayout(mem, "node")
	facts += len(hdr) + len(node)
	bitsOf := func(fs []field, n string) int {
		for _, f := range fs {
			if f.name == n {
				return f.nbits
			}
		}
		die(fmt.Errorf("field %s not found", n))
		return 0
	}
	offOf := func(fs []field, n string) int {
		for _, f := range fs {
			if f.name == n {
				return f.off
			}
		}
		die(fmt.Errorf("field %s not found", n))
		return 0
	}

	// init(): every table entry is increased by sizeIncrease
	initFn, err := mem.Func("", "init")
	if err != nil {
		die(err)
	}
	if !strings.Contains(render(mem, initFn.Body), "sizeClassSlotSize[i] += uint32(sizeIncrease)") {
		die(fmt.Errorf("memory.go init() no longer adds sizeIncrease to every sizeClassSlotSize entry"))
	}
	facts++

	var sb strings.Builder
	sb.WriteString("/- GENERATED by go/cmd/gen_c20 from lib/others/memory/{slots,memory,mmap_unix,defrag}.go — do not edit; not in git. -/\n")
	sb.WriteString("namespace GocoinV.Gen.MemClasses\n\n")
	fmt.Fprintf(&sb, "/-- `sizeClassSlotSize` as written in slots.go (before `init()` adds `sizeIncrease`) -/\ndef rawSlotSizes : List Nat := %s\n\n", vtrans.LeanList(tab, "Nat", 12))
	fmt.Fprintf(&sb, "/-- `unsafe.Sizeof([]byte{})` on the 64-bit targets: Data, Len, Cap words -/\ndef sliceHdrLen : Nat := 24\n")
	fmt.Fprintf(&sb, "def sizeIncrease : Nat := sliceHdrLen\n")
	fmt.Fprintf(&sb, "def pageSizeLog : Nat := %d\n", pageSizeLog)
	fmt.Fprintf(&sb, "/-- `unsafe.Sizeof(page_header{})` computed from the struct declaration -/\ndef headerSize : Nat := %d\n", hdrSize)
	fmt.Fprintf(&sb, "/-- `unsafe.Sizeof(node{})`: a free slot is reinterpreted as this struct -/\ndef nodeSize : Nat := %d\n", nodeSize)
	fmt.Fprintf(&sb, "/-- byte offset of `node.nextInPage` (lies in the payload when ≥ sliceHdrLen) -/\ndef nodeNextInPageOff : Nat := %d\n", offOf(node, "nextInPage"))
	fmt.Fprintf(&sb, "def classBits : Nat := %d\ndef brkBits : Nat := %d\ndef usedBits : Nat := %d\ndef freeBits : Nat := %d\n",
		bitsOf(hdr, "class"), bitsOf(hdr, "brk"), bitsOf(hdr, "used"), bitsOf(hdr, "free"))
	fmt.Fprintf(&sb, "def pageCacheLow : Nat := %d\ndef pageCacheHigh : Nat := %d\n", cacheLow, cacheHigh)
	fmt.Fprintf(&sb, "def defragFromWasteMB : Nat := %d\ndef defragToWasteMB : Nat := %d\n", fromMB, toMB)
	w := memoryWorld()
	mf, ff := lockAnalysis(w)
	linkFacts(&sb, w, mf.edit, ff.edit)
	lockFacts(&sb, mf, ff)
	abortFacts(&sb)
	sb.WriteString("\nend GocoinV.Gen.MemClasses\n")
	out := vlib.Root() + "/lean/GocoinV/Gen/MemClasses.lean"
	if o := os.Getenv("GEN_C20_OUT"); o != "" { // experiments: leave the shared Gen/ file alone
		out = o
	}
	os.Remove(out)
	if err := os.WriteFile(out, []byte(sb.String()), 0644); err != nil {
		die(err)
	}
	// wire.go: the configuration state machine that binds utxo.Memory_Malloc / Memory_Free to common.Memory
	wout := vlib.Root() + "/lean/GocoinV/Gen/MemWire.lean"
	if o := os.Getenv("GEN_C20_WIRE_OUT"); o != "" {
		wout = o
	} else if os.Getenv("GEN_C20_OUT") != "" {
		wout = os.Getenv("GEN_C20_OUT") + ".wire"
	}
	ws := wireFacts()
	os.Remove(wout)
	if err := os.WriteFile(wout, []byte(ws), 0644); err != nil {
		die(err)
	}
	fmt.Printf("FACTS %d\n", facts)
}
