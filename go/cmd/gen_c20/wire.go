package main

// wire.go — source facts about the WIRING of the allocator into the node (property C20 names
// client/common/config.go as an anchor: `Memory = memory.NewAllocator(); utxo.Memory_Malloc = Memory.Malloc;
// utxo.Memory_Free = Memory.Free`).  "The allocator's count of live allocations" is the count of the allocator
// the node reports on and defragments (common.Memory); it can only equal the number of records actually live
// when that allocator is the one utxo.Memory_Malloc / utxo.Memory_Free are bound to for the whole life of the
// process.  That is a configuration state machine; its transitions are decided by WHICH functions write the
// three wiring variables and from where these functions can be reached.
//
// The facts are read from a reference graph over every non-test, non-verif Go file below client/ and lib/utxo/
// AND of every package of the module in their transitive import closure (lib/chain, lib/btc, lib/script,
// lib/others/…: whatever the node process links):
//   node   = top-level function or method (function literals belong to the function they are written in);
//            one extra node per package for the package-level `var` initialisers
//   edge   = the body MENTIONS a top-level function (called or taken as a value: command tables, HTTP handlers
//            and goroutines are all mentions); `x.Name` with x not an imported package is a mention of every
//            method called Name (over-approximation)
//   writer = function containing an assignment / inc-dec / address-of whose target is one of the wiring variables
//   root   = main.main, every init(), every package's var-initialiser node
// No function is looked up by name except the two entry points the harness itself calls (common.InitConfig,
// common.Reset); extracting the wiring block into a helper or renaming locals keeps every fact.
//
// Emitted (lean/GocoinV/Gen/MemWire.lean):
//   wireResetRewires   a writer is reachable from common.Reset (the function every run-time config change calls)
//   wireRuntimeRewires a writer is reachable from a root by a path that avoids common.InitConfig
//   wireInitOnce       common.InitConfig is mentioned exactly once, outside loops / function literals / go / defer,
//                      by main.main or by a function of which the same holds
//   wirePaired         all three variables are written exactly once, in ONE block, Memory from memory.NewAllocator(),
//                      Memory_Malloc = E.Malloc and Memory_Free = E.Free with E that very allocator
//   wireWriters        the writers (informational, a List String)

import (
	"fmt"
	"go/ast"
	"go/build"
	"go/parser"
	"go/token"
	"os"
	"path/filepath"
	"sort"
	"strings"

	"verif/vtrans"
)

const modPath = "github.com/piotrnar/gocoin/"

type wvar struct{ pkg, name string } // pkg = directory relative to the repository root

var wiringVars = []wvar{
	{"client/common", "Memory"},
	{"lib/utxo", "Memory_Malloc"},
	{"lib/utxo", "Memory_Free"},
}

const memoryPkg = "lib/others/memory"

type wfile struct {
	ast     *ast.File
	imports map[string]string // local name -> directory relative to the repository root (scanned or not)
}

type wpkg struct {
	dir   string // relative
	name  string
	files []*wfile
	funcs map[string]bool     // plain top-level functions
	vars  map[string]bool     // package-level variables
	meths map[string][]string // method name -> node keys
}

type wmention struct {
	to                   string
	loop, lit, deferOrGo bool
}

type wwrite struct {
	v     wvar
	rhs   ast.Expr
	block *ast.BlockStmt
	n     int // position inside block
}

type wnode struct {
	key      string
	pkg      *wpkg
	file     *wfile
	body     ast.Node
	decl     *ast.FuncDecl
	root     bool
	mentions []wmention
	writes   []wwrite
}

type wgraph struct {
	fset  *token.FileSet
	pkgs  map[string]*wpkg
	nodes map[string]*wnode
}

func loadWire() *wgraph {
	g := &wgraph{fset: token.NewFileSet(), pkgs: map[string]*wpkg{}, nodes: map[string]*wnode{}}
	root := vtrans.RepoRoot()
	var dirs []string
	for _, top := range []string{"client", "lib/utxo"} {
		filepath.Walk(filepath.Join(root, top), func(p string, fi os.FileInfo, err error) error {
			if err == nil && fi.IsDir() {
				rel, _ := filepath.Rel(root, p)
				dirs = append(dirs, filepath.ToSlash(rel))
			}
			return nil
		})
	}
	sort.Strings(dirs)
	ctx := build.Default
	ctx.BuildTags = nil // production build: files tagged `verif` are accessors of the harness, not node code
	ctx.CgoEnabled = true
	// the directories below client/ and lib/utxo/ and, transitively, every package of the module they import:
	// a writer of the wiring variables (or an edge towards one) in lib/chain, lib/btc, lib/others/… is code the
	// node runs just as well
	seenDir := map[string]bool{}
	for _, d := range dirs {
		seenDir[d] = true
	}
	for qi := 0; qi < len(dirs); qi++ {
		d := dirs[qi]
		abs := filepath.Join(root, d)
		ents, err := os.ReadDir(abs)
		if err != nil {
			die(fmt.Errorf("package directory %s (imported from the client's import closure): %v", d, err))
		}
		p := &wpkg{dir: d, funcs: map[string]bool{}, vars: map[string]bool{}, meths: map[string][]string{}}
		for _, e := range ents {
			n := e.Name()
			if e.IsDir() || !strings.HasSuffix(n, ".go") || strings.HasSuffix(n, "_test.go") {
				continue
			}
			if ok, err := ctx.MatchFile(abs, n); err != nil || !ok {
				continue
			}
			af, err := parser.ParseFile(g.fset, filepath.Join(abs, n), nil, parser.SkipObjectResolution)
			if err != nil {
				die(err)
			}
			if p.name == "" {
				p.name = af.Name.Name
			}
			if af.Name.Name != p.name {
				continue // a stray file of another package in the same directory
			}
			p.files = append(p.files, &wfile{ast: af})
			for _, im := range af.Imports {
				path := strings.Trim(im.Path.Value, "\"`")
				if strings.HasPrefix(path, modPath) {
					if rel := strings.TrimPrefix(path, modPath); !seenDir[rel] {
						seenDir[rel] = true
						dirs = append(dirs, rel)
					}
				}
			}
		}
		if len(p.files) > 0 {
			g.pkgs[d] = p
		}
	}
	// every OTHER non-test Go file of the repository (packages the client does not import: tools/, wallet/, …)
	// is outside the graph; such a file cannot run inside the node process.
	// declarations
	for _, p := range g.pkgs {
		inits := 0
		for _, f := range p.files {
			for _, d := range f.ast.Decls {
				switch d := d.(type) {
				case *ast.FuncDecl:
					if d.Body == nil {
						continue
					}
					var key string
					if d.Recv == nil {
						if d.Name.Name == "init" {
							inits++
							key = fmt.Sprintf("%s.init#%d", p.dir, inits)
						} else {
							key = p.dir + "." + d.Name.Name
							p.funcs[d.Name.Name] = true
						}
					} else {
						key = fmt.Sprintf("%s.(%s).%s", p.dir, recvName(d), d.Name.Name)
						p.meths[d.Name.Name] = append(p.meths[d.Name.Name], key)
					}
					nd := &wnode{key: key, pkg: p, file: f, body: d.Body, decl: d}
					nd.root = d.Recv == nil && (d.Name.Name == "init" || (p.name == "main" && d.Name.Name == "main"))
					g.nodes[key] = nd
				case *ast.GenDecl:
					if d.Tok != token.VAR {
						continue
					}
					for _, s := range d.Specs {
						vs := s.(*ast.ValueSpec)
						for _, n := range vs.Names {
							p.vars[n.Name] = true
						}
					}
				}
			}
		}
	}
	// package-level initialisers: one root node per file that has any
	for _, p := range g.pkgs {
		for i, f := range p.files {
			var inits []ast.Node
			for _, d := range f.ast.Decls {
				if gd, ok := d.(*ast.GenDecl); ok && gd.Tok == token.VAR {
					for _, s := range gd.Specs {
						for _, v := range s.(*ast.ValueSpec).Values {
							inits = append(inits, v)
						}
					}
				}
			}
			if len(inits) > 0 {
				key := fmt.Sprintf("%s.<vars#%d>", p.dir, i)
				g.nodes[key] = &wnode{key: key, pkg: p, file: f, body: &wbundle{inits}, root: true}
			}
		}
	}
	// imports
	for _, p := range g.pkgs {
		for _, f := range p.files {
			f.imports = map[string]string{}
			for _, im := range f.ast.Imports {
				path := strings.Trim(im.Path.Value, "\"`")
				if !strings.HasPrefix(path, modPath) {
					continue
				}
				rel := strings.TrimPrefix(path, modPath)
				local := rel[strings.LastIndex(rel, "/")+1:]
				if q, ok := g.pkgs[rel]; ok {
					local = q.name
				}
				if im.Name != nil {
					local = im.Name.Name
				}
				f.imports[local] = rel
			}
		}
	}
	for _, v := range wiringVars {
		p, ok := g.pkgs[v.pkg]
		if !ok || !p.vars[v.name] {
			die(fmt.Errorf("wiring variable %s.%s is no longer a package-level variable", v.pkg, v.name))
		}
	}
	for _, nd := range g.nodes {
		g.scan(nd)
	}
	return g
}

// wbundle lets a list of expressions be walked as one node.
type wbundle struct{ list []ast.Node }

func (b *wbundle) Pos() token.Pos { return b.list[0].Pos() }
func (b *wbundle) End() token.Pos { return b.list[len(b.list)-1].End() }

func recvName(d *ast.FuncDecl) string {
	if len(d.Recv.List) != 1 {
		return "?"
	}
	t := d.Recv.List[0].Type
	for {
		switch x := t.(type) {
		case *ast.StarExpr:
			t = x.X
			continue
		case *ast.IndexExpr:
			t = x.X
			continue
		case *ast.Ident:
			return x.Name
		}
		return "?"
	}
}

// wiringTarget tells whether e denotes one of the wiring variables inside file f of package p.
func (g *wgraph) wiringTarget(nd *wnode, e ast.Expr, locals map[string]bool) (wvar, bool) {
	for {
		if pe, ok := e.(*ast.ParenExpr); ok {
			e = pe.X
			continue
		}
		break
	}
	switch x := e.(type) {
	case *ast.Ident:
		if locals[x.Name] {
			return wvar{}, false
		}
		for _, v := range wiringVars {
			if v.pkg == nd.pkg.dir && v.name == x.Name {
				return v, true
			}
		}
	case *ast.SelectorExpr:
		if id, ok := x.X.(*ast.Ident); ok && !locals[id.Name] {
			if rel, ok := nd.file.imports[id.Name]; ok {
				for _, v := range wiringVars {
					if v.pkg == rel && v.name == x.Sel.Name {
						return v, true
					}
				}
			}
		}
	}
	return wvar{}, false
}

// localsOf: names declared inside the body (parameters, :=, var) — a write to such a name is not a write to
// the package-level variable of the same name. (Scope-insensitive: one declaration anywhere hides the name in the
// whole function; the three wiring names are not used as local names anywhere today.)
func localsOf(body ast.Node) map[string]bool {
	m := map[string]bool{}
	ast.Inspect(body, func(n ast.Node) bool {
		switch x := n.(type) {
		case *ast.AssignStmt:
			if x.Tok == token.DEFINE {
				for _, l := range x.Lhs {
					if id, ok := l.(*ast.Ident); ok {
						m[id.Name] = true
					}
				}
			}
		case *ast.ValueSpec:
			for _, id := range x.Names {
				m[id.Name] = true
			}
		case *ast.FuncLit:
			for _, fl := range x.Type.Params.List {
				for _, id := range fl.Names {
					m[id.Name] = true
				}
			}
		case *ast.RangeStmt:
			if x.Tok == token.DEFINE {
				for _, e := range []ast.Expr{x.Key, x.Value} {
					if id, ok := e.(*ast.Ident); ok {
						m[id.Name] = true
					}
				}
			}
		}
		return true
	})
	return m
}

// locals of a function: parameters, results, receiver and everything declared in the body.
func (nd *wnode) locals() map[string]bool {
	m := localsOf(nd.body)
	if d := nd.decl; d != nil {
		for _, fl := range []*ast.FieldList{d.Recv, d.Type.Params, d.Type.Results} {
			if fl == nil {
				continue
			}
			for _, f := range fl.List {
				for _, id := range f.Names {
					m[id.Name] = true
				}
			}
		}
	}
	return m
}

func (g *wgraph) scan(nd *wnode) {
	var parts []ast.Node
	locals := map[string]bool{}
	if b, ok := nd.body.(*wbundle); ok {
		parts = b.list
	} else {
		parts = []ast.Node{nd.body}
		locals = nd.locals()
	}
	var stack []ast.Node
	ctxNow := func() (loop, lit, dg bool) {
		for _, s := range stack {
			switch s.(type) {
			case *ast.ForStmt, *ast.RangeStmt:
				loop = true
			case *ast.FuncLit:
				lit = true
			case *ast.GoStmt, *ast.DeferStmt:
				dg = true
			}
		}
		return
	}
	mention := func(to string) {
		l, f, d := ctxNow()
		nd.mentions = append(nd.mentions, wmention{to, l, f, d})
	}
	notRef := map[*ast.Ident]bool{} // identifiers that are selector names, package qualifiers or struct-literal keys
	visit := func(m ast.Node) bool {
		if m == nil {
			stack = stack[:len(stack)-1]
			return true
		}
		stack = append(stack, m)
		switch x := m.(type) {
		case *ast.SelectorExpr:
			notRef[x.Sel] = true
			if id, ok := x.X.(*ast.Ident); ok && !locals[id.Name] {
				if rel, ok := nd.file.imports[id.Name]; ok {
					notRef[id] = true
					if q, ok := g.pkgs[rel]; ok && q.funcs[x.Sel.Name] {
						mention(rel + "." + x.Sel.Name)
					}
					return true
				}
			}
			var ks []string
			for _, q := range g.pkgs {
				ks = append(ks, q.meths[x.Sel.Name]...)
			}
			sort.Strings(ks)
			for _, k := range ks {
				mention(k)
			}
		case *ast.KeyValueExpr:
			if id, ok := x.Key.(*ast.Ident); ok {
				notRef[id] = true
			}
		case *ast.Ident:
			if !notRef[x] && !locals[x.Name] && nd.pkg.funcs[x.Name] {
				mention(nd.pkg.dir + "." + x.Name)
			}
		case *ast.AssignStmt:
			if x.Tok == token.DEFINE {
				break
			}
			for i, l := range x.Lhs {
				if v, ok := g.wiringTarget(nd, l, locals); ok {
					var rhs ast.Expr
					if len(x.Rhs) == len(x.Lhs) && x.Tok == token.ASSIGN {
						rhs = x.Rhs[i]
					}
					w := wwrite{v: v, rhs: rhs}
					// the innermost enclosing block and the statement's position in it
					for k := len(stack) - 2; k >= 0; k-- {
						if b, ok := stack[k].(*ast.BlockStmt); ok {
							for j, st := range b.List {
								if st == ast.Stmt(x) {
									w.block, w.n = b, j
								}
							}
							break
						}
					}
					nd.writes = append(nd.writes, w)
				}
			}
		case *ast.IncDecStmt:
			if v, ok := g.wiringTarget(nd, x.X, locals); ok {
				nd.writes = append(nd.writes, wwrite{v: v})
			}
		case *ast.UnaryExpr:
			if x.Op == token.AND {
				if v, ok := g.wiringTarget(nd, x.X, locals); ok {
					nd.writes = append(nd.writes, wwrite{v: v})
				}
			}
		}
		return true
	}
	for _, p := range parts {
		ast.Inspect(p, visit)
	}
}

func (g *wgraph) reach(from []string, without string) map[string]bool {
	seen := map[string]bool{}
	todo := append([]string(nil), from...)
	for len(todo) > 0 {
		k := todo[len(todo)-1]
		todo = todo[:len(todo)-1]
		if seen[k] || k == without {
			continue
		}
		nd, ok := g.nodes[k]
		if !ok {
			continue
		}
		seen[k] = true
		for _, m := range nd.mentions {
			todo = append(todo, m.to)
		}
	}
	return seen
}

func (g *wgraph) once(key string, depth int) bool {
	if depth > 8 {
		return false
	}
	nd := g.nodes[key]
	if nd != nil && nd.root {
		return true
	}
	var sites []struct {
		from string
		m    wmention
	}
	for _, n := range g.nodes {
		for _, m := range n.mentions {
			if m.to == key {
				sites = append(sites, struct {
					from string
					m    wmention
				}{n.key, m})
			}
		}
	}
	if len(sites) != 1 {
		return false
	}
	s := sites[0]
	if s.m.loop || s.m.lit || s.m.deferOrGo {
		return false
	}
	return g.once(s.from, depth+1)
}

func wireFacts() string {
	g := loadWire()
	const initKey, resetKey = "client/common.InitConfig", "client/common.Reset"
	for _, k := range []string{initKey, resetKey} {
		if g.nodes[k] == nil {
			die(fmt.Errorf("%s not found: the entry points of the configuration state machine changed", k))
		}
	}
	var writers, roots []string
	for k, nd := range g.nodes {
		if len(nd.writes) > 0 {
			writers = append(writers, k)
		}
		if nd.root {
			roots = append(roots, k)
		}
	}
	sort.Strings(writers)
	sort.Strings(roots)
	if len(writers) == 0 {
		die(fmt.Errorf("nothing below client/ writes common.Memory / utxo.Memory_Malloc / utxo.Memory_Free any more"))
	}
	any := func(set map[string]bool) bool {
		for _, w := range writers {
			if set[w] {
				return true
			}
		}
		return false
	}
	fromInit := g.reach([]string{initKey}, "")
	if !any(fromInit) {
		die(fmt.Errorf("no writer of the wiring variables is reachable from common.InitConfig (writers: %v)", writers))
	}
	resetRewires := any(g.reach([]string{resetKey}, ""))
	runtimeRewires := any(g.reach(roots, initKey))
	initOnce := g.once(initKey, 0)

	// wirePaired
	paired := true
	var all []wwrite
	for _, w := range writers {
		all = append(all, g.nodes[w].writes...)
	}
	by := map[string][]wwrite{}
	for _, w := range all {
		by[w.v.name] = append(by[w.v.name], w)
	}
	var wm, wa, wf wwrite
	if len(by["Memory"]) != 1 || len(by["Memory_Malloc"]) != 1 || len(by["Memory_Free"]) != 1 || len(writers) != 1 {
		paired = false
	} else {
		wm, wa, wf = by["Memory"][0], by["Memory_Malloc"][0], by["Memory_Free"][0]
		nd := g.nodes[writers[0]]
		if wm.rhs == nil || wa.rhs == nil || wf.rhs == nil || wm.block == nil || wm.block != wa.block || wm.block != wf.block {
			paired = false
		} else {
			src := func(e ast.Expr, method string) ast.Expr { // E of `E.method`
				if s, ok := e.(*ast.SelectorExpr); ok && s.Sel.Name == method {
					return s.X
				}
				return nil
			}
			ea, ef := src(wa.rhs, "Malloc"), src(wf.rhs, "Free")
			na := g.allocatorOf(nd, wm, ea, wa.n)
			nf := g.allocatorOf(nd, wm, ef, wf.n)
			nm := g.allocatorOf(nd, wm, nil, wm.n)
			if nm == nil || na != nm || nf != nm {
				paired = false
			}
		}
	}
	facts += 4 + len(writers)

	var sb strings.Builder
	sb.WriteString("/- GENERATED by go/cmd/gen_c20 (wire.go) from every non-test Go file below client/, lib/utxo/ and of every module package they import (transitively) — do not edit; not in git. -/\n")
	sb.WriteString("namespace GocoinV.Gen.MemWire\n\n")
	b := func(v bool) string {
		if v {
			return "true"
		}
		return "false"
	}
	fmt.Fprintf(&sb, "/-- functions that write common.Memory / utxo.Memory_Malloc / utxo.Memory_Free -/\ndef wireWriters : List String := [%s]\n", quoteList(writers))
	fmt.Fprintf(&sb, "/-- a writer of the wiring variables is reachable from common.Reset -/\ndef wireResetRewires : Bool := %s\n", b(resetRewires))
	fmt.Fprintf(&sb, "/-- a writer is reachable from main / init / a package initialiser by a path avoiding common.InitConfig -/\ndef wireRuntimeRewires : Bool := %s\n", b(runtimeRewires))
	fmt.Fprintf(&sb, "/-- common.InitConfig is mentioned once, straight-line, on a chain of such functions from main.main -/\ndef wireInitOnce : Bool := %s\n", b(initOnce))
	fmt.Fprintf(&sb, "/-- Memory := NewAllocator(), Memory_Malloc := thatAllocator.Malloc, Memory_Free := thatAllocator.Free, one block, once -/\ndef wirePaired : Bool := %s\n", b(paired))
	sb.WriteString("\nend GocoinV.Gen.MemWire\n")
	if os_debug() {
		fmt.Fprintf(os.Stderr, "wire: writers=%v reset=%v runtime=%v once=%v paired=%v nodes=%d roots=%d packages=%d\n", writers, resetRewires, runtimeRewires, initOnce, paired, len(g.nodes), len(roots), len(g.pkgs))
	}
	return sb.String()
}

func quoteList(l []string) string {
	var q []string
	for _, s := range l {
		q = append(q, fmt.Sprintf("%q", s))
	}
	return strings.Join(q, ", ")
}

// allocatorOf resolves the expression whose method is bound (or, with e == nil, the value stored in Memory) to
// the `memory.NewAllocator()` call it denotes at statement n of the block: the wiring variable Memory after its
// assignment in this block, or a local defined once by `x := memory.NewAllocator()` in this block.
func (g *wgraph) allocatorOf(nd *wnode, wm wwrite, e ast.Expr, n int) ast.Node {
	isNew := func(x ast.Expr) ast.Node {
		c, ok := x.(*ast.CallExpr)
		if !ok || len(c.Args) != 0 {
			return nil
		}
		s, ok := c.Fun.(*ast.SelectorExpr)
		if !ok || s.Sel.Name != "NewAllocator" {
			return nil
		}
		id, ok := s.X.(*ast.Ident)
		if !ok || nd.file.imports[id.Name] != memoryPkg {
			return nil
		}
		return c
	}
	var resolve func(x ast.Expr, at int, depth int) ast.Node
	resolve = func(x ast.Expr, at int, depth int) ast.Node {
		if depth > 4 || x == nil {
			return nil
		}
		if c := isNew(x); c != nil {
			return c
		}
		if v, ok := g.wiringTarget(nd, x, nd.locals()); ok && v.name == "Memory" {
			if wm.n < at || at < 0 {
				return resolve(wm.rhs, wm.n, depth+1)
			}
			return nil
		}
		if id, ok := x.(*ast.Ident); ok {
			// a local of the block, defined exactly once in the whole function
			var def ast.Expr
			cnt, pos := 0, -1
			ast.Inspect(nd.body, func(m ast.Node) bool {
				if as, ok := m.(*ast.AssignStmt); ok {
					for i, l := range as.Lhs {
						if li, ok := l.(*ast.Ident); ok && li.Name == id.Name {
							cnt++
							if as.Tok == token.DEFINE && len(as.Lhs) == len(as.Rhs) {
								def = as.Rhs[i]
							}
						}
					}
				}
				return true
			})
			for i, st := range wm.block.List {
				if as, ok := st.(*ast.AssignStmt); ok && as.Tok == token.DEFINE {
					for _, l := range as.Lhs {
						if li, ok := l.(*ast.Ident); ok && li.Name == id.Name {
							pos = i
						}
					}
				}
			}
			if cnt == 1 && def != nil && pos >= 0 && (pos < at || at < 0) {
				return resolve(def, pos, depth+1)
			}
		}
		return nil
	}
	if e == nil {
		return resolve(wm.rhs, wm.n, 0)
	}
	return resolve(e, n, 0)
}
