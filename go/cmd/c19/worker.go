package main

// Worker mode: `c19 worker`. Runs the REAL lib/others/qdb in a child process behind the same line protocol
// as oracle_c19, because the package calls os.Exit(1) on some paths ("file … not found",
// "Database corrupt - missing file") and panics inside goroutines; a dead worker is an observation.
//
//	reset                          new empty directory, no DB
//	open <vol> <load> <dp> <fp> <mp> <mpn>
//	put/putext/del/flags/sync/nosync/defrag/close/get/browse/browseall/peek/count   (as oracle_c19)
//	par <item,item,…>              every item is ONE call made by its own goroutine, all released together (the store is used by
//	                               many goroutines through one lock): g<key> Get, c Count, f<key>:<flags> ApplyFlags,
//	                               p<key>:<hex|-> Put, d<key> Del -> <reply of item 1>|<reply of item 2>|… ; state
//	lastorder                      -> <k,k,…|->  the keys the last browse / browseall / peek handed to the walk function, in order
//	snap <0|1>                     copy the directory at every vhook.Point of the following requests
//	crash                          -> <tag>=<snapshot dir>;…  for the last state-changing request
//	crashat <x>                    die at snapshot x mod #snapshots of the last state-changing request: abandon the DB,
//	                               continue (closed) on a copy of that snapshot -> ok <tag> ; files=<listing>
//	dir                            -> the database directory
//	recover <dir>                  open (non-volatile, load, default options), read everything, close
//	                               -> ok:<k=len.hash,…>
//	probe <dir>                    recover, then Put(sentinel), Sync, Close, open, read everything, close
//	                               -> ok:<k=len.hash,…>|ok:<k=len.hash,…>

import (
	"bufio"
	"fmt"
	"io"
	"os"
	"path/filepath"
	"runtime"
	"sort"
	"strconv"
	"strings"
	"sync"
	"sync/atomic"

	"github.com/piotrnar/gocoin/lib/others/qdb"
	"github.com/piotrnar/gocoin/lib/others/vhook"
	"verif/vlib"
)

const sentinelKey = uint64(0x7fffffffffffffff)

func fnv(b []byte) uint64 {
	h := uint64(0xcbf29ce484222325)
	for _, x := range b {
		h = (h ^ uint64(x)) * 0x100000001b3
	}
	return h
}

func kvStr(m map[uint64][]byte) string {
	if len(m) == 0 {
		return "-"
	}
	ks := make([]uint64, 0, len(m))
	for k := range m {
		ks = append(ks, k)
	}
	sort.Slice(ks, func(i, j int) bool { return ks[i] < ks[j] })
	var sb strings.Builder
	for i, k := range ks {
		if i > 0 {
			sb.WriteByte(',')
		}
		fmt.Fprintf(&sb, "%d=%d.%d", k, len(m[k]), fnv(m[k]))
	}
	return sb.String()
}

func copyDir(src, dst string) {
	os.MkdirAll(dst, 0770)
	es, _ := os.ReadDir(src)
	for _, e := range es {
		if e.IsDir() {
			continue
		}
		in, err := os.Open(filepath.Join(src, e.Name()))
		if err != nil {
			continue
		}
		out, err := os.Create(filepath.Join(dst, e.Name()))
		if err == nil {
			io.Copy(out, in)
			out.Close()
		}
		in.Close()
	}
}

func fileList(dir string) string {
	es, _ := os.ReadDir(dir)
	var dats, rest []string
	for _, e := range es {
		if e.IsDir() {
			continue
		}
		fi, err := e.Info()
		if err != nil {
			continue
		}
		s := fmt.Sprintf("%s:%d", e.Name(), fi.Size())
		if strings.HasSuffix(e.Name(), ".dat") {
			dats = append(dats, s)
		} else {
			rest = append(rest, s)
		}
	}
	sort.Strings(dats)
	sort.Strings(rest) // qdbidx.0 < qdbidx.1 < qdbidx.log
	return strings.Join(append(dats, rest...), ",")
}

type worker struct {
	root   string // private temp root
	dir    string // the database directory
	db     *qdb.DB
	vol    bool
	snapOn bool
	nsnap  int
	snaps  []string // tag=path of the last state-changing request
	ndir   int
	order  []uint64 // keys handed to the walk function by the last browse / browseall / peek, in that order
}

func (w *worker) wait() {
	if w.db != nil {
		w.db.Mutex.Lock()
		w.db.Mutex.Unlock()
	}
}

func (w *worker) state() string {
	if w.db == nil {
		return "files=" + fileList(w.dir)
	}
	ds, vs, di, ex, nd, pe, ns := w.db.VerifState()
	n := 0
	if ns {
		n = 1
	}
	return fmt.Sprintf("ds=%d vs=%d di=%d ex=%d nd=%d pe=%d ns=%d nl=%d files=%s", ds, vs, di, ex, nd, pe, n, w.db.VerifUnloaded(), fileList(w.dir))
}

func (w *worker) takeSnap(tag string) {
	w.nsnap++
	p := fmt.Sprintf("%s/snap/%06d", w.root, w.nsnap)
	copyDir(w.dir, p)
	w.snaps = append(w.snaps, tag+"="+p)
}

// begin a state-changing request
func (w *worker) begin() {
	if len(w.snaps) > 0 {
		os.RemoveAll(w.root + "/snap")
		w.snaps = nil
	}
	if w.snapOn {
		w.takeSnap("before")
	}
}

// begin a request that performs no file operation (Get / Browse / Count+BrowseAll): no crash points, and no copy
// of the directory either (`crashat` then continues on the directory as it is)
func (w *worker) beginRead() {
	if len(w.snaps) > 0 {
		os.RemoveAll(w.root + "/snap")
		w.snaps = nil
	}
}

func openOpts(dir string, t []string) (*qdb.DB, bool) {
	vol, load := t[0] == "1", t[1] == "1"
	var n [4]uint64
	for i := 0; i < 4; i++ {
		n[i], _ = strconv.ParseUint(t[2+i], 10, 32)
	}
	var db *qdb.DB
	eo := &qdb.ExtraOpts{DefragPercentVal: uint32(n[0]), ForcedDefragPerc: uint32(n[1]), MaxPending: uint32(n[2]), MaxPendingNoSync: uint32(n[3])}
	if strings.Join(t[2:6], " ") == defOpts {
		eo = nil // the package's own defaults (the model has them as literals; gen_c19 re-reads them from the source)
	}
	qdb.NewDBExt(&db, &qdb.NewDBOpts{Dir: dir, LoadData: load, Volatile: vol, ExtraOpts: eo})
	return db, vol
}

func readAll(db *qdb.DB) map[uint64][]byte {
	m := map[uint64][]byte{}
	db.BrowseAll(func(k qdb.KeyType, v []byte) uint32 {
		m[uint64(k)] = append([]byte{}, v...)
		return 0
	})
	return m
}

func parseWalk(s string) map[uint64]uint32 {
	m := map[uint64]uint32{}
	if s == "-" {
		return m
	}
	for _, p := range strings.Split(s, ",") {
		kv := strings.Split(p, ":")
		k, _ := strconv.ParseUint(kv[0], 10, 64)
		f, _ := strconv.ParseUint(kv[1], 10, 32)
		if _, dup := m[k]; !dup { // the model takes the first entry for a key
			m[k] = uint32(f)
		}
	}
	return m
}

func (w *worker) handle(t []string) string {
	key := func(s string) qdb.KeyType { k, _ := strconv.ParseUint(s, 10, 64); return qdb.KeyType(k) }
	val := func(s string) []byte {
		b := vlib.UnHex(s)
		if b == nil {
			b = []byte{}
		}
		return b
	}
	mut := func(res string) string { w.wait(); return res + " ; " + w.state() }
	if len(t) == 0 {
		return "bad-op"
	}
	switch t[0] {
	case "reset":
		if w.db != nil {
			w.db.Close()
			w.db = nil
		}
		w.ndir++
		os.RemoveAll(w.dir)
		w.dir = fmt.Sprintf("%s/db%d", w.root, w.ndir)
		os.MkdirAll(w.dir, 0770)
		return "ok"
	case "seed": // seed <name> <hex>: put a file into the (closed) directory — crash-state corpus entries
		os.WriteFile(filepath.Join(w.dir, t[1]), val(t[2]), 0660)
		return "ok"
	case "snap":
		w.snapOn = t[1] == "1"
		return "ok"
	case "open":
		if w.db != nil || len(t) != 7 {
			return "bad-op"
		}
		w.begin()
		w.db, w.vol = openOpts(w.dir, t[1:])
		return mut("ok")
	case "recover", "probe":
		// recover: open, read everything. probe: additionally Put(sentinel), Sync, Close, reopen, read everything.
		// (on a private copy: the snapshot itself may be continued from by a later `crashat`)
		w.nsnap++
		tmp := fmt.Sprintf("%s/rec%06d", w.root, w.nsnap)
		copyDir(t[1], tmp)
		defer os.RemoveAll(tmp)
		t[1] = tmp
		db, _ := qdb.NewDB(t[1], true)
		rep := "ok:" + kvStr(readAll(db))
		if t[0] == "probe" {
			db.Put(qdb.KeyType(sentinelKey), []byte("probe"))
			db.Sync()
			db.Mutex.Lock()
			db.Mutex.Unlock()
			db.Close()
			db, _ = qdb.NewDB(t[1], true)
			rep += "|ok:" + kvStr(readAll(db))
		}
		db.Close()
		return rep
	case "dir": // the database directory (for a non-perturbing read of its content by the recovery process)
		return w.dir
	case "crashls": // the crash points of the last state-changing request: <tag>|<listing>;…
		var out []string
		for _, s := range w.snaps {
			eq := strings.IndexByte(s, '=')
			out = append(out, s[:eq]+"|"+fileList(s[eq+1:]))
		}
		return strings.Join(out, ";")
	case "crashat":
		// the process "dies" at one of the snapshots of the last state-changing request: the DB object is abandoned
		// without Close and the directory is replaced by that snapshot
		if !w.snapOn {
			return "bad-op"
		}
		x, _ := strconv.ParseUint(t[1], 10, 64)
		tag, src := "now", w.dir
		if len(w.snaps) > 0 {
			s := w.snaps[x%uint64(len(w.snaps))]
			eq := strings.IndexByte(s, '=')
			tag, src = s[:eq], s[eq+1:]
		}
		w.db = nil
		w.ndir++
		nd := fmt.Sprintf("%s/db%d", w.root, w.ndir)
		copyDir(src, nd)
		os.RemoveAll(w.dir)
		w.dir = nd
		return "ok " + tag + " ; files=" + fileList(w.dir)
	case "crash":
		// nothing to evaluate when no vhook.Point fired: the directory did not change
		hooks := 0
		for _, s := range w.snaps {
			if strings.HasPrefix(s, "qdb.") {
				hooks++
			}
		}
		if hooks == 0 {
			return ""
		}
		return strings.Join(w.snaps, ";")
	}
	if w.db == nil {
		return "bad-op"
	}
	switch t[0] {
	case "put":
		w.begin()
		w.db.Put(key(t[1]), val(t[2]))
		return mut("ok")
	case "putext":
		w.begin()
		f, _ := strconv.ParseUint(t[3], 10, 32)
		w.db.PutExt(key(t[1]), val(t[2]), uint32(f))
		return mut("ok")
	case "del":
		w.begin()
		w.db.Del(key(t[1]))
		return mut("ok")
	case "flags":
		w.begin()
		f, _ := strconv.ParseUint(t[2], 10, 32)
		w.db.ApplyFlags(key(t[1]), uint32(f))
		return mut("ok")
	case "sync":
		w.begin()
		w.db.Sync()
		return mut("ok")
	case "nosync":
		w.begin()
		w.db.NoSync()
		return mut("ok")
	case "defrag":
		w.begin()
		if w.db.Defrag(t[1] == "1") {
			return mut("ok 1")
		}
		return mut("ok 0")
	case "close":
		w.begin()
		w.db.Close()
		w.db = nil
		if w.snapOn {
			w.takeSnap("after")
		}
		return "ok ; " + w.state()
	case "get":
		w.beginRead()
		v := w.db.Get(key(t[1]))
		if v == nil {
			return mut("none")
		}
		return mut("some " + vlib.Hex(v))
	case "browse", "browseall", "peek":
		w.beginRead()
		walk := map[uint64]uint32{}
		if t[0] != "peek" {
			walk = parseWalk(t[1])
		}
		m := map[uint64][]byte{}
		w.order = w.order[:0]
		f := func(k qdb.KeyType, v []byte) uint32 {
			m[uint64(k)] = append([]byte{}, v...)
			w.order = append(w.order, uint64(k))
			return walk[uint64(k)]
		}
		if t[0] == "browse" {
			w.db.Browse(f)
			return mut(kvStr(m))
		}
		if t[0] == "browseall" {
			w.db.BrowseAll(f)
			return mut(kvStr(m))
		}
		n := w.db.Count()
		w.db.BrowseAll(f)
		return mut(strconv.Itoa(n) + " " + kvStr(m))
	case "par":
		// concurrent use: one goroutine per item, released together by closing a channel. The caller lists commuting
		// calls only (distinct keys, Count only next to reads), so the replies and the state after the batch are those of
		// the same calls made one after the other, whatever the schedule.
		w.beginRead()
		if len(t) != 2 {
			return "bad-op"
		}
		items := strings.Split(t[1], ",")
		reps := make([]string, len(items))
		for _, it := range items {
			if it == "" || !strings.ContainsRune("gcfpd", rune(it[0])) {
				return "bad-op"
			}
		}
		db := w.db
		// release: every goroutine announces itself and then spins on a flag, so that the calls really start together
		// (a closed channel wakes the goroutines one after the other, microseconds apart)
		var arrived, start int32
		var wg sync.WaitGroup
		for i, it := range items {
			wg.Add(1)
			go func(i int, it string) {
				defer wg.Done()
				arg := it[1:]
				ext := ""
				if c := strings.IndexByte(arg, ':'); c >= 0 {
					arg, ext = arg[:c], arg[c+1:]
				}
				k := key(arg)
				var fl uint64
				var v []byte
				switch it[0] {
				case 'f':
					fl, _ = strconv.ParseUint(ext, 10, 32)
				case 'p':
					v = val(ext)
				}
				atomic.AddInt32(&arrived, 1)
				for n := 0; atomic.LoadInt32(&start) == 0; n++ {
					if n&0xfff == 0xfff {
						runtime.Gosched()
					}
				}
				switch it[0] {
				case 'g':
					if g := db.Get(k); g == nil {
						reps[i] = "none"
					} else {
						reps[i] = "some " + vlib.Hex(g)
					}
				case 'c':
					reps[i] = strconv.Itoa(db.Count())
				case 'f':
					db.ApplyFlags(k, uint32(fl))
					reps[i] = "ok"
				case 'p':
					db.Put(k, v)
					reps[i] = "ok"
				case 'd':
					db.Del(k)
					reps[i] = "ok"
				}
			}(i, it)
		}
		for atomic.LoadInt32(&arrived) != int32(len(items)) {
			runtime.Gosched()
		}
		atomic.StoreInt32(&start, 1)
		wg.Wait()
		return mut(strings.Join(reps, "|"))
	case "lastorder": // the keys the last browse / browseall / peek handed to the walk function, in that order
		if len(w.order) == 0 {
			return "-"
		}
		var ps []string
		for _, k := range w.order {
			ps = append(ps, strconv.FormatUint(k, 10))
		}
		return strings.Join(ps, ",")
	case "count":
		return strconv.Itoa(w.db.Count())
	}
	return "bad-op"
}

func workerMain() {
	base := ""
	if fi, e := os.Stat("/dev/shm"); e == nil && fi.IsDir() && os.Getenv("VERIF_C19_DISK") == "" {
		base = "/dev/shm" // memory file system: the crash model has no fsync, and thousands of directory copies are made
	}
	root, err := os.MkdirTemp(base, "vc19w")
	if err != nil && base != "" {
		root, err = os.MkdirTemp("", "vc19w")
	}
	if err != nil {
		os.Exit(3)
	}
	// the parent removes root (the worker may be killed by the code under test)
	fmt.Println("root " + root)
	w := &worker{root: root, dir: root + "/db0"}
	os.MkdirAll(w.dir, 0770)
	vhook.Set(func(name string) {
		if w.snapOn && strings.HasPrefix(name, "qdb.") {
			w.takeSnap(name)
		}
	})
	in := bufio.NewReaderSize(os.Stdin, 1<<20)
	out := bufio.NewWriter(os.Stdout)
	for {
		line, err := in.ReadString('\n')
		if err != nil {
			return
		}
		rep := w.handle(strings.Fields(line))
		out.WriteString(rep + "\n")
		out.Flush()
	}
}
