// c19 — correspondence harness + property search for C19 (lib/others/qdb behaves as a durable map).
//
// Three parties see the same request lines:
//
//	W  the REAL qdb package, in a child process (`c19 worker`, see worker.go) on a private temp directory;
//	O  the Lean model (oracle_c19, GocoinV.Model.Qdb);
//	R  a plain Go map + the durability predicate (ref.go) — the property itself, independent of the model.
//
// After every request W's reply (result, DataSeq/VersionSequence/DatfileIndex/space counters/#pending/#records not
// in memory, directory listing name:size) must equal O's. `peek` (Count + BrowseAll) is compared with R and O: in a
// DENSE case after every request (the observation then loads every record: nothing stays lazy), in a SPARSE case only
// where the case itself says `peek` (checkpoints chosen by the generator), so that lazily loaded records survive to
// Get / Put / Del / sync / defrag / Close (histogram keys `lazy:*` count what was really reached on the real code).
// With snapshots on, W copies the directory at every vhook.Point inside sync/defrag/writedatfile/checklogfile/
// cleanupold/loaddat/loadlog (copy ≡ kill: completed syscalls survive, bufio/bytes.Buffer contents are lost); every
// snapshot is reopened by a second child process (open may os.Exit; see recoveryPolicy for how often that process is
// replaced by a new one), R's durability predicate is evaluated on it, a continuation probe (Put+Sync+Close+reopen) is
// run on it, and the sequence of recovered states is compared with the model's recovered states over all prefixes of
// the model's effect list.
//
// Concurrent use (family "concurrent", genParCase): a request `par <items>` makes every item one call in its own goroutine
// of W, all released together; the items commute, so O and R are given the same calls in the listed order and every reply
// and the state after the batch must agree with them whatever the schedule was.
package main

import (
	"bufio"
	"bytes"
	"encoding/json"
	"fmt"
	"io"
	"os"
	"os/exec"
	"strconv"
	"strings"
	"time"

	"verif/vlib"
)

var r *vlib.Run
var o *vlib.Oracle

// ---------------------------------------------------------------- child processes
type proc struct {
	cmd  *exec.Cmd
	in   io.WriteCloser
	out  *bufio.Reader
	root string
	errb *bytes.Buffer
	dead bool
	spent time.Duration
}

func startProc() *proc {
	exe, _ := os.Executable()
	p := &proc{errb: &bytes.Buffer{}}
	p.cmd = exec.Command(exe, "worker")
	p.cmd.Stderr = p.errb
	p.in, _ = p.cmd.StdinPipe()
	so, _ := p.cmd.StdoutPipe()
	if err := p.cmd.Start(); err != nil {
		fmt.Fprintln(os.Stderr, "cannot start worker:", err)
		os.Exit(3)
	}
	p.out = bufio.NewReaderSize(so, 1<<20)
	l, err := p.out.ReadString('\n')
	if err != nil || !strings.HasPrefix(l, "root ") {
		fmt.Fprintln(os.Stderr, "worker did not start")
		os.Exit(3)
	}
	p.root = strings.TrimSpace(l[5:])
	return p
}

// ask returns the reply, or ok=false when the process died (os.Exit / panic in the code under test)
func (p *proc) ask(line string) (string, bool) {
	if p.dead {
		return "", false
	}
	t0 := time.Now()
	defer func() { p.spent += time.Since(t0) }()
	if _, err := io.WriteString(p.in, line+"\n"); err != nil {
		p.dead = true
		return "", false
	}
	rep, err := p.out.ReadString('\n')
	if err != nil {
		p.dead = true
		p.cmd.Wait()
		return "", false
	}
	return strings.TrimRight(rep, "\r\n"), true
}

func (p *proc) stop() {
	if !p.dead {
		p.in.Close()
		p.cmd.Wait()
		p.dead = true
	}
	if p.root != "" {
		os.RemoveAll(p.root)
	}
}

func (p *proc) lastErr() string {
	s := p.errb.String()
	if len(s) > 600 {
		s = s[len(s)-600:]
	}
	return strings.TrimSpace(s)
}

var W, R *proc

var retiredSpent = map[**proc]time.Duration{} // time spent in processes that were replaced

func fresh(p **proc) {
	if *p != nil {
		retiredSpent[p] += (*p).spent
		(*p).stop()
	}
	*p = startProc()
}

// ---------------------------------------------------------------- one case
type caseT struct {
	Name   string   `json:"name"`
	Snap   bool     `json:"snap"`
	Lines  []string `json:"lines"`
	Sparse bool     `json:"sparse"` // observe the full content only where the case says `peek`
}

// recoveryPolicy: how long one recovery process R lives. "snapshot": a new process for every directory snapshot
// (nothing a previous recovery left in the package's memory can help the next one); "case": a new process for every
// case (and whenever one died). Process start costs ≈ 5 ms, a case has ≈ 80 snapshots: per-snapshot is used for the
// corpus and the first generated cases of the thorough tier, per-case everywhere else; the counts go to the evidence.
var recoveryPolicy = "case"
var recoveriesFreshProc, recoveriesReusedProc int
var rUsed bool // R has served a recovery since it was started

func dedup(xs []string) []string {
	var out []string
	for _, x := range xs {
		if len(out) == 0 || out[len(out)-1] != x {
			out = append(out, x)
		}
	}
	return out
}

func splitRes(rep string) (res, state string) {
	if i := strings.Index(rep, " ; "); i >= 0 {
		return rep[:i], rep[i+3:]
	}
	return rep, ""
}

func short(s string) string {
	if len(s) > 300 {
		return s[:300] + "…"
	}
	return s
}

// propFound is set by every PropFail of this harness: the search stops at the first concrete failing input.
var propFound bool
var tieFails int
var knownFlagSeen bool // the known finding flag-change-not-durable has been recorded (once per run; every hit is in the histogram)

func propFail(key, what string, replay interface{}) {
	propFound = true
	r.PropFail(key, what, replay)
}

// tail: requests appended to a case after the model and the implementation disagreed (the model is then
// left out and the run continues against the Go map only): make everything durable, reopen, read every key;
// then write fresh records (> 24 bytes each), close, reopen, read them. Turns a disagreement in the
// bookkeeping (pending set, directory listing, counters) into an observable failure where there is one.
func tailLines(c caseT, open bool) []string {
	keys := map[string]bool{}
	var ks []string
	for _, l := range c.Lines {
		t := strings.Fields(l)
		switch t[0] {
		case "put", "putext", "del", "get", "flags":
			if !keys[t[1]] {
				keys[t[1]] = true
				ks = append(ks, t[1])
			}
		}
	}
	var out []string
	if open {
		out = append(out, "sync", "close")
	}
	out = append(out, "open 0 1 "+defOpts)
	for _, k := range ks {
		out = append(out, "get "+k)
	}
	out = append(out, "put 900001 "+hexOf(pat(40, 3)), "put 900002 "+hexOf(pat(33, 5)), "sync", "put 900003 "+hexOf(pat(25, 7)),
		"close", "open 0 1 "+defOpts, "get 900001", "get 900003", "close", "open 0 0 "+defOpts, "get 900002")
	return out
}

// runCase executes the lines; returns false when a violation was recorded.
// When the model and the implementation disagree the disagreement is recorded (TieFail), the model is left
// out from there on, and the rest of the case plus tailLines is run against the property's own predicate
// (Go map, durability rule at every crash point) — a concrete failing input subsumes the disagreement.
func runCase(c caseT) bool {
	ref := newRef()
	if W.dead {
		fresh(&W)
	}
	W.ask("reset")
	o.MustAsk("reset")
	if c.Snap {
		W.ask("snap 1")
	} else {
		W.ask("snap 0")
	}
	lines := append([]string{}, c.Lines...)
	upto := func(i int) caseT { return caseT{c.Name, c.Snap, lines[:i+1], c.Sparse} }
	desync, tailed, crashed := false, false, false
	if rUsed || R.dead {
		fresh(&R)
		rUsed = false
	}
	prevNl, prevPe := 0, 0 // #records not in memory / #pending after the previous request (real store)
	listing := ""          // directory listing after the previous request / at the crash point the case continues from
	leaveModel := func(i int) {
		desync = true
		tieFails++
		if !strings.HasPrefix(c.Name, "tail:") {
			c.Name = "tail:" + c.Name
		}
	}
	for i := 0; i < len(lines); i++ {
		line := lines[i]
		t := strings.Fields(line)
		op := t[0]
		if op == "seed" { // only W and O's directory are prepared (crash-state corpus entries)
			W.ask(line)
			if o.MustAsk(line) != "ok" {
				r.TieFail("tie:seed", "oracle refused "+short(line), upto(i))
				return false
			}
			continue
		}
		if op == "crashat" {
			// the process dies inside the previous request (at one of its crash points); the history continues on that
			// directory, on the model's matching crash directory (Model.Qdb.crashDir) and on whatever the durability
			// rule allows for the Go map (adopted at the next open)
			// (pending records are written in Go's map order: only crash points whose directory listing the model also
			// reaches can be continued on both sides; the search starts at the point the case names and wraps around —
			// "before", the directory as it was before the request, always qualifies)
			r.Hit("op:crashat")
			x, _ := strconv.Atoi(t[1])
			ls, _ := W.ask("crashls")
			pts := strings.Split(ls, ";")
			chosen := -1
			for d := 0; d < len(pts) && ls != ""; d++ {
				j := (x + d) % len(pts)
				bar := strings.IndexByte(pts[j], '|')
				listing := pts[j][bar+1:]
				if listing == "" {
					listing = "-"
				}
				if desync || strings.HasPrefix(o.MustAsk("crashat "+listing), "ok") {
					chosen = j
					break
				}
			}
			if chosen < 0 && ls != "" {
				r.TieFail("tie:crashat", fmt.Sprintf("request %d %q: the model reaches none of the real crash directories %q", i, short(line), short(ls)), upto(i))
				leaveModel(i)
				chosen = x % len(pts)
			}
			if ls == "" { // no crash point recorded: the directory as it is
				chosen = 0
				if !desync {
					o.MustAsk("crashat " + func() string {
						_, st := splitRes(func() string { s, _ := W.ask("crashat 0"); return s }())
						if l := strings.TrimPrefix(st, "files="); l != "" {
							return l
						}
						return "-"
					}())
				}
			} else {
				wr, _ := W.ask(fmt.Sprintf("crashat %d", chosen))
				if !strings.HasPrefix(wr, "ok ") {
					r.TieFail("tie:crashat", "worker refused "+short(line)+": "+short(wr), upto(i))
					return false
				}
				r.Hit("crashat@" + strings.Fields(wr)[1])
				_, st := splitRes(wr)
				listing = strings.TrimPrefix(st, "files=")
				if !desync {
					r.TieOK()
				}
			}
			ref.restore()
			ref.open = false
			crashed = true
			continue
		}
		if op == "par" {
			// concurrent use: every item of the batch is one call made by its own goroutine, all released together. The
			// items commute (distinct keys; Count only next to calls that leave the key set alone), so whatever the schedule
			// every reply, and the state after the batch, must be that of the same calls made one after the other — which is
			// what the model and the Go map are given.
			if crashed || len(t) != 2 {
				r.TieFail("tie:par", "malformed par request "+short(line), upto(i))
				return false
			}
			seq := parLines(t[1])
			if seq == nil {
				r.TieFail("tie:par", "malformed par request "+short(line), upto(i))
				return false
			}
			r.Hit("op:par")
			r.Hit(fmt.Sprintf("par:goroutines=%d..%d", len(seq)/4*4, len(seq)/4*4+3))
			if prevNl > 0 {
				r.Hit("lazy:par-with-unloaded-records")
			}
			wr, alive := W.ask(line)
			if !alive {
				propFail("prop:dead:par", fmt.Sprintf("request %d %q (concurrent calls) killed the process (%s)", i, short(line), W.lastErr()), upto(i))
				fresh(&W)
				return false
			}
			wres, wstate := splitRes(wr)
			reps := strings.Split(wres, "|")
			if len(reps) != len(seq) {
				r.TieFail("tie:par", fmt.Sprintf("request %d %q: worker replied %q", i, short(line), short(wr)), upto(i))
				return false
			}
			ostate := ""
			for j, sl := range seq {
				st := strings.Fields(sl)
				ref.before(st)
				if bad := ref.check(st, reps[j]); bad != "" {
					propFail("prop:par:"+st[0], fmt.Sprintf("request %d %q, call %d (%s) made concurrently with the others: %s", i, short(line), j, short(sl), bad), upto(i))
					return false
				}
				if !desync {
					ores, ost := splitRes(o.MustAsk(sl))
					if ost != "" { // (count has no state part)
						ostate = ost
					}
					if ores != reps[j] {
						r.TieFail("tie:par", fmt.Sprintf("request %d %q, call %d (%s): impl %q model %q", i, short(line), j, short(sl), short(reps[j]), short(ores)), upto(i))
						leaveModel(i)
					}
				}
			}
			if !desync {
				if ostate != "" && ostate != wstate {
					r.TieFail("tie:par", fmt.Sprintf("request %d %q: state after the batch: impl %q model %q", i, short(line), short(wstate), short(ostate)), upto(i))
					leaveModel(i)
				} else {
					r.TieOK()
				}
			}
			prevNl, prevPe = stateNum(wstate, " nl="), stateNum(wstate, " pe=")
			ref.save()
			ref.after(t, wstate)
			ref.persist(t, wstate, listing, listing)
			if desync && !tailed && i == len(lines)-1 {
				tailed = true
				lines = append(lines, tailLines(caseT{Lines: lines}, ref.open)...)
			}
			continue
		}
		ref.before(t)
		if op == "open" {
			if strings.Contains(listing, "qdbidx.0:") && strings.Contains(listing, "qdbidx.1:") {
				r.Hit("open:two-index-files-present")
			}
			if strings.Contains(listing, "qdbidx.log:") {
				r.Hit("open:log-present")
			}
		}
		listing0 := listing // the directory before this request
		wr, alive := W.ask(line)
		oline := line
		if alive && (op == "browse" || op == "browseall") {
			// the order in which the real store handed the records to the walk function: the reference needs it to judge
			// a BR_ABORT answer, and the model takes the order of the walk list as Go's map order (Model.Qdb.visitSet)
			ordS, _ := W.ask("lastorder")
			ref.order = parseOrder(ordS)
			oline = op + " " + orderedWalk(t[1], ref.order)
			if oline != line {
				r.Hit("walk:BR_ABORT-answer-listed")
			}
		}
		or := ""
		if !desync {
			or = o.MustAsk(oline)
		}
		r.Hit("op:" + op)
		if !alive {
			// the store killed the process: never allowed by the property
			what := fmt.Sprintf("request %d %q killed the process (%s); model says %q", i, short(line), W.lastErr(), short(or))
			propFail("prop:dead:"+op, what, upto(i))
			fresh(&W)
			return false
		}
		wres, wstate := splitRes(wr)
		// the property on the real result
		if bad := ref.check(t, wres); bad != "" {
			propFail("prop:"+op, fmt.Sprintf("request %d %q: %s", i, short(line), bad), upto(i))
			return false
		}
		if ref.known != "" {
			// KNOWN FINDING flag-change-not-durable: the real result obeys the rule "flag word after NewDBExt = flag word at
			// the record's last persist" but is not what an in-memory map with flags shows (the case goes on: the reference
			// keeps both views)
			r.Hit("known:flag-change-not-durable")
			if !knownFlagSeen {
				knownFlagSeen = true
				r.PropFail("flag-change-not-durable", fmt.Sprintf("request %d %q of %s: %s", i, short(line), c.Name, ref.known), upto(i))
			}
		}
		if !desync {
			if wr != or {
				r.TieFail("tie:"+op, fmt.Sprintf("request %d %q: impl %q model %q", i, short(line), short(wr), short(or)), upto(i))
				leaveModel(i)
			} else {
				r.TieOK()
				if strings.Contains(wstate, "failed=") {
					return true
				}
			}
		}
		// what was reached on the REAL store while some records were not in memory
		nl, pe := stateNum(wstate, " nl="), stateNum(wstate, " pe=")
		if prevNl > 0 {
			switch op {
			case "get":
				if nl < prevNl {
					r.Hit("lazy:get-loads-record")
				}
			case "put", "putext", "del", "flags", "browse", "browseall", "nosync":
				r.Hit("lazy:" + op + "-with-unloaded-records")
			case "sync", "defrag":
				if prevPe > 0 || op == "defrag" {
					r.Hit("lazy:" + op + "-with-unloaded-records")
				}
			case "close":
				r.Hit("lazy:close-with-unloaded-records")
			}
		}
		if op == "open" && nl > 0 {
			r.Hit("lazy:open-leaves-records-unloaded")
		}
		prevNl, prevPe = nl, pe
		if j := strings.Index(wstate, "files="); j >= 0 {
			listing = wstate[j+6:]
		}
		// crash points of this request
		if c.Snap && op != "count" {
			ok, tie := crashCheck(caseT{c.Name, c.Snap, lines, c.Sparse}, i, t, ref, desync)
			if !ok && !tie {
				return false
			}
			if !ok && tie {
				leaveModel(i)
			}
		}
		if !crashed {
			ref.save()
			ref.after(t, wstate)
			ref.persist(t, wstate, listing0, listing)
		} else if op == "open" {
			// first NewDBExt after a crash: the content it came up with must satisfy the durability rule, and the history
			// goes on from it (that is a sync point). It is read WITHOUT touching W — the recovery process opens a copy of
			// W's directory — so that records W has not loaded stay unloaded; everything W shows later (Get, Browse, peek)
			// is checked against the content adopted here.
			crashed = false
			wd, _ := W.ask("dir")
			rec, alive := recoverDir("recover " + wd)
			if !alive {
				propFail("prop:open:after-crashat", fmt.Sprintf("request %d %q after a crash: the directory the store continued on does not open in a new process (%s)", i, short(line), R.lastErr()), upto(i))
				fresh(&R)
				return false
			}
			bad := ref.durable(rec)
			if bad == "" {
				bad = ref.adopt(rec)
			}
			if bad != "" {
				propFail("prop:durable:crashat", fmt.Sprintf("request %d %q after a crash: %s", i, short(line), bad), upto(i))
				return false
			}
		}
		// observation: Count and the full content (BrowseAll) — after every request of a dense case
		nextDies := i+1 < len(lines) && strings.HasPrefix(lines[i+1], "crashat") // (a read would replace the crash points)
		if !c.Sparse && !crashed && op != "close" && op != "count" && op != "peek" && !nextDies {
			q := "peek"
			qr, alive := W.ask(q)
			qo := ""
			if !desync {
				qo = o.MustAsk(q)
			}
			if !alive {
				propFail("prop:dead:"+q, fmt.Sprintf("%s after request %d %q killed the process (%s)", q, i, short(line), W.lastErr()), upto(i))
				fresh(&W)
				return false
			}
			qres, qstate := splitRes(qr)
			prevNl, prevPe = stateNum(qstate, " nl="), stateNum(qstate, " pe=")
			if bad := ref.check([]string{q}, qres); bad != "" {
				propFail("prop:"+q, fmt.Sprintf("%s after request %d %q: %s", q, i, short(line), bad), upto(i))
				return false
			}
			if !desync {
				if qr != qo {
					r.TieFail("tie:"+q, fmt.Sprintf("%s after request %d %q: impl %q model %q", q, i, short(line), short(qr), short(qo)), upto(i))
					leaveModel(i)
				} else {
					r.TieOK()
				}
			}
		}
		if desync && !tailed && i == len(lines)-1 {
			tailed = true
			lines = append(lines, tailLines(caseT{Lines: lines}, ref.open)...)
		}
	}
	return !desync
}

// parLines: the items of a `par` request as the request lines of the same calls made one after the other
// (g<key> Get, c Count, f<key>:<flags> ApplyFlags, p<key>:<hex> Put, d<key> Del); nil when malformed.
func parLines(items string) []string {
	var out []string
	for _, it := range strings.Split(items, ",") {
		if it == "" {
			return nil
		}
		arg, ext := it[1:], ""
		if c := strings.IndexByte(arg, ':'); c >= 0 {
			arg, ext = arg[:c], arg[c+1:]
		}
		switch it[0] {
		case 'g':
			out = append(out, "get "+arg)
		case 'c':
			out = append(out, "count")
		case 'f':
			out = append(out, "flags "+arg+" "+ext)
		case 'p':
			out = append(out, "put "+arg+" "+ext)
		case 'd':
			out = append(out, "del "+arg)
		default:
			return nil
		}
	}
	return out
}

func parseOrder(s string) []uint64 {
	var out []uint64
	if s == "-" || s == "" {
		return out
	}
	for _, p := range strings.Split(s, ",") {
		k, _ := strconv.ParseUint(p, 10, 64)
		out = append(out, k)
	}
	return out
}

// orderedWalk: the walk function `walk` (k:answer,…) as the model wants it when an answer carries BR_ABORT: the keys
// the real store visited first, in the order it visited them (answer 0 for a key the walk does not list), then the
// other entries as they stand. Without a BR_ABORT answer the order means nothing and the text is left alone.
func orderedWalk(walk string, order []uint64) string {
	if walk == "-" {
		return walk
	}
	type ent struct {
		k uint64
		f uint32
	}
	var ents []ent
	ans := map[uint64]uint32{}
	abort := false
	for _, p := range strings.Split(walk, ",") {
		kv := strings.Split(p, ":")
		k, _ := strconv.ParseUint(kv[0], 10, 64)
		f, _ := strconv.ParseUint(kv[1], 10, 32)
		if _, dup := ans[k]; dup {
			continue
		}
		ans[k] = uint32(f)
		ents = append(ents, ent{k, uint32(f)})
		if f&4 != 0 {
			abort = true
		}
	}
	if !abort {
		return walk
	}
	var ps []string
	done := map[uint64]bool{}
	for _, k := range order {
		if !done[k] {
			done[k] = true
			ps = append(ps, fmt.Sprintf("%d:%d", k, ans[k]))
		}
	}
	for _, e := range ents {
		if !done[e.k] {
			ps = append(ps, fmt.Sprintf("%d:%d", e.k, e.f))
		}
	}
	return strings.Join(ps, ",")
}

var crashPoints, crashStatesDistinct, allOrNothingChecked int
var mixtureSeen bool

// recoverDir sends one recover / probe request to the recovery process, replacing the process first when the policy
// says so (or when it is dead).
func recoverDir(cmd string) (string, bool) {
	if R.dead || (recoveryPolicy == "snapshot" && rUsed) {
		fresh(&R)
		rUsed = false
	}
	if rUsed {
		recoveriesReusedProc++
	} else {
		recoveriesFreshProc++
	}
	rUsed = true
	return R.ask(cmd)
}

// stateNum reads a decimal field (" nl=", " pe=") of a state string; 0 when absent.
func stateNum(state, field string) int {
	i := strings.Index(" "+state, field)
	if i < 0 {
		return 0
	}
	rest := (" " + state)[i+len(field):]
	n := 0
	for _, ch := range rest {
		if ch < '0' || ch > '9' {
			break
		}
		n = n*10 + int(ch-'0')
	}
	return n
}

// crashCheck evaluates every snapshot W took during request i. ok=false, tie=true: only the model disagreed.
func crashCheck(c caseT, i int, t []string, ref *refT, desync bool) (ok bool, tie bool) {
	upto := caseT{c.Name, c.Snap, c.Lines[:i+1], c.Sparse}
	snaps, _ := W.ask("crash")
	var real []string
	if snaps == "" {
		return true, false // no file operation happened inside this request
	}
	{
		for _, s := range strings.Split(snaps, ";") {
			eq := strings.IndexByte(s, '=')
			tag, path := s[:eq], s[eq+1:]
			cmd := "probe "
			if tag == "before" {
				cmd = "recover "
			}
			rep, alive := recoverDir(cmd + path)
			crashPoints++
			r.Hit("crash@" + tag)
			rec, pr := rep, ""
			if bar := strings.IndexByte(rep, '|'); bar >= 0 {
				rec, pr = rep[:bar], rep[bar+1:]
			}
			if !alive && cmd == "probe " { // did the plain reopen already fail?
				rec, alive = recoverDir("recover " + path)
				if alive {
					pr, alive = "(process died)", true
				}
			}
			if !alive {
				what := fmt.Sprintf("request %d %q, crash at %s: the store does not open (%s)", i, short(c.Lines[i]), tag, R.lastErr())
				propFail("prop:open:"+tag, what, map[string]interface{}{"case": upto, "crash_at": tag})
				return false, false
			}
			if bad := ref.durable(rec); bad != "" {
				what := fmt.Sprintf("request %d %q, crash at %s: %s", i, short(c.Lines[i]), tag, bad)
				propFail("prop:durable:"+tag, what, map[string]interface{}{"case": upto, "crash_at": tag, "recovered": rec})
				return false, false
			}
			// all keys old or all keys new (stronger than the property sentence; what qdb_durable claims)
			if ref.inexact {
				// (the NewDBExt that follows a crashat: the reference adopts what it finds)
			} else if mix := ref.allOrNothing(rec); mix != "" {
				r.Hit("mixture@" + tag)
				if !mixtureSeen {
					mixtureSeen = true
					r.TieFail("tie:no-mixture", fmt.Sprintf("request %d %q, crash at %s: %s", i, short(c.Lines[i]), tag, mix), map[string]interface{}{"case": upto, "crash_at": tag, "recovered": rec})
				}
			} else {
				allOrNothingChecked++
			}
			// continuation probe: the recovered store must keep working durably
			if want := withSentinel(rec); cmd == "probe " && pr != want {
				what := fmt.Sprintf("request %d %q, crash at %s: after recovery, Put+Sync+Close+reopen gives %q, want %q (%s)", i, short(c.Lines[i]), tag, short(pr), short(want), R.lastErr())
				propFail("prop:probe:"+tag, what, map[string]interface{}{"case": upto, "crash_at": tag})
				return false, false
			}
			real = append(real, rec)
		}
	}
	if desync {
		return true, false
	}
	mo := o.MustAsk("crash")
	var model []string
	for _, s := range strings.Split(mo, ";") {
		if eq := strings.IndexByte(s, '='); eq >= 0 {
			model = append(model, s[eq+1:])
		}
	}
	rd, md := dedup(real), dedup(model)
	crashStatesDistinct += len(rd)
	if strings.Join(rd, ";") != strings.Join(md, ";") {
		r.TieFail("tie:crash", fmt.Sprintf("request %d %q: recovered states along the crash points: impl %q model %q", i, short(c.Lines[i]), short(strings.Join(rd, ";")), short(strings.Join(md, ";"))), upto)
		return false, true
	}
	r.TieOK()
	return true, false
}

// ---------------------------------------------------------------- main
func main() {
	if len(os.Args) > 1 && os.Args[1] == "worker" {
		workerMain()
		return
	}
	r = vlib.NewRun("C19")
	var err error
	o, err = vlib.StartOracle("c19")
	if err != nil {
		fmt.Fprintln(os.Stderr, "cannot start oracle:", err)
		os.Exit(3)
	}
	defer o.Close()
	fresh(&W)
	fresh(&R)
	defer func() { W.stop(); R.stop() }()

	r.Assume = []string{
		"crash = process kill at a system-call boundary: every completed system call survives entirely, an interrupted one has not happened, user-space buffers (bufio, bytes.Buffer) are lost; a write(2) torn inside (SIGKILL between two pages of a multi-page write), reordered writes and power loss are outside (fsync is not modelled)",
		"one process uses the directory; the harness waits for db.Mutex after every call, so Put's asynchronous sync has finished before the next call; concurrent use is exercised by batches of COMMUTING calls only (request par: one goroutine per call, released together; replies and state must be those of the listed order) — non-commuting concurrent calls, and Browse / Sync / Defrag / Close inside a batch, are not generated",
		"keys and values are not mutated by the caller after Put / Get (the store keeps the caller's slice)",
		"NewDBExt without WalkFunction; when a walk answer carries BR_ABORT the model is given the order in which the real store visited the records (Go's map order; request lastorder) as the order of its walk list — every other part of the reply, and what the aborted browse did to flags and cached copies, is compared as for any request",
		"files stay below 4 GiB (datpos is a uint32); index snapshots stay below 1 MiB (at most a few records per case; the theorems' bound is 43 690 records, client/peersdb allows 70 000)",
	}

	if r.Replay != "" {
		replay(r.Replay)
		finish()
		return
	}
	if r.Thorough() {
		recoveryPolicy = "snapshot"
	}
	for _, c := range corpus() {
		if propFound || os.Getenv("VERIF_C19_NOCORPUS") != "" { // (self-test of the generator alone)
			break
		}
		r.Eval("corpus", c.Name)
		r.Sample(map[string]interface{}{"corpus": c.Name, "lines": len(c.Lines), "first": firstLines(c, 6)})
		runCase(c)
	}
	g := r.Rng
	ncases := r.N(100, 3300)
	tf0 := tieFails // (the search for a concrete failing input goes on for six more disagreeing generated cases)
	for i := 0; i < ncases && !propFound && tieFails-tf0 < 6; i++ {
		if i == freshPerSnapshotCases {
			recoveryPolicy = "case"
		}
		c := genCase(g.Fork(), i)
		if c.Sparse {
			r.Hit("case:sparse-observation")
		} else {
			r.Hit("case:dense-observation")
		}
		r.Eval("generated", strings.Join(c.Lines, "\n"))
		if i < 4 {
			r.Sample(map[string]interface{}{"generated": c.Name, "lines": len(c.Lines), "first": firstLines(c, 8)})
		}
		runCase(c)
	}
	// bare BR_ABORT at every record of a fresh store, against the Go map only (any single element is acceptable); BR_ABORT in
	// combination with flag answers, on Browse and BrowseAll, inside whole histories: genWalk / the abort shape / the corpus
	ga := g.Fork()
	// concurrent use: batches of commuting calls made by several goroutines at the same moment (genParCase), against the
	// model and the Go map run in the listed order
	gp := g.Fork()
	npar := r.N(30, 500)
	if s := os.Getenv("VERIF_C19_NPAR"); s != "" { // (self-test of this family alone)
		npar, _ = strconv.Atoi(s)
	}
	for i := 0; i < npar && !propFound && tieFails-tf0 < 6; i++ {
		c := genParCase(gp.Fork(), i)
		r.Eval("concurrent", strings.Join(c.Lines, "\n"))
		if i < 2 {
			r.Sample(map[string]interface{}{"concurrent": c.Name, "lines": len(c.Lines), "first": firstLines(c, 8)})
		}
		runCase(c)
		if os.Getenv("VERIF_C19_PARSTAT") != "" { // (self-test: per-case detection statistics of the concurrent family on a changed tree)
			fmt.Fprintf(os.Stderr, "PARSTAT %s fail=%v %s\n", c.Name, propFound, parStat(c))
			propFound = false
		}
	}
	abortStream(ga, r.N(20, 200))
	finish()
}

// in the thorough tier the corpus and this many generated cases get a new recovery process for EVERY snapshot
const freshPerSnapshotCases = 150

func firstLines(c caseT, n int) []string {
	var out []string
	for i, l := range c.Lines {
		if i >= n {
			break
		}
		out = append(out, short(l))
	}
	return out
}

func finish() {
	r.Extra["crash_points_evaluated"] = crashPoints
	r.Extra["recovered_states_distinct_per_request_sum"] = crashStatesDistinct
	r.Extra["crash_points_all_old_or_all_new"] = allOrNothingChecked
	r.Extra["seconds_in_impl_worker"] = (retiredSpent[&W] + W.spent).Seconds()
	r.Extra["seconds_in_recovery_worker"] = (retiredSpent[&R] + R.spent).Seconds()
	r.Extra["recoveries_in_a_new_process"] = recoveriesFreshProc
	r.Extra["recoveries_in_a_process_that_had_recovered_before"] = recoveriesReusedProc
	r.Extra["recovery_process_policy"] = "thorough: a new recovery process for every snapshot of the corpus and of the first 150 generated cases, then one per case; quick: one per case (and whenever one died)"
	r.Extra["exhaustive"] = false
	r.Extra["crash_enumeration"] = "for every generated/corpus sequence with snapshots on: every vhook.Point hit inside every request (all points x all hits) + before/after; not exhaustive over sequences"
	W.stop()
	R.stop()
	r.Finish(
		"a case is a request sequence (open options, puts/deletes/gets/browses/flag changes/sync/nosync/defrag/close+reopen over 2..6 keys); distinct = distinct request text; every request is one model-vs-impl comparison (incl. the number of records not in memory); count+peek (full content, compared with a Go map and the model) follows every request of a dense case and stands at generator-chosen checkpoints of a sparse case; every vhook.Point hit is one crash evaluation; a 'concurrent' case additionally holds batches of commuting calls made by up to 12 goroutines at once (par), each reply compared with the Go map and the model run in the listed order",
		"Real qdb (child process) vs Lean model Model/Qdb.lean vs plain Go map; durability predicate evaluated on directory snapshots at every crash point and compared with the model's recovery of every prefix of its effect list.")
}

func replay(file string) {
	b, err := os.ReadFile(file)
	if err != nil {
		fmt.Fprintln(os.Stderr, err)
		os.Exit(3)
	}
	var doc struct {
		Replay json.RawMessage `json:"replay"`
	}
	json.Unmarshal(b, &doc)
	var c caseT
	var wrap struct {
		Case caseT `json:"case"`
	}
	if json.Unmarshal(doc.Replay, &wrap) == nil && len(wrap.Case.Lines) > 0 {
		c = wrap.Case
	} else if json.Unmarshal(doc.Replay, &c) != nil || len(c.Lines) == 0 {
		fmt.Fprintln(os.Stderr, "replay file holds no request sequence (proof-level violation?)")
		os.Exit(3)
	}
	r.Eval("replay", c.Name)
	r.Sample(map[string]interface{}{"replay": c.Name, "lines": len(c.Lines)})
	runCase(c)
	// a case with concurrent calls depends on the schedule: it is repeated until it fails again (at most 60 times)
	for _, l := range c.Lines {
		if strings.HasPrefix(l, "par ") {
			for n := 0; n < 60 && !propFound && tieFails == 0; n++ {
				r.Eval("replay", fmt.Sprintf("%s#%d", c.Name, n+2))
				runCase(c)
			}
			break
		}
	}
}

func itoa(n uint64) string { return strconv.FormatUint(n, 10) }

// parStat: the shape of a concurrent case, for the self-test statistics
func parStat(c caseT) string {
	out := ""
	for _, l := range c.Lines {
		t := strings.Fields(l)
		switch t[0] {
		case "par":
			out += fmt.Sprintf(" par%d", len(strings.Split(t[1], ",")))
		case "putext":
			out += fmt.Sprintf(" v%d", len(t[2])/2)
		case "open", "sync", "close", "defrag", "browse", "browseall", "get":
			out += " " + t[0]
		}
	}
	return out
}
