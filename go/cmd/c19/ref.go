package main

// The property's own predicate: a plain Go map, and the durability rule
//   "after a reopen every key holds its last synced value or a later written one, never a value never written".
// Sync points (everything written so far is durable) are: a completed Close; for a non-volatile store a completed
// Sync() and a completed Defrag(true) — whatever the store reports about itself — and, in addition, any moment at
// which the store itself reports no pending records (#PendingRecords = 0 after a call returned: an automatic sync
// has happened, and the store is held to it).
//
// Browsing flags (NO_BROWSE is observable through Browse). The reference keeps TWO views of every key's NO_BROWSE bit:
//   mnb  what an in-memory map with flags holds: set by PutExt / ApplyFlags / walk answers, never touched by sync, defrag,
//        Close or NewDBExt — the property's first sentence;
//   nb   what the real store is held to. Inside one session nb = mnb. Across Close + NewDBExt the UNCHANGED store
//        differs from the map (known finding flag-change-not-durable: ApplyFlags / a walk answer / Get change the flag word
//        in memory only and do not mark the record pending), so nb follows this independent rule instead:
//            flag word after NewDBExt = flag word at the record's LAST PERSIST,
//        where a record is persisted (pnb := nb) when it is written to the index log — a sync while the key is pending:
//        the store reports pe=0 after the request, or the request is Close — or when a new index snapshot is written
//        (any defrag: the qdbidx.0 / qdbidx.1 file of the directory listing changes), which persists EVERY record.
//        The rule reads only the request text, the store's own pending count and the directory listing — not the model.
// A Browse result that breaks the rule is a violation (prop:browse). A result that obeys the rule but differs from the
// map view is classified to the known finding — only when every differing key is one whose two views parted at a
// NewDBExt (dev); any other difference from the map is a violation.

import (
	"fmt"
	"sort"
	"strconv"
	"strings"

	"verif/vlib"
)

type refT struct {
	m     map[uint64][]byte
	nb    map[uint64]int      // NO_BROWSE bit the real store is held to: 0 clear, 1 set, 2 unknown (after a crash)
	mnb   map[uint64]int      // NO_BROWSE bit of the in-memory map with flags (the property's first sentence)
	pnb   map[uint64]int      // NO_BROWSE bit at the record's last persist (index-log entry or index snapshot)
	pend  map[uint64]bool     // keys written since their last persist
	dev   map[uint64]bool     // keys whose nb and mnb parted at a NewDBExt (flag change that was never persisted)
	inexact bool              // between a crash and the NewDBExt that follows it: m is not the store's map
	known string              // set by check: the result obeys the persist rule but differs from the map (known finding)
	dur   map[uint64]string   // value signature per key at the last sync point ("" = absent)
	hist  map[uint64][]string // signatures written since the last sync point (incl. "" for a delete)
	vol   bool
	open  bool
	order []uint64          // keys in the order the real store handed them to the walk function of the request being checked
	byts  map[string][]byte // every value ever written, by signature (to adopt a recovered state after a crash)
	// dur / hist as they were when the last request had been issued but not yet completed (a crash inside that request
	// undoes its completion: `crashat`)
	savedDur  map[uint64]string
	savedHist map[uint64][]string
}

func (f *refT) save()    { f.savedDur, f.savedHist = f.dur, f.hist }
func (f *refT) restore() { f.dur, f.hist = f.savedDur, f.savedHist; f.inexact = true }

func newRef() *refT {
	return &refT{m: map[uint64][]byte{}, nb: map[uint64]int{}, mnb: map[uint64]int{}, pnb: map[uint64]int{}, pend: map[uint64]bool{}, dev: map[uint64]bool{}, dur: map[uint64]string{}, hist: map[uint64][]string{}, byts: map[string][]byte{}}
}

func sig(v []byte) string { return fmt.Sprintf("%d.%d", len(v), fnv(v)) }

func pkey(s string) uint64 { k, _ := strconv.ParseUint(s, 10, 64); return k }
func pval(s string) []byte {
	b := vlib.UnHex(s)
	if b == nil {
		b = []byte{}
	}
	return b
}

func (f *refT) before(t []string) {
	switch t[0] {
	case "open":
		f.vol = t[1] == "1"
		f.open = true
		// the independent rule: a record comes up with the flag word of its last persist; the map keeps its own
		for k := range f.m {
			p, ok := f.pnb[k]
			if !ok {
				p = 2
			}
			f.nb[k] = p
			if p == 2 {
				f.mnb[k] = 2 // persisted flag word not known (crash since the last persist): the difference is not judged
			} else if f.mnb[k] != 2 && p != f.mnb[k] {
				f.dev[k] = true
			}
		}
	case "put", "putext":
		k, v := pkey(t[1]), pval(t[2])
		f.m[k] = v
		f.nb[k] = 0
		if t[0] == "putext" {
			fl, _ := strconv.ParseUint(t[3], 10, 32)
			f.nb[k] = int(fl & 1)
		}
		f.mnb[k] = f.nb[k]
		f.pend[k] = true
		delete(f.dev, k)
		f.hist[k] = append(f.hist[k], sig(v))
		f.byts[sig(v)] = v
	case "del":
		k := pkey(t[1])
		delete(f.m, k)
		delete(f.nb, k)
		delete(f.mnb, k)
		delete(f.dev, k)
		f.pend[k] = true
		f.hist[k] = append(f.hist[k], "")
	case "flags":
		k := pkey(t[1])
		fl, _ := strconv.ParseUint(t[2], 10, 32)
		if _, ok := f.m[k]; ok {
			if fl&1 != 0 {
				f.nb[k], f.mnb[k] = 1, 1
			} else if fl&16 != 0 {
				f.nb[k], f.mnb[k] = 0, 0
			}
			if f.nb[k] == f.mnb[k] {
				delete(f.dev, k)
			}
		}
	}
}

func parseKV(s string) (map[uint64]string, bool) {
	out := map[uint64]string{}
	if s == "-" || s == "" {
		return out, true
	}
	for _, p := range strings.Split(s, ",") {
		eq := strings.IndexByte(p, '=')
		if eq < 0 {
			return nil, false
		}
		k, err := strconv.ParseUint(p[:eq], 10, 64)
		if err != nil {
			return nil, false
		}
		out[k] = p[eq+1:]
	}
	return out, true
}

func renderKV(m map[uint64]string) string {
	if len(m) == 0 {
		return "-"
	}
	ks := make([]uint64, 0, len(m))
	for k := range m {
		ks = append(ks, k)
	}
	sort.Slice(ks, func(i, j int) bool { return ks[i] < ks[j] })
	var parts []string
	for _, k := range ks {
		parts = append(parts, fmt.Sprintf("%d=%s", k, m[k]))
	}
	return strings.Join(parts, ",")
}

// check compares the real result of a request with the Go map. "" = fine.
func (f *refT) check(t []string, res string) string {
	f.known = ""
	switch t[0] {
	case "get":
		k := pkey(t[1])
		v, ok := f.m[k]
		if !ok {
			if res != "none" {
				return "Get of an absent key returned " + short(res)
			}
			return ""
		}
		if res != "some "+vlib.Hex(v) {
			return fmt.Sprintf("Get returned %s, the map holds %s", short(res), short(vlib.Hex(v)))
		}
	case "count":
		if res != strconv.Itoa(len(f.m)) {
			return fmt.Sprintf("Count = %s, the map has %d keys", res, len(f.m))
		}
	case "peek":
		want := map[uint64]string{}
		for k, v := range f.m {
			want[k] = sig(v)
		}
		if exp := strconv.Itoa(len(f.m)) + " " + renderKV(want); res != exp {
			return fmt.Sprintf("Count + BrowseAll give {%s}, the map is {%s}", short(res), short(exp))
		}
	case "browse", "browseall":
		// Browse shows every record not flagged NO_BROWSE (BrowseAll: every record), each with the map's value, until the
		// walk function answers BR_ABORT: f.order is the order in which the real store handed the records to the walk
		// function — nothing may follow a record whose answer carries BR_ABORT, and without such an answer nothing may
		// be missing. Whatever else an answer carries (NO_BROWSE / YES_BROWSE) takes effect for that record, the aborting
		// one included.
		all := t[0] == "browseall"
		got, ok := parseKV(res)
		if !ok {
			return "unparsable browse result " + short(res)
		}
		walk := parseWalk(t[1])
		if len(f.order) != len(got) {
			return fmt.Sprintf("the walk function was called %d times for %d distinct keys (order %v)", len(f.order), len(got), f.order)
		}
		for k, s := range got {
			v, ok := f.m[k]
			if !ok {
				return fmt.Sprintf("Browse visited key %d which the map does not hold", k)
			}
			if s != sig(v) {
				return fmt.Sprintf("Browse gave %s for key %d, the map holds %s", s, k, sig(v))
			}
			if !all && f.nb[k] == 1 {
				return fmt.Sprintf("Browse visited key %d which is flagged NO_BROWSE", k)
			}
		}
		aborted := false
		for i, k := range f.order {
			if _, in := got[k]; !in {
				return fmt.Sprintf("the walk function was called for key %d which is not in the result", k)
			}
			if walk[k]&4 != 0 {
				if i != len(f.order)-1 {
					return fmt.Sprintf("Browse went on to key %d after the walk function had answered BR_ABORT for key %d", f.order[i+1], k)
				}
				aborted = true
			}
		}
		if !aborted {
			for k := range f.m {
				if _, in := got[k]; !in && (all || f.nb[k] == 0) {
					if all {
						return fmt.Sprintf("BrowseAll skipped key %d although the walk function never answered BR_ABORT", k)
					}
					return fmt.Sprintf("Browse skipped key %d which is not flagged NO_BROWSE (the walk function never answered BR_ABORT)", k)
				}
			}
		}
		// the result obeys the store's rule. Does it also equal what the in-memory map with flags shows?
		if !all {
			var diff []string
			for k := range f.m {
				_, in := got[k]
				switch {
				case in && f.mnb[k] == 1:
					diff = append(diff, fmt.Sprintf("key %d is shown although the map's flag word says NO_BROWSE (set by ApplyFlags / a walk answer and never persisted; after NewDBExt the record carries the flag word of its last sync / defrag)", k))
				case !in && !aborted && f.mnb[k] == 0:
					diff = append(diff, fmt.Sprintf("key %d is hidden although the map's flag word does not say NO_BROWSE (cleared by ApplyFlags / a walk answer and never persisted)", k))
				default:
					continue
				}
				if !f.dev[k] {
					return fmt.Sprintf("Browse differs from the in-memory map on key %d (map NO_BROWSE=%d) and no unpersisted flag change explains it", k, f.mnb[k])
				}
			}
			if len(diff) > 0 {
				sort.Strings(diff)
				f.known = diff[0]
			}
		}
		blind := aborted && len(f.dev) > 0 // the map's own browse would have visited other records: its order is not known
		for k := range f.m {
			fl := walk[k]
			if _, in := got[k]; in {
				if fl&1 != 0 {
					f.nb[k] = 1
				} else if fl&16 != 0 || !all {
					f.nb[k] = 0 // YES_BROWSE, or shown by Browse: it was browsable and stays so
				}
			} else if !aborted && !all {
				f.nb[k] = 1 // Browse went through the whole index and did not show it
			}
			// the map's view: its Browse visits k when its own bit is clear (BrowseAll: always) and no abort came first
			switch {
			case blind || f.mnb[k] == 2:
				f.mnb[k] = 2
			case aborted:
				if _, in := got[k]; in { // (views agree on every key here: the map visited exactly these records)
					if fl&1 != 0 {
						f.mnb[k] = 1
					} else if fl&16 != 0 {
						f.mnb[k] = 0
					}
				}
			case all || f.mnb[k] == 0:
				if fl&1 != 0 {
					f.mnb[k] = 1
				} else if fl&16 != 0 {
					f.mnb[k] = 0
				}
			}
			if f.mnb[k] == 2 {
				f.mnb[k] = f.nb[k] // unknown (after a crash the map adopts the recovered store, flag words included)
			}
			if f.mnb[k] == f.nb[k] {
				delete(f.dev, k)
			}
		}
	case "defrag":
		if res != "ok 0" && res != "ok 1" {
			return "Defrag returned " + res
		}
		if res == "ok 0" && t[1] == "1" && !f.vol {
			return "Defrag(true) on a non-volatile store did nothing"
		}
	default:
		if res != "ok" {
			return "unexpected reply " + short(res)
		}
	}
	return ""
}

func (f *refT) syncPoint() {
	f.dur = map[uint64]string{}
	for k, v := range f.m {
		f.dur[k] = sig(v)
	}
	f.hist = map[uint64][]string{}
}

// snapshotFiles: which of qdbidx.0 / qdbidx.1 a directory listing holds
func snapshotFiles(listing string) string {
	out := ""
	for _, n := range []string{"qdbidx.0:", "qdbidx.1:"} {
		if strings.Contains(listing, n) {
			out += n
		}
	}
	return out
}

// persist: the independent rule for flag words (see the head of this file). listing0 / listing1: the directory before and
// after the request.
func (f *refT) persist(t []string, state, listing0, listing1 string) {
	if t[0] == "open" || t[0] == "get" || t[0] == "browse" || t[0] == "browseall" || t[0] == "peek" || t[0] == "count" {
		return // NewDBExt only removes files; reads perform no file operation
	}
	if snapshotFiles(listing0) != snapshotFiles(listing1) {
		// a new index snapshot was written (defrag alternates between the two files): it describes every record
		for k := range f.m {
			f.pnb[k] = f.nb[k]
		}
		f.pend = map[uint64]bool{}
		return
	}
	if f.vol {
		return // a volatile store writes nothing but the snapshot of its Close
	}
	if t[0] == "close" || strings.Contains(state, " pe=0 ") {
		// a sync has written an index-log entry for every pending key
		for k := range f.pend {
			if _, ok := f.m[k]; ok {
				f.pnb[k] = f.nb[k]
			}
		}
		f.pend = map[uint64]bool{}
	}
}

// after: advance the sync point when the request made everything durable.
func (f *refT) after(t []string, state string) {
	switch {
	case t[0] == "close":
		f.open = false
		f.syncPoint()
	case f.open && !f.vol && (t[0] == "sync" || (t[0] == "defrag" && len(t) > 1 && t[1] == "1")):
		f.syncPoint() // hard sync points of the property, independent of the implementation's own bookkeeping
	case f.open && !f.vol && strings.Contains(state, " pe=0 "):
		f.syncPoint()
	}
}

// durable evaluates the predicate on a recovered store ("ok:k=sig,…"). "" = fine.
func (f *refT) durable(rec string) string {
	if !strings.HasPrefix(rec, "ok:") {
		return "recovery reported " + short(rec)
	}
	got, ok := parseKV(rec[3:])
	if !ok {
		return "unparsable recovery " + short(rec)
	}
	keys := map[uint64]bool{}
	for k := range got {
		keys[k] = true
	}
	for k := range f.dur {
		keys[k] = true
	}
	for k := range f.hist {
		keys[k] = true
	}
	for k := range keys {
		s := got[k] // "" = absent
		if s == f.dur[k] {
			continue
		}
		found := false
		for _, h := range f.hist[k] {
			if h == s {
				found = true
			}
		}
		if !found {
			name := func(x string) string {
				if x == "" {
					return "absent"
				}
				return x
			}
			return fmt.Sprintf("key %d is %s after recovery; last synced %s, written since %v", k, name(s), name(f.dur[k]), f.hist[k])
		}
	}
	return ""
}

// allOrNothing: the theorems' claim that is stronger than the property sentence (qdb_durable: "ALL keys hold the durable
// map from before the interrupted operation or ALL keys hold the complete map after it"), judged on a recovered crash
// directory of the request being executed: f.dur is the durable map before the request (exact: every sync point of the
// store is one of the reference), f.m the in-memory map after it. "" = fine.
func (f *refT) allOrNothing(rec string) string {
	if f.inexact || !strings.HasPrefix(rec, "ok:") {
		return ""
	}
	got, ok := parseKV(rec[3:])
	if !ok {
		return ""
	}
	old := map[uint64]string{}
	for k, s := range f.dur {
		if s != "" {
			old[k] = s
		}
	}
	now := map[uint64]string{}
	for k, v := range f.m {
		now[k] = sig(v)
	}
	if g := renderKV(got); g == renderKV(old) || g == renderKV(now) {
		return ""
	}
	return fmt.Sprintf("recovered {%s} is neither the durable map from before the request {%s} nor the complete map after it {%s}: a mixture", short(renderKV(got)), short(renderKV(old)), short(renderKV(now)))
}

// adopt: the process died and the store was reopened with content rec ("ok:k=sig,…", already checked by durable):
// the history continues from there — that content is the map, and it is durable.
func (f *refT) adopt(rec string) string {
	got, ok := parseKV(strings.TrimPrefix(rec, "ok:"))
	if !ok {
		return "unparsable recovery " + short(rec)
	}
	f.m = map[uint64][]byte{}
	f.nb = map[uint64]int{}
	f.mnb, f.pnb, f.pend, f.dev = map[uint64]int{}, map[uint64]int{}, map[uint64]bool{}, map[uint64]bool{}
	for k, s := range got {
		v, known := f.byts[s]
		if !known {
			return fmt.Sprintf("key %d holds %s after recovery, a value that was never written", k, s)
		}
		f.m[k] = v
		f.nb[k], f.mnb[k], f.pnb[k] = 2, 2, 2 // which flag words reached the directory before the process died is not judged
	}
	f.syncPoint()
	f.inexact = false
	return ""
}

func withSentinel(rec string) string {
	if !strings.HasPrefix(rec, "ok:") {
		return rec
	}
	m, _ := parseKV(rec[3:])
	m[sentinelKey] = sig([]byte("probe"))
	return "ok:" + renderKV(m)
}
