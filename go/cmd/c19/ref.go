package main

// The property's own predicate: a plain Go map, and the durability rule
//   "after a reopen every key holds its last synced value or a later written one, never a value never written".
// Sync points (everything written so far is durable) are: a completed Close; for a non-volatile store a completed
// Sync() and a completed Defrag(true) — whatever the store reports about itself — and, in addition, any moment at
// which the store itself reports no pending records (#PendingRecords = 0 after a call returned: an automatic sync
// has happened, and the store is held to it).

import (
	"fmt"
	"sort"
	"strconv"
	"strings"

	"verif/vlib"
)

type refT struct {
	m     map[uint64][]byte
	nb    map[uint64]int      // NO_BROWSE bit of a key: 0 clear, 1 set, 2 unknown (flags are only persisted by sync/defrag)
	dur   map[uint64]string   // value signature per key at the last sync point ("" = absent)
	hist  map[uint64][]string // signatures written since the last sync point (incl. "" for a delete)
	vol   bool
	open  bool
	order []uint64          // keys in the order the real store handed them to the walk function of the request being checked
	byts  map[string][]byte // every value ever written, by signature (to adopt a recovered state after a crash)
	// dur / hist as they were when the last request had been issued but not yet completed (a crash inside that request
	// undoes its completion: `crashat`)
	savedDur  map[uint64]string
	savedHist map[uint64][]string
}

func (f *refT) save()    { f.savedDur, f.savedHist = f.dur, f.hist }
func (f *refT) restore() { f.dur, f.hist = f.savedDur, f.savedHist }

func newRef() *refT {
	return &refT{m: map[uint64][]byte{}, nb: map[uint64]int{}, dur: map[uint64]string{}, hist: map[uint64][]string{}, byts: map[string][]byte{}}
}

func sig(v []byte) string { return fmt.Sprintf("%d.%d", len(v), fnv(v)) }

func pkey(s string) uint64 { k, _ := strconv.ParseUint(s, 10, 64); return k }
func pval(s string) []byte {
	b := vlib.UnHex(s)
	if b == nil {
		b = []byte{}
	}
	return b
}

func (f *refT) before(t []string) {
	switch t[0] {
	case "open":
		f.vol = t[1] == "1"
		f.open = true
		for k := range f.m {
			f.nb[k] = 2
		}
	case "put", "putext":
		k, v := pkey(t[1]), pval(t[2])
		f.m[k] = v
		f.nb[k] = 0
		if t[0] == "putext" {
			fl, _ := strconv.ParseUint(t[3], 10, 32)
			f.nb[k] = int(fl & 1)
		}
		f.hist[k] = append(f.hist[k], sig(v))
		f.byts[sig(v)] = v
	case "del":
		k := pkey(t[1])
		delete(f.m, k)
		delete(f.nb, k)
		f.hist[k] = append(f.hist[k], "")
	case "flags":
		k := pkey(t[1])
		fl, _ := strconv.ParseUint(t[2], 10, 32)
		if _, ok := f.m[k]; ok {
			if fl&1 != 0 {
				f.nb[k] = 1
			} else if fl&16 != 0 {
				f.nb[k] = 0
			}
		}
	}
}

func parseKV(s string) (map[uint64]string, bool) {
	out := map[uint64]string{}
	if s == "-" || s == "" {
		return out, true
	}
	for _, p := range strings.Split(s, ",") {
		eq := strings.IndexByte(p, '=')
		if eq < 0 {
			return nil, false
		}
		k, err := strconv.ParseUint(p[:eq], 10, 64)
		if err != nil {
			return nil, false
		}
		out[k] = p[eq+1:]
	}
	return out, true
}

func renderKV(m map[uint64]string) string {
	if len(m) == 0 {
		return "-"
	}
	ks := make([]uint64, 0, len(m))
	for k := range m {
		ks = append(ks, k)
	}
	sort.Slice(ks, func(i, j int) bool { return ks[i] < ks[j] })
	var parts []string
	for _, k := range ks {
		parts = append(parts, fmt.Sprintf("%d=%s", k, m[k]))
	}
	return strings.Join(parts, ",")
}

// check compares the real result of a request with the Go map. "" = fine.
func (f *refT) check(t []string, res string) string {
	switch t[0] {
	case "get":
		k := pkey(t[1])
		v, ok := f.m[k]
		if !ok {
			if res != "none" {
				return "Get of an absent key returned " + short(res)
			}
			return ""
		}
		if res != "some "+vlib.Hex(v) {
			return fmt.Sprintf("Get returned %s, the map holds %s", short(res), short(vlib.Hex(v)))
		}
	case "count":
		if res != strconv.Itoa(len(f.m)) {
			return fmt.Sprintf("Count = %s, the map has %d keys", res, len(f.m))
		}
	case "peek":
		want := map[uint64]string{}
		for k, v := range f.m {
			want[k] = sig(v)
		}
		if exp := strconv.Itoa(len(f.m)) + " " + renderKV(want); res != exp {
			return fmt.Sprintf("Count + BrowseAll give {%s}, the map is {%s}", short(res), short(exp))
		}
	case "browse", "browseall":
		// Browse shows every record not flagged NO_BROWSE (BrowseAll: every record), each with the map's value, until the
		// walk function answers BR_ABORT: f.order is the order in which the real store handed the records to the walk
		// function — nothing may follow a record whose answer carries BR_ABORT, and without such an answer nothing may
		// be missing. Whatever else an answer carries (NO_BROWSE / YES_BROWSE) takes effect for that record, the aborting
		// one included.
		all := t[0] == "browseall"
		got, ok := parseKV(res)
		if !ok {
			return "unparsable browse result " + short(res)
		}
		walk := parseWalk(t[1])
		if len(f.order) != len(got) {
			return fmt.Sprintf("the walk function was called %d times for %d distinct keys (order %v)", len(f.order), len(got), f.order)
		}
		for k, s := range got {
			v, ok := f.m[k]
			if !ok {
				return fmt.Sprintf("Browse visited key %d which the map does not hold", k)
			}
			if s != sig(v) {
				return fmt.Sprintf("Browse gave %s for key %d, the map holds %s", s, k, sig(v))
			}
			if !all && f.nb[k] == 1 {
				return fmt.Sprintf("Browse visited key %d which is flagged NO_BROWSE", k)
			}
		}
		aborted := false
		for i, k := range f.order {
			if _, in := got[k]; !in {
				return fmt.Sprintf("the walk function was called for key %d which is not in the result", k)
			}
			if walk[k]&4 != 0 {
				if i != len(f.order)-1 {
					return fmt.Sprintf("Browse went on to key %d after the walk function had answered BR_ABORT for key %d", f.order[i+1], k)
				}
				aborted = true
			}
		}
		if !aborted {
			for k := range f.m {
				if _, in := got[k]; !in && (all || f.nb[k] == 0) {
					if all {
						return fmt.Sprintf("BrowseAll skipped key %d although the walk function never answered BR_ABORT", k)
					}
					return fmt.Sprintf("Browse skipped key %d which is not flagged NO_BROWSE (the walk function never answered BR_ABORT)", k)
				}
			}
		}
		for k := range f.m {
			if _, in := got[k]; in {
				fl := walk[k]
				if fl&1 != 0 {
					f.nb[k] = 1
				} else if fl&16 != 0 || !all {
					f.nb[k] = 0 // YES_BROWSE, or shown by Browse: it was browsable and stays so
				}
			} else if !aborted && !all {
				f.nb[k] = 1 // Browse went through the whole index and did not show it
			}
		}
	case "defrag":
		if res != "ok 0" && res != "ok 1" {
			return "Defrag returned " + res
		}
		if res == "ok 0" && t[1] == "1" && !f.vol {
			return "Defrag(true) on a non-volatile store did nothing"
		}
	default:
		if res != "ok" {
			return "unexpected reply " + short(res)
		}
	}
	return ""
}

func (f *refT) syncPoint() {
	f.dur = map[uint64]string{}
	for k, v := range f.m {
		f.dur[k] = sig(v)
	}
	f.hist = map[uint64][]string{}
}

// after: advance the sync point when the request made everything durable.
func (f *refT) after(t []string, state string) {
	switch {
	case t[0] == "close":
		f.open = false
		f.syncPoint()
	case f.open && !f.vol && (t[0] == "sync" || (t[0] == "defrag" && len(t) > 1 && t[1] == "1")):
		f.syncPoint() // hard sync points of the property, independent of the implementation's own bookkeeping
	case f.open && !f.vol && strings.Contains(state, " pe=0 "):
		f.syncPoint()
	}
}

// durable evaluates the predicate on a recovered store ("ok:k=sig,…"). "" = fine.
func (f *refT) durable(rec string) string {
	if !strings.HasPrefix(rec, "ok:") {
		return "recovery reported " + short(rec)
	}
	got, ok := parseKV(rec[3:])
	if !ok {
		return "unparsable recovery " + short(rec)
	}
	keys := map[uint64]bool{}
	for k := range got {
		keys[k] = true
	}
	for k := range f.dur {
		keys[k] = true
	}
	for k := range f.hist {
		keys[k] = true
	}
	for k := range keys {
		s := got[k] // "" = absent
		if s == f.dur[k] {
			continue
		}
		found := false
		for _, h := range f.hist[k] {
			if h == s {
				found = true
			}
		}
		if !found {
			name := func(x string) string {
				if x == "" {
					return "absent"
				}
				return x
			}
			return fmt.Sprintf("key %d is %s after recovery; last synced %s, written since %v", k, name(s), name(f.dur[k]), f.hist[k])
		}
	}
	return ""
}

// adopt: the process died and the store was reopened with content rec ("ok:k=sig,…", already checked by durable):
// the history continues from there — that content is the map, and it is durable.
func (f *refT) adopt(rec string) string {
	got, ok := parseKV(strings.TrimPrefix(rec, "ok:"))
	if !ok {
		return "unparsable recovery " + short(rec)
	}
	f.m = map[uint64][]byte{}
	f.nb = map[uint64]int{}
	for k, s := range got {
		v, known := f.byts[s]
		if !known {
			return fmt.Sprintf("key %d holds %s after recovery, a value that was never written", k, s)
		}
		f.m[k] = v
		f.nb[k] = 2
	}
	f.syncPoint()
	return ""
}

func withSentinel(rec string) string {
	if !strings.HasPrefix(rec, "ok:") {
		return rec
	}
	m, _ := parseKV(rec[3:])
	m[sentinelKey] = sig([]byte("probe"))
	return "ok:" + renderKV(m)
}
