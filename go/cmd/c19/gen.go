package main

import (
	"fmt"
	"strings"

	"verif/vlib"
)

const defOpts = "50 300 2500 10000"

var keyPool = []uint64{0, 1, 2, 3, 7, 255, 256, 65536, 1 << 32, 1<<32 + 1, 0xFFFFFFFF, 0xFFFFFFFFFFFFFFFF, 0x0123456789abcdef, 0x1111111122222222, 1 << 63}

func hexOf(b []byte) string { return vlib.Hex(b) }

func pat(n int, seed byte) []byte {
	b := make([]byte, n)
	for i := range b {
		b[i] = seed + byte(i*7) + byte(i>>8)
	}
	return b
}

// ---------------------------------------------------------------- corpus
func corpus() []caseT {
	var cs []caseT
	// every corpus case runs twice: dense (full content observed after every request — which loads every record) and
	// sparse (only the case's own Gets/Browses, plus one full observation at the very end when the store is open)
	add := func(name string, snap bool, lines ...string) {
		cs = append(cs, caseT{Name: name, Snap: snap, Lines: lines})
		if len(lines) > 40 {
			return
		}
		sp := append([]string{}, lines...)
		open := false
		for _, l := range sp {
			switch strings.Fields(l)[0] {
			case "open":
				open = true
			case "close", "crashat":
				open = false
			}
		}
		if open {
			sp = append(sp, "peek")
		}
		cs = append(cs, caseT{Name: name + "/sparse", Snap: snap, Lines: sp, Sparse: true})
	}
	// minimised past failures (both repaired by fix: commits; kept so that a regression is reported again)
	add("nocache-pending-browse-get", true,
		"open 0 1 "+defOpts, "putext 1 68656c6c6f 2", "browse -", "get 1", "close", "open 0 1 "+defOpts, "get 1")
	add("nocache-pending-browse-close", true,
		"open 0 1 "+defOpts, "putext 1 68656c6c6f 2", "browse -", "close", "open 0 0 "+defOpts, "get 1")
	add("nocache-pending-walkflag-volatile", true,
		"open 1 1 "+defOpts, "put 5 0102", "browse 5:2", "get 5", "close", "open 0 1 "+defOpts, "get 5")
	add("nocache-pending-applyflags-sync", true,
		"open 0 1 "+defOpts, "put 5 0102", "flags 5 2", "browse -", "sync", "get 5", "close")
	add("nocache-pending-defrag-sync", true,
		"open 0 1 "+defOpts, "putext 7 aa 2", "defrag 1", "sync", "get 7", "close", "open 0 1 "+defOpts, "get 7")
	add("empty-index-log-left-by-crash", true,
		"seed qdbidx.log -", "open 0 1 "+defOpts, "put 1229782938533634594 41414141", "sync", "close", "open 0 1 "+defOpts, "get 1229782938533634594")
	add("empty-index-log-key0", true,
		"seed qdbidx.log -", "open 0 1 "+defOpts, "put 0 41414141", "sync", "put 1 42", "sync", "close", "open 0 1 "+defOpts, "get 0", "get 1")
	// the scenario of TestDatabase in small
	add("testdatabase-small", true,
		"open 0 1 "+defOpts, "put 1 aa", "put 2 bb", "put 3 cc", "close",
		"open 0 1 "+defOpts, "get 3", "defrag 0", "close",
		"open 0 1 "+defOpts, "nosync", "put 4 dd", "put 5 ee", "sync", "close",
		"open 0 1 "+defOpts, "defrag 1", "close",
		"open 0 1 "+defOpts, "browse -", "del 1", "del 2", "close",
		"open 0 1 "+defOpts, "defrag 0", "close", "open 0 1 "+defOpts, "get 1", "get 3", "close")
	// thresholds: sync at every put, forced defrag at every waste
	add("sync-every-put-forced-defrag", true,
		"open 0 1 0 0 0 0", "put 1 aa", "put 1 bbbb", "put 2 cc", "del 1", "put 2 -", "del 2", "put 3 dd", "close", "open 0 1 0 0 0 0", "get 3", "close")
	add("threshold-boundaries", true,
		"open 0 1 50 300 2 3", "put 1 aa", "put 2 bb", "put 3 cc", "nosync", "put 4 dd", "put 5 ee", "put 6 ff", "put 7 11", "put 8 22", "sync", "close")
	add("volatile", true,
		"open 1 1 "+defOpts, "put 1 aa", "put 2 bb", "del 1", "sync", "defrag 1", "nosync", "close",
		"open 1 0 "+defOpts, "get 2", "get 1", "close", "open 1 1 "+defOpts, "del 2", "close", "open 0 1 "+defOpts, "count", "close")
	// the closing sequence of client/peersdb (Sync, Defrag(true), Close) on a VOLATILE store: Sync and Defrag do nothing
	// there, and Close must still write the session's changes
	add("volatile-sync-defrag-close", true,
		"open 1 1 "+defOpts, "put 1 aa", "put 2 bb", "sync", "defrag 1", "close", "open 0 1 "+defOpts, "get 1", "get 2", "close",
		"open 1 1 "+defOpts, "del 1", "put 2 cc", "sync", "close", "open 0 0 "+defOpts, "get 1", "get 2")
	add("defrag-empty-index", true,
		"open 0 1 "+defOpts, "put 1 aa", "sync", "del 1", "sync", "defrag 1", "close", "open 0 1 "+defOpts, "put 2 bb", "close", "open 0 1 "+defOpts, "get 2")
	add("lazy-load-nocache-nobrowse", true,
		"open 0 1 50 300 0 0", "putext 1 aa 2", "putext 2 bb 1", "putext 3 cc 3", "get 1", "browse 3:16", "browse -", "close",
		"open 0 0 "+defOpts, "browse -", "get 1", "get 2", "get 3", "flags 2 16", "browse 1:1", "defrag 1", "get 3", "close",
		"open 0 1 "+defOpts, "browse -", "get 1", "get 2", "get 3")
	add("edge-keys", true,
		"open 0 1 50 300 1 4", "put 0 00", "put 18446744073709551615 ff", "put 4294967296 01", "put 4294967295 02", "sync", "del 0", "close",
		"open 0 1 "+defOpts, "get 0", "get 18446744073709551615", "get 4294967296", "defrag 1", "close", "open 0 1 "+defOpts, "get 4294967296")
	add("values-64k", true,
		"open 0 1 50 300 1 4", "put 1 "+hexOf(pat(65536, 1)), "put 2 "+hexOf(pat(65535, 2)), "put 3 -", "put 1 "+hexOf(pat(1, 9)), "defrag 0", "close",
		"open 0 0 "+defOpts, "get 2", "get 3", "get 1", "close")
	// a key that is on disk, re-written (still pending) and deleted before the next sync: the delete must reach the log
	add("overwrite-pending-then-delete", true,
		"open 0 1 "+defOpts, "put 1 "+hexOf([]byte("value-one")), "put 2 bb", "sync", "put 1 "+hexOf([]byte("value-two")), "del 1",
		"close", "open 0 1 "+defOpts, "get 1", "get 2", "close", "open 0 0 "+defOpts, "get 1")
	add("overwrite-pending-then-delete-autosync", true,
		"open 0 1 50 300 1 4", "put 7 aa", "put 8 bb", "put 7 cccc", "del 7", "put 9 dd", "del 8", "sync", "put 8 ee", "put 8 ff", "del 8",
		"close", "open 0 1 "+defOpts, "get 7", "get 8", "get 9")
	// the store is drained to empty (the sync after the last delete defragments automatically: needed space 0),
	// then refilled in the same process: the current data file must survive cleanupold
	add("drain-to-empty-then-refill", true,
		"open 0 1 "+defOpts, "put 1 "+hexOf(pat(40, 1)), "put 2 "+hexOf(pat(33, 2)), "sync", "del 1", "del 2", "sync",
		"put 3 "+hexOf(pat(40, 3)), "put 4 "+hexOf(pat(25, 4)), "sync", "put 5 "+hexOf(pat(30, 5)),
		"close", "open 0 1 "+defOpts, "get 3", "get 4", "get 5", "close", "open 0 0 "+defOpts, "get 4", "browse -")
	add("drain-forced-defrag-refill", true,
		"open 0 1 "+defOpts, "put 1 "+hexOf(pat(40, 1)), "sync", "del 1", "defrag 1", "put 2 "+hexOf(pat(40, 2)), "sync", "put 3 cc",
		"close", "open 0 1 "+defOpts, "get 2", "get 3")
	add("drain-volatile-refill", true,
		"open 1 1 "+defOpts, "put 1 "+hexOf(pat(40, 1)), "close", "open 1 1 "+defOpts, "del 1", "close",
		"open 0 1 "+defOpts, "put 2 "+hexOf(pat(40, 2)), "del 2", "sync", "put 3 "+hexOf(pat(40, 3)), "close", "open 0 1 "+defOpts, "get 3")
	// histories that continue after a crash: inside sync (data written, log not), inside a forced defrag, inside Close,
	// before any file operation (pending changes lost), after an empty index log was created
	add("crash-and-continue", true,
		"open 0 1 "+defOpts, "put 1 aa", "put 2 bb", "sync", "crashat 2", "open 0 1 "+defOpts, "put 1 cc", "del 2", "sync", "crashat 1",
		"open 0 1 "+defOpts, "put 3 dd", "put 1 ee", "defrag 1", "crashat 5", "open 0 1 "+defOpts, "put 4 ff", "close", "crashat 2",
		"open 0 1 "+defOpts, "get 1", "get 4", "put 5 11", "crashat 0", "open 0 0 "+defOpts, "get 5", "put 6 22", "sync", "crashat 4",
		"open 0 1 "+defOpts, "get 6", "put 6 33", "sync", "close", "open 0 1 "+defOpts, "get 6")
	// flag words beyond the four meaningful bits (the theorems speak of any 32-bit word): the bit of value 4 (BR_ABORT's value, without
	// meaning in PutExt / ApplyFlags), NO_CACHE together with unknown bits, all ones, the top bit
	add("wide-flag-words", true,
		"open 0 1 "+defOpts, "putext 1 aa 4", "putext 2 bbbb 6", "putext 3 cc 4294967295", "putext 4 dd 2147483648", "putext 5 ee 4294967293",
		"sync", "get 2", "get 3", "browse -", "flags 1 4294967295", "flags 4 6", "flags 5 2147483650", "browse 4:2147483648,1:4294967291",
		"defrag 1", "get 1", "get 5", "close", "open 0 0 "+defOpts, "browse -", "get 3", "flags 3 24", "browse -", "put 3 ff", "sync", "close",
		"open 1 0 "+defOpts, "get 2", "flags 2 4294967295", "del 4", "close", "open 0 1 "+defOpts, "get 1", "get 2", "get 3", "get 4", "get 5")
	// walk answers that carry BR_ABORT together with other bits (boundaries of the answer word: BR_ABORT alone, with each
	// browsing flag, with all of them, all ones; for one record, for every record — the browse then stops at whichever
	// record Go's map order presents first —, for a record that is absent or hidden; Browse and BrowseAll; records in
	// memory, NO_CACHE records on disk, records not loaded after a lazy open); each followed by observations
	add("abort-answer-words", true,
		"open 0 1 "+defOpts, "put 1 aa", "put 2 bbbb", "put 3 "+hexOf(pat(30, 3)), "put 4 dd", "browse 1:4,2:4,3:4,4:4", "browse -",
		"browse 1:5,2:5,3:5,4:5", "browse -", "browseall 1:20,2:20,3:20,4:20", "browse -", "browse 2:5", "browse -", "browse 9:4,2:21", "browse -",
		"sync", "browse 1:6,2:6,3:6,4:6", "get 1", "browse 3:12,1:2", "browse 1:4294967295,2:4294967295,3:4294967295,4:4294967295", "browse -",
		"browseall 4:31", "browseall 1:4,2:17,3:17,4:17", "browse -", "defrag 1", "close", "open 0 0 "+defOpts, "browse -", "browseall -")
	add("abort-answer-lazy-and-nocache", true,
		"open 0 1 "+defOpts, "putext 1 "+hexOf(pat(40, 1))+" 2", "putext 2 "+hexOf(pat(33, 2))+" 0", "putext 3 cc 1", "putext 4 "+hexOf(pat(26, 4))+" 3", "close",
		"open 0 0 "+defOpts, "browse 1:4,2:4,4:4", "browse 2:6,1:14", "browseall 3:20,4:20,1:20,2:20", "browse -", "sync", "close",
		"open 0 0 "+defOpts, "browseall 1:7,2:7,3:7,4:7", "browseall 1:7,2:7,3:7,4:7", "browseall 1:7,2:7,3:7,4:7", "browseall 1:7,2:7,3:7,4:7", "browse -",
		"put 2 ee", "browse 2:6", "sync", "browse 2:5,1:5", "defrag 1", "close", "open 1 1 "+defOpts, "browse -", "browseall 1:12", "close",
		"open 0 1 "+defOpts, "browse -", "get 1", "get 2", "get 3", "get 4")
	// a lazy open followed DIRECTLY by Get / Put / Del / ApplyFlags / Sync / Defrag / Close on records that are not in
	// memory (in the sparse run nothing loads them before)
	add("lazy-open-then-direct-operations", true,
		"open 0 1 "+defOpts, "put 1 "+hexOf(pat(40, 1)), "put 2 "+hexOf(pat(33, 2)), "put 3 "+hexOf(pat(50, 3)), "put 4 dd", "put 5 ee", "close",
		"open 0 0 "+defOpts, "get 2", "put 1 "+hexOf(pat(41, 9)), "del 3", "flags 4 2", "sync", "get 4", "defrag 1", "get 5", "close",
		"open 0 0 50 300 0 0", "del 5", "put 4 "+hexOf(pat(30, 4)), "defrag 0", "close",
		"open 1 0 "+defOpts, "put 2 "+hexOf(pat(35, 5)), "get 1", "close",
		"open 0 0 "+defOpts, "defrag 1", "close", "open 0 0 "+defOpts, "close",
		"open 0 1 "+defOpts, "get 1", "get 2", "get 3", "get 4", "get 5")
	add("lazy-open-crash-and-continue", true,
		"open 0 1 "+defOpts, "put 1 "+hexOf(pat(40, 1)), "put 2 "+hexOf(pat(33, 2)), "sync", "put 3 cc", "close",
		"open 0 0 "+defOpts, "put 1 "+hexOf(pat(20, 7)), "del 2", "sync", "crashat 3", "open 0 0 "+defOpts, "get 1", "put 4 dd", "defrag 1", "crashat 6",
		"open 1 0 "+defOpts, "get 3", "put 5 ee", "close", "crashat 4", "open 0 0 "+defOpts, "get 5", "get 1", "get 2")
	// KNOWN FINDING flag-change-not-durable (the audit's two scripts): a flag change is not written to disk. Hide a synced
	// record, Sync, Close, NewDBExt: it is shown again; hide + forced defrag (persisted), reopen, un-hide through a walk
	// answer, Close, NewDBExt: hidden again. The reference (ref.go) holds the store to "flag word after NewDBExt = flag word
	// at the record's last persist" and reports the difference from the in-memory map under the known key.
	add("flag-change-not-durable-hide", true,
		"open 0 1 "+defOpts, "put 1 aa", "sync", "flags 1 1", "browse -", "sync", "close", "open 0 1 "+defOpts, "browse -", "get 1")
	add("flag-change-not-durable-show", true,
		"open 0 1 "+defOpts, "put 1 aa", "flags 1 1", "defrag 1", "close", "open 0 1 "+defOpts, "browse -", "browseall 1:16", "browse -",
		"close", "open 0 1 "+defOpts, "browse -")
	// the same flag changes followed by something that persists the record: no difference from the map after the reopen
	add("flag-change-then-persisted", true,
		"open 0 1 "+defOpts, "put 1 aa", "put 2 bb", "sync", "flags 1 1", "put 1 aa", "flags 1 1", "browse 2:1", "defrag 1", "close",
		"open 0 0 "+defOpts, "browse -", "put 1 dd", "browse 1:0,2:16", "put 2 bb", "flags 2 16", "close", "open 1 1 "+defOpts, "browse -",
		"flags 1 1", "put 2 cc", "close", "open 0 1 "+defOpts, "browse -")
	// more than 1 MiB of data: bufio's buffer overflows inside defrag (a write reaches the file before Flush)
	big := []string{"open 0 1 50 300 100 100"}
	for i := 0; i < 18; i++ {
		big = append(big, fmt.Sprintf("put %d %s", i, hexOf(pat(61000+i, byte(i)))))
	}
	big = append(big, "sync", "defrag 1", "close", "open 0 0 "+defOpts, "get 17", "get 0", "close")
	add("defrag-over-1MiB", true, big...)
	return cs
}

// ---------------------------------------------------------------- generator
func genValue(g *vlib.Rng, bigBudget *int) []byte {
	switch x := g.Intn(100); {
	case x < 10:
		return []byte{}
	case x < 70:
		return g.Bytes(1 + g.Intn(32))
	case x < 90:
		return g.Bytes(100 + g.Intn(4900))
	default:
		if *bigBudget > 0 {
			*bigBudget--
			r.Hit("value:64KiB-class")
			return pat(g.Pick(65535, 65536, 65537, 40000, 16384), byte(g.Intn(256)))
		}
		return g.Bytes(33 + g.Intn(60))
	}
}

func genOpts(g *vlib.Rng) string {
	if g.Chance(1, 4) {
		return defOpts
	}
	mp := g.Pick(0, 0, 1, 2, 3, 5)
	mpn := mp + g.Pick(0, 1, 2, 4, 8)
	return fmt.Sprintf("%d %d %d %d", g.Pick(0, 10, 50, 200), g.Pick(0, 50, 300, 1000), mp, mpn)
}

func genOpen(g *vlib.Rng) string {
	vol, load := 0, 1
	if g.Chance(1, 5) {
		vol = 1
	}
	if g.Chance(1, 4) {
		load = 0
	}
	if vol == 1 {
		r.Hit("open:volatile")
	}
	if load == 0 {
		r.Hit("open:lazy")
	}
	return fmt.Sprintf("open %d %d %s", vol, load, genOpts(g))
}

func genCase(g *vlib.Rng, idx int) caseT {
	nk := 2 + g.Intn(5)
	keys := make([]uint64, nk)
	for i := range keys {
		keys[i] = keyPool[g.Intn(len(keyPool))]
	}
	key := func() string { return itoa(keys[g.Intn(nk)]) }
	big := 0
	if g.Chance(1, 4) {
		big = 2
		r.Hit("case:with-64KiB-values")
	}
	nops := 10 + g.Intn(31)
	lines := []string{genOpen(g)}
	// sparse: the full content is observed only at the checkpoints chosen here (`peek`); dense: after every request
	sparse := g.Chance(2, 3)
	for i := 0; i < nops; i++ {
		if sparse && i > 0 && g.Chance(1, 9) {
			lines = append(lines, "peek")
		}
		switch x := g.Intn(116); {
		case x >= 112:
			// shape: the walk function answers BR_ABORT together with a flag change (for one record, or for whichever
			// record comes first); what it asked for is then observed: browsability by the next Browse, the cached copy
			// by the state line / a Get, the persisted flag word after sync / defrag / close and a reopen
			r.Hit("shape:abort-with-flag-change-then-observe")
			if g.Bool() {
				for _, k := range keys {
					if g.Bool() {
						lines = append(lines, fmt.Sprintf("putext %d %s %d", k, hexOf(genValue(g, &big)), g.Pick(0, 0, 1, 2, 3)))
					}
				}
			}
			if g.Bool() {
				lines = append(lines, "sync")
			}
			var ps []string
			seen := map[uint64]bool{}
			for _, k := range keys {
				if !seen[k] && (len(ps) == 0 || g.Chance(2, 3)) {
					seen[k] = true
					ps = append(ps, fmt.Sprintf("%d:%d", k, abortWord(g)))
				}
			}
			lines = append(lines, []string{"browse ", "browse ", "browse ", "browseall "}[g.Intn(4)]+strings.Join(ps, ","))
			switch g.Intn(5) {
			case 0:
				lines = append(lines, "browse -")
			case 1:
				lines = append(lines, "sync", "browse -", "close", genOpen(g), "browse -")
			case 2:
				lines = append(lines, "flags "+key()+" 0", "defrag 1", "close", genOpen(g), "browse -")
			case 3:
				lines = append(lines, "browse "+genWalk(g, keys), "browse -", "get "+key())
			case 4:
				lines = append(lines, "put "+key()+" "+hexOf(genValue(g, &big)), "browse -", "close", genOpen(g), "browseall -", "browse -")
			}
		case x >= 108:
			// the process dies inside the previous request; the history continues after NewDBExt on what is left
			r.Hit("shape:crash-and-continue")
			switch g.Intn(5) {
			case 0:
				lines = append(lines, "put "+key()+" "+hexOf(genValue(g, &big)), "sync")
			case 1:
				lines = append(lines, "put "+key()+" "+hexOf(genValue(g, &big)), "del "+key(), "defrag 1")
			case 2:
				lines = append(lines, "del "+key(), "put "+key()+" "+hexOf(genValue(g, &big)), "close")
			case 3:
				lines = append(lines, "sync", "close")
			}
			lines = append(lines, fmt.Sprintf("crashat %d", g.Intn(1000)), genOpen(g))
		case x >= 104:
			// shape: a synced key is re-written (pending) and deleted before the next sync
			r.Hit("shape:overwrite-pending-then-delete")
			k := key()
			lines = append(lines, "put "+k+" "+hexOf(genValue(g, &big)), "sync", "put "+k+" "+hexOf(genValue(g, &big)), "del "+k)
			switch g.Intn(3) {
			case 0:
				lines = append(lines, "sync")
			case 1:
				lines = append(lines, "close", genOpen(g))
			}
			lines = append(lines, "get "+k)
		case x >= 100:
			// shape: drain the store to empty (values > 24 bytes: the sync after the last delete defragments
			// automatically), refill it in the same process, reopen
			r.Hit("shape:drain-to-empty-then-refill")
			for _, k := range keys {
				lines = append(lines, "put "+itoa(k)+" "+hexOf(g.Bytes(25+g.Intn(40))))
			}
			if g.Bool() {
				lines = append(lines, "sync")
			}
			for _, k := range keys {
				lines = append(lines, "del "+itoa(k))
			}
			lines = append(lines, []string{"sync", "sync", "defrag 1", "defrag 0"}[g.Intn(4)])
			for j := 0; j < 1+g.Intn(3); j++ {
				lines = append(lines, "put "+key()+" "+hexOf(g.Bytes(25+g.Intn(40))))
			}
			if g.Bool() {
				lines = append(lines, "sync", "put "+key()+" "+hexOf(g.Bytes(25+g.Intn(40))))
			}
			lines = append(lines, "close", genOpen(g))
			for _, k := range keys {
				lines = append(lines, "get "+itoa(k))
			}
		case x < 30:
			lines = append(lines, "put "+key()+" "+hexOf(genValue(g, &big)))
		case x < 40:
			lines = append(lines, fmt.Sprintf("putext %s %s %d", key(), hexOf(genValue(g, &big)), genFlags(g, false)))
		case x < 55:
			lines = append(lines, "del "+key())
		case x < 63:
			lines = append(lines, "get "+key())
		case x < 71:
			op := "browse"
			if g.Chance(1, 4) {
				op = "browseall"
			}
			lines = append(lines, op+" "+genWalk(g, keys))
		case x < 76:
			lines = append(lines, fmt.Sprintf("flags %s %d", key(), genFlags(g, false)))
		case x < 82:
			lines = append(lines, fmt.Sprintf("defrag %d", g.Intn(2)))
		case x < 88:
			lines = append(lines, "sync")
		case x < 91:
			lines = append(lines, "nosync")
		default:
			lines = append(lines, "close", genOpen(g))
		}
	}
	if g.Bool() {
		lines = append(lines, "close", "open 0 1 "+defOpts)
		for _, k := range keys {
			lines = append(lines, "get "+itoa(k))
		}
	}
	if sparse {
		lines = append(lines, "peek")
	}
	return caseT{Name: fmt.Sprintf("gen-%d", idx), Snap: true, Lines: lines, Sparse: sparse}
}

// genFlags: a flag word for PutExt / ApplyFlags / a walk result. Mostly the meaningful bits (NO_BROWSE 1, NO_CACHE 2,
// YES_CACHE 8, YES_BROWSE 16 and their combinations), sometimes any other 32-bit word: the bit of value 4 alone and with NO_CACHE
// (4, 6), the top bit, all ones, random words. With walk = true the bit of value 4 (BR_ABORT) is left out: genWalk / abortWord
// put it in on purpose, so that the histogram knows about it.
func genFlags(g *vlib.Rng, walk bool) uint32 {
	var f uint32
	switch x := g.Intn(10); {
	case x < 6:
		f = uint32(g.Pick(0, 1, 2, 3, 8, 16, 24, 17, 10, 18, 9))
	case x < 8:
		f = []uint32{4, 6, 5, 7, 0x80000000, 0x80000002, 0xFFFFFFFF, 0xFFFFFFFD, 0xFFFFFFFE, 0x7FFFFFE4, 32, 0x100}[g.Intn(12)]
		r.Hit("flags:beyond-the-meaningful-bits")
	default:
		f = uint32(g.U64())
		r.Hit("flags:random-32-bit-word")
	}
	if walk {
		f &^= 4
	}
	return f
}

// abortWord: a walk answer that carries BR_ABORT, mostly together with bits that change the record's flags.
func abortWord(g *vlib.Rng) uint32 {
	f := genFlags(g, true) | 4
	if f&27 != 0 {
		r.Hit("walk:BR_ABORT-with-flag-change")
	} else {
		r.Hit("walk:BR_ABORT-bare")
	}
	return f
}

// genWalk: a walk function as k:answer,… over some of the case's keys ("-" = answers 0 everywhere). One walk in three
// answers BR_ABORT somewhere — for one key, for several, or for all listed keys (the browse then stops at whichever
// record Go's map iteration presents first) — in any combination with the flag-changing bits.
func genWalk(g *vlib.Rng, keys []uint64) string {
	if g.Chance(1, 3) {
		return "-"
	}
	n := 1 + g.Intn(2)
	abort := g.Intn(3) == 0
	if abort && g.Bool() {
		n = 1 + g.Intn(len(keys))
	}
	allAbort := abort && g.Chance(1, 3)
	var ps []string
	seen := map[uint64]bool{}
	for j := 0; j < n; j++ {
		k := keys[g.Intn(len(keys))]
		if seen[k] {
			continue
		}
		seen[k] = true
		f := genFlags(g, true)
		if abort && (allAbort || len(ps) == 0 || g.Chance(1, 3)) {
			f = abortWord(g)
		}
		ps = append(ps, fmt.Sprintf("%d:%d", k, f))
	}
	return strings.Join(ps, ",")
}

// bare BR_ABORT at every record of a fresh store: the walk function aborts at the first record — checked against the Go map only
// (BR_ABORT inside histories, combined with flag answers, compared with the model too: genWalk, genCase, corpus).
func abortStream(g *vlib.Rng, n int) {
	for i := 0; i < n && r.Violations() == 0; i++ {
		if W.dead {
			fresh(&W)
		}
		W.ask("reset")
		W.ask("snap 0")
		W.ask("open 0 1 " + defOpts)
		m := map[uint64]string{}
		var ws []string
		for j := 0; j < 1+g.Intn(5); j++ {
			k := keyPool[g.Intn(len(keyPool))]
			v := g.Bytes(g.Intn(20))
			W.ask("put " + itoa(k) + " " + hexOf(v))
			if _, dup := m[k]; !dup {
				ws = append(ws, itoa(k)+":4")
			}
			m[k] = sig(v)
		}
		line := "browse " + strings.Join(ws, ",")
		rep, alive := W.ask(line)
		r.Eval("br_abort", "")
		res, _ := splitRes(rep)
		got, ok := parseKV(res)
		bad := ""
		if !alive || !ok || len(got) != 1 {
			bad = fmt.Sprintf("Browse with BR_ABORT visited %q (want exactly one record)", short(res))
		}
		for k, s := range got {
			if m[k] != s {
				bad = fmt.Sprintf("Browse with BR_ABORT gave %s for key %d", s, k)
			}
		}
		if bad != "" {
			propFail("prop:br_abort", bad, caseT{Name: "br_abort", Lines: []string{"open 0 1 " + defOpts, line}})
		}
		W.ask("close")
	}
}

// ---------------------------------------------------------------- concurrent use
// genParCase: a history in which the store is used by several goroutines at the same moment (`par`: one call per
// goroutine, released together — worker.go). The calls of one batch commute (Gets / Counts / ApplyFlags next to each other;
// Put / Del / ApplyFlags only on keys no other call of the batch names, and then no Count), so the schedule cannot be seen
// in a map guarded by one lock: every reply and the state after the batch are those of the listed order. Between the
// batches the records are pushed out of memory in every way the store has (NO_CACHE records after sync / defrag / a browse,
// a reopen with LoadData=false), because a call that finds its record in memory touches neither the data files nor the
// shared file table; values are mostly large so that concurrent loads overlap. Default options throughout: no automatic
// sync can fall inside a batch (which call triggers it would depend on the schedule).
const maxPar = 12

func genParCase(g *vlib.Rng, idx int) caseT {
	perm := permOf(g, len(keyPool))
	nk := 4 + g.Intn(6)
	keys := make([]uint64, nk)
	for i := range keys {
		keys[i] = keyPool[perm[i]]
	}
	sizeClass := g.Intn(4) // 0,1: 16..64 KiB   2: mixed   3: small
	value := func() []byte {
		switch {
		case sizeClass <= 1 || (sizeClass == 2 && g.Bool()):
			return pat(g.Pick(65536, 65535, 40000, 16384, 32768, 65536), byte(1+g.Intn(255)))
		case sizeClass == 2:
			return g.Bytes(100 + g.Intn(4900))
		}
		return g.Bytes(g.Intn(64))
	}
	vol := 0
	if g.Chance(1, 8) {
		vol = 1
	}
	open := func(load int) string { return fmt.Sprintf("open %d %d %s", vol, load, defOpts) }
	lines := []string{open(g.Pick(1, 1, 0))}
	live := map[uint64]bool{}
	for _, k := range keys {
		if g.Chance(7, 8) {
			lines = append(lines, fmt.Sprintf("putext %d %s %d", k, hexOf(value()), g.Pick(2, 2, 2, 3, 0)))
			live[k] = true
		}
	}
	first := true
	unload := func() {
		reflag := func() {
			// (a Get answers with YES_CACHE: the records are flagged NO_CACHE again, after a sync so that they are on disk)
			lines = append(lines, "sync")
			for _, k := range keys {
				if live[k] && g.Chance(9, 10) {
					lines = append(lines, fmt.Sprintf("flags %d %d", k, g.Pick(2, 2, 2, 3, 18)))
				}
			}
		}
		switch x := g.Intn(10); {
		case x < 3 && first:
			lines = append(lines, "sync") // sync() drops the NO_CACHE records it has just written
		case x < 5:
			lines = append(lines, "close", open(0))
			r.Hit("par:after-lazy-open")
		case x < 7:
			reflag()
			lines = append(lines, "defrag 1") // defrag() releases every record (freerec)
		default:
			reflag()
			lines = append(lines, []string{"browseall -", "browseall -", "browse -"}[g.Intn(3)]) // so does a browse
		}
		first = false
		// mostly one ordinary Get first: it opens the data file, so that the concurrent loads which follow find it in the
		// store's table of open files and share the descriptor (without it every load opens the file itself and the
		// goroutines meet in that table instead)
		if g.Chance(3, 4) {
			lines = append(lines, "get "+itoa(keys[g.Intn(nk)]))
			r.Hit("par:data-file-already-open")
		}
	}
	unload()
	rounds := 3 + g.Intn(4)
	for rd := 0; rd < rounds; rd++ {
		var items []string
		p2 := permOf(g, nk)
		if g.Chance(2, 3) {
			// lookups only: Get of (nearly) every key — by one, two or three goroutines each (Gets of one key commute as
			// well) —, a few Counts
			// (at most maxPar goroutines: they spin until all of them run, which needs a processor each)
			dup := g.Pick(1, 2, 2, 3)
			for d := 0; d < dup; d++ {
				for _, j := range permOf(g, nk) {
					if g.Chance(9, 10) && len(items) < maxPar {
						items = append(items, "g"+itoa(keys[j]))
					}
				}
			}
			for c := g.Intn(3); c > 0 && len(items) < maxPar; c-- {
				items = append(items, "c")
			}
			r.Hit("par:lookups-only")
		} else {
			for _, j := range p2 {
				k := keys[j]
				switch x := g.Intn(10); {
				case x < 5:
					items = append(items, "g"+itoa(k))
				case x < 7:
					items = append(items, fmt.Sprintf("f%d:%d", k, g.Pick(2, 8, 1, 16, 3, 0)))
				case x < 9:
					items = append(items, fmt.Sprintf("p%d:%s", k, hexOf(value())))
					live[k] = true
				default:
					items = append(items, "d"+itoa(k))
					delete(live, k)
				}
			}
			r.Hit("par:lookups-and-updates")
		}
		if len(items) < 2 {
			items = append(items, "g"+itoa(keys[0]), "g"+itoa(keys[1]))
		}
		lines = append(lines, "par "+strings.Join(items, ","))
		// what the batch left behind is observed by ordinary calls (a wrong value stays cached) …
		switch g.Intn(4) {
		case 0:
			lines = append(lines, "peek")
		case 1:
			lines = append(lines, "get "+itoa(keys[g.Intn(nk)]), "browse -")
		}
		// … and the records are pushed out of memory again
		if rd+1 < rounds {
			unload()
		}
	}
	lines = append(lines, "close", "open 0 1 "+defOpts)
	for _, k := range keys {
		lines = append(lines, "get "+itoa(k))
	}
	lines = append(lines, "peek")
	return caseT{Name: fmt.Sprintf("par-%d", idx), Snap: false, Lines: lines, Sparse: true}
}

func permOf(g *vlib.Rng, n int) []int {
	p := make([]int, n)
	for i := range p {
		p[i] = i
	}
	for i := n - 1; i > 0; i-- {
		j := g.Intn(i + 1)
		p[i], p[j] = p[j], p[i]
	}
	return p
}
