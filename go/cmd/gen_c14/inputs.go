package main

// inputs.go — two structural facts about what make_wallet's generations share inside one process (wallet/*.go),
// regenerated on every run into Gen/WalletInputFacts.lean:
//
//   seedPrefixOtherUses  every mention of the package variable `secret_seed` (the seed= value of wallet.cfg) that is
//                        NOT one of: its declaration, the left side of a plain assignment, the argument of len(), the
//                        SOURCE argument of copy(), a comparison with nil. Anything else (append(secret_seed, ..),
//                        a slice of it, handing it to a function, returning it) may let a buffer that make_wallet
//                        wipes share memory with the configured prefix - then the second generation of a
//                        `-sign .. -send ..` run starts from other bytes. Syntactic: shadowing locals of the same name
//                        are flagged too.
//   segwitParallelToKeys the list `segwit` is assigned as a whole only by `segwit = make(<type>, len(keys))`, no
//                        append(segwit, ..) exists, and every element assignment `segwit[i] = ..` sits in a
//                        `for i, .. := range keys` loop over the same index: slot i belongs to keys[i], a key without
//                        a segwit address leaves its slot nil.

import (
	"fmt"
	"go/ast"
	"go/parser"
	"go/token"
	"path/filepath"
	"sort"
	"strings"

	"verif/vtrans"
)

func genInputFacts() {
	dir := vtrans.RepoRoot() + "/wallet"
	names, err := filepath.Glob(dir + "/*.go")
	if err != nil || len(names) == 0 {
		die(fmt.Errorf("wallet/*.go: no source files"))
	}
	sort.Strings(names)
	fset := token.NewFileSet()
	var other []string
	parallel, sawMake, sawElem := true, false, false
	isId := func(e ast.Expr, name string) bool {
		id, ok := e.(*ast.Ident)
		return ok && id.Name == name
	}
	for _, n := range names {
		if strings.HasSuffix(n, "_test.go") {
			continue
		}
		f, err := parser.ParseFile(fset, n, nil, 0)
		if err != nil {
			die(err)
		}
		for _, d := range f.Decls {
			fd, ok := d.(*ast.FuncDecl)
			if !ok || fd.Body == nil {
				continue
			}
			// ---- secret_seed: collect the allowed mentions, then flag every other one
			allowed := map[*ast.Ident]bool{}
			ast.Inspect(fd.Body, func(x ast.Node) bool {
				switch v := x.(type) {
				case *ast.AssignStmt:
					if v.Tok == token.ASSIGN {
						for _, l := range v.Lhs {
							if id, ok := l.(*ast.Ident); ok && id.Name == "secret_seed" {
								allowed[id] = true
							}
						}
					}
				case *ast.CallExpr:
					if isId(v.Fun, "len") && len(v.Args) == 1 {
						if id, ok := v.Args[0].(*ast.Ident); ok && id.Name == "secret_seed" {
							allowed[id] = true
						}
					}
					if isId(v.Fun, "copy") && len(v.Args) == 2 {
						if id, ok := v.Args[1].(*ast.Ident); ok && id.Name == "secret_seed" {
							allowed[id] = true
						}
					}
				case *ast.BinaryExpr:
					if v.Op == token.EQL || v.Op == token.NEQ {
						for _, p := range [][2]ast.Expr{{v.X, v.Y}, {v.Y, v.X}} {
							if id, ok := p[0].(*ast.Ident); ok && id.Name == "secret_seed" && isId(p[1], "nil") {
								allowed[id] = true
							}
						}
					}
				}
				return true
			})
			ast.Inspect(fd.Body, func(x ast.Node) bool {
				if id, ok := x.(*ast.Ident); ok && id.Name == "secret_seed" && !allowed[id] {
					other = append(other, fmt.Sprintf("%s (%s:%d)", fd.Name.Name, filepath.Base(n), fset.Position(id.Pos()).Line))
				}
				return true
			})
			// ---- segwit: whole-list assignments, appends, element assignments with their enclosing range loops
			var loops []*ast.RangeStmt
			var walk func(x ast.Node)
			walk = func(x ast.Node) {
				ast.Inspect(x, func(y ast.Node) bool {
					switch v := y.(type) {
					case *ast.RangeStmt:
						if v != x {
							loops = append(loops, v)
							walk(v.Body)
							loops = loops[:len(loops)-1]
							return false
						}
					case *ast.CallExpr:
						if isId(v.Fun, "append") && len(v.Args) > 0 && isId(v.Args[0], "segwit") {
							parallel = false
						}
					case *ast.AssignStmt:
						for i, l := range v.Lhs {
							if isId(l, "segwit") {
								okMake := false
								if v.Tok == token.ASSIGN && len(v.Lhs) == len(v.Rhs) {
									if c, ok := v.Rhs[i].(*ast.CallExpr); ok && isId(c.Fun, "make") && len(c.Args) == 2 {
										if lc, ok := c.Args[1].(*ast.CallExpr); ok && isId(lc.Fun, "len") && len(lc.Args) == 1 && isId(lc.Args[0], "keys") {
											okMake = true
										}
									}
								}
								if okMake {
									sawMake = true
								} else {
									parallel = false
								}
							}
							if ix, ok := l.(*ast.IndexExpr); ok && isId(ix.X, "segwit") {
								sawElem = true
								in := false
								if id, ok := ix.Index.(*ast.Ident); ok {
									for _, lp := range loops {
										if isId(lp.X, "keys") && lp.Key != nil && isId(lp.Key, id.Name) {
											in = true
										}
									}
								}
								if !in {
									parallel = false
								}
							}
						}
					}
					return true
				})
			}
			walk(fd.Body)
		}
	}
	if !sawMake || !sawElem {
		parallel = false
	}
	sort.Strings(other)
	q := make([]string, len(other))
	for i, x := range other {
		q[i] = fmt.Sprintf("%q", x)
	}
	var sb strings.Builder
	sb.WriteString("/- GENERATED by go/cmd/gen_c14 (inputs.go) from wallet/*.go — do not edit; not in git. -/\n")
	sb.WriteString("namespace GocoinV.Gen.WalletInputFacts\n\n")
	fmt.Fprintf(&sb, "/-- mentions of the configured seed prefix `secret_seed` other than declaration / plain assignment / len() / source of copy() / nil test: places where a buffer could come to share memory with it -/\ndef seedPrefixOtherUses : List String := [%s]\n", strings.Join(q, ", "))
	fmt.Fprintf(&sb, "/-- `segwit` is `make(.., len(keys))` and is filled slot by slot with the index of a range over keys (never appended to): segwit[i] belongs to keys[i] -/\ndef segwitParallelToKeys : Bool := %v\n", parallel)
	sb.WriteString("\nend GocoinV.Gen.WalletInputFacts\n")
	write("WalletInputFacts.lean", sb.String())
	facts += 2
}
