// store.go — OWNERSHIP facts about the wallet's key store (package main of <repo>/wallet), regenerated into
// lean/GocoinV/Gen/WalletKeyStoreFacts.lean. Model/WalletStore.lean states what a wallet invocation does with the
// records of `keys []*btc.PrivateAddr` between make_wallet() and the end of the process; the theorems about
// "the key the wallet later signs with" hold for a store whose records are written by nobody in between. That is a
// structural matter of the source (who holds a write to the bytes of a stored record), so it is read off the
// source on every run:
//
//	record expressions   keys[i]; range values over keys; results of package functions returning *btc.PrivateAddr
//	                     (address_to_key, hash_to_key, ...); struct fields of that type (unspRec.key); locals and
//	                     parameters declared with / assigned from those
//	key bytes            R.Key, slices of it, locals assigned from it, and a []byte handed to btc.NewPrivateAddr
//	                     (the record ALIASES it) from that call on
//	a write              assignment / op-assignment / ++ through such bytes or through `*R`; `append` with key bytes as its
//	                     FIRST argument; key bytes in a written position of a known writer (sys.ClearBuffer, copy dst,
//	                     rand.Read, io.ReadFull, btc.ShaHash / btc.RimpHash out ...); and — CONSERVATIVELY — key bytes or a
//	                     record handed to ANY callee that is neither on the allow-list of readers (`keyReaders`: EcdsaSign,
//	                     SchnorrSign, tx.Sign / SignWitness, VerifyKeyPair, hex.EncodeToString, bytes.Equal, fmt printing,
//	                     NewPrivateAddr ..., methods String / IsCompressed of a record) nor a function of this package whose
//	                     matching parameter is tracked (then its body is analysed, to a fixpoint): function literals,
//	                     closures, method values, unknown library functions, variadic / interface parameters all count as
//	                     writers. Key bytes also flow through `&x`, composite literals holding them, package functions that
//	                     return them (or return a []byte parameter), and a []byte handed to btc.NewPrivateAddr inside a loop
//	                     aliases the record from the START of the loop when it is declared outside it.
//	a process ender      last top-level statement is os.Exit(..) AND the body has no return statement
//
// Everything is syntactic (go/ast + the parser's own identifier resolution): no type checker is needed for a package this
// size, and the rules err on the side of reporting (a record-typed name stays record-typed for the whole function).
// NOT seen (the sessions of go/cmd/c14 are the only guard there): writes through reflection / unsafe / cgo, writes made
// INSIDE an allow-listed reader or any function of another package after an edit THERE (lib/btc, lib/secp256k1 are not
// read here), key bytes smuggled through a channel, a map, a struct field of a non-record type or a package variable
// of type []byte, and goroutines writing after the operation returned.
package main

import (
	"fmt"
	"go/ast"
	"go/parser"
	"go/token"
	"os"
	"path/filepath"
	"regexp"
	"sort"
	"strings"

	"verif/vtrans"
)

var reWipeName = regexp.MustCompile(`(?i)(clear|wipe|zero|fill|erase|scrub|reset|shred|burn)`)

// written positions of known external writers
var extWriters = map[string][]int{
	"sys.ClearBuffer": {0}, "copy": {0}, "rand.Read": {0}, "io.ReadFull": {1}, "io.ReadAtLeast": {1},
	"btc.ShaHash": {1}, "btc.RimpHash": {1}, "binary.LittleEndian.PutUint32": {0}, "binary.LittleEndian.PutUint64": {0},
	"binary.BigEndian.PutUint32": {0}, "binary.BigEndian.PutUint64": {0},
}

// callees that may receive key bytes / a record and only READ them (everything not listed and not analysable is a writer)
var keyReaders = map[string]bool{
	"btc.EcdsaSign": true, "secp256k1.SchnorrSign": true, "btc.VerifyKeyPair": true, "btc.NewPrivateAddr": true,
	"hex.EncodeToString": true, "bytes.Equal": true, "bytes.Compare": true, "len": true, "cap": true, "string": true,
	"fmt.Println": true, "fmt.Print": true, "fmt.Printf": true, "fmt.Sprint": true, "fmt.Sprintf": true, "fmt.Sprintln": true,
	"fmt.Fprintln": true, "fmt.Fprint": true, "fmt.Fprintf": true, "println": true, "print": true,
	"tx.Sign": true, "tx.SignWitness": true, "btc.PublicFromPrivate": true, "new": true,
}

// methods (of *btc.Tx) that take the key bytes as their last argument and only read them
var readerMethodNames = map[string]bool{"Sign": true, "SignWitness": true}

// methods of a record (*btc.PrivateAddr, embedded *btc.BtcAddr) that only read it
var recReaderMethods = map[string]bool{"String": true, "IsCompressed": true, "OutScript": true}

type storeFn struct {
	retKey   bool         // returns (an alias of) the key bytes of a stored record / of a record parameter
	retByt   map[int]bool // returns (an alias of) its []byte parameter i
	variadic bool
	name     string
	decl     *ast.FuncDecl
	recP     map[int]string // parameter index -> name, for parameters of type *btc.PrivateAddr
	bytP     map[int]string // parameter index -> name, for parameters of type []byte
	wrRec    map[int]bool   // record parameters whose key this function writes
	wrByt    map[int]bool   // []byte parameters this function writes
	wrKey    bool           // holds a write to the key bytes of a stored record (direct, or through a package helper's parameter)
	how      []string
	calls    map[string]bool
	ender    bool
}

func typeStr(e ast.Expr) string {
	switch t := e.(type) {
	case *ast.Ident:
		return t.Name
	case *ast.StarExpr:
		return "*" + typeStr(t.X)
	case *ast.SelectorExpr:
		return typeStr(t.X) + "." + t.Sel.Name
	case *ast.ArrayType:
		if t.Len == nil {
			return "[]" + typeStr(t.Elt)
		}
		return "[n]" + typeStr(t.Elt)
	}
	return "?"
}

func exprStr(fset *token.FileSet, e ast.Expr) string {
	k, err := vtrans.Key(e)
	if err == nil {
		return k
	}
	switch t := e.(type) {
	case *ast.IndexExpr:
		return exprStr(fset, t.X) + "[..]"
	case *ast.SliceExpr:
		return exprStr(fset, t.X) + "[:]"
	case *ast.SelectorExpr:
		return exprStr(fset, t.X) + "." + t.Sel.Name
	case *ast.CallExpr:
		return exprStr(fset, t.Fun) + "(..)"
	case *ast.ParenExpr:
		return exprStr(fset, t.X)
	case *ast.StarExpr:
		return "*" + exprStr(fset, t.X)
	}
	return "<expr>"
}

func genStoreFacts() {
	dir := vtrans.RepoRoot() + "/wallet"
	names, err := filepath.Glob(dir + "/*.go")
	if err != nil || len(names) == 0 {
		die(fmt.Errorf("wallet/*.go: no source files"))
	}
	sort.Strings(names)
	fset := token.NewFileSet()
	var files []*ast.File
	for _, n := range names {
		if strings.HasSuffix(n, "_test.go") {
			continue
		}
		f, err := parser.ParseFile(fset, n, nil, 0)
		if err != nil {
			die(err)
		}
		files = append(files, f)
	}
	const recT = "*btc.PrivateAddr"
	// package-level: the store variable(s), record-returning functions, record fields
	storeVars := map[string]bool{}
	recFields := map[string]bool{}
	recFuncs := map[string]bool{"btc.NewPrivateAddr": true, "btc.DecodePrivateAddr": true}
	fns := map[string]*storeFn{}
	var order []string
	for _, f := range files {
		for _, d := range f.Decls {
			switch x := d.(type) {
			case *ast.GenDecl:
				for _, sp := range x.Specs {
					switch s := sp.(type) {
					case *ast.ValueSpec:
						if s.Type != nil && typeStr(s.Type) == "[]"+recT {
							for _, n := range s.Names {
								storeVars[n.Name] = true
							}
						}
					case *ast.TypeSpec:
						if st, ok := s.Type.(*ast.StructType); ok {
							for _, fl := range st.Fields.List {
								if typeStr(fl.Type) == recT {
									for _, n := range fl.Names {
										recFields[n.Name] = true
									}
								}
							}
						}
					}
				}
			case *ast.FuncDecl:
				if x.Body == nil {
					continue
				}
				name := x.Name.Name
				if x.Recv != nil && len(x.Recv.List) == 1 {
					name = strings.TrimPrefix(typeStr(x.Recv.List[0].Type), "*") + "." + name
				}
				sf := &storeFn{name: name, decl: x, recP: map[int]string{}, bytP: map[int]string{}, wrRec: map[int]bool{}, wrByt: map[int]bool{}, retByt: map[int]bool{}, calls: map[string]bool{}}
				if n := len(x.Type.Params.List); n > 0 {
					if _, ok := x.Type.Params.List[n-1].Type.(*ast.Ellipsis); ok {
						sf.variadic = true
					}
				}
				i := 0
				for _, p := range x.Type.Params.List {
					ns := p.Names
					if len(ns) == 0 {
						i++
						continue
					}
					for _, n := range ns {
						switch typeStr(p.Type) {
						case recT:
							sf.recP[i] = n.Name
						case "[]byte":
							sf.bytP[i] = n.Name
						}
						i++
					}
				}
				if x.Type.Results != nil && len(x.Type.Results.List) >= 1 && typeStr(x.Type.Results.List[0].Type) == recT {
					recFuncs[name] = true
				}
				// a process ender: the last top-level statement is os.Exit(...) and there is no return statement
				if n := len(x.Body.List); n > 0 {
					if es, ok := x.Body.List[n-1].(*ast.ExprStmt); ok {
						if c, ok := es.X.(*ast.CallExpr); ok {
							if k, _ := vtrans.Key(c.Fun); k == "os.Exit" {
								sf.ender = true
								// ... on EVERY path: a body with a return statement can come back to its caller
								ast.Inspect(x.Body, func(n ast.Node) bool {
									if _, ok := n.(*ast.ReturnStmt); ok {
										sf.ender = false
									}
									return true
								})
							}
						}
					}
				}
				fns[name] = sf
				order = append(order, name)
			}
		}
	}
	if !storeVars["keys"] {
		die(fmt.Errorf("wallet: package variable `keys []*btc.PrivateAddr` not found"))
	}
	sort.Strings(order)

	// ---- per function: record-typed names, key-byte names, writes
	keysAssigners := map[string]bool{}
	appendsOnly := true
	analyse := func(sf *storeFn) (changed bool) {
		recIds := map[string]bool{}
		keyIds := map[string]token.Pos{} // name -> from which position on it aliases the key bytes of a record
		parIdx := map[string]int{}
		for i, n := range sf.recP {
			recIds[n] = true
			parIdx[n] = i
		}
		bytIdx := map[string]int{}
		for i, n := range sf.bytP {
			bytIdx[n] = i
		}
		var isRec func(e ast.Expr) bool
		isRec = func(e ast.Expr) bool {
			switch t := e.(type) {
			case *ast.ParenExpr:
				return isRec(t.X)
			case *ast.Ident:
				return recIds[t.Name]
			case *ast.IndexExpr:
				if id, ok := t.X.(*ast.Ident); ok && storeVars[id.Name] {
					return true
				}
			case *ast.SelectorExpr:
				return recFields[t.Sel.Name]
			case *ast.CallExpr:
				if k, err := vtrans.Key(t.Fun); err == nil && recFuncs[k] {
					return true
				}
			}
			return false
		}
		// key bytes: returns (is, the record expression printed, record-parameter index or -1, []byte parameter index or -1)
		var isKey func(e ast.Expr, at token.Pos) (bool, string, int, int)
		isKey = func(e ast.Expr, at token.Pos) (bool, string, int, int) {
			switch t := e.(type) {
			case *ast.ParenExpr:
				return isKey(t.X, at)
			case *ast.SliceExpr:
				return isKey(t.X, at)
			case *ast.IndexExpr:
				return isKey(t.X, at)
			case *ast.SelectorExpr:
				if t.Sel.Name == "Key" && isRec(t.X) {
					pi := -1
					if id, ok := t.X.(*ast.Ident); ok {
						if i, ok := parIdx[id.Name]; ok {
							pi = i
						}
					}
					return true, exprStr(fset, t), pi, -1
				}
			case *ast.StarExpr:
				return isKey(t.X, at)
			case *ast.UnaryExpr:
				if t.Op == token.AND {
					return isKey(t.X, at)
				}
			case *ast.CompositeLit:
				for _, el := range t.Elts {
					if kv, ok := el.(*ast.KeyValueExpr); ok {
						el = kv.Value
					}
					if ok, rs, _, _ := isKey(el, at); ok {
						return true, "{.. " + rs + " ..}", -1, -1
					}
				}
			case *ast.CallExpr:
				// a package function that returns key bytes, or returns the []byte parameter that is given key bytes here
				if k, err := vtrans.Key(t.Fun); err == nil {
					if callee, ok := fns[k]; ok {
						if callee.retKey {
							return true, k + "(..)", -1, -1
						}
						for i := range callee.retByt {
							if i < len(t.Args) {
								if ok, rs, _, _ := isKey(t.Args[i], at); ok {
									return true, k + "(" + rs + ")", -1, -1
								}
							}
						}
					}
				}
			case *ast.Ident:
				if from, ok := keyIds[t.Name]; ok && at >= from {
					return true, t.Name, -1, -1
				}
				if i, ok := bytIdx[t.Name]; ok {
					return false, t.Name, -1, i
				}
			}
			return false, "", -1, -1
		}
		// the loops of the body (for / range; a label that a later goto jumps back to counts as a loop up to that goto)
		var loops [][2]token.Pos
		labels := map[string]token.Pos{}
		ast.Inspect(sf.decl.Body, func(n ast.Node) bool {
			switch s := n.(type) {
			case *ast.ForStmt:
				loops = append(loops, [2]token.Pos{s.Pos(), s.End()})
			case *ast.RangeStmt:
				loops = append(loops, [2]token.Pos{s.Pos(), s.End()})
			case *ast.LabeledStmt:
				labels[s.Label.Name] = s.Pos()
			case *ast.BranchStmt:
				if s.Tok == token.GOTO && s.Label != nil {
					if lp, ok := labels[s.Label.Name]; ok && lp < s.Pos() {
						loops = append(loops, [2]token.Pos{lp, s.End()})
					}
				}
			}
			return true
		})
		// pass 1 (to a fixpoint): names
		for again := true; again; {
			again = false
			mark := func(lhs ast.Expr, rhs ast.Expr, pos token.Pos) {
				id, ok := lhs.(*ast.Ident)
				if !ok || id.Name == "_" {
					return
				}
				if isRec(rhs) && !recIds[id.Name] {
					recIds[id.Name] = true
					again = true
				}
				if ok, _, _, _ := isKey(rhs, pos); ok {
					if _, have := keyIds[id.Name]; !have {
						keyIds[id.Name] = pos
						again = true
					}
				}
			}
			ast.Inspect(sf.decl.Body, func(n ast.Node) bool {
				switch s := n.(type) {
				case *ast.AssignStmt:
					if len(s.Lhs) == len(s.Rhs) {
						for i := range s.Lhs {
							mark(s.Lhs[i], s.Rhs[i], s.Pos())
						}
					} else if len(s.Rhs) == 1 && len(s.Lhs) >= 1 {
						mark(s.Lhs[0], s.Rhs[0], s.Pos()) // rec, er := btc.DecodePrivateAddr(..)
					}
				case *ast.DeclStmt:
					if gd, ok := s.Decl.(*ast.GenDecl); ok {
						for _, sp := range gd.Specs {
							if vs, ok := sp.(*ast.ValueSpec); ok {
								for i, nm := range vs.Names {
									if vs.Type != nil && typeStr(vs.Type) == recT && !recIds[nm.Name] {
										recIds[nm.Name] = true
										again = true
									}
									if i < len(vs.Values) {
										mark(nm, vs.Values[i], vs.Pos())
									}
								}
							}
						}
					}
				case *ast.RangeStmt:
					// ranging over something that holds key bytes (a [][]byte built from them): the value aliases them
					if v, ok := s.Value.(*ast.Ident); ok && s.Value != nil {
						if ok, _, _, _ := isKey(s.X, s.Pos()); ok {
							if _, have := keyIds[v.Name]; !have {
								keyIds[v.Name] = s.Pos()
								again = true
							}
						}
					}
					if id, ok := s.X.(*ast.Ident); ok && storeVars[id.Name] && s.Value != nil {
						if v, ok := s.Value.(*ast.Ident); ok && !recIds[v.Name] {
							recIds[v.Name] = true
							again = true
						}
					}
				case *ast.CallExpr:
					// btc.NewPrivateAddr(x, ..): the new record's Key IS x
					if k, err := vtrans.Key(s.Fun); err == nil && k == "btc.NewPrivateAddr" && len(s.Args) > 0 {
						if id, ok := s.Args[0].(*ast.Ident); ok {
							// ... from the call on; from the START of the outermost enclosing loop that does not
							// contain the buffer's declaration (a buffer shared by the iterations is written while
							// the previous iteration's record still aliases it)
							from := s.End()
							var decl token.Pos
							if id.Obj != nil {
								decl = id.Obj.Pos()
							}
							for _, lp := range loops {
								if lp[0] <= s.Pos() && s.End() <= lp[1] && !(lp[0] <= decl && decl <= lp[1]) && lp[0] < from {
									from = lp[0]
								}
							}
							if old, have := keyIds[id.Name]; !have || from < old {
								keyIds[id.Name] = from
								again = true
							}
						}
					}
				}
				return true
			})
		}
		// pass 2: writes
		note := func(what string) {
			for _, h := range sf.how {
				if h == what {
					return
				}
			}
			sf.how = append(sf.how, what)
		}
		hit := func(e ast.Expr, at token.Pos, via string) {
			ok, rs, pi, bi := isKey(e, at)
			if ok {
				if pi >= 0 { // the key of a record PARAMETER: the caller's record
					if !sf.wrRec[pi] {
						sf.wrRec[pi] = true
						changed = true
					}
				}
				if !sf.wrKey {
					changed = true
				}
				sf.wrKey = true
				note(via + " " + rs)
			} else if bi >= 0 {
				if !sf.wrByt[bi] {
					sf.wrByt[bi] = true
					changed = true
				}
			}
		}
		ast.Inspect(sf.decl.Body, func(n ast.Node) bool {
			switch s := n.(type) {
			case *ast.AssignStmt:
				for _, l := range s.Lhs {
					switch lt := l.(type) {
					case *ast.IndexExpr, *ast.SelectorExpr, *ast.SliceExpr:
						hit(l, s.Pos(), "assignment to")
					case *ast.StarExpr:
						hit(l, s.Pos(), "assignment through")
						if isRec(lt.X) { // *R = btc.PrivateAddr{..}: the whole stored record replaced in place
							if !sf.wrKey {
								changed = true
							}
							sf.wrKey = true
							note("assignment to *" + exprStr(fset, lt.X))
							if id, ok := lt.X.(*ast.Ident); ok {
								if pi, ok := parIdx[id.Name]; ok && !sf.wrRec[pi] {
									sf.wrRec[pi] = true
									changed = true
								}
							}
						}
					}
					// the store variable itself
					if id, ok := l.(*ast.Ident); ok && storeVars[id.Name] {
						keysAssigners[sf.name] = true
						isApp := false
						if len(s.Rhs) == len(s.Lhs) {
							for i := range s.Lhs {
								if s.Lhs[i] == l {
									if c, ok := s.Rhs[i].(*ast.CallExpr); ok && len(c.Args) >= 2 {
										f, _ := c.Fun.(*ast.Ident)
										a0, _ := c.Args[0].(*ast.Ident)
										if f != nil && f.Name == "append" && a0 != nil && a0.Name == id.Name && !c.Ellipsis.IsValid() {
											isApp = true
										}
									}
								}
							}
						}
						if !isApp {
							appendsOnly = false
						}
					}
					if ix, ok := l.(*ast.IndexExpr); ok {
						if id, ok := ix.X.(*ast.Ident); ok && storeVars[id.Name] {
							keysAssigners[sf.name] = true
							appendsOnly = false // keys[i] = ...: a record replaced in place
						}
					}
				}
			case *ast.ReturnStmt:
				for _, r := range s.Results {
					ok, _, _, bi := isKey(r, s.Pos())
					if ok && !sf.retKey {
						sf.retKey = true
						changed = true
					}
					if !ok && bi >= 0 && !sf.retByt[bi] {
						sf.retByt[bi] = true
						changed = true
					}
				}
			case *ast.IncDecStmt:
				hit(s.X, s.Pos(), "++/-- on")
			case *ast.CallExpr:
				k, err := vtrans.Key(s.Fun)
				if err != nil {
					k = exprStr(fset, s.Fun)
				}
				if _, ok := fns[k]; ok {
					sf.calls[k] = true
				}
				var pos []int
				if p, ok := extWriters[k]; ok {
					pos = p
				} else if callee, ok := fns[k]; ok {
					for i := range callee.wrByt {
						pos = append(pos, i)
					}
					// a package helper that writes the key of its record parameter, called with a stored record
					for i := range callee.wrRec {
						if i < len(s.Args) && isRec(s.Args[i]) {
							if !sf.wrKey {
								changed = true
							}
							sf.wrKey = true
							note(k + "(" + exprStr(fset, s.Args[i]) + ")")
							if id, ok := s.Args[i].(*ast.Ident); ok {
								if pi, ok := parIdx[id.Name]; ok && !sf.wrRec[pi] {
									sf.wrRec[pi] = true
									changed = true
								}
							}
						}
					}
				} else if base := k[strings.LastIndex(k, ".")+1:]; reWipeName.MatchString(base) {
					for i := range s.Args {
						pos = append(pos, i)
					}
				}
				for _, i := range pos {
					if i < len(s.Args) {
						hit(s.Args[i], s.Pos(), k+" on")
					}
				}
				// append(<key bytes>, ...) may write in place
				if k == "append" && len(s.Args) > 0 {
					hit(s.Args[0], s.Pos(), "append to")
				}
				// CONSERVATIVE: key bytes / a record handed to a callee that is neither a known reader nor analysable
				_, isExt := extWriters[k]
				callee, isPkg := fns[k]
				if _, lit := s.Fun.(*ast.FuncLit); lit {
					isPkg, isExt = false, false
				}
				flag := func(e ast.Expr, what string) {
					ok, rs, pi, bi := isKey(e, s.Pos())
					rec := isRec(e)
					if !ok && !rec && bi < 0 {
						return
					}
					if !ok && !rec { // a plain []byte parameter of this function handed on: written if the callee is unknown
						if !sf.wrByt[bi] {
							sf.wrByt[bi] = true
							changed = true
						}
						return
					}
					if rec {
						rs = exprStr(fset, e)
						if id, ok := e.(*ast.Ident); ok {
							if i, ok := parIdx[id.Name]; ok {
								pi = i
							}
						}
					}
					if pi >= 0 && !sf.wrRec[pi] {
						sf.wrRec[pi] = true
						changed = true
					}
					if !sf.wrKey {
						changed = true
					}
					sf.wrKey = true
					note(what + " " + rs)
				}
				reader := keyReaders[k]
				if dot := strings.LastIndex(k, "."); dot > 0 && !isPkg && readerMethodNames[k[dot+1:]] {
					reader = true // (*btc.Tx).Sign / SignWitness whatever the transaction variable is called
				}
				if !isExt && !reader && k != "append" && k != "copy" {
					for i, a := range s.Args {
						if isPkg && !callee.variadic {
							if _, t1 := callee.recP[i]; t1 {
								continue
							}
							if _, t2 := callee.bytP[i]; t2 {
								continue
							}
						}
						flag(a, "call of "+k+" (not a known reader) with")
					}
					// a method called ON a record
					if sel, ok := s.Fun.(*ast.SelectorExpr); ok && isRec(sel.X) && !recReaderMethods[sel.Sel.Name] {
						flag(sel.X, "method "+sel.Sel.Name+" (not a known reader) of")
					}
				}
			}
			return true
		})
		return changed
	}
	for round := 0; ; round++ {
		ch := false
		for _, n := range order {
			if analyse(fns[n]) {
				ch = true
			}
		}
		if !ch || round > 20 {
			break
		}
	}
	// ---- who can reach a write that the process survives
	var direct, enders, live []string
	liveSet := map[string]bool{}
	for _, n := range order {
		sf := fns[n]
		if sf.ender {
			enders = append(enders, n)
		}
		if sf.wrKey {
			direct = append(direct, n)
			if !sf.ender {
				liveSet[n] = true
			}
		}
	}
	for ch := true; ch; {
		ch = false
		for _, n := range order {
			if liveSet[n] {
				continue
			}
			for c := range fns[n].calls {
				if liveSet[c] && !fns[c].ender {
					liveSet[n] = true
					ch = true
				}
			}
		}
	}
	for _, n := range order {
		if liveSet[n] {
			live = append(live, n)
		}
	}
	var assigners []string
	for n := range keysAssigners {
		assigners = append(assigners, n)
	}
	sort.Strings(assigners)
	// the lookups the signer uses return the FIRST match: `for i := range keys { if ... { return i } }`
	firstMatch := true
	for _, fn := range []string{"hash_to_key_idx", "pubhash_to_key_idx", "scripthash_to_key_idx", "public_to_key_idx", "public_xo_to_key_idx"} {
		sf := fns[fn]
		okShape := false
		if sf != nil && len(sf.decl.Body.List) == 2 {
			if rs, ok := sf.decl.Body.List[0].(*ast.RangeStmt); ok && rs.Value == nil {
				if id, ok := rs.X.(*ast.Ident); ok && storeVars[id.Name] {
					if key, ok := rs.Key.(*ast.Ident); ok {
						all := len(rs.Body.List) > 0
						for _, st := range rs.Body.List {
							ifs, ok := st.(*ast.IfStmt)
							if !ok || ifs.Else != nil || len(ifs.Body.List) != 1 {
								all = false
								break
							}
							ret, ok := ifs.Body.List[0].(*ast.ReturnStmt)
							if !ok || len(ret.Results) != 1 {
								all = false
								break
							}
							if r, ok := ret.Results[0].(*ast.Ident); !ok || r.Name != key.Name {
								all = false
							}
						}
						okShape = all
					}
				}
			}
		}
		if !okShape {
			firstMatch = false
		}
	}
	// pkscr_to_key_idx: a chain of `if len(scr) == N && .. { return <lookup>(..) }` — which lookup serves which script
	// length — and the lookups sign_tx calls (the model's scriptToKeyIdx mirrors exactly this dispatch)
	var dispatch []string
	if sf := fns["pkscr_to_key_idx"]; sf == nil {
		die(fmt.Errorf("wallet: pkscr_to_key_idx not found (the script lookup the store model mirrors)"))
	} else {
		for _, st := range sf.decl.Body.List {
			ifs, ok := st.(*ast.IfStmt)
			if !ok {
				continue
			}
			if ifs.Else != nil || ifs.Init != nil || len(ifs.Body.List) != 1 {
				die(fmt.Errorf("pkscr_to_key_idx: unexpected shape of an if statement"))
			}
			ret, ok := ifs.Body.List[0].(*ast.ReturnStmt)
			if !ok || len(ret.Results) != 1 {
				die(fmt.Errorf("pkscr_to_key_idx: an if body that is not a single return"))
			}
			call, ok := ret.Results[0].(*ast.CallExpr)
			if !ok {
				die(fmt.Errorf("pkscr_to_key_idx: a template that does not return a lookup call"))
			}
			callee, _ := vtrans.Key(call.Fun)
			// the conjuncts of the condition, printed: len(scr) == N and scr[i] == B
			var conj []string
			var walk func(e ast.Expr)
			walk = func(e ast.Expr) {
				if b, ok := e.(*ast.BinaryExpr); ok && b.Op == token.LAND {
					walk(b.X)
					walk(b.Y)
					return
				}
				b, ok := e.(*ast.BinaryExpr)
				if !ok || b.Op != token.EQL {
					die(fmt.Errorf("pkscr_to_key_idx: a template condition that is not a conjunction of equalities"))
				}
				l := exprStr(fset, b.X)
				if c, ok := b.X.(*ast.CallExpr); ok && len(c.Args) == 1 {
					l = exprStr(fset, c.Fun) + "(" + exprStr(fset, c.Args[0]) + ")"
				}
				r := exprStr(fset, b.Y)
				if v, err := vtrans.IntLit(b.Y); err == nil {
					r = fmt.Sprint(v)
				} else if r == "btc.OP_1" {
					r = "81"
				} else {
					die(fmt.Errorf("pkscr_to_key_idx: template byte %s is not a literal", r))
				}
				conj = append(conj, l+"="+r)
			}
			walk(ifs.Cond)
			arg := ""
			if len(call.Args) == 1 {
				if sl, ok := call.Args[0].(*ast.SliceExpr); ok {
					lo, hi := "", ""
					if sl.Low != nil {
						if v, err := vtrans.IntLit(sl.Low); err == nil {
							lo = fmt.Sprint(v)
						}
					}
					if sl.High != nil {
						if v, err := vtrans.IntLit(sl.High); err == nil {
							hi = fmt.Sprint(v)
						}
					}
					arg = exprStr(fset, sl.X) + "[" + lo + ":" + hi + "]"
				}
			}
			if arg == "" {
				die(fmt.Errorf("pkscr_to_key_idx: lookup argument is not a constant slice of the script"))
			}
			dispatch = append(dispatch, strings.Join(conj, " ")+" -> "+callee+" "+arg)
		}
	}
	signLookups := map[string]bool{}
	if sf := fns["sign_tx"]; sf == nil {
		die(fmt.Errorf("wallet: sign_tx not found"))
	} else {
		ast.Inspect(sf.decl.Body, func(n ast.Node) bool {
			if c, ok := n.(*ast.CallExpr); ok {
				if k, err := vtrans.Key(c.Fun); err == nil && strings.Contains(k, "_to_key") {
					signLookups[k] = true
				}
			}
			return true
		})
	}
	var signL []string
	for k := range signLookups {
		signL = append(signL, k)
	}
	sort.Strings(signL)
	lst := func(xs []string) string {
		q := make([]string, len(xs))
		for i, x := range xs {
			q[i] = fmt.Sprintf("%q", x)
		}
		return "[" + strings.Join(q, ", ") + "]"
	}
	var sb strings.Builder
	sb.WriteString("/- GENERATED by go/cmd/gen_c14 (store.go) from wallet/*.go — do not edit; not in git.\n")
	sb.WriteString("   Who writes the bytes of a private key that is stored in `keys []*btc.PrivateAddr`, and who changes the list.\n")
	for _, n := range direct {
		sb.WriteString("   " + n + ": " + strings.Join(fns[n].how, "; ") + "\n")
	}
	sb.WriteString("-/\nnamespace GocoinV.Gen.WalletKeyStoreFacts\n\n")
	fmt.Fprintf(&sb, "/-- functions of package wallet that hold a write to the key bytes of a stored record (sys.ClearBuffer, copy, assignment ... through `R.Key` for a record R reachable from keys[], directly or through a helper's parameter) -/\ndef keyWritersDirect : List String := %s\n", lst(direct))
	fmt.Fprintf(&sb, "/-- functions whose last top-level statement is os.Exit(..): the process does not survive a call -/\ndef processEnders : List String := %s\n", lst(enders))
	fmt.Fprintf(&sb, "/-- functions from which such a write is reachable (calls inside the package) and the process goes on afterwards -/\ndef keyWritersLive : List String := %s\n", lst(live))
	fmt.Fprintf(&sb, "/-- functions assigning the list `keys` itself -/\ndef keysAssigners : List String := %s\n", lst(assigners))
	fmt.Fprintf(&sb, "/-- every such assignment is `keys = append(keys, <one record>)`: records are only ever added at the end -/\ndef keysAssignsAreAppends : Bool := %v\n", appendsOnly)
	fmt.Fprintf(&sb, "/-- hash_to_key_idx / pubhash_to_key_idx / scripthash_to_key_idx / public_to_key_idx / public_xo_to_key_idx are `for i := range keys { if .. { return i } .. }; return -1` -/\ndef lookupsReturnFirstMatch : Bool := %v\n", firstMatch)
	fmt.Fprintf(&sb, "/-- pkscr_to_key_idx, template by template: the equalities of the condition -> the lookup called and the slice of the script it gets -/\ndef pkscrDispatch : List String := %s\n", lst(dispatch))
	fmt.Fprintf(&sb, "/-- the *_to_key* lookups sign_tx calls -/\ndef signTxLookups : List String := %s\n", lst(signL))
	sb.WriteString("\nend GocoinV.Gen.WalletKeyStoreFacts\n")
	write("WalletKeyStoreFacts.lean", sb.String())
	facts += 8
	if os.Getenv("VERIF_GEN_VERBOSE") != "" {
		fmt.Fprint(os.Stderr, sb.String())
	}
}
