package main

import (
	"fmt"
	"os"
	"sort"
	"strings"

	"github.com/piotrnar/gocoin/lib/btc"
	"verif/chainkit"
)

type corpusEntry struct {
	name         string
	alloc        bool
	thoroughOnly bool
	run          func(s *scen)
	opts         chainkit.Opts
	genesisBits  uint32 // != 0: written into the genesis node's header (see newScen) — branches with different bits
}

var corpusList []corpusEntry

// a fixed genesis time keeps block hashes (and with them every generator choice) a function of VERIF_SEED only
const fixedGenesisTime = 1700000000

func corpusByName(n string) *corpusEntry {
	for i := range corpusList {
		if corpusList[i].name == n {
			return &corpusList[i]
		}
	}
	return nil
}

func runScenario(name string, alloc bool, sub uint64, size int) {
	opts := chainkit.Opts{Testnet: true, GenesisTime: fixedGenesisTime} // testnet rule set = same consensus code, fewer console prints
	var body func(s *scen)
	var genesisBits uint32
	if name == "random" {
		body = func(s *scen) { genRandom(s, size) }
	} else if name == "random-mixed-bits" {
		genesisBits = heavyBits
		body = func(s *scen) { s.mixed = true; genRandom(s, size) }
	} else if name == "siblings" {
		body = func(s *scen) { genSiblings(s, size) }
	} else if name == "random-headers" {
		body = func(s *scen) { genRandomHeaders(s, size) }
	} else if name == "random-headers-mixed-bits" {
		genesisBits = heavyBits
		body = func(s *scen) { s.mixed = true; genRandomHeaders(s, size) }
	} else if c := corpusByName(name); c != nil {
		body, opts, genesisBits = c.run, c.opts, c.genesisBits
	} else {
		return
	}
	s := newScen(name, alloc, sub, size, opts, genesisBits)
	defer s.close()
	func() {
		defer func() {
			if x := recover(); x != nil {
				s.tieFail("harness-panic", fmt.Sprint("harness panic: ", x))
			}
		}()
		body(s)
		s.undoFilesCheck()
	}()
	r.Hit("scenario/" + name)
	if s.notify {
		r.Hit("notify-hooks/installed")
		if s.notifyDel > 0 {
			r.Hit("notify-hooks/NotifyTxDel-called")
		}
		if s.notifyAdd > 0 {
			r.Hit("notify-hooks/NotifyTxAdd-called")
		}
	}
	if tf := os.Getenv("C06_TRACE"); tf != "" { // debugging aid: append every scenario's step trace to a file
		if f, err := os.OpenFile(tf, os.O_APPEND|os.O_CREATE|os.O_WRONLY, 0644); err == nil {
			fmt.Fprintf(f, "== %s alloc=%v subseed=%d size=%d dead=%v\n", name, alloc, sub, size, s.dead)
			for _, l := range s.ops {
				fmt.Fprintln(f, l)
			}
			f.Close()
		}
	}
	if !s.dead && (name == "random" || name == "random-mixed-bits" || name == "siblings" || strings.HasPrefix(name, "random-headers")) {
		r.Sample(map[string]interface{}{"scenario": name, "alloc": alloc, "subseed": sub, "blocks": len(s.blocks), "steps": s.step, "last_ops": tail(s.ops, 6)})
	}
}

func tail(a []string, n int) []string {
	if len(a) > n {
		return a[len(a)-n:]
	}
	return a
}

// ---------------------------------------------------------------------------------------- base chain

// base grows a straight chain whose coinbases have several outputs (some always-false, some P2PKH, some locked by a
// height-gated script rule). The first coinbase always carries one output of every unspendable class and the second
// one a P2PKH output, so that every invalid block kind has something to spend as soon as the base is 101 blocks long.
func (s *scen) base(n int) *rBlock {
	s.quietBase = true
	tip := s.blocks[0]
	for i := 0; i < n; i++ {
		h := tip.Height + 1
		rew := subsidy(h)
		var outs []chainkit.OutSpec
		parts := 2 + s.g.Intn(4)
		if i >= 12 {
			parts = 1
		}
		if i == 0 {
			parts = 5
		}
		left := rew
		for p := 0; p < parts; p++ {
			v := left / uint64(parts-p)
			if p < parts-1 && v > 1000 {
				v -= uint64(s.g.Intn(1000))
			}
			left -= v
			scr := chainkit.AnyoneScript
			switch {
			case i == 0 && p > 0:
				scr = [][]byte{trapScript, cltvScript, csvScript, s.witScript()}[p-1]
			case p > 0 && s.g.Chance(1, 8):
				scr = trapScript
			case (i == 1 && p == 1) || (p > 0 && s.g.Chance(1, 8)):
				key := s.k.NewKey()
				s.keys[string(key.P2PKH())] = key
				scr = key.P2PKH()
			case p > 0 && s.g.Chance(1, 6):
				scr = s.gatedScript()
			}
			outs = append(outs, chainkit.OutSpec{Value: v, Script: scr})
		}
		if i == n-1 {
			s.quietBase = false
		}
		tip = s.addBlock(tip, blockOpts{cbOuts: outs, label: "base"})
		if out := s.deliver(tip); out != "ok" && !s.dead {
			s.tieFail("base-refused", "base chain block refused: "+out)
		}
		if s.dead {
			break
		}
	}
	s.quietBase = false
	return tip
}

// ---------------------------------------------------------------------------------------- transactions

type txGen struct {
	s      *scen
	view   map[outpoint]rCoin
	height uint32
	used   map[outpoint]bool
	local  map[outpoint]rCoin // outputs of earlier transactions of this block
	txs    []*btc.Tx
}

func (tg *txGen) spendable(allowLocal bool) []outpoint {
	var ops []outpoint
	add := func(m map[outpoint]rCoin) {
		for op, c := range m {
			if tg.used[op] || (c.Coinbase && tg.height-c.Height < maturity) {
				continue
			}
			if scriptClass(c.Script) != "" { // always-false or locked: never spent by a valid transaction
				continue
			}
			ops = append(ops, op)
		}
	}
	add(tg.view)
	if allowLocal {
		add(tg.local)
	}
	sortOps(ops)
	return ops
}

func sortOps(ops []outpoint) {
	sort.Slice(ops, func(i, j int) bool {
		if ops[i].Txid != ops[j].Txid {
			return string(ops[i].Txid[:]) < string(ops[j].Txid[:])
		}
		return ops[i].Vout < ops[j].Vout
	})
}

func (tg *txGen) coin(op outpoint) rCoin {
	if c, ok := tg.view[op]; ok {
		return c
	}
	return tg.local[op]
}

// spend builds one transaction spending the given outpoints into nout outputs; extra is added to the outputs' total
// (extra > 0 makes the transaction overspend).
func (tg *txGen) spend(ops []outpoint, nout int, extra uint64, wrongKey bool) *btc.Tx {
	g := tg.s.g
	var coins []*chainkit.Coin
	var total uint64
	for _, op := range ops {
		c := tg.coin(op)
		ck := tg.s.coinOf(op, c)
		if wrongKey && ck.Kind == "p2pkh" {
			ck = &chainkit.Coin{Out: ck.Out, Value: ck.Value, Script: ck.Script, Kind: "p2pkh", Key: tg.s.k.NewKey()}
		}
		coins = append(coins, ck)
		total += c.Value
		tg.used[op] = true
	}
	fee := uint64(g.Intn(2000))
	if fee > total/2 {
		fee = 0
	}
	total = total - fee + extra
	var outs []chainkit.OutSpec
	for p := 0; p < nout; p++ {
		v := total / uint64(nout-p)
		if p < nout-1 && v > 10 {
			v -= uint64(g.Intn(int(v/2) + 1))
		}
		total -= v
		scr := chainkit.AnyoneScript
		switch g.Intn(10) {
		case 0:
			scr = trapScript
		case 1:
			key := tg.s.k.NewKey()
			tg.s.keys[string(key.P2PKH())] = key
			scr = key.P2PKH()
		case 2:
			scr = tg.s.gatedScript()
		}
		outs = append(outs, chainkit.OutSpec{Value: v, Script: scr})
	}
	tx := chainkit.BuildTx(2, coins, nil, outs, 0)
	for v, ou := range tx.TxOut {
		tg.local[outpoint{tx.Hash.Hash, uint32(v)}] = rCoin{rOut{ou.Value, ou.Pk_script}, tg.height, false}
	}
	tg.txs = append(tg.txs, tx)
	return tx
}

func (tg *txGen) randomValid(max int) {
	g := tg.s.g
	n := g.Intn(max + 1)
	for i := 0; i < n; i++ {
		ops := tg.spendable(true)
		if len(ops) == 0 {
			return
		}
		nin := 1 + g.Intn(3)
		var pick []outpoint
		for j := 0; j < nin && len(ops) > 0; j++ {
			x := g.Intn(len(ops))
			pick = append(pick, ops[x])
			ops = append(ops[:x], ops[x+1:]...)
		}
		tg.spend(pick, 1+g.Intn(4), 0, false)
	}
}

// "cltv", "csv", "wit-empty": the spent output's script fails only under a flag that the node derives from the block's
// HEIGHT (BIP65, BIP112, BIP141) — the same scripts pass when a block is verified with the flags of height 0.
// "order": every transaction of the block is valid and every input exists — but at least one transaction stands BEFORE the
// transaction of the same block whose output it spends (a block's outputs become spendable in list order only).
// "inblock-double-spend" (an output CREATED in the block spent by two of its transactions: commitTxs "vout already spent"),
// "inblock-vout-range" (an output number beyond the outputs of a transaction of the block: "vout too big") and
// "spent-record-vout-range" (a second input names an output number beyond the record of a transaction the block already
// spent from: "tx VOut too big") reach the three error returns of commitTxs that the older kinds never produced.
var invalidKinds = []string{"double-spend", "missing", "immature", "script", "overspend", "cb-overpay", "vout-range", "own-coinbase", "wrong-key", "cltv", "csv", "wit-empty", "order",
	"inblock-double-spend", "inblock-vout-range", "spent-record-vout-range"}

// inBlockDeps[i] = positions (in txs) of the transactions whose outputs txs[i] spends.
func inBlockDeps(txs []*btc.Tx) [][]int {
	pos := map[[32]byte]int{}
	for i, t := range txs {
		pos[t.Hash.Hash] = i
	}
	deps := make([][]int, len(txs))
	for i, t := range txs {
		for _, in := range t.TxIn {
			if j, ok := pos[in.Input.Hash]; ok && j != i {
				deps[i] = append(deps[i], j)
			}
		}
	}
	return deps
}

// isTopological: does every transaction of the list (given as a permutation of positions) come after all the
// transactions of the list it spends from?
func isTopological(perm []int, deps [][]int) bool {
	at := make([]int, len(perm))
	for p, i := range perm {
		at[i] = p
	}
	for i, ds := range deps {
		for _, j := range ds {
			if at[j] > at[i] {
				return false
			}
		}
	}
	return true
}

func permute(txs []*btc.Tx, perm []int) []*btc.Tx {
	out := make([]*btc.Tx, len(txs))
	for p, i := range perm {
		out[p] = txs[i]
	}
	return out
}

// topoShuffle: a uniformly drawn "next ready transaction" order — every in-block spend still follows the transaction it
// spends from, everything else moves (the valid side of the ordering rule).
func (s *scen) topoShuffle(txs []*btc.Tx) []*btc.Tx {
	deps := inBlockDeps(txs)
	placed := make([]bool, len(txs))
	var perm []int
	for len(perm) < len(txs) {
		var ready []int
		for i := range txs {
			if placed[i] {
				continue
			}
			ok := true
			for _, j := range deps[i] {
				ok = ok && placed[j]
			}
			if ok {
				ready = append(ready, i)
			}
		}
		if len(ready) == 0 { // cannot happen (a spend cycle needs a hash collision)
			return txs
		}
		x := ready[s.g.Intn(len(ready))]
		placed[x] = true
		perm = append(perm, x)
	}
	return permute(txs, perm)
}

// misorder returns the transactions in an order in which at least one of them precedes a transaction of the list that
// it spends from (nil when the list has no in-block spend). mode 0: one child moved to the place just before its
// parent (everything else stays: the boundary of the rule); 1: one child moved to the front (directly behind the
// coinbase), its parent to the end; 2: the whole list reversed; 3: a random permutation that is not a topological order.
func (s *scen) misorder(txs []*btc.Tx, mode int) []*btc.Tx {
	g := s.g
	deps := inBlockDeps(txs)
	var pairs [][2]int // (child, parent)
	for i, ds := range deps {
		for _, j := range ds {
			pairs = append(pairs, [2]int{i, j})
		}
	}
	if len(pairs) == 0 {
		return nil
	}
	pr := pairs[g.Intn(len(pairs))]
	c, p := pr[0], pr[1]
	var perm []int
	switch mode {
	case 0:
		for i := range txs {
			if i == c {
				continue
			}
			if i == p {
				perm = append(perm, c)
			}
			perm = append(perm, i)
		}
	case 1:
		perm = append(perm, c)
		for i := range txs {
			if i != c && i != p {
				perm = append(perm, i)
			}
		}
		perm = append(perm, p)
	case 2:
		for i := len(txs) - 1; i >= 0; i-- {
			perm = append(perm, i)
		}
	default:
		for try := 0; ; try++ {
			perm = perm[:0]
			for i := range txs {
				perm = append(perm, i)
			}
			for i := len(perm) - 1; i > 0; i-- {
				j := g.Intn(i + 1)
				perm[i], perm[j] = perm[j], perm[i]
			}
			if !isTopological(perm, deps) {
				break
			}
			if try > 20 {
				return s.misorder(txs, 0)
			}
		}
	}
	if isTopological(perm, deps) {
		return nil
	}
	r.Hit(fmt.Sprintf("tx-order/misordered/mode=%d", mode))
	return permute(txs, perm)
}

// makeBlock builds a block on parent: random valid transactions and, for kind != "", one rule violation.
// In the mixed-bits stream every block is light (minimum difficulty) or heavy at random.
func (s *scen) makeBlock(parent *rBlock, kind string, allEver map[outpoint]rCoin) *rBlock {
	return s.makeBlockL(parent, kind, allEver, s.mixed && s.g.Chance(1, 2))
}

// makeBlockL: light = 1201 s after the parent (minimum-difficulty bits under the testnet rule); only meaningful in
// scenarios whose genesis bits are heavier than the minimum.
func (s *scen) makeBlockL(parent *rBlock, kind string, allEver map[outpoint]rCoin, light bool) *rBlock {
	eval(parent)
	ctx := parent
	for !ctx.valid { // descendants of an invalid block: build from the last valid ancestor's view
		ctx = ctx.Parent
	}
	h := parent.Height + 1
	tg := &txGen{s: s, view: ctx.view, height: h, used: map[outpoint]bool{}, local: map[outpoint]rCoin{}}
	tg.randomValid(3)
	bo := blockOpts{label: kind, light: light}
	g := s.g
	switch kind {
	case "double-spend":
		ops := tg.spendable(false)
		if len(ops) > 0 {
			op := ops[g.Intn(len(ops))]
			tg.spend([]outpoint{op}, 1, 0, false)
			tg.used[op] = false
			tg.spend([]outpoint{op}, 2, 0, false)
		}
	case "missing": // an output that exists (or existed) somewhere, but not unspent on this branch
		var cands []outpoint
		for op := range allEver {
			if _, ok := ctx.view[op]; !ok {
				cands = append(cands, op)
			}
		}
		sortOps(cands)
		if len(cands) > 0 {
			op := cands[g.Intn(len(cands))]
			c := allEver[op]
			if scriptClass(c.Script) == "" {
				tg.view = map[outpoint]rCoin{op: c}
				for k, v := range ctx.view {
					tg.view[k] = v
				}
				tg.spend([]outpoint{op}, 1, 0, false)
			}
		}
	case "immature":
		var cands []outpoint
		for op, c := range ctx.view {
			if c.Coinbase && h-c.Height < maturity && len(c.Script) == 1 && c.Script[0] == 0x51 {
				cands = append(cands, op)
			}
		}
		sortOps(cands)
		if len(cands) > 0 {
			op := cands[g.Intn(len(cands))]
			c := ctx.view[op]
			c.Height = 0 // let the generator pick it
			tg.view = map[outpoint]rCoin{}
			for k, v := range ctx.view {
				tg.view[k] = v
			}
			tg.spend([]outpoint{op}, 1, 0, false)
		}
	case "script": // spend an always-false output
		var cands []outpoint
		for op, c := range ctx.view {
			if len(c.Script) == 1 && c.Script[0] == 0 && !(c.Coinbase && h-c.Height < maturity) {
				cands = append(cands, op)
			}
		}
		sortOps(cands)
		if len(cands) > 0 {
			tx := tg.spend([]outpoint{cands[g.Intn(len(cands))]}, 1, 0, false)
			s.badTx[tx.Hash.Hash] = true
		}
	case "cltv", "csv", "wit-empty": // spend an output locked by a height-gated rule (empty scriptSig, no witness)
		var cands []outpoint
		for op, c := range ctx.view {
			if scriptClass(c.Script) == kind && !(c.Coinbase && h-c.Height < maturity) {
				cands = append(cands, op)
			}
		}
		sortOps(cands)
		if len(cands) > 0 {
			tx := tg.spend([]outpoint{cands[g.Intn(len(cands))]}, 1, 0, false)
			s.badTx[tx.Hash.Hash] = true
		}
	case "wrong-key":
		var cands []outpoint
		for _, op := range tg.spendable(false) {
			if _, ok := s.keys[string(tg.coin(op).Script)]; ok {
				cands = append(cands, op)
			}
		}
		if len(cands) > 0 {
			tx := tg.spend([]outpoint{cands[g.Intn(len(cands))]}, 1, 0, true)
			s.badTx[tx.Hash.Hash] = true
		}
	case "overspend":
		ops := tg.spendable(true)
		if len(ops) > 0 {
			tg.spend([]outpoint{ops[g.Intn(len(ops))]}, 1+g.Intn(2), 3000+uint64(g.Intn(1000)), false)
		}
	case "vout-range":
		ops := tg.spendable(false)
		if len(ops) > 0 {
			op := ops[g.Intn(len(ops))]
			c := tg.coin(op)
			n := uint32(0)
			for o2 := range allEver {
				if o2.Txid == op.Txid && o2.Vout >= n {
					n = o2.Vout + 1
				}
			}
			fake := outpoint{op.Txid, n + uint32(g.Intn(2))}
			tg.view = map[outpoint]rCoin{fake: c}
			for k, v := range ctx.view {
				tg.view[k] = v
			}
			tg.spend([]outpoint{fake}, 1, 0, false)
		}
	case "inblock-double-spend", "inblock-vout-range":
		if ops := tg.spendable(false); len(ops) > 0 {
			par := tg.spend([]outpoint{ops[g.Intn(len(ops))]}, 1+g.Intn(3), 0, false)
			if kind == "inblock-vout-range" {
				fake := outpoint{par.Hash.Hash, uint32(len(par.TxOut) + g.Intn(2))}
				tg.local[fake] = rCoin{rOut{1000 + uint64(g.Intn(1000)), chainkit.AnyoneScript}, h, false}
				tg.spend([]outpoint{fake}, 1, 0, false)
				delete(tg.local, fake)
			} else {
				var mine []outpoint
				for _, op := range tg.spendable(true) {
					if op.Txid == par.Hash.Hash {
						mine = append(mine, op)
					}
				}
				if len(mine) > 0 {
					op := mine[g.Intn(len(mine))]
					tg.spend([]outpoint{op}, 1, 0, false)
					tg.used[op] = false
					tg.spend([]outpoint{op}, 1+g.Intn(2), 0, false)
				}
			}
		}
	case "spent-record-vout-range":
		if ops := tg.spendable(false); len(ops) > 0 {
			op := ops[g.Intn(len(ops))]
			c := tg.coin(op)
			tg.spend([]outpoint{op}, 1, 0, false) // the block spends from this record first ...
			n := uint32(0)
			for o2 := range allEver {
				if o2.Txid == op.Txid && o2.Vout >= n {
					n = o2.Vout + 1
				}
			}
			fake := outpoint{op.Txid, n + uint32(g.Intn(2))} // ... and then names an output the transaction never had
			tg.view = map[outpoint]rCoin{fake: c}
			for k, v := range ctx.view {
				tg.view[k] = v
			}
			tg.spend([]outpoint{fake}, 1, 0, false)
		}
	case "order":
		// an in-block chain parent -> child (-> grandchild), the child possibly with a second input from the branch's
		// unspent set; then the list is put into an order that breaks at least one of these links
		for try := 0; try < 3; try++ {
			ops := tg.spendable(false)
			if len(ops) == 0 {
				break
			}
			par := tg.spend([]outpoint{ops[g.Intn(len(ops))]}, 1+g.Intn(3), 0, false)
			links := 1 + g.Intn(2)
			made := 0
			for l := 0; l < links; l++ {
				var mine []outpoint
				for _, op := range tg.spendable(true) {
					if op.Txid == par.Hash.Hash {
						mine = append(mine, op)
					}
				}
				if len(mine) == 0 {
					break // every output of the parent got an unspendable script: try another parent
				}
				pick := []outpoint{mine[g.Intn(len(mine))]}
				if rest := tg.spendable(false); len(rest) > 0 && g.Chance(1, 3) {
					pick = append(pick, rest[g.Intn(len(rest))])
				}
				par = tg.spend(pick, 1+g.Intn(2), 0, false)
				made++
			}
			if made > 0 {
				break
			}
		}
		s.lastOrdered = append([]*btc.Tx{}, tg.txs...)
		mode := s.orderMode
		if mode < 0 {
			mode = g.Intn(4)
		}
		if mis := s.misorder(tg.txs, mode); mis != nil {
			tg.txs = mis
		}
	case "cb-overpay":
		fees := s.feesOf(ctx.view, tg.txs)
		bo.cbOuts = []chainkit.OutSpec{{Value: subsidy(h) + fees + 1 + uint64(g.Intn(5)), Script: chainkit.AnyoneScript}}
	case "own-coinbase":
		extra := append([]byte{8}, g.Bytes(8)...)
		probe := s.k.Build(chainkit.BlockSpec{Parent: parent.node, CoinbaseExtra: extra})
		pb, _ := btc.NewBlock(probe)
		pb.BuildTxList()
		cb := pb.Txs[0]
		op := outpoint{cb.Hash.Hash, 0}
		tg.view = map[outpoint]rCoin{op: {rOut{cb.TxOut[0].Value, cb.TxOut[0].Pk_script}, 0, false}}
		for k, v := range ctx.view {
			tg.view[k] = v
		}
		tg.spend([]outpoint{op}, 1, 0, false)
		bo.cbExtra = extra
		bo.cbOuts = []chainkit.OutSpec{{Value: subsidy(h), Script: chainkit.AnyoneScript}}
	}
	if s.reorder && kind != "order" && len(tg.txs) > 1 && g.Chance(1, 2) {
		// any order in which every in-block spend follows the transaction it spends from is as good as the order of creation
		tg.txs = s.topoShuffle(tg.txs)
		r.Hit("tx-order/topological-shuffle")
	}
	bo.txs = tg.txs
	if bo.cbOuts == nil && g.Chance(1, 3) { // multi-output coinbase claiming at most subsidy + fees
		fees := uint64(0)
		if ctx == parent {
			fees = s.feesOf(ctx.view, tg.txs)
		}
		tot := subsidy(h) + fees - uint64(g.Intn(3))
		a := tot / 3
		bo.cbOuts = []chainkit.OutSpec{{Value: a, Script: chainkit.AnyoneScript}, {Value: tot - a, Script: chainkit.AnyoneScript}}
	}
	b := s.addBlock(parent, bo)
	for _, t := range b.Txs {
		for v, ou := range t.Outs {
			allEver[outpoint{t.Txid, uint32(v)}] = rCoin{ou, b.Height, false}
		}
	}
	eval(b)
	r.Hit("block-kind/" + kind + fmt.Sprintf("/valid=%v", b.valid))
	if s.blocks[0].Bits != chainkit.EasyBits {
		if b.Bits == chainkit.EasyBits {
			r.Hit("bits/light-block")
		} else {
			r.Hit("bits/heavy-block")
		}
	}
	return b
}

// ---------------------------------------------------------------------------------------- random trees

// randomTree grows the block tree of the random streams above a fresh base chain (nothing of it is delivered yet).
func randomTree(s *scen, size int) (upper []*rBlock) {
	g := s.g
	s.reorder = true
	baseTip := s.base(101 + g.Intn(8))
	if s.dead {
		return nil
	}
	allEver := map[outpoint]rCoin{}
	for _, b := range s.blocks {
		for i, t := range b.Txs {
			for v, ou := range t.Outs {
				allEver[outpoint{t.Txid, uint32(v)}] = rCoin{ou, b.Height, i == 0}
			}
		}
	}
	upper = []*rBlock{}
	pInvalid := g.Pick(0, 10, 25, 40)
	for j := 0; j < size; j++ {
		var parent *rBlock
		x := g.Intn(100)
		switch {
		case len(upper) == 0 || x < 8:
			parent = baseTip
			for d := g.Intn(4); d > 0 && x < 8; d-- { // fork below the base tip
				parent = parent.Parent
			}
		case x < 65: // extend a leaf, preferring the highest ones
			leaves := leavesOf(upper)
			sort.Slice(leaves, func(a, b int) bool {
				if leaves[a].Height != leaves[b].Height {
					return leaves[a].Height > leaves[b].Height
				}
				return leaves[a].idx < leaves[b].idx
			})
			parent = leaves[g.Intn(1+g.Intn(len(leaves)))]
		default:
			parent = upper[g.Intn(len(upper))]
		}
		kind := ""
		if g.Intn(100) < pInvalid {
			kind = invalidKinds[g.Intn(len(invalidKinds))]
		}
		upper = append(upper, s.makeBlock(parent, kind, allEver))
	}
	return upper
}

func genRandom(s *scen, size int) {
	g := s.g
	upper := randomTree(s, size)
	if s.dead {
		return
	}
	// delivery: random order, mostly parents first; children tried early are refused and retried later
	pending := append([]*rBlock{}, upper...)
	pDef := 0
	if s.alloc {
		pDef = 22
	}
	attempts := 0
	for len(pending) > 0 && !s.dead && attempts < 6*size+20 {
		attempts++
		var ready, blocked []int
		for i, b := range pending {
			if b.Parent.delivered {
				ready = append(ready, i)
			} else {
				blocked = append(blocked, i)
			}
		}
		var i int
		if len(blocked) > 0 && (len(ready) == 0 || g.Chance(1, 7)) {
			i = blocked[g.Intn(len(blocked))]
			r.Hit("delivery/child-before-parent")
		} else {
			i = ready[g.Intn(len(ready))]
		}
		b := pending[i]
		if s.gTwin.Chance(1, 5) {
			// the same block with a previous-block field that shares only the BlockIndex key with its parent's hash
			// (parent delivered or not, on the tip or on a side branch)
			s.deliverPrefixTwin(b, s.gTwin.Intn(4))
		}
		out := s.deliver(b)
		if out != "later" {
			b.delivered = true
			pending = append(pending[:i], pending[i+1:]...)
		} else if b.Parent.delivered {
			// refused although the parent was delivered: the parent (or an ancestor) was thrown away as invalid
			b.delivered = true
			pending = append(pending[:i], pending[i+1:]...)
			r.Hit("delivery/refused-parent-was-dropped")
		}
		if g.Chance(1, 9) {
			s.idle()
		}
		if pDef > 0 && g.Intn(100) < pDef {
			s.defrag()
		}
		if s.gHdr.Chance(1, 9) {
			// a block again: a duplicate, or — when it (or an ancestor) was thrown away as invalid meanwhile — a block the
			// node no longer knows: judged again, thrown away again
			if x := upper[s.gHdr.Intn(len(upper))]; x.delivered {
				if out := s.deliver(x); out == "dup" {
					r.Hit("delivery/again/dup")
				} else {
					r.Hit("delivery/again/after-removal")
				}
			}
		}
	}
	if s.alloc {
		s.defrag()
	}
	s.undoFilesCheck()
	// final unwind: disconnect up to 6 blocks one by one
	for n := 1 + g.Intn(6); n > 0 && !s.dead; n-- {
		s.undoLast()
		if s.alloc && g.Chance(1, 2) {
			s.defragAfterUndo()
		}
	}
	shape(s, upper)
}

// defragAfterUndo: defrag while the tip is below what the reference calls the best tip (only the UTXO/replay and
// the model comparison make sense here, so it goes through the undo-style check).
func (s *scen) defragAfterUndo() {
	if s.dead {
		return
	}
	s.fragment()
	s.mem.DefragAllImproved(func(oldRec, newRec *[]byte) {
		if s.relocFiller(oldRec, newRec) {
			return
		}
		s.k.Ch.Unspent.Relocate(oldRec, newRec)
	})
	for p := range s.fill {
		s.mem.Free(p)
		delete(s.fill, p)
	}
	s.step++
	s.ops = append(s.ops, "defrag (during unwind)")
	tipHex, _ := s.k.Tip()
	var tb *rBlock
	for _, b := range s.blocks {
		if fmt.Sprintf("%x", b.Hash[:]) == tipHex {
			tb = b
		}
	}
	if tb == nil {
		return
	}
	real := chainkit.UtxoDump(s.k.Ch.Unspent)
	view, _ := replayFromGenesis(tb)
	r.Eval("defrag-unwind", tipHex+chainkit.DumpHash(real))
	if ref := dumpOfView(view); !sameLines(real, ref) {
		s.propFail("utxo-not-replay", "after a defragmentation during the unwind the UTXO set differs from the replay:"+diffLines(real, ref, "node", "replay"))
	}
}

func leavesOf(bs []*rBlock) []*rBlock {
	hasKid := map[*rBlock]bool{}
	for _, b := range bs {
		hasKid[b.Parent] = true
	}
	var out []*rBlock
	for _, b := range bs {
		if !hasKid[b] {
			out = append(out, b)
		}
	}
	return out
}

// shape records the distribution of the generated trees in the evidence histogram.
func shape(s *scen, upper []*rBlock) {
	leaves := leavesOf(upper)
	r.Hit(fmt.Sprintf("tree/leaves=%d", min(len(leaves), 8)))
	maxd := uint32(0)
	inv := 0
	for _, b := range upper {
		if b.Height > maxd {
			maxd = b.Height
		}
		if !b.valid {
			inv++
		}
	}
	r.Hit(fmt.Sprintf("tree/invalid-blocks=%d", min(inv, 10)))
	if s.failedReorg {
		r.Hit("tree/had-failed-reorg")
	}
	ties := 0
	for i, a := range leaves {
		for _, b := range leaves[i+1:] {
			if a.work.Cmp(b.work) == 0 {
				ties++
			}
		}
	}
	if ties > 0 {
		r.Hit("tree/equal-work-leaves")
	}
}

func min(a, b int) int {
	if a < b {
		return a
	}
	return b
}
