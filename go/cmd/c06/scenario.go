package main

import (
	"encoding/binary"
	"encoding/hex"
	"fmt"
	"os"
	"sort"
	"strings"
	"sync"

	"github.com/piotrnar/gocoin/lib/btc"
	"github.com/piotrnar/gocoin/lib/chain"
	"github.com/piotrnar/gocoin/lib/others/memory"
	"github.com/piotrnar/gocoin/lib/utxo"
	"verif/chainkit"
	"verif/vlib"
)

type scen struct {
	name        string
	alloc       bool
	sub         uint64
	size        int
	g           *vlib.Rng
	gTwin       *vlib.Rng // separate stream for the prefix-only-prev-hash deliveries (keeps the other generators' streams as they were)
	gHdr        *vlib.Rng // separate stream for the header-first choices (same reason)
	k           *chainkit.Kit
	blocks      []*rBlock // blocks[0] = genesis
	byHash      map[[32]byte]*rBlock
	seq         int
	step        int
	ops         []string
	dead        bool   // a failure was recorded: stop the scenario (states have diverged)
	failedReorg bool   // some reorganisation failed during this scenario (histogram only)
	moveFailed  bool   // the delivery being observed ended in a failed reorganisation (fall-back tip selection ran)
	note        string // appended to the next property failure's text
	mixed       bool   // random-mixed-bits stream: makeBlock picks light / heavy difficulty bits per block
	reorder     bool   // random streams: makeBlock lists a block's transactions in a random order that keeps every in-block spend behind its source
	lastOrdered []*btc.Tx // block kind "order": the block's transactions in the (valid) order of their creation
	orderMode   int    // block kind "order": which misplacement (-1 = random), see misorder
	quietBase   bool   // while true, the oracle is not asked for the full dump
	bulk        bool   // long base chains: full observation only every 97th delivery, tip/outcome always
	deepReorg   bool   // the scenario has built a fork deeper than the 2560 undo files kept (known finding deep-reorg-pruned-undo-panic)
	noModel     bool   // the Lean model is not consulted (one scenario outside the theorems' domain whose 8000-node tree costs the
	// list-based model a quarter of an hour): real code against the reference only

	notify               bool // UnspentDB.CB.NotifyTxAdd / NotifyTxDel are installed (the wallet's hooks)
	notifyAdd, notifyDel int

	keys   map[string]*chainkit.Key
	badTx  map[[32]byte]bool // txids whose scripts fail (generator's label)
	mem    *memory.Allocator
	fill   map[*[]byte]bool
	fillMu sync.Mutex
	opts   chainkit.Opts
}

// documented deviations already reported in this run (each is reported once; the scenarios go on after it)
var reportedKnown = map[string]bool{}

var defaultMalloc = utxo.Memory_Malloc
var defaultFree = utxo.Memory_Free

// heavyBits: 4.0000014 times the work of chainkit.EasyBits per block (mining costs ~8 hashes)
const heavyBits = 0x201fffff

// newScen opens a fresh synthetic chain. genesisBits != 0 is written into the genesis node's header: under the
// testnet rule of GetNextWorkRequired a block more than 20 minutes after its parent gets the minimum difficulty
// (EasyBits), any other block the bits of the last non-minimum block — walking back to the genesis node. That gives
// branches with different bits (heavier-but-not-taller forks) above a 100-block base.
func newScen(name string, alloc bool, sub uint64, size int, opts chainkit.Opts, genesisBits uint32) *scen {
	s := &scen{name: name, alloc: alloc, sub: sub, size: size, g: vlib.NewRng(sub ^ 0xC06), gTwin: vlib.NewRng(sub ^ 0x7717C06), gHdr: vlib.NewRng(sub ^ 0x4EAD0C06), byHash: map[[32]byte]*rBlock{},
		keys: map[string]*chainkit.Key{}, badTx: map[[32]byte]bool{}, opts: opts, orderMode: -1}
	if alloc {
		s.mem = memory.NewAllocator()
		s.fill = map[*[]byte]bool{}
		utxo.Memory_Malloc = s.mem.Malloc
		utxo.Memory_Free = s.mem.Free
	}
	k, err := chainkit.New(opts, vlib.NewRng(sub))
	if err != nil {
		loud()
		fmt.Println("chainkit:", err)
		os.Exit(3)
	}
	s.k = k
	// a fresh UnspentDB pre-sizes each of its 256 maps for 100k records; DefragMap(true) (gocoin's own map
	// compaction, one map per call) brings them to their real size — otherwise every dump walks 25M empty slots
	for i := 0; i < 256; i++ {
		k.Ch.Unspent.DefragMap(true)
	}
	if genesisBits != 0 {
		binary.LittleEndian.PutUint32(k.Ch.BlockTreeRoot.BlockHeader[72:76], genesisBits)
	}
	if (strings.HasPrefix(name, "random-headers") && sub%2 == 1) || name == "partial-spend-and-in-block-chain-undo" || name == "tie-after-failed-reorg-first-child-is-first-seen" || name == "header-first-sync" {
		// the wallet's hooks installed: UnspentDB.UndoBlockTxs / commit take their "slow" paths (one call per record)
		s.notify = true
		k.Ch.Unspent.CB.NotifyTxAdd = func(rec *utxo.UtxoRec) { s.notifyAdd++ }
		k.Ch.Unspent.CB.NotifyTxDel = func(rec *utxo.UtxoRec, outs []bool) { s.notifyDel++ }
	}
	gen := &rBlock{idx: 0, Hash: k.Genesis.Hash, node: k.Ch.BlockTreeRoot, firstSeen: -1, linked: -1, delivered: true, label: "genesis"}
	gen.Bits = k.Ch.BlockTreeRoot.Bits()
	s.blocks = []*rBlock{gen}
	s.byHash[gen.Hash] = gen
	rep := o.MustAsk(fmt.Sprintf("init %s %d", hex.EncodeToString(gen.Hash[:]), gen.Bits))
	if rep != "ok" {
		s.tieFail("tie-init", "oracle init: "+rep)
	}
	return s
}

func (s *scen) close() {
	func() {
		defer func() { recover() }()
		if s.k.Ch.BlockIndexAccess.TryLock() { // a panic inside gocoin may have left locks behind: then do not Close (it would hang)
			s.k.Ch.BlockIndexAccess.Unlock()
			if !s.dead {
				s.k.Close()
				return
			}
		}
		os.RemoveAll(s.k.Dir)
	}()
	if s.alloc {
		utxo.Memory_Malloc = defaultMalloc
		utxo.Memory_Free = defaultFree
	}
}

func (s *scen) doc(detail string) replayDoc {
	ops := s.ops
	if len(ops) > 400 {
		ops = append([]string{fmt.Sprintf("… %d earlier steps", len(ops)-400)}, ops[len(ops)-400:]...)
	}
	return replayDoc{Scenario: s.name, Alloc: s.alloc, SubSeed: s.sub, Size: s.size, Step: s.step, Ops: ops, Detail: detail}
}

func (s *scen) propFail(key, what string) {
	if s.dead {
		return
	}
	s.dead = true
	what += s.note
	r.PropFail(key, fmt.Sprintf("[%s alloc=%v subseed=%d step %d] %s", s.name, s.alloc, s.sub, s.step, what), s.doc(what))
}

func (s *scen) tieFail(key, what string) {
	if s.dead {
		return
	}
	s.dead = true
	r.TieFail(key, fmt.Sprintf("[%s alloc=%v subseed=%d step %d] %s", s.name, s.alloc, s.sub, s.step, what), s.doc(what))
}

// ---------------------------------------------------------------------------------------- building blocks

type blockOpts struct {
	txs     []*btc.Tx
	cbOuts  []chainkit.OutSpec // nil: one OP_TRUE output of subsidy+fees
	time    uint32
	light   bool // time = parent + 1201 s: minimum-difficulty block under the testnet rule
	cbExtra []byte
	label   string
}

func (s *scen) addBlock(parent *rBlock, bo blockOpts) *rBlock {
	var fees uint64
	eval(parent)
	if bo.light && bo.time == 0 {
		bo.time = parent.node.Timestamp() + 1201
	}
	spec := chainkit.BlockSpec{Parent: parent.node, Txs: bo.txs, CoinbaseOuts: bo.cbOuts, Time: bo.time, CoinbaseExtra: bo.cbExtra}
	if bo.cbOuts == nil {
		// fees of the transactions in the context of the parent's branch (0 when not computable)
		if parent.valid {
			fees = s.feesOf(parent.view, bo.txs)
		}
		spec.Fees = fees
	}
	raw := s.k.Build(spec)
	bl, err := btc.NewBlock(raw)
	if err != nil {
		panic("c06: built block does not parse: " + err.Error())
	}
	if err = bl.BuildTxList(); err != nil {
		panic("c06: BuildTxList: " + err.Error())
	}
	b := &rBlock{idx: len(s.blocks), Hash: bl.Hash.Hash, Parent: parent, Height: parent.Height + 1, Bits: bl.Bits(), raw: raw, firstSeen: -1, linked: -1, label: bo.label}
	if b.label == "" {
		b.label = "plain"
	}
	for _, t := range bl.Txs {
		rt := rTx{Txid: t.Hash.Hash, ScriptsOK: !s.badTx[t.Hash.Hash]}
		if !t.IsCoinBase() {
			for _, in := range t.TxIn {
				rt.Ins = append(rt.Ins, outpoint{in.Input.Hash, in.Input.Vout})
			}
		}
		for _, in := range t.TxIn {
			rt.SigOpCost += 4 * refSigOps(in.ScriptSig)
		}
		for _, ou := range t.TxOut {
			rt.Outs = append(rt.Outs, rOut{ou.Value, append([]byte{}, ou.Pk_script...)})
			rt.SigOpCost += 4 * refSigOps(ou.Pk_script)
		}
		b.Txs = append(b.Txs, rt)
	}
	n := &chain.BlockTreeNode{BlockHash: bl.Hash, Parent: parent.node, Height: b.Height}
	copy(n.BlockHeader[:], raw[:80])
	b.node = n
	s.blocks = append(s.blocks, b)
	s.byHash[b.Hash] = b
	return b
}

func (s *scen) feesOf(view map[outpoint]rCoin, txs []*btc.Tx) uint64 {
	local := map[outpoint]uint64{}
	var fees uint64
	for _, t := range txs {
		var in, out uint64
		for _, i := range t.TxIn {
			op := outpoint{i.Input.Hash, i.Input.Vout}
			if c, ok := view[op]; ok {
				in += c.Value
			} else if v, ok := local[op]; ok {
				in += v
			}
		}
		for v, ou := range t.TxOut {
			out += ou.Value
			local[outpoint{t.Hash.Hash, uint32(v)}] = ou.Value
		}
		if in > out {
			fees += in - out
		}
	}
	return fees
}

// coinOf turns a reference coin into a chainkit coin (for BuildTx).
func (s *scen) coinOf(op outpoint, c rCoin) *chainkit.Coin {
	ck := &chainkit.Coin{Out: btc.TxPrevOut{Hash: op.Txid, Vout: op.Vout}, Value: c.Value, Script: c.Script, Height: c.Height, Coinbase: c.Coinbase, Kind: "raw"}
	if len(c.Script) == 1 && c.Script[0] == 0x51 {
		ck.Kind = "anyone"
	} else if k, ok := s.keys[string(c.Script)]; ok {
		ck.Key, ck.Kind = k, "p2pkh"
	}
	return ck
}

var trapScript = []byte{0x00} // OP_0: leaves an empty (false) top element — can never be spent

// Outputs locked by a rule that the node switches on by block HEIGHT. The harness spends them with an empty scriptSig,
// no witness, lock time 0 and sequence 0xffffffff, which fails under the rule and passes without it:
var cltvScript = []byte{0x04, 0xff, 0xff, 0xff, 0x7f, 0xb1, 0x75, 0x51} // <0x7fffffff> OP_CHECKLOCKTIMEVERIFY OP_DROP OP_1 (BIP65; OP_NOP2 before)
var csvScript = []byte{0x51, 0xb2, 0x75, 0x51}                          // <1> OP_CHECKSEQUENCEVERIFY OP_DROP OP_1 (BIP112; OP_NOP3 before)

// witScript: a P2WPKH program nobody has the key for (BIP141: an empty witness fails; before, the 20-byte push is a true top element)
func (s *scen) witScript() []byte {
	h := s.g.Bytes(20)
	h[0] |= 1
	return append([]byte{0x00, 20}, h...)
}

func (s *scen) gatedScript() []byte {
	switch s.g.Intn(3) {
	case 0:
		return cltvScript
	case 1:
		return csvScript
	}
	return s.witScript()
}

// scriptClass: "" for scripts that valid transactions of the generator spend; otherwise the invalid block kind that spends it.
func scriptClass(scr []byte) string {
	switch {
	case len(scr) == 1 && scr[0] == 0x00:
		return "script"
	case string(scr) == string(cltvScript):
		return "cltv"
	case string(scr) == string(csvScript):
		return "csv"
	case len(scr) == 22 && scr[0] == 0x00 && scr[1] == 20:
		return "wit-empty"
	}
	return ""
}

// ---------------------------------------------------------------------------------------- steps

func realOutcome(res *chainkit.Result) string {
	switch {
	case res.Panic != "":
		return "panic:" + res.Panic
	case res.ParseErr != nil:
		return "parse:" + res.ParseErr.Error()
	case res.CheckErr != nil:
		m := res.CheckErr.Error()
		switch {
		case strings.Contains(m, "already in"), m == "Genesis":
			return "dup"
		case strings.Contains(m, "parent not found"):
			return "later"
		case strings.Contains(m, "collides with"):
			return "index-collision"
		case strings.Contains(m, "hooks too deep"):
			return "toodeep"
		}
		return "check:" + m
	case res.AcceptErr != nil:
		m := res.AcceptErr.Error()
		switch {
		case strings.HasPrefix(m, "tx VOut too big"):
			return "err:spent-vout-too-big"
		case strings.HasPrefix(m, "double spend inside the block"):
			return "err:double-spend"
		case strings.HasPrefix(m, "Unknown input TxID"):
			return "err:unknown-input"
		case strings.HasPrefix(m, "vout too big"):
			return "err:vout-too-big"
		case strings.HasPrefix(m, "vout already spent"):
			return "err:vout-already-spent"
		case strings.HasPrefix(m, "Cannot spend block's own coinbase"):
			return "err:own-coinbase"
		case strings.HasPrefix(m, "Trying to spend prematured coinbase"):
			return "err:immature"
		case strings.HasPrefix(m, "more spent"):
			return "err:more-spent"
		case strings.HasPrefix(m, "VerifyScripts failed"):
			return "err:scripts"
		case strings.HasPrefix(m, "out:"):
			return "err:out-gt-in"
		case strings.Contains(m, "too many sigops"):
			return "err:sigops"
		case strings.HasPrefix(m, "CommitBlock: MoveToBlock failed"):
			return "movefailed"
		}
		return "accept:" + m
	}
	return "ok"
}

func (s *scen) oracleDeliverLine(b *rBlock, dump bool) string {
	var sb strings.Builder
	d := 0
	if dump {
		d = 1
	}
	par := s.blocks[0].Hash
	if b.Parent != nil {
		par = b.Parent.Hash
	}
	fmt.Fprintf(&sb, "deliver %d %s %s %d %d", d, hex.EncodeToString(b.Hash[:]), hex.EncodeToString(par[:]), b.Bits, len(b.Txs))
	for _, t := range b.Txs {
		ok := 0
		if t.ScriptsOK {
			ok = 1
		}
		fmt.Fprintf(&sb, " %s %d %d", hex.EncodeToString(t.Txid[:]), ok, len(t.Ins))
		for _, i := range t.Ins {
			fmt.Fprintf(&sb, " %s %d", hex.EncodeToString(i.Txid[:]), i.Vout)
		}
		fmt.Fprintf(&sb, " %d", len(t.Outs))
		for _, ou := range t.Outs {
			fmt.Fprintf(&sb, " %d %s", ou.Value, vlib.Hex(ou.Script))
		}
	}
	return sb.String()
}

func oracleDump(tok string) []string {
	if tok == "-" || tok == "" {
		return nil
	}
	es := strings.Split(tok, ",")
	out := make([]string, 0, len(es))
	for _, e := range es {
		f := strings.Split(e, ":")
		if len(f) != 6 {
			out = append(out, "malformed:"+e)
			continue
		}
		scr := f[5]
		if scr == "-" {
			scr = ""
		}
		out = append(out, fmt.Sprintf("%s:%s %s %s %s %s", f[0], f[1], f[2], f[3], f[4], scr))
	}
	sort.Strings(out)
	return out
}

// observe compares the real chain with the reference predicate and (given the oracle's reply) with the model.
func (s *scen) observe(kind, outcome, modelReply string, fullDump bool) {
	if s.dead {
		return
	}
	tipHex, _ := s.k.Tip()
	var real []string
	pan := ""
	func() {
		defer func() {
			if x := recover(); x != nil {
				pan = fmt.Sprint(x)
			}
		}()
		real = chainkit.UtxoDump(s.k.Ch.Unspent)
	}()
	if pan != "" {
		s.propFail("utxo-corrupt", "the UTXO map holds a record that cannot be decoded: "+pan)
		return
	}
	r.Eval(kind, tipHex+chainkit.DumpHash(real)+outcome)
	r.Hit("outcome/" + strings.SplitN(outcome, " ", 2)[0])
	if strings.HasPrefix(outcome, "panic:") {
		if strings.Contains(outcome, "undo") && strings.Contains(outcome, "no such file") && (strings.HasPrefix(modelReply, "panic:undo file missing") || (s.noModel && s.deepReorg)) {
			// narrow class: a reorganisation reaching below the pruned undo files (more than 2560 blocks), predicted by the model
			s.propFail("deep-reorg-pruned-undo-panic", "a reorganisation deeper than the 2560 undo files kept panics in UndoBlockTxs after the block's outputs were already deleted (the UTXO set is left half-undone): "+outcome)
			return
		}
		s.propFail("panic", "gocoin panicked: "+outcome)
		return
	}
	// (b) the property predicate
	var th [32]byte
	hb, _ := hex.DecodeString(tipHex)
	copy(th[:], hb)
	tb := s.byHash[th]
	want := specTip(s.blocks)
	if tb == nil {
		s.propFail("tip-unknown", "tip "+tipHex[:16]+" is not a delivered block")
		return
	}
	eval(tb)
	if tb != want {
		eval(want)
		// for the report only: does the Lean model (which mirrors the code as written) predict this tip?
		if mf := strings.Fields(modelReply); len(mf) == 5 && mf[1] == tipHex {
			s.note = " [the Lean model of the code predicts the same tip]"
		} else if len(mf) == 5 {
			s.note = " [the Lean model of the code predicts another tip: " + firstN(mf[1], 16) + "]"
		}
		switch {
		case !tb.valid:
			s.propFail("tip-invalid", fmt.Sprintf("tip is block #%d (height %d) whose branch is invalid (%s); best valid is #%d", tb.idx, tb.Height, tb.why, want.idx))
		case tb.work.Cmp(want.work) == 0:
			// The known deviations are kept as narrow as they are documented: (1) a delivery whose reorganisation
			// FAILED ends on the documented fall-back choice (first child WITH DATA at every fork, every leaf valued by its
			// full cumulative work — the repaired fall-back) and that is not the first-seen leaf; (2) the two sides carry
			// different bits AND the float64 sums the code compares (recomputed here the way MorePOW adds them up) really
			// differ although the exact sums are equal. Any other tie resolved against the first-seen block is a violation.
			key, extra := "tie-not-first-seen", ""
			if s.moveFailed {
				key = "tie-wrong-choice-after-failed-reorg"
				d1, _ := fallbackChoice(s.blocks, true)
				extra = fmt.Sprintf("; the documented fall-back choice after a failed reorganisation is #%d", d1.idx)
				if tb == d1 {
					key, extra = "tie-not-first-seen-after-failed-reorg", ""
				} else if (mixedBits(tb, want) && floatSumsDiffer(tb, want)) || (mixedBits(tb, d1) && floatSumsDiffer(tb, d1)) {
					key = "float-work-exact-tie"
				}
			} else if mixedBits(tb, want) && floatSumsDiffer(tb, want) {
				key = "float-work-exact-tie"
			}
			what := fmt.Sprintf("tip is block #%d (height %d, first seen at delivery %d) although #%d with the same cumulative work was seen first (delivery %d)%s", tb.idx, tb.Height, tb.firstSeen, want.idx, want.firstSeen, extra)
			if key == "tie-not-first-seen-after-failed-reorg" || key == "float-work-exact-tie" {
				// a documented deviation: reported once per run, then the reference adopts the node's choice between the
				// two equal-work blocks and the scenario goes on (everything after it is still observed)
				r.Hit("known-deviation/" + key)
				if !reportedKnown[key] {
					reportedKnown[key] = true
					r.PropFail(key, fmt.Sprintf("[%s alloc=%v subseed=%d step %d] %s%s", s.name, s.alloc, s.sub, s.step, what, s.note), s.doc(what))
				}
				tb.firstSeen, want.firstSeen = want.firstSeen, tb.firstSeen
				s.note = ""
				if key == "float-work-exact-tie" {
					// the model compares exact sums: from here on its state differs from the node's by design; the rest of the
					// scenario is judged by the reference alone
					s.noModel = true
				}
				break
			}
			s.propFail(key, what)
		default:
			key, extra := "not-most-work", ""
			if forkPoint(tb, want).Parent == nil {
				key = "not-most-work-fork-at-genesis"
			} else if s.moveFailed && mixedBits(tb, want) {
				// the fall-back after a failed reorganisation values a leaf by the work of the blocks ABOVE it only
				d, top := fallbackChoice(s.blocks, false)
				hit := tb == d
				for _, l := range top {
					if l == tb && mixedBits(tb, d) { // equal exact values, sides with different bits: float rounding decides
						hit = true
					}
				}
				if hit {
					key, extra = "farthest-ignores-leaf-work", " (fall-back after a failed reorganisation: a leaf's own work is not counted)"
				}
			}
			s.propFail(key, fmt.Sprintf("tip is block #%d (height %d, work %s) although the valid branch ending in #%d (height %d) has work %s%s", tb.idx, tb.Height, tb.work.FloatString(12), want.idx, want.Height, want.work.FloatString(12), extra))
		}
		if s.dead {
			return
		}
	}
	view, why := replayFromGenesis(tb)
	if why != "" {
		s.propFail("tip-invalid", "replay of the active branch fails: "+why)
		return
	}
	ref := dumpOfView(view)
	if !sameLines(real, ref) {
		s.propFail("utxo-not-replay", fmt.Sprintf("UTXO set (%d outputs) differs from the replay of the active branch (%d outputs):%s", len(real), len(ref), diffLines(real, ref, "node", "replay")))
		return
	}
	// (a) the model
	if s.noModel {
		return
	}
	f := strings.Fields(modelReply)
	if len(f) != 5 {
		s.tieFail("tie-reply", "malformed oracle reply: "+modelReply)
		return
	}
	outcomeSeen[f[0]] = true
	var sum uint64
	for _, c := range view {
		sum += c.Value
	}
	if f[0] != outcome || f[1] != tipHex || f[2] != fmt.Sprint(len(real)) || f[3] != fmt.Sprint(sum) {
		s.tieFail("tie-"+kind, fmt.Sprintf("model/impl differ: impl outcome=%s tip=%s outs=%d sum=%d; model %s %s %s %s", outcome, tipHex[:16], len(real), sum, f[0], f[1][:16], f[2], f[3]))
		return
	}
	if fullDump {
		md := oracleDump(f[4])
		if !sameLines(md, real) {
			s.tieFail("tie-utxo", "model/impl UTXO dumps differ:"+diffLines(real, md, "impl", "model"))
			return
		}
	}
	r.TieOK()
}

func forkPoint(a, b *rBlock) *rBlock {
	for a.Height > b.Height {
		a = a.Parent
	}
	for b.Height > a.Height {
		b = b.Parent
	}
	for a != b {
		a, b = a.Parent, b.Parent
	}
	return a
}

func (s *scen) deliver(b *rBlock) string {
	if s.dead {
		return ""
	}
	s.step++
	prevTip, prevH := s.k.Tip()
	moveNesting = 0
	refTooDeep := s.refTooDeep(b)
	res := s.k.Submit(b.raw)
	out := realOutcome(res)
	if nt, nh := s.k.Tip(); out == "ok" && nt == hex.EncodeToString(b.Hash[:]) && hex.EncodeToString(b.Parent.Hash[:]) != prevTip {
		switch {
		case nh < prevH:
			r.Hit("reorg/to-shorter-heavier-branch")
		case nh == prevH:
			r.Hit("reorg/to-equal-height-heavier-branch")
		default:
			r.Hit("reorg/to-taller-branch")
		}
	} else if out == "ok" && nt == prevTip && b.Height > prevH {
		r.Hit("side-block/taller-but-lighter-stays-aside")
	}
	tipIdx := -1
	if x := s.byHash[s.k.Ch.LastBlock().BlockHash.Hash]; x != nil {
		tipIdx = x.idx
	}
	s.ops = append(s.ops, fmt.Sprintf("deliver #%d h=%d parent=#%d %s bits=%08x -> %s (tip #%d)", b.idx, b.Height, b.Parent.idx, b.label, b.Bits, out, tipIdx))
	// what the node now knows (independent of its answer): header and data at once — unless the header is known
	// already (CheckBlock: "already in"; the data of a known header comes through `commit`, see headers.go)
	if b.linked < 0 && (b.Parent.Parent == nil || b.Parent.linked >= 0) && !refTooDeep {
		b.linked = s.seq
		if b.firstSeen < 0 && (b.Parent.Parent == nil || b.Parent.firstSeen >= 0) {
			b.firstSeen = s.seq
		}
	}
	s.seq++
	s.moveFailed = out == "movefailed"
	if s.moveFailed {
		s.failedReorg = true
	}
	full := !s.quietBase
	rep := ""
	if !s.noModel {
		rep = o.MustAsk(s.oracleDeliverLine(b, full))
	}
	if strings.HasPrefix(out, "check:") || strings.HasPrefix(out, "accept:") || strings.HasPrefix(out, "parse:") {
		s.tieFail("tie-unexpected-refusal", "block refused for a reason outside the model: "+out)
		return out
	}
	if out == "toodeep" && !refTooDeep {
		s.propFail("refused-fork-within-the-window", fmt.Sprintf("block #%d (height %d, %d below the tip) was refused as hooking too deep although it is less than %d below the tip: the node can never follow that branch, however much work it gathers", b.idx, b.Height, int(prevH)-int(b.Height), movingCheckpointDepth))
		return out
	}
	if s.bulk && s.step%97 != 0 {
		tipHex, _ := s.k.Tip()
		f := strings.Fields(rep)
		r.Eval("deliver-bulk", "")
		if s.noModel {
			if x := s.byHash[s.k.Ch.LastBlock().BlockHash.Hash]; x == nil || x != specTip(s.blocks) {
				s.propFail("not-most-work", "bulk delivery (no model): the tip is not the reference's first-seen most-work valid block")
			}
		} else if len(f) != 5 || f[0] != out || f[1] != tipHex {
			s.tieFail("tie-deliver", "model/impl differ (bulk): impl "+out+" "+tipHex[:16]+" model "+firstN(rep, 90))
		} else {
			r.TieOK()
		}
		return out
	}
	s.observe("deliver", out, rep, full)
	if s.moveFailed {
		s.farthestCheck()
	}
	return out
}

func (s *scen) idle() {
	if s.dead {
		return
	}
	s.step++
	s.moveFailed = false
	s.ops = append(s.ops, "idle")
	pan := ""
	func() {
		defer func() {
			if x := recover(); x != nil {
				pan = fmt.Sprint(x)
			}
		}()
		s.k.Ch.Idle()
	}()
	o.MustAsk("idle")
	rep := "ok " + o.MustAsk("state")
	out := "ok"
	if pan != "" {
		out = "panic:" + pan
	}
	s.observe("idle", out, rep, true)
}

// undoLast disconnects the tip block directly (Chain.UndoLastBlock) — the unwind check.
func (s *scen) undoLast() {
	if s.dead {
		return
	}
	s.step++
	tipHex, _ := s.k.Tip()
	var th [32]byte
	hb, _ := hex.DecodeString(tipHex)
	copy(th[:], hb)
	tb := s.byHash[th]
	if tb == nil || tb.Parent == nil {
		return
	}
	s.ops = append(s.ops, fmt.Sprintf("undo-last #%d", tb.idx))
	pan := ""
	func() {
		defer func() {
			if x := recover(); x != nil {
				pan = fmt.Sprint(x)
			}
		}()
		s.k.Ch.UndoLastBlock()
	}()
	if pan != "" {
		s.propFail("undo-panic", "UndoLastBlock panics: "+pan)
		return
	}
	rep := ""
	if !s.noModel {
		rep = o.MustAsk("undolast")
	}
	real := chainkit.UtxoDump(s.k.Ch.Unspent)
	nt, _ := s.k.Tip()
	r.Eval("undo", nt+chainkit.DumpHash(real))
	view, _ := replayFromGenesis(tb.Parent)
	ref := dumpOfView(view)
	if nt != hex.EncodeToString(tb.Parent.Hash[:]) || !sameLines(real, ref) {
		s.propFail("undo-residue", fmt.Sprintf("after disconnecting block #%d the UTXO set differs from the replay of its parent's branch:%s", tb.idx, diffLines(real, ref, "node", "replay")))
		return
	}
	if s.noModel {
		return
	}
	f := strings.Fields(rep)
	if len(f) != 5 || f[0] != "ok" || f[1] != nt || !sameLines(oracleDump(f[4]), real) {
		s.tieFail("tie-undo", "model/impl differ after UndoLastBlock: "+firstN(rep, 120))
		return
	}
	r.TieOK()
}

func firstN(s string, n int) string {
	if len(s) > n {
		return s[:n]
	}
	return s
}

// undoFilesPresent: model says every active height within the window has its undo file; check the real directory too.
func (s *scen) undoFilesCheck() {
	if s.dead {
		return
	}
	s.farthestCheck()
	if !s.noModel {
		rep := o.MustAsk("undochk")
		if !strings.HasPrefix(rep, "ok") {
			s.tieFail("tie-undochk", "model: undo data missing within the unwind window: "+rep)
			return
		}
	}
	tip := s.k.Ch.LastBlock()
	for n := tip; n != nil && n.Parent != nil && tip.Height-n.Height < 2560; n = n.Parent {
		fn := fmt.Sprint(s.k.Dir, "undo", string(os.PathSeparator), n.Height)
		d, err := os.ReadFile(fn)
		if err != nil || len(d) < 32 {
			s.propFail("undo-file-missing", fmt.Sprintf("undo file for active height %d missing", n.Height))
			return
		}
		if string(d[:32]) != string(n.BlockHash.Hash[:]) {
			s.propFail("undo-file-wrong-block", fmt.Sprintf("undo file for height %d belongs to another block", n.Height))
			return
		}
	}
	r.Hit("undo-files-checked")
}

// ---------------------------------------------------------------------------------------- allocator stream

// fragment makes the allocator's size classes of the current records sparse (as months of UTXO churn do), so that
// DefragAllImproved has something to do; the fillers are the harness's own allocations and are kept out of Relocate.
func (s *scen) fragment() {
	sizes := map[int]bool{}
	db := s.k.Ch.Unspent
	for i := range db.HashMap {
		for _, v := range db.HashMap[i] {
			sizes[len(*v)] = true
		}
	}
	classes := map[int]bool{}
	for sz := range sizes {
		c := (sz + 7) / 8
		if classes[c] {
			continue
		}
		classes[c] = true
		var fl []*[]byte
		for i := 0; i < 150000; i++ {
			fl = append(fl, s.mem.Malloc(sz))
		}
		for i, p := range fl {
			if i%64 == 0 {
				binary.LittleEndian.PutUint64((*p)[:8], 0xF111F111F111F111)
				s.fill[p] = true
			} else {
				s.mem.Free(p)
			}
		}
	}
}

// relocFiller keeps the harness's own filler allocations out of UnspentDB.Relocate (defrag runs one goroutine per class).
func (s *scen) relocFiller(oldRec, newRec *[]byte) bool {
	s.fillMu.Lock()
	defer s.fillMu.Unlock()
	if s.fill[oldRec] {
		delete(s.fill, oldRec)
		s.fill[newRec] = true
		return true
	}
	return false
}

func (s *scen) defrag() {
	if s.dead || !s.alloc {
		return
	}
	s.step++
	s.moveFailed = false
	s.fragment()
	cnt := 0
	pan := ""
	func() {
		defer func() {
			if x := recover(); x != nil {
				pan = fmt.Sprint(x)
			}
		}()
		// body of client/common.DefragUTXOMem
		cnt = s.mem.DefragAllImproved(func(oldRec, newRec *[]byte) {
			if s.relocFiller(oldRec, newRec) {
				return
			}
			s.k.Ch.Unspent.Relocate(oldRec, newRec)
		})
	}()
	s.ops = append(s.ops, fmt.Sprintf("defrag (relocated %d)", cnt))
	if cnt > 0 {
		r.Hit("defrag-relocated-some")
	}
	// free the fillers again (keeps memory bounded)
	for p := range s.fill {
		s.mem.Free(p)
		delete(s.fill, p)
	}
	out := "ok"
	if pan != "" {
		out = "panic:" + pan
	}
	rep := "ok " + o.MustAsk("state")
	s.observe("defrag", out, rep, true)
}
