package main

// headers.go — HEADER-FIRST delivery, the way the client receives every block from the network:
//
//	header  client/network ProcessNewHeader: btc.NewBlock(80 header bytes), Chain.PreCheckBlock, Chain.AcceptHeader —
//	        a node without block data (TxCount == 0, BlockSize == 0) is linked under its parent;
//	commit  client/main HandleNetBlock + LocalAcceptBlock, when the block's data has arrived: the node must still be
//	        reachable from the root (the client: CheckParentDiscarded / DiscardedBlocks), Chain.HasAllParents(node) (else
//	        the client parks the block), Chain.PostCheckBlock, [Blocks.BlockAdd — the client stores the block BEFORE
//	        CommitBlock], Chain.CommitBlock(bl, node).
//
// Model: oracle requests `header` / `commit` (Model/ChainTree `headerIdx`, `commitNodeIdx`). Reference: a block competes
// for the tip once its data and the data of all its ancestors have been handed over this way (firstSeen); the order of a
// parent's children — what the fall-back after a failed reorganisation reads — is the order in which the nodes were
// LINKED (`linked`: header arrival), see fallbackChoice.
//
// Witnesses of fix c3d926ba (ParseTillBlock's fall-back took its target from FindFarthestNode, which returns header-only
// leaves): corpus scenarios header-first-failed-reorg-{one,two,three}-headers-ahead.

import (
	"encoding/hex"
	"fmt"
	"strings"

	"github.com/piotrnar/gocoin/lib/btc"
	"github.com/piotrnar/gocoin/lib/chain"
	"github.com/piotrnar/gocoin/lib/others/vhook"
	"verif/chainkit"
)

// ---------------------------------------------------------------------------------------- runaway guard

// MoveToBlock -> ParseTillBlock -> (fall-back) MoveToBlock … is a recursion; the defect repaired by c3d926ba made it
// endless, and a Go stack overflow cannot be recovered. The instrumentation points at the end of MoveToBlock's undo
// loop / after its ParseTillBlock call give the nesting depth; beyond `maxMoveNesting` the harness panics (recoverable)
// in place of the runtime's fatal error.
const maxMoveNesting = 1500

var moveNesting int

func installRunawayGuard() {
	if !vhook.Enabled {
		return
	}
	vhook.Set(func(name string) {
		switch name {
		case "chain.move:undone":
			moveNesting++
			if moveNesting > maxMoveNesting {
				moveNesting = 0
				panic(fmt.Sprintf("runaway recursion: MoveToBlock/ParseTillBlock nested more than %d deep (a Go stack overflow is a fatal error)", maxMoveNesting))
			}
		case "chain.move:done":
			if moveNesting > 0 {
				moveNesting--
			}
		}
	})
}

// ---------------------------------------------------------------------------------------- the two operations on the real chain

func (s *scen) nodeOf(h [32]byte) *chain.BlockTreeNode {
	n := s.k.Ch.BlockIndex[btc.NewUint256(h[:]).BIdx()]
	if n == nil || n.BlockHash.Hash != h {
		return nil
	}
	return n
}

// detached: the node is in BlockIndex but no longer reachable from the root (CommitBlock refused an ancestor on the tip:
// it unlinks that block from its parent and deletes that block's index entry only). The client never commits such a
// node: DiscardBlock put it, or its parent, on DiscardedBlocks.
func (s *scen) detached(n *chain.BlockTreeNode) bool {
	for n.Parent != nil {
		p := n.Parent
		if s.k.Ch.BlockIndex[p.BlockHash.BIdx()] != p {
			return true
		}
		found := false
		for _, c := range p.Childs {
			if c == n {
				found = true
			}
		}
		if !found {
			return true
		}
		n = p
	}
	return n != s.k.Ch.BlockTreeRoot
}

func preCheckOutcome(er error) string {
	m := er.Error()
	switch {
	case strings.Contains(m, "already in"), m == "Genesis":
		return "dup"
	case strings.Contains(m, "parent not found"):
		return "later"
	case strings.Contains(m, "collides with"):
		return "index-collision"
	case strings.Contains(m, "hooks too deep"):
		return "toodeep"
	}
	return "check:" + m
}

func (s *scen) realHeader(raw []byte) (out string) {
	defer func() {
		if x := recover(); x != nil {
			out = "panic:" + fmt.Sprint(x)
		}
	}()
	bl, err := btc.NewBlock(raw[:80])
	if err != nil {
		return "parse:" + err.Error()
	}
	ch := s.k.Ch
	ch.BlockIndexAccess.Lock()
	defer ch.BlockIndexAccess.Unlock()
	if _, _, er := ch.PreCheckBlock(bl); er != nil {
		return preCheckOutcome(er)
	}
	ch.AcceptHeader(bl)
	return "ok"
}

func (s *scen) realCommit(b *rBlock, storeFirst bool) (out string) {
	moveNesting = 0
	defer func() {
		if x := recover(); x != nil {
			out = "panic:" + fmt.Sprint(x)
		}
	}()
	ch := s.k.Ch
	node := s.nodeOf(b.Hash)
	if node == nil {
		return "noheader"
	}
	if node.TxCount != 0 {
		return "dup"
	}
	if s.detached(node) {
		return "discarded"
	}
	if !ch.HasAllParents(node) {
		return "notlinking"
	}
	bl, err := btc.NewBlock(b.raw)
	if err != nil {
		return "parse:" + err.Error()
	}
	bl.Height = node.Height
	bl.MedianPastTime = node.Parent.GetMedianTimePast()
	if er := ch.PostCheckBlock(bl); er != nil {
		return "check:" + er.Error()
	}
	if storeFirst {
		ch.Blocks.BlockAdd(node.Height, bl)
	}
	if er := ch.CommitBlock(bl, node); er != nil {
		return realOutcome(&chainkit.Result{AcceptErr: er})
	}
	return "ok"
}

// ---------------------------------------------------------------------------------------- the steps (real / model / reference)

func (s *scen) oracleHeaderLine(b *rBlock, dump bool) string {
	d := 0
	if dump {
		d = 1
	}
	return fmt.Sprintf("header %d %s %s %d", d, hex.EncodeToString(b.Hash[:]), hex.EncodeToString(b.Parent.Hash[:]), b.Bits)
}

func (s *scen) tipIdx() int {
	if x := s.byHash[s.k.Ch.LastBlock().BlockHash.Hash]; x != nil {
		return x.idx
	}
	return -1
}

// header announces b's header alone.
func (s *scen) header(b *rBlock) string {
	if s.dead || b.Parent == nil {
		return ""
	}
	s.step++
	refTooDeep := s.refTooDeep(b)
	out := s.realHeader(b.raw)
	s.ops = append(s.ops, fmt.Sprintf("header  #%d h=%d parent=#%d %s bits=%08x -> %s (tip #%d)", b.idx, b.Height, b.Parent.idx, b.label, b.Bits, out, s.tipIdx()))
	if b.linked < 0 && (b.Parent.Parent == nil || b.Parent.linked >= 0) && !refTooDeep {
		b.linked = s.seq
	}
	s.seq++
	s.moveFailed = false
	r.Hit("op/header")
	full := !s.quietBase
	rep := o.MustAsk(s.oracleHeaderLine(b, full))
	if strings.HasPrefix(out, "check:") || strings.HasPrefix(out, "parse:") {
		s.tieFail("tie-unexpected-refusal", "header refused for a reason outside the model: "+out)
		return out
	}
	if out == "toodeep" && !refTooDeep {
		s.propFail("refused-fork-within-the-window", fmt.Sprintf("the header of block #%d (height %d) was refused as hooking too deep although it is less than %d below the tip: the node can never follow that branch", b.idx, b.Height, movingCheckpointDepth))
		return out
	}
	s.observe("header", out, rep, full)
	return out
}

// commit hands over the data of b, whose header was (or was not) announced before.
func (s *scen) commit(b *rBlock) string {
	if s.dead || b.Parent == nil {
		return ""
	}
	s.step++
	storeFirst := s.gHdr.Chance(1, 2)
	out := s.realCommit(b, storeFirst)
	s.ops = append(s.ops, fmt.Sprintf("commit  #%d h=%d parent=#%d %s bits=%08x storeFirst=%v -> %s (tip #%d)", b.idx, b.Height, b.Parent.idx, b.label, b.Bits, storeFirst, out, s.tipIdx()))
	if b.firstSeen < 0 && b.linked >= 0 && (b.Parent.Parent == nil || b.Parent.firstSeen >= 0) {
		b.firstSeen = s.seq
	}
	s.seq++
	s.moveFailed = out == "movefailed"
	if s.moveFailed {
		s.failedReorg = true
	}
	r.Hit("op/commit")
	full := !s.quietBase
	rep := o.MustAsk("commit" + strings.TrimPrefix(s.oracleDeliverLine(b, full), "deliver"))
	if strings.HasPrefix(out, "check:") || strings.HasPrefix(out, "accept:") || strings.HasPrefix(out, "parse:") {
		s.tieFail("tie-unexpected-refusal", "block refused for a reason outside the model: "+out)
		return out
	}
	s.observe("commit", out, rep, full)
	if s.moveFailed {
		s.farthestCheck()
	}
	return out
}

// farthestCheck ties BlockTreeNode.FindFarthestNode itself to the model's `farthest` (the walk over ALL nodes, header-only
// leaves included, first child winning ties): since fix c3d926ba the fall-back uses findFarthestWithData (tied through
// every failed reorganisation), but FindFarthestNode still chooses the branch that Chain opens on when it is loaded
// (chain.go: ParseTillBlock(FindFarthestNode())) and the client's best header.
func (s *scen) farthestCheck() {
	if s.dead || s.noModel {
		return
	}
	var got string
	func() {
		defer func() { recover() }()
		n, _ := s.k.Ch.BlockTreeRoot.FindFarthestNode()
		got = hex.EncodeToString(n.BlockHash.Hash[:])
	}()
	want := o.MustAsk("farthest")
	if got != want {
		s.tieFail("tie-farthest", fmt.Sprintf("FindFarthestNode returns %s, the model's walk (first child wins ties, every leaf counts) %s", firstN(got, 16), firstN(want, 16)))
		return
	}
	r.Hit("farthest-node-checked")
}

// headerOnlyAbove counts the header-only nodes that hang (directly or not) below the real tip.
func (s *scen) headerOnlyAbove() int {
	var cnt func(n *chain.BlockTreeNode) int
	cnt = func(n *chain.BlockTreeNode) int {
		c := 0
		for _, k := range n.Childs {
			if k.TxCount == 0 {
				c++
			}
			c += cnt(k)
		}
		return c
	}
	return cnt(s.k.Ch.LastBlock())
}

// ---------------------------------------------------------------------------------------- corpus

// hf: header first — announce, then hand the data over.
func (s *scen) hf(bs ...*rBlock) {
	for _, b := range bs {
		s.header(b)
	}
	for _, b := range bs {
		s.commit(b)
	}
}

func (s *scen) headers(bs ...*rBlock) {
	for _, b := range bs {
		s.header(b)
	}
}

func (s *scen) commits(bs ...*rBlock) {
	for _, b := range bs {
		s.commit(b)
	}
}

// failedReorgWithHeadersAhead: the tip A1 (on P) has `ahead` announced, data-less descendants (and `sideHdr` header-only
// blocks on a third branch); B1, a sibling of A1 that is invalid only when connected, is stored aside; B2 on B1 makes
// that branch the heavier one: the reorganisation fails at B1 and ParseTillBlock falls back. `allHeaderFirst`: every
// block comes header first (the client); otherwise A1/B1/B2 come through CheckBlock + AcceptBlock.
// Before fix c3d926ba: ahead = 1 -> endless MoveToBlock/ParseTillBlock recursion (stack overflow, the process dies);
// ahead >= 2 -> "MoveToBlock cannot continue A1", the node stays on P although A1 is valid, stored and heavier.
func failedReorgWithHeadersAhead(s *scen, ahead, sideHdr int, allHeaderFirst bool, kinds []string) {
	P := s.base(103)
	all := allCoins(s)
	for _, kind := range kinds {
		if s.dead {
			return
		}
		a1 := s.makeBlock(P, "", all)
		up := s.chainOf(a1, ahead, all)
		var b1 *rBlock
		for try := 0; try < 4 && (b1 == nil || b1.valid); try++ {
			k := kind
			if try == 3 {
				k = "cb-overpay"
			}
			b1 = s.makeBlock(P, k, all)
			eval(b1)
		}
		if b1.valid {
			s.tieFail("corpus-setup", "b1 was meant to be invalid")
			return
		}
		b2 := s.makeBlock(b1, "", all)
		side := s.chainOf(P, sideHdr, all)
		if allHeaderFirst {
			s.hf(a1)
		} else {
			s.deliver(a1)
		}
		s.headers(up...)
		s.headers(side...)
		if n := s.headerOnlyAbove(); n != ahead && !s.dead {
			s.tieFail("corpus-setup", fmt.Sprintf("%d header-only nodes above the tip, wanted %d", n, ahead))
			return
		}
		r.Hit(fmt.Sprintf("header-first/failed-reorg/headers-ahead=%d", ahead))
		var out string
		if allHeaderFirst {
			s.headers(b1, b2)
			s.commit(b1)
			out = s.commit(b2)
		} else {
			s.deliver(b1)
			out = s.deliver(b2)
		}
		if out == "movefailed" {
			r.Hit("header-first/failed-reorg/fall-back-ran")
		}
		s.idle()
		// the announced blocks arrive after all: the node follows them
		s.commits(up...)
		if len(up) > 0 {
			P = up[len(up)-1]
		} else {
			P = a1
		}
		if s.dead {
			return
		}
		if t := specTip(s.blocks); t != P {
			P = t
		}
	}
}

func headerCorpus() []corpusEntry {
	tn := corpusList[1].opts // testnet rule set, fixed genesis time
	return []corpusEntry{
		{name: "header-first-failed-reorg-one-header-ahead", opts: tn, run: func(s *scen) {
			failedReorgWithHeadersAhead(s, 1, 0, false, []string{"missing", "double-spend"})
		}},
		{name: "header-first-failed-reorg-two-headers-ahead", opts: tn, run: func(s *scen) {
			failedReorgWithHeadersAhead(s, 2, 0, false, []string{"missing", "script"})
		}},
		{name: "header-first-failed-reorg-client-path", opts: tn, run: func(s *scen) {
			// everything header first, 1 / 3 headers ahead and a header-only third branch, every invalid kind
			failedReorgWithHeadersAhead(s, 1, 1, true, invalidKinds[:7])
			if s.dead {
				return
			}
		}},
		{name: "header-first-failed-reorg-three-ahead-client-path", opts: tn, run: func(s *scen) {
			failedReorgWithHeadersAhead(s, 3, 2, true, invalidKinds[7:])
		}},
		{name: "header-first-sync", opts: tn, run: func(s *scen) {
			// the normal case: a run of headers, the blocks afterwards — in order, out of order (parked: notlinking),
			// twice (dup), without header (noheader), header and data at once for a known header (already in)
			tip := s.base(102)
			all := allCoins(s)
			c := s.chainOf(tip, 6, all)
			s.commit(c[0]) // no header yet
			s.headers(c...)
			s.header(c[2]) // again
			s.commit(c[1]) // parent without data
			s.commit(c[3])
			s.deliver(c[0]) // CheckBlock + AcceptBlock for a known header: already in
			s.commit(c[0])
			s.commit(c[0]) // again
			s.commit(c[2]) // still not linking
			s.commit(c[1])
			s.commit(c[2])
			s.idle()
			s.commit(c[4])
			s.commit(c[3])
			s.commit(c[4])
			s.commit(c[5])
			// a side branch announced and fetched while the main one goes on: equal work stays aside, more work reorganises
			d := s.chainOf(c[3], 4, all)
			s.headers(d...)
			s.commit(d[0])
			s.commit(d[1]) // equal work: first seen stays
			s.commit(d[3]) // parked
			s.commit(d[2]) // more work: reorganisation through nodes that were headers a moment ago
			s.commit(d[3])
			s.undoLast()
		}},
		{name: "header-first-invalid-tip-with-announced-descendants", opts: tn, run: func(s *scen) {
			// CommitBlock refuses a block on the tip whose node has header-only descendants: it unlinks the block and
			// deletes its own index entry; the descendants stay in BlockIndex, unreachable from the root
			tip := s.base(104)
			all := allCoins(s)
			for _, k := range invalidKinds {
				if s.dead {
					return
				}
				h1 := s.makeBlock(tip, k, all)
				if eval(h1); h1.valid {
					continue
				}
				h := s.chainOf(h1, 3, all)
				s.headers(h1, h[0], h[1])
				s.commit(h[0])  // parent without data
				s.commit(h1)    // refused on the tip: h[0], h[1] are left unreachable
				s.header(h[2])  // accepted below an unreachable node
				s.header(h[0])  // already in
				s.commit(h[0])  // the client has discarded it
				s.deliver(h[1]) // already in
				s.header(h1)    // the refused block is announced again: linked again, header only
				s.commit(h1)    // and refused again
				g1 := s.makeBlock(tip, "", all)
				s.hf(g1)
				tip = g1
			}
		}},
		{name: "header-first-failed-reorg-with-announced-blocks-below-the-invalid-one", opts: tn, run: func(s *scen) {
			// header-only nodes hang below the invalid block, below the block that triggers the reorganisation, and on the
			// branch the node falls back to
			tip := s.base(103)
			all := allCoins(s)
			a := s.chainOf(tip, 3, all)
			b1 := s.makeBlock(tip, "", all)
			b2 := s.makeBlock(b1, "double-spend", all)
			if eval(b2); b2.valid {
				s.tieFail("corpus-setup", "b2 was meant to be invalid")
				return
			}
			b := s.chainOf(b2, 4, all)
			x := s.chainOf(b2, 2, all) // a second branch below the invalid block
			s.hf(a[0], a[1])
			s.headers(a[2])
			s.headers(b1, b2)
			s.headers(b...)
			s.headers(x...)
			s.commits(b1, b2, b[0]) // b[0]: more work than a[1] -> reorganisation fails at b2; b[1..3], x hang below
			s.commit(b[1])          // gone with its ancestors
			s.header(b[1])          // its parent is gone: orphan
			s.commit(a[2])
			s.idle()
			s.undoLast()
		}},
		{name: "fork-40-below-the-tip", opts: tn, run: func(s *scen) {
			// the fork-depth rule compares with 2016: a block whose height is 40 below the tip's is stored aside like any
			// other side block (as a whole block and header first), and when its branch overtakes, the node follows it
			tip := s.base(132)
			all := allCoins(s)
			anc := tip
			for i := 0; i < 41; i++ {
				anc = anc.Parent
			}
			s1 := s.addBlock(anc, blockOpts{label: "side-40-below"})
			if out := s.deliver(s1); out != "ok" && !s.dead {
				s.tieFail("fork-depth", "a side block 40 below the tip was not stored: "+out)
				return
			}
			r.Hit("fork-depth/40-below-accepted")
			h1 := s.addBlock(anc, blockOpts{label: "side-40-below-header-first"})
			if out := s.header(h1); out != "ok" && !s.dead {
				s.tieFail("fork-depth", "the header of a side block 40 below the tip was refused: "+out)
				return
			}
			s.commit(h1)
			p := s1
			for i := 0; i < 41 && !s.dead; i++ { // s1's branch: equal work at 40 more blocks, more at 41
				p = s.addBlock(p, blockOpts{label: "side-grows"})
				s.deliver(p)
			}
			_ = all
			s.idle()
			s.undoLast()
		}},
		{name: "fork-depth-2015-and-2016-below-the-tip", thoroughOnly: true, opts: tn, run: func(s *scen) {
			// the boundary of PreCheckBlock's rule `prevblk != lst_now && lst_now.Height - bl.Height >= 2016`, for a whole block
			// and for a header alone: 2015 below is stored aside, 2016 below is refused ("hooks too deep") — and one block later
			// the level that was just allowed is closed while a child of the stored side block is still welcome
			s.bulk, s.quietBase = true, true
			tip := s.blocks[0]
			for i := 0; i < 2030 && !s.dead; i++ {
				tip = s.addBlock(tip, blockOpts{label: "base"})
				if out := s.deliver(tip); out != "ok" && !s.dead {
					s.tieFail("deep-setup", fmt.Sprintf("base block at height %d refused: %s", tip.Height, out))
				}
			}
			s.bulk, s.quietBase = false, false
			if s.dead {
				return
			}
			anc := func(k int) *rBlock {
				x := tip
				for i := 0; i < k; i++ {
					x = x.Parent
				}
				return x
			}
			want := func(what, got, exp string) bool {
				if s.dead {
					return false
				}
				if got != exp {
					s.tieFail("fork-depth", what+": answer "+got+", expected "+exp)
					return false
				}
				r.Hit("fork-depth/" + what + "=" + exp)
				return true
			}
			s1 := s.addBlock(anc(2016), blockOpts{label: "side-2015-below"})
			s2 := s.addBlock(anc(2017), blockOpts{label: "side-2016-below"})
			h1 := s.addBlock(anc(2016), blockOpts{label: "hdr-2015-below"})
			h2 := s.addBlock(anc(2017), blockOpts{label: "hdr-2016-below"})
			if !want("block-2015-below", s.deliver(s1), "ok") || !want("block-2016-below", s.deliver(s2), "toodeep") ||
				!want("header-2015-below", s.header(h1), "ok") || !want("header-2016-below", s.header(h2), "toodeep") ||
				!want("data-of-header-2015-below", s.commit(h1), "ok") || !want("data-of-refused-header", s.commit(h2), "noheader") {
				return
			}
			tip = s.addBlock(tip, blockOpts{label: "base"})
			s.deliver(tip)
			s3 := s.addBlock(s1.Parent, blockOpts{label: "side-now-2016-below"})
			c1 := s.addBlock(s1, blockOpts{label: "child-of-stored-side-block"})
			if !want("block-2016-below-after-growth", s.deliver(s3), "toodeep") || !want("child-2015-below", s.deliver(c1), "ok") {
				return
			}
			s.idle()
		}},
		{name: "block-on-top-of-a-header-only-node", opts: tn, run: func(s *scen) {
			// CheckBlock + AcceptBlock (the RPC / import path) for a block whose PARENT is only a header: the block is stored
			// under it, and when its branch has more work MoveToBlock gives up in one of its three "cannot continue"
			// branches — nothing may change. (The header-only parent never gets its data here: see NOT COVERED.)
			P := s.base(103)
			all := allCoins(s)
			a := s.chainOf(P, 2, all)
			h1 := s.makeBlock(P, "", all)
			x := s.chainOf(h1, 3, all)
			s.deliver(a[0])
			s.header(h1)
			if s.deliver(x[0]) == "movefailed" { // height of the tip + 1, parent without data: "cannot continue A1"
				r.Hit("header-first/cannot-continue-A1")
			}
			s.deliver(a[1])
			if s.deliver(x[1]) == "movefailed" { // same height as the tip after the first loop: "cannot continue B"
				r.Hit("header-first/cannot-continue-B")
			}
			s.deliver(x[2])
			s.idle()
		}},
	}
}

// ---------------------------------------------------------------------------------------- random stream

// genRandomHeaders: the random trees of the plain stream, delivered the way the client receives blocks: headers run
// ahead of the data by 0..3 generations (or all headers first), the data arrives in random order (a block whose parent
// has no data yet is parked and retried), now and then a block comes through CheckBlock + AcceptBlock instead, headers
// and data are repeated, Idle() in between.
func genRandomHeaders(s *scen, size int) {
	g := s.g
	upper := randomTree(s, size)
	if s.dead {
		return
	}
	inUpper := map[*rBlock]bool{}
	kids := map[*rBlock][]*rBlock{}
	for _, b := range upper {
		inUpper[b] = true
		kids[b.Parent] = append(kids[b.Parent], b)
	}
	hdr := map[*rBlock]bool{}  // header announced (whatever the answer)
	done := map[*rBlock]bool{} // data handed over and not parked
	ahead := g.Intn(5)         // generations of headers announced ahead of the data; 4 = everything below
	if ahead == 4 {
		ahead = 1000
	}
	r.Hit(fmt.Sprintf("header-first/random/ahead=%d", min(ahead, 4)))
	hdrKnown := func(b *rBlock) bool { return !inUpper[b] || hdr[b] }
	var announce func(b *rBlock, depth int)
	announce = func(b *rBlock, depth int) {
		if s.dead {
			return
		}
		if !hdr[b] {
			if !hdrKnown(b.Parent) {
				return
			}
			s.header(b)
			hdr[b] = true
		}
		if depth > 0 {
			for _, k := range kids[b] {
				announce(k, depth-1)
			}
		}
	}
	hasData := func(b *rBlock) bool { return !inUpper[b] || done[b] }
	pending := append([]*rBlock{}, upper...)
	attempts := 0
	for len(pending) > 0 && !s.dead && attempts < 8*size+30 {
		attempts++
		var ready, blocked []int
		for i, b := range pending {
			if hasData(b.Parent) {
				ready = append(ready, i)
			} else {
				blocked = append(blocked, i)
			}
		}
		var i int
		if len(blocked) > 0 && (len(ready) == 0 || g.Chance(1, 6)) {
			i = blocked[g.Intn(len(blocked))]
			r.Hit("header-first/random/data-before-parent")
		} else {
			i = ready[g.Intn(len(ready))]
		}
		b := pending[i]
		whole := false
		if !hdr[b] && hasData(b.Parent) && g.Chance(1, 6) {
			// header and data at once — only on top of a block that has its data and is reachable from the root
			pn := s.nodeOf(b.Parent.Hash)
			whole = pn == nil || ((pn.TxCount != 0 || pn.Parent == nil) && !s.detached(pn))
		}
		var out string
		hdrAbove := s.headerOnlyAbove()
		if whole {
			if s.gTwin.Chance(1, 4) {
				s.deliverPrefixTwin(b, s.gTwin.Intn(4))
			}
			out = s.deliver(b)
			hdr[b] = true
			r.Hit("header-first/random/whole-block")
		} else {
			if !hdr[b] && !hdrKnown(b.Parent) && g.Chance(1, 3) {
				s.header(b) // header before its parent's header: orphan
				r.Hit("header-first/random/header-before-parent")
			}
			for p := b; inUpper[p] && !hdr[p]; p = p.Parent { // the headers on the way, oldest first
				anc := p
				for inUpper[anc.Parent] && !hdr[anc.Parent] {
					anc = anc.Parent
				}
				announce(anc, 0)
			}
			announce(b, ahead)
			out = s.commit(b)
		}
		if out != "notlinking" && out != "later" {
			done[b] = true
			pending = append(pending[:i], pending[i+1:]...)
		} else if hasData(b.Parent) {
			done[b] = true // parked although the parent's data was handed over: the parent was thrown away as invalid
			pending = append(pending[:i], pending[i+1:]...)
			r.Hit("header-first/random/parked-parent-was-dropped")
		}
		if out == "movefailed" {
			r.Hit(fmt.Sprintf("header-first/random/failed-reorg/header-only-above-tip=%d", min(hdrAbove, 3)))
		}
		switch g.Intn(14) {
		case 0:
			s.idle()
		case 1:
			if len(upper) > 0 {
				x := upper[g.Intn(len(upper))]
				if hdr[x] {
					s.commit(x) // again (dup), or after it was removed as invalid (noheader / refused again)
					r.Hit("header-first/random/data-again")
				}
			}
		case 2:
			x := upper[g.Intn(len(upper))]
			if hdr[x] {
				s.header(x) // again (dup), or after it was removed (linked again / orphan)
				r.Hit("header-first/random/header-again")
			}
		}
	}
	s.undoFilesCheck()
	for n := 1 + g.Intn(5); n > 0 && !s.dead; n-- {
		s.undoLast()
	}
	shape(s, upper)
}
