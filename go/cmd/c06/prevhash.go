package main

// prevhash.go — deliveries whose previous-block FIELD shares only its first 8 bytes (the key of Chain.BlockIndex) with a
// known block (fix 533896f3: such a block was linked under that block by PreCheckBlock / AcceptHeader and could become the
// tip although the block its header names does not exist). The twin of a block b is b's raw bytes with bytes 8..31 of the
// previous-block field changed and the nonce re-mined: valid in every other respect on b's parent. Bitcoin (and the
// reference here, which knows blocks by their whole hash only) treats it as an orphan: nothing may change.

import (
	"encoding/hex"
	"fmt"

	"github.com/piotrnar/gocoin/lib/btc"
	"verif/chainkit"
)

// deliverPrefixTwin submits the twin of b (mode 0: xor bytes 8..31, 1: random bytes, 2: one bit, 3: last byte only).
func (s *scen) deliverPrefixTwin(b *rBlock, mode int) {
	if s.dead || b.Parent == nil || len(b.raw) < 81 {
		return
	}
	raw := append([]byte{}, b.raw...)
	f := raw[4:36]
	switch mode % 4 {
	case 0:
		for i := 8; i < 32; i++ {
			f[i] ^= 0x5a
		}
	case 1:
		copy(f[8:], s.gTwin.Bytes(24))
		f[8] ^= 1
	case 2:
		f[8+s.gTwin.Intn(24)] ^= byte(1 << uint(s.gTwin.Intn(8)))
	default:
		f[31] ^= 0x80
	}
	if hex.EncodeToString(f) == hex.EncodeToString(b.Parent.Hash[:]) {
		f[9] ^= 1
	}
	chainkit.Mine(raw[:80], false)
	var scrambled [32]byte
	copy(scrambled[:], f)
	if s.byHash[scrambled] != nil {
		return // (cannot happen: 2^-192)
	}
	s.step++
	tip0, h0 := s.k.Tip()
	res := s.k.Submit(raw)
	out := realOutcome(res)
	tip1, h1 := s.k.Tip()
	twin := *b
	twin.Hash = btc.NewSha2Hash(raw[:80]).Hash
	twin.Parent = &rBlock{Hash: scrambled}
	s.ops = append(s.ops, fmt.Sprintf("deliver TWIN of #%d (prev-hash field keeps bytes 0..7 of #%d, mode %d) -> %s", b.idx, b.Parent.idx, mode%4, out))
	s.seq++
	s.moveFailed = false
	r.Hit("delivery/prefix-only-prev-hash")
	full := !s.quietBase
	rep := o.MustAsk(s.oracleDeliverLine(&twin, full))
	if out != "later" || tip1 != tip0 || h1 != h0 {
		s.propFail("accepted-unknown-parent", fmt.Sprintf("a block whose previous-block field %x is the hash of no block (it shares its first 8 bytes with block #%d) was not turned away as an orphan: outcome %s, tip %s height %d -> %s height %d",
			scrambled, b.Parent.idx, out, tip0[:16], h0, tip1[:16], h1))
		return
	}
	if _, ok := s.k.Ch.BlockIndex[btc.NewUint256(twin.Hash[:]).BIdx()]; ok && s.byHash[twin.Hash] == nil {
		s.propFail("accepted-unknown-parent", "the twin was refused but is in BlockIndex")
		return
	}
	s.observe("deliver-prefix-twin", out, rep, full)
}
