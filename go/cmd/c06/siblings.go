package main

// Stream "siblings": histories in which the ORDER of a parent's child list is observable.
//
// gocoin keeps a node's children in arrival order (addChild appends, delChild keeps the order of the rest) and the
// fall-back after a failed reorganisation (ParseTillBlock -> FindFarthestNode) lets the FIRST child's subtree win an
// equal-work tie. The order therefore shows in the tip exactly when
//   * a parent P has >= 3 children,
//   * one of them (not the last) is removed by DeleteBranch because it turns out invalid when it is connected — which
//     needs its branch to become the heaviest one, so it arrived as a side block —, and
//   * among the surviving siblings' branches two (or more) carry the maximum work.
// One scenario = a base chain and several such episodes on top of each other; every parameter (number of siblings 3..5,
// which sibling(s) are invalid, which survivors tie, depth of the tie, whether P is the tip or a side block next to a
// competing main branch, delivery order inside a depth, Idle() calls, the rule the invalid block breaks) is drawn from
// the scenario's generator. The judge is the same as everywhere: ref.go (first-seen most-work valid tip; documented
// first-child fall-back choice computed from arrival order) and the Lean model.

import (
	"fmt"
)

func genSiblings(s *scen, size int) {
	g := s.g
	episodes := size
	if episodes < 1 || episodes > 6 {
		episodes = 2 + size%4
	}
	tip := s.base(101 + g.Intn(6))
	for ep := 0; ep < episodes && !s.dead && tip != nil; ep++ {
		tip = s.siblingEpisode(tip)
	}
	if s.dead {
		return
	}
	s.undoFilesCheck()
	for n := 1 + g.Intn(3); n > 0 && !s.dead; n-- {
		s.undoLast()
	}
}

// invalidChild builds a block on parent that is well-formed (it is stored when it arrives as a side block) but fails
// when it is connected.
func (s *scen) invalidChild(parent *rBlock, all map[outpoint]rCoin) *rBlock {
	for try := 0; try < 4; try++ {
		kind := invalidKinds[s.g.Intn(len(invalidKinds))]
		if try == 3 {
			kind = "cb-overpay" // always possible
		}
		b := s.makeBlock(parent, kind, all)
		if eval(b); !b.valid {
			return b
		}
		// the generator found nothing to break with this kind here: the block stays undelivered (unknown to the node)
	}
	return nil
}

func (s *scen) shuffle(bs []*rBlock) {
	for i := len(bs) - 1; i > 0; i-- {
		j := s.g.Intn(i + 1)
		bs[i], bs[j] = bs[j], bs[i]
	}
}

// siblingEpisode runs one episode on top of the (valid, connected) tip T and returns the tip the reference expects
// afterwards (nil: stop).
func (s *scen) siblingEpisode(T *rBlock) *rBlock {
	g := s.g
	all := allCoins(s)
	sideP := g.Chance(1, 2)
	targeted := g.Chance(2, 3)
	k := 3 + g.Intn(3)
	lo := 0 // lowest index that may be invalid
	if !sideP {
		lo = 1 // P is the tip: its first child is connected at once, so it is a valid one
		if targeted && k < 4 {
			k = 4 + g.Intn(2)
		}
	}
	// --- who is invalid, who ties
	isVictim := make([]bool, k)
	tied := make([]bool, k)
	var v int
	if targeted { // v < j < last, j and the last sibling tie: a deletion that reorders the rest is visible
		v = lo + g.Intn(k-2-lo)
		j := v + 1 + g.Intn(k-2-v)
		tied[j], tied[k-1] = true, true
		r.Hit("siblings/targeted")
	} else {
		v = lo + g.Intn(k-lo)
		r.Hit("siblings/free")
	}
	isVictim[v] = true
	var free []int
	for i := 0; i < k; i++ {
		if !isVictim[i] && !tied[i] {
			free = append(free, i)
		}
	}
	pickFree := func() int {
		x := g.Intn(len(free))
		i := free[x]
		free = append(free[:x], free[x+1:]...)
		return i
	}
	if !targeted {
		tied[pickFree()] = true
		tied[pickFree()] = true
	}
	if len(free) > 0 && g.Chance(1, 3) { // a three-way tie
		tied[pickFree()] = true
	}
	if len(free) > 0 && g.Chance(1, 4) { // a second invalid sibling: two deletions
		i := pickFree()
		if i >= lo {
			isVictim[i] = true
			r.Hit("siblings/two-invalid")
		}
	}
	// --- depths (children of P are at depth 1)
	lm := 0
	ht := 2 + g.Intn(2)
	if sideP {
		lm = 2 + g.Intn(2) // main branch next to P: the children of P (height T+2) arrive as side blocks
		ht = lm + g.Intn(2)
	}
	// --- build
	P := T
	var M []*rBlock
	if sideP {
		M = s.chainOf(T, lm, all)
		P = s.makeBlock(T, "", all)
	}
	kids := make([]*rBlock, k)
	byDepth := map[int][]*rBlock{} // depth -> survivors' blocks
	vicDepth := map[int][]*rBlock{}
	var finals []*rBlock
	last := -1
	for i := 0; i < k; i++ {
		depth := 1 + g.Intn(ht-1)
		switch {
		case isVictim[i]:
			depth = ht + 1
			kids[i] = s.invalidChild(P, all)
			if kids[i] == nil {
				return nil
			}
		case tied[i]:
			depth = ht
			kids[i] = s.makeBlock(P, "", all)
			last = i
		default:
			kids[i] = s.makeBlock(P, "", all)
		}
		p := kids[i]
		for d := 2; d <= depth; d++ {
			p = s.makeBlock(p, "", all)
			switch {
			case isVictim[i] && d == depth:
				finals = append(finals, p)
			case isVictim[i]:
				vicDepth[d] = append(vicDepth[d], p)
			default:
				byDepth[d] = append(byDepth[d], p)
			}
		}
	}
	r.Hit(fmt.Sprintf("siblings/children=%d", k))
	if sideP {
		r.Hit("siblings/parent-is-side-block")
	} else {
		r.Hit("siblings/parent-is-tip")
	}
	if v < last {
		r.Hit("siblings/invalid-sibling-before-a-tied-one")
	}
	if v == k-1 {
		r.Hit("siblings/invalid-sibling-is-last")
	}
	// --- deliver
	s.deliverAll(M...)
	if sideP {
		s.deliver(P)
	}
	s.deliverAll(kids...) // arrival order of the siblings = order of P's child list
	if g.Chance(1, 5) {
		s.idle()
	}
	for d := 2; d <= ht; d++ {
		row := byDepth[d]
		if d < ht || g.Chance(1, 8) {
			s.shuffle(row) // in the last row: a later sibling's leaf is seen first
		}
		s.deliverAll(row...)
		s.deliverAll(vicDepth[d]...) // never strictly ahead: stays aside
		if g.Chance(1, 8) {
			s.idle()
		}
	}
	s.shuffle(finals)
	for _, f := range finals { // each one makes an invalid sibling's branch the heaviest: reorganisation fails at the sibling
		if s.deliver(f) == "movefailed" {
			r.Hit("siblings/failed-reorg-deleted-a-sibling")
			if v < last && v < k-1 {
				r.Hit("siblings/child-order-observable")
			}
		}
		if g.Chance(1, 5) {
			s.idle()
		}
	}
	if s.dead {
		return nil
	}
	return specTip(s.blocks)
}
