package main

// Hand-made scenarios: past defects (kept so that they are reported again if they return), the boundaries named in the
// property's quantifier, and the places where the code's tip selection is known to differ from the stated rule.

import (
	"fmt"
	"os"

	"github.com/piotrnar/gocoin/lib/btc"
	"verif/chainkit"
)

func allCoins(s *scen) map[outpoint]rCoin {
	m := map[outpoint]rCoin{}
	for _, b := range s.blocks {
		for i, t := range b.Txs {
			for v, ou := range t.Outs {
				m[outpoint{t.Txid, uint32(v)}] = rCoin{ou, b.Height, i == 0}
			}
		}
	}
	return m
}

// chainOf adds n plain (random valid content) blocks on top of p.
func (s *scen) chainOf(p *rBlock, n int, all map[outpoint]rCoin) []*rBlock {
	var out []*rBlock
	for i := 0; i < n; i++ {
		p = s.makeBlock(p, "", all)
		out = append(out, p)
	}
	return out
}

func (s *scen) deliverAll(bs ...*rBlock) {
	for _, b := range bs {
		s.deliver(b)
	}
}

func init() {
	tn := chainkit.Opts{Testnet: true, GenesisTime: fixedGenesisTime}
	mainnet := chainkit.Opts{GenesisTime: fixedGenesisTime}
	corpusList = []corpusEntry{
		{name: "retarget-shorter-heavier-and-exact-tie", thoroughOnly: true, opts: mainnet, run: func(s *scen) {
			// 2014 common blocks 200 s apart; branch X: block 2015 late (retarget capped: bits stay 0x207fffff);
			// branch Y: block 2015 at genesis+437515 s => retarget to mantissa 0x2e4c41 = 17/47 of 0x7fffff exactly.
			// (1) Y with 3 heavy blocks beats X with 7 light ones (shorter but heavier);
			// (2) X with 47 light blocks ties EXACTLY with Y with 17 heavy ones: first seen must stay.
			g0 := s.k.Opts.GenesisTime
			tip := s.blocks[0]
			s.bulk, s.quietBase = true, true
			for i := 1; i <= 2014 && !s.dead; i++ {
				tip = s.addBlock(tip, blockOpts{time: g0 + uint32(200*i), label: "base"})
				if out := s.deliver(tip); out != "ok" && !s.dead {
					s.tieFail("base-refused", "base chain block refused: "+out)
				}
			}
			s.bulk, s.quietBase = false, false
			fork := tip
			x := []*rBlock{s.addBlock(fork, blockOpts{time: g0 + 1300000, label: "x2015"})}
			y := []*rBlock{s.addBlock(fork, blockOpts{time: g0 + 437515, label: "y2015"})}
			for i := 0; i < 47; i++ {
				x = append(x, s.addBlock(x[len(x)-1], blockOpts{label: "x-light"}))
			}
			for i := 0; i < 17; i++ {
				y = append(y, s.addBlock(y[len(y)-1], blockOpts{label: "y-heavy"}))
			}
			if y[1].Bits != 0x202e4c41 || x[1].Bits != 0x207fffff {
				s.tieFail("retarget-setup", fmt.Sprintf("unexpected bits after the retarget: x %08x y %08x", x[1].Bits, y[1].Bits))
				return
			}
			r.Hit("retarget/bits-differ-between-branches")
			s.deliverAll(x[:8]...) // X: 2015 + 7 light
			s.deliverAll(y[:4]...) // Y: 2015 + 3 heavy: fewer blocks, more work => reorg to the SHORTER branch
			s.idle()
			s.deliverAll(x[8:]...) // X grows to 47 light blocks: heavier again
			s.deliverAll(y[4:]...) // Y grows to 17 heavy blocks: exact tie with X at the last one; X was first
		}},
		{name: "f7-reorg-defrag", alloc: true, opts: tn, run: func(s *scen) {
			// fixed by 452397fe: with the allocator wired, reorg + DefragUTXOMem re-inserted the outputs of undone blocks
			tip := s.base(103)
			all := allCoins(s)
			a := s.chainOf(tip, 1, all)
			for len(a[0].Txs) < 2 { // make sure the undone block has transactions
				a = s.chainOf(tip, 1, all)
			}
			b := s.chainOf(tip, 2, all)
			s.deliverAll(a[0], b[0], b[1])
			s.defrag()
			c := s.chainOf(a[0], 3, all) // and back to the first branch
			s.deliverAll(c...)
			s.defrag()
			s.undoLast()
			s.defragAfterUndo()
		}},
		{name: "invalid-parent-with-child-after-idle", opts: tn, run: func(s *scen) {
			// fixed by 41834ce3: delAllChildren flagged the (already written) invalid parent a second time -> panic with locks held
			tip := s.base(103)
			all := allCoins(s)
			a := s.chainOf(tip, 2, all)
			b1 := s.makeBlock(tip, "", all)
			b2 := s.makeBlock(b1, "double-spend", all)
			b3 := s.makeBlock(b2, "", all)
			b3b := s.makeBlock(b2, "", all)
			b4 := s.makeBlock(b3, "", all)
			if eval(b2); b2.valid {
				s.tieFail("corpus-setup", "b2 was meant to be invalid")
				return
			}
			s.deliverAll(a[0], a[1], b1, b2) // b2 (invalid once connected) has the same height as the tip: stored aside
			s.idle()                         // ... and written to disk
			s.deliver(b3)                    // more work: reorg attempt, fails at b2 which now has the child b3
			s.deliverAll(b3b, b4)            // descendants of the dropped branch: refused
			s.deliverAll(s.chainOf(a[1], 1, all)...)
			s.idle()
		}},
		{name: "tie-first-seen", opts: tn, run: func(s *scen) {
			tip := s.base(102)
			all := allCoins(s)
			a1 := s.makeBlock(tip, "", all)
			b1 := s.makeBlock(tip, "", all)
			s.deliverAll(a1, b1) // equal work: a1 stays
			b2 := s.makeBlock(b1, "", all)
			s.deliver(b2) // more work: reorg
			a2 := s.makeBlock(a1, "", all)
			s.deliver(a2) // equal again: b2 stays
			s.idle()
			a3 := s.makeBlock(a2, "", all)
			s.deliver(a3)
		}},
		{name: "tie-after-failed-reorg", opts: tn, run: func(s *scen) {
			// x1; b2 (first child of x1); a2; a3 (tip); b3 (equal work, a3 was first); b4 invalid -> the fall-back
			// FindFarthestNode prefers the FIRST CHILD's subtree on equal work, not the first-seen leaf
			tip := s.base(102)
			all := allCoins(s)
			x1 := s.makeBlock(tip, "", all)
			b2 := s.makeBlock(x1, "", all)
			a2 := s.makeBlock(x1, "", all)
			a3 := s.makeBlock(a2, "", all)
			b3 := s.makeBlock(b2, "", all)
			b4 := s.makeBlock(b3, "double-spend", all)
			s.deliverAll(x1, b2, a2, a3, b3, b4)
		}},
		{name: "tie-after-failed-reorg-first-child-is-first-seen", opts: tn, run: func(s *scen) {
			// as above, but the first child of x1 is also the side that was seen first: x1; a2 (first child); b2; a3 (tip);
			// b3 (equal work, later); b4 invalid -> the fall-back must return to a3. (A fall-back in which the LAST
			// child wins equal work ends on b3: neither first seen nor the documented first-child choice.)
			tip := s.base(102)
			all := allCoins(s)
			x1 := s.makeBlock(tip, "", all)
			a2 := s.makeBlock(x1, "", all)
			b2 := s.makeBlock(x1, "", all)
			a3 := s.makeBlock(a2, "", all)
			b3 := s.makeBlock(b2, "", all)
			b4 := s.makeBlock(b3, "double-spend", all)
			if eval(b4); b4.valid {
				s.tieFail("corpus-setup", "b4 was meant to be invalid")
				return
			}
			s.deliverAll(x1, a2, b2, a3, b3)
			if s.deliver(b4) == "movefailed" {
				r.Hit("corpus/fall-back-with-equal-work-leaves")
			}
			s.idle()
			s.undoLast()
		}},
		{name: "heavier-not-taller", opts: tn, genesisBits: heavyBits, run: func(s *scen) {
			// H = work of a heavy block (bits 0x201fffff), L = of a light one (0x207fffff): H = 4.0000014 L.
			tip := s.base(102) // heavy blocks (except block 1)
			all := allCoins(s)
			var a []*rBlock
			p := tip
			for i := 0; i < 5; i++ {
				p = s.makeBlockL(p, "", all, true)
				a = append(a, p)
			}
			b1 := s.makeBlockL(tip, "", all, false)
			b2 := s.makeBlockL(b1, "", all, false)
			if tip.Bits != heavyBits || a[0].Bits != chainkit.EasyBits || a[4].Bits != chainkit.EasyBits || b1.Bits != heavyBits || b2.Bits != heavyBits {
				s.tieFail("mixed-bits-setup", fmt.Sprintf("unexpected bits: base %08x a1 %08x a5 %08x b1 %08x b2 %08x", tip.Bits, a[0].Bits, a[4].Bits, b1.Bits, b2.Bits))
				return
			}
			r.Hit("corpus/bits-differ-between-branches")
			s.deliverAll(a[:3]...) // tip a3, height 105, work 3L
			s.deliver(b1)          // height 103, work H > 3L: reorganise to the SHORTER branch
			s.deliver(a[3])        // height 106, 4L < H: stays aside although taller
			s.deliver(a[4])        // 5L > H: back to A
			s.deliver(b2)          // height 104, 2H > 5L: reorganise to the shorter branch again
			s.idle()
			s.undoLast()
			s.undoLast()
		}},
		{name: "failed-reorg-mixed-bits-lighter-tip", opts: tn, genesisBits: heavyBits, run: func(s *scen) {
			// x1 light (tip, work L); c1 heavy on the same parent (H > L: reorganise to c1); x2 on x1 invalid when connected,
			// x3..x5 light: stored aside until 5L > H, then the reorganisation fails at x2. The fall-back values every
			// leaf by the work of the blocks ABOVE it: x1 and c1 tie at 0, the first child x1 wins although c1 is heavier.
			tip := s.base(102)
			all := allCoins(s)
			x1 := s.makeBlockL(tip, "", all, true)
			c1 := s.makeBlockL(tip, "", all, false)
			x2 := s.makeBlockL(x1, "double-spend", all, true)
			if eval(x2); x2.valid || x1.Bits != chainkit.EasyBits || c1.Bits != heavyBits {
				s.tieFail("mixed-bits-setup", fmt.Sprintf("x2 valid=%v, bits x1 %08x c1 %08x", x2.valid, x1.Bits, c1.Bits))
				return
			}
			x := []*rBlock{x2}
			for i := 0; i < 3; i++ {
				x = append(x, s.makeBlockL(x[len(x)-1], "", all, true))
			}
			s.deliverAll(x1, c1)
			s.deliverAll(x...)
			s.idle()
		}},
		{name: "fork-at-genesis", opts: tn, run: func(s *scen) {
			// the root node has TxCount == 0, and MoveToBlock refuses when `cur.Parent.TxCount == 0`
			all := map[outpoint]rCoin{}
			g := s.blocks[0]
			a1 := s.makeBlock(g, "", all)
			b1 := s.makeBlock(g, "", all)
			b2 := s.makeBlock(b1, "", all)
			s.deliverAll(a1, b1, b2)
		}},
		{name: "failed-reorg-at-genesis", opts: tn, run: func(s *scen) {
			// a reorganisation whose common block is the genesis node fails (b1 invalid once connected): the fall-back
			// MoveToBlock(a1) starts from the genesis tip; its first loop climbs from a1 to the genesis node (TxCount 0)
			all := map[outpoint]rCoin{}
			g := s.blocks[0]
			a1 := s.makeBlock(g, "", all)
			b1 := s.makeBlock(g, "cb-overpay", all)
			b2 := s.makeBlock(b1, "", all)
			if eval(b1); b1.valid {
				s.tieFail("corpus-setup", "b1 was meant to be invalid")
				return
			}
			s.deliverAll(a1, b1, b2)
		}},
		{name: "partial-spend-and-in-block-chain-undo", opts: tn, run: func(s *scen) {
			tip := s.base(106)
			all := allCoins(s)
			eval(tip)
			// block 1: spend ONE output of a multi-output coinbase, then spend that transaction's output inside the block
			var tg *txGen
			var ops []outpoint
			var t1 *btc.Tx
			for { // until outputs 0 and 2 of t1 are of a kind the next transaction can spend
				tg = &txGen{s: s, view: tip.view, height: tip.Height + 1, used: map[outpoint]bool{}, local: map[outpoint]rCoin{}}
				ops = tg.spendable(false)
				t1 = tg.spend(ops[:1], 3, 0, false)
				if scriptClass(t1.TxOut[0].Pk_script) == "" && scriptClass(t1.TxOut[2].Pk_script) == "" {
					break
				}
			}
			tg.spend([]outpoint{{t1.Hash.Hash, 0}, {t1.Hash.Hash, 2}}, 2, 0, false) // t1 keeps output 1 only
			tg.spend([]outpoint{ops[len(ops)-1]}, 1, 0, false)
			b1 := s.addBlock(tip, blockOpts{txs: tg.txs, label: "partial+chain"})
			s.deliver(b1)
			eval(b1)
			// block 2: spend the rest of that coinbase record and t1's remaining output
			tg2 := &txGen{s: s, view: b1.view, height: b1.Height + 1, used: map[outpoint]bool{}, local: map[outpoint]rCoin{}}
			var rest []outpoint
			for _, op := range tg2.spendable(false) {
				if op.Txid == ops[0].Txid || op.Txid == t1.Hash.Hash {
					rest = append(rest, op)
				}
			}
			if len(rest) > 0 {
				tg2.spend(rest, 2, 0, false)
			}
			b2 := s.addBlock(b1, blockOpts{txs: tg2.txs, label: "spend-rest"})
			s.deliver(b2)
			s.idle()
			// a competing branch of three empty blocks: both blocks are disconnected
			c := s.chainOf(tip, 3, all)
			s.deliverAll(c...)
			// and reconnected
			d := s.chainOf(b2, 2, all)
			s.deliverAll(d...)
			s.undoLast()
			s.undoLast()
			s.undoLast()
		}},
		{name: "child-before-parent", opts: tn, run: func(s *scen) {
			tip := s.base(102)
			all := allCoins(s)
			c := s.chainOf(tip, 3, all)
			s.deliver(c[2]) // refused: maybelater
			s.deliver(c[1])
			s.deliver(c[0])
			s.deliver(c[2]) // still refused (its parent was refused too)
			s.deliver(c[1])
			s.deliver(c[2])
			s.deliver(c[2]) // duplicate
		}},
		{name: "invalid-tip-extension-then-valid-sibling", opts: tn, run: func(s *scen) {
			tip := s.base(104)
			all := allCoins(s)
			for _, k := range invalidKinds {
				bad := s.makeBlock(tip, k, all)
				s.deliver(bad)
				kid := s.makeBlock(bad, "", all)
				s.deliver(kid) // parent was dropped (or is invalid): refused / never the tip
			}
			good := s.makeBlock(tip, "", all)
			s.deliver(good)
		}},
		{name: "winning-branch-nth-block-invalid", opts: tn, run: func(s *scen) {
			tip := s.base(104)
			all := allCoins(s)
			for _, k := range invalidKinds {
				a := s.chainOf(tip, 2, all)
				s.deliverAll(a...)
				b := s.chainOf(tip, 2, all)
				bad := s.makeBlock(b[1], k, all)
				after := s.chainOf(bad, 1, all)
				s.deliverAll(b[0], b[1], bad) // bad has more work: reorg, fails at its last block
				s.deliver(after[0])
				tip = a[1]
				if s.dead {
					return
				}
				eval(b[1])
				if t := specTip(s.blocks); t != a[1] && t != b[1] {
					tip = t
				}
			}
		}},
		{name: "spend-of-later-tx-in-block", opts: tn, run: func(s *scen) {
			// the order of a block's transactions is part of its validity: an output of the block is spendable only by the
			// transactions listed BEHIND the one that creates it. For each way of misplacing (child just before its parent /
			// child first, parent last / list reversed / random non-topological order): the misordered block on the tip
			// (refused, nothing changes, its child an orphan), the SAME transactions in a good order (accepted), and the
			// misordered block as the last block of a branch that becomes the heaviest (the reorganisation fails there).
			tip := s.base(104)
			all := allCoins(s)
			for m := 0; m < 4 && !s.dead; m++ {
				s.orderMode = m
				bad := s.makeBlock(tip, "order", all)
				if eval(bad); bad.valid {
					s.tieFail("corpus-setup", "the misordered block was meant to be invalid")
					return
				}
				s.deliver(bad)
				s.deliver(s.makeBlock(bad, "", all))
				good := s.addBlock(tip, blockOpts{txs: s.lastOrdered, label: "order-ok"})
				for _, t := range good.Txs {
					for v, ou := range t.Outs {
						all[outpoint{t.Txid, uint32(v)}] = rCoin{ou, good.Height, false}
					}
				}
				if eval(good); !good.valid {
					s.tieFail("corpus-setup", "the well-ordered block was meant to be valid: "+good.why)
					return
				}
				s.deliver(good)
				a := s.chainOf(good, 2, all)
				s.deliverAll(a...)
				b := s.chainOf(good, 2, all)
				bad2 := s.makeBlock(b[1], "order", all)
				after := s.chainOf(bad2, 1, all)
				s.deliverAll(b[0], b[1], bad2) // more work than a: reorganisation, fails at the misordered block
				s.deliver(after[0])
				tip = a[1]
				if s.dead {
					return
				}
				if t := specTip(s.blocks); t != a[1] && t != b[1] {
					tip = t
				}
			}
			s.orderMode = -1
		}},
		{name: "alternating-growth-reorg-below-pruned-undo", thoroughOnly: true, opts: tn, run: func(s *scen) {
			// OUTSIDE the all-histories theorem (BlockTree.depth: no branch longer than 2560) — documents what lies there.
			// PreCheckBlock's depth rule compares the NEW block's height with the tip (< 2016 below it), not the fork point, so
			// two branches can grow alternately: A (active) to f+2000, B (stored aside, never heavier) to f+1990, A to f+3990,
			// B to f+3980 … then B overtakes. The reorganisation has to disconnect 3990 blocks, but CommitBlockTxs removed the
			// undo files more than 2560 below the tip: UndoBlockTxs deletes the block's outputs, then panics on the missing
			// file (known finding deep-reorg-pruned-undo-panic). The model panics at the same block ("panic:undo file
			// missing": checked once by hand with C06_DEEP_MODEL=1, 15 min for the list-based model), so the run goes without it.
			s.bulk, s.quietBase = true, true
			s.noModel = os.Getenv("C06_DEEP_MODEL") == ""
			fork := s.blocks[0]
			for i := 0; i < 3 && !s.dead; i++ {
				fork = s.addBlock(fork, blockOpts{label: "base"})
				s.deliver(fork)
			}
			a, b := fork, fork
			grow := func(tip *rBlock, n int, label string) *rBlock {
				for i := 0; i < n && !s.dead; i++ {
					tip = s.addBlock(tip, blockOpts{label: label})
					if out := s.deliver(tip); out != "ok" && !s.dead {
						s.tieFail("deep-setup", fmt.Sprintf("%s block at height %d refused: %s", label, tip.Height, out))
					}
				}
				return tip
			}
			a = grow(a, 2000, "a")
			b = grow(b, 1990, "b")
			a = grow(a, 1990, "a")
			b = grow(b, 1990, "b")
			if s.dead {
				return
			}
			r.Hit("deep/branches-built(a=3990,b=3980 above the fork)")
			s.bulk, s.quietBase = false, false
			s.deepReorg = true
			grow(b, 12, "b-overtakes") // at the block that makes B heavier the reorganisation starts
		}},
		{name: "prev-hash-shares-only-index-key", opts: tn, run: func(s *scen) {
			// fixed 533896f3 (C05): a block that is valid on a known parent except that its previous-block field keeps only
			// the first 8 bytes (the BlockIndex key) of the parent's hash was accepted (on the tip: became the tip; on a side
			// branch with more work: reorganised to). Twins of a tip extension, of a side block, of a heavier side branch's
			// last block, and of a block whose parent is not delivered yet — each in the four ways of changing bytes 8..31.
			tip := s.base(103)
			all := allCoins(s)
			a := s.chainOf(tip, 2, all)
			for m := 0; m < 4; m++ {
				s.deliverPrefixTwin(a[0], m) // would extend the tip
			}
			s.deliver(a[0])
			b := s.chainOf(tip, 3, all)
			for m := 0; m < 4; m++ {
				s.deliverPrefixTwin(b[0], m) // side block under the old tip
			}
			s.deliverAll(b[0], b[1])
			for m := 0; m < 4; m++ {
				s.deliverPrefixTwin(b[2], m) // would make the side branch the heavier one (reorganisation)
				s.deliverPrefixTwin(a[1], m) // would extend the tip again
			}
			s.deliverPrefixTwin(a[1], 0) // the same twin twice
			s.deliver(b[2])              // the real one: reorganisation
			s.idle()
			s.deliverAll(a[1])
			c := s.chainOf(b[2], 2, all)
			s.deliverPrefixTwin(c[1], 1) // parent not delivered: orphan either way
			s.deliverAll(c...)
		}},
	}
	corpusList = append(corpusList, headerCorpus()...)
}
