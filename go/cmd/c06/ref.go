package main

// Independent reference semantics (the property's own predicate): block validity in the context of its branch,
// exact cumulative work, first-seen tie-break, UTXO set of a path. Written from the Bitcoin rules, not from gocoin.

import (
	"encoding/hex"
	"fmt"
	"math/big"
	"sort"

	"github.com/piotrnar/gocoin/lib/btc"
	"github.com/piotrnar/gocoin/lib/chain"
)

type outpoint struct {
	Txid [32]byte
	Vout uint32
}

type rOut struct {
	Value  uint64
	Script []byte
}

type rCoin struct {
	rOut
	Height   uint32
	Coinbase bool
}

type rTx struct {
	Txid      [32]byte
	Ins       []outpoint
	Outs      []rOut
	ScriptsOK bool
	SigOpCost uint32 // 4 x legacy signature-operation count of the transaction's scripts (refSigOps). The reference applies the
	// 80000 limit; NO generator produces a block above it, because the Lean model's commitTxs (Model/UtxoOps, shared with
	// C04's refinement proof and therefore not changed here) has no such test — stated under NOT COVERED in the manifest
}

const maxBlockSigOpsCost = 80000

// refSigOps = CScript::GetSigOpCount(fAccurate=false) of script.cpp: CHECKSIG(VERIFY) = 1, CHECKMULTISIG(VERIFY) = 20,
// pushes skipped; a script that cannot be parsed counts what was seen so far.
func refSigOps(scr []byte) (n uint32) {
	for i := 0; i < len(scr); {
		op := scr[i]
		i++
		switch {
		case op >= 1 && op <= 75:
			i += int(op)
		case op == 76:
			if i >= len(scr) {
				return
			}
			i += 1 + int(scr[i])
		case op == 77:
			if i+1 >= len(scr) {
				return
			}
			i += 2 + int(scr[i]) + int(scr[i+1])<<8
		case op == 78:
			if i+3 >= len(scr) {
				return
			}
			i += 4 + int(scr[i]) + int(scr[i+1])<<8 + int(scr[i+2])<<16 + int(scr[i+3])<<24
		case op == 0xac || op == 0xad:
			n++
		case op == 0xae || op == 0xaf:
			n += 20
		}
	}
	return
}

type rBlock struct {
	idx    int
	Hash   [32]byte
	Parent *rBlock
	Height uint32
	Bits   uint32
	Txs    []rTx
	raw    []byte
	node   *chain.BlockTreeNode // shadow tree node (for chainkit.Build / GetNextWorkRequired)
	label  string               // generator's intent

	evaluated bool
	valid     bool // the whole branch genesis..this is valid
	why       string
	view      map[outpoint]rCoin // UTXO set after this block (only when valid)
	work      *big.Rat           // cumulative exact work of the branch (genesis excluded)
	firstSeen int                // delivery index at which the node got to know it WITH ITS DATA, the data of all its ancestors being known (-1 = not yet)
	linked    int                // delivery index at which its node was linked under its parent (header alone, or header and data at once; -1 = not yet)
	delivered bool
}

const maturity = 100

func subsidy(h uint32) uint64 { return uint64(50e8) >> (h / 210000) }

// difficultyExact = 0xffff·256^(29−e)/mantissa
func difficultyExact(bits uint32) *big.Rat {
	e := int(bits >> 24)
	m := int64(bits & 0x00ffffff)
	num := big.NewInt(0xffff)
	den := big.NewInt(m)
	p := new(big.Int)
	if e <= 29 {
		num.Mul(num, p.Exp(big.NewInt(256), big.NewInt(int64(29-e)), nil))
	} else {
		den.Mul(den, p.Exp(big.NewInt(256), big.NewInt(int64(e-29)), nil))
	}
	return new(big.Rat).SetFrac(num, den)
}

// refApplyOrdered connects one block to a UTXO view (Bitcoin rules relevant here); the input view is not modified.
// Outputs of tx i are spendable by tx j>i of the same block (the coinbase's never: immature).
func refApplyOrdered(view map[outpoint]rCoin, b *rBlock) (map[outpoint]rCoin, string) {
	if len(b.Txs) == 0 {
		return nil, "no coinbase"
	}
	w := make(map[outpoint]rCoin, len(view)+8)
	for k, v := range view {
		w[k] = v
	}
	var fees uint64
	for i, tx := range b.Txs {
		var in, out uint64
		if i > 0 {
			if len(tx.Ins) == 0 {
				return nil, "no inputs"
			}
			for _, op := range tx.Ins {
				c, ok := w[op]
				if !ok {
					return nil, "missing or already spent input " + hex.EncodeToString(op.Txid[:4])
				}
				if c.Coinbase && b.Height-c.Height < maturity {
					return nil, "immature coinbase spend"
				}
				delete(w, op)
				in += c.Value
			}
		}
		for _, o := range tx.Outs {
			out += o.Value
		}
		if i > 0 {
			if out > in {
				return nil, "outputs exceed inputs"
			}
			if !tx.ScriptsOK {
				return nil, "script failure"
			}
			fees += in - out
		}
		for v, o := range tx.Outs {
			w[outpoint{tx.Txid, uint32(v)}] = rCoin{o, b.Height, i == 0}
		}
	}
	var cbout uint64
	for _, o := range b.Txs[0].Outs {
		cbout += o.Value
	}
	if cbout > subsidy(b.Height)+fees {
		return nil, "coinbase pays too much"
	}
	var cost uint32
	for _, tx := range b.Txs {
		cost += tx.SigOpCost
	}
	if cost > maxBlockSigOpsCost {
		return nil, "too many signature operations"
	}
	return w, ""
}

// eval memoises validity, view and work of the branch ending in b.
func eval(b *rBlock) {
	if b.evaluated {
		return
	}
	b.evaluated = true
	if b.Parent == nil {
		b.valid, b.view, b.work = true, map[outpoint]rCoin{}, new(big.Rat)
		return
	}
	eval(b.Parent)
	b.work = new(big.Rat).Add(b.Parent.work, difficultyExact(b.Bits))
	if !b.Parent.valid {
		b.why = "ancestor invalid: " + b.Parent.why
		return
	}
	v, why := refApplyOrdered(b.Parent.view, b)
	if why != "" {
		b.why = why
		return
	}
	b.valid, b.view = true, v
}

// replayFromGenesis recomputes the UTXO set of the branch ending in b from scratch (no memo) — the property predicate.
func replayFromGenesis(b *rBlock) (map[outpoint]rCoin, string) {
	var path []*rBlock
	for x := b; x.Parent != nil; x = x.Parent {
		path = append(path, x)
	}
	view := map[outpoint]rCoin{}
	for i := len(path) - 1; i >= 0; i-- {
		var why string
		view, why = refApplyOrdered(view, path[i])
		if why != "" {
			return nil, fmt.Sprintf("block at height %d invalid: %s", path[i].Height, why)
		}
	}
	return view, ""
}

// specTip: first-seen maximum-work known node whose whole branch is valid.
func specTip(blocks []*rBlock) *rBlock {
	var best *rBlock
	for _, b := range blocks {
		if b.Parent != nil && b.firstSeen < 0 {
			continue
		}
		eval(b)
		if !b.valid {
			continue
		}
		if best == nil {
			best = b
			continue
		}
		c := b.work.Cmp(best.work)
		if c > 0 || (c == 0 && b.firstSeen < best.firstSeen) {
			best = b
		}
	}
	return best
}

// fallbackChoice is the leaf that the node is DOCUMENTED to fall back to after a failed reorganisation (known findings
// tie-not-first-seen-after-failed-reorg / farthest-ignores-leaf-work), computed here from the description only:
// over the blocks the node knows, each branch cut at its first invalid block, every leaf is valued by the exact
// cumulative work of the blocks ABOVE it (its own work is not counted); walk down from genesis and at every fork take
// the first child in arrival order whose subtree holds a leaf of maximum value. Also returned: every leaf of that
// maximum value (the ones a rounding error in the sums could select instead).
// countLeaf = true values a leaf by its full cumulative work instead (what a repaired fall-back would do); with equal
// bits everywhere both variants select the same leaf.
func fallbackChoice(blocks []*rBlock, countLeaf bool) (*rBlock, []*rBlock) {
	kids := map[*rBlock][]*rBlock{}
	var root *rBlock
	for _, b := range blocks {
		if b.Parent == nil {
			root = b
			continue
		}
		if b.firstSeen < 0 {
			continue
		}
		if eval(b); b.valid {
			kids[b.Parent] = append(kids[b.Parent], b)
		}
	}
	for _, ks := range kids {
		// the order of a node's child list is the order in which the children were LINKED (AcceptHeader appends): with
		// header-first delivery that is the arrival of the header, not of the data
		sort.Slice(ks, func(i, j int) bool { return ks[i].linked < ks[j].linked })
	}
	value := func(leaf *rBlock) *big.Rat {
		if leaf.Parent == nil {
			return new(big.Rat)
		}
		if countLeaf {
			eval(leaf)
			return leaf.work
		}
		eval(leaf.Parent)
		return leaf.Parent.work
	}
	var all []*rBlock
	var best func(n *rBlock) *rBlock
	best = func(n *rBlock) *rBlock {
		if len(kids[n]) == 0 {
			all = append(all, n)
			return n
		}
		var res *rBlock
		for _, k := range kids[n] {
			if c := best(k); res == nil || value(c).Cmp(value(res)) > 0 {
				res = c
			}
		}
		return res
	}
	d := best(root)
	var top []*rBlock
	for _, l := range all {
		if value(l).Cmp(value(d)) == 0 {
			top = append(top, l)
		}
	}
	return d, top
}

// mixedBits: do the blocks between the fork point of a and b and the two tips carry different difficulty bits?
// (Only then can the float64 sums of the code differ from the exact sums, and only then does it matter that the
// fall-back does not count a leaf's own work.)
func mixedBits(a, b *rBlock) bool {
	f := forkPoint(a, b)
	var bits uint32
	for _, x := range []*rBlock{a, b} {
		for ; x != f; x = x.Parent {
			if bits == 0 {
				bits = x.Bits
			} else if x.Bits != bits {
				return true
			}
		}
	}
	return false
}

// floatSumsDiffer: the float64 sums of btc.GetDifficulty over the two sides of the fork, added up from the tips down to
// the fork point (the order in which MorePOW adds them, and — leaf first — FindFarthestNode too), are not the same number.
func floatSumsDiffer(a, b *rBlock) bool {
	f := forkPoint(a, b)
	sum := func(x *rBlock) float64 {
		t := 0.0
		for ; x != f; x = x.Parent {
			t += btc.GetDifficulty(x.Bits)
		}
		return t
	}
	return sum(a) != sum(b)
}

// movingCheckpointDepth: a block that would fork the chain this deep below the tip is not accepted (the property's
// quantifier ranges over the blocks the node admits; this is the one rule by which a VALID block is turned away for good)
const movingCheckpointDepth = 2016

// refTooDeep: the reference's own view of that rule, before the delivery: the block does not extend the reference's tip
// and its height is 2016 or more below the tip's.
func (s *scen) refTooDeep(b *rBlock) bool {
	t := specTip(s.blocks)
	return t != nil && b.Parent != nil && b.Parent != t && int(t.Height)-int(b.Height) >= movingCheckpointDepth
}

func dumpOfView(v map[outpoint]rCoin) []string {
	lines := make([]string, 0, len(v))
	for op, c := range v {
		cb := 0
		if c.Coinbase {
			cb = 1
		}
		lines = append(lines, fmt.Sprintf("%s:%d %d %d %d %s", hex.EncodeToString(op.Txid[:]), op.Vout, c.Value, c.Height, cb, hex.EncodeToString(c.Script)))
	}
	sort.Strings(lines)
	return lines
}

func diffLines(a, b []string, an, bn string) string {
	m := map[string]int{}
	for _, x := range a {
		m[x]++
	}
	for _, x := range b {
		m[x]--
	}
	var keys []string
	for k, v := range m {
		if v != 0 {
			keys = append(keys, k)
		}
	}
	sort.Strings(keys)
	s := ""
	for i, k := range keys {
		if i >= 6 {
			s += fmt.Sprintf(" … (%d differing lines)", len(keys))
			break
		}
		side := an
		if m[k] < 0 {
			side = bn
		}
		short := k
		if len(short) > 100 {
			short = short[:100]
		}
		s += fmt.Sprintf(" [only in %s: %s]", side, short)
	}
	return s
}

func sameLines(a, b []string) bool {
	if len(a) != len(b) {
		return false
	}
	for i := range a {
		if a[i] != b[i] {
			return false
		}
	}
	return true
}
