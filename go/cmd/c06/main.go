// scratch probe (to be replaced by the harness)
package main

import (
	"fmt"
	"os"

	"github.com/piotrnar/gocoin/lib/btc"
	"github.com/piotrnar/gocoin/lib/chain"
	"github.com/piotrnar/gocoin/lib/others/memory"
	"github.com/piotrnar/gocoin/lib/utxo"
	"verif/chainkit"
	"verif/vlib"
)

func diff(a, b []string) string {
	m := map[string]int{}
	for _, x := range a {
		m[x]++
	}
	for _, x := range b {
		m[x]--
	}
	s := ""
	for k, v := range m {
		if v != 0 {
			s += fmt.Sprintf("  %+d %s\n", v, k[:40])
		}
	}
	return s
}

func probeF7() {
	mem := memory.NewAllocator()
	utxo.Memory_Malloc = mem.Malloc
	utxo.Memory_Free = mem.Free
	k, _ := chainkit.New(chainkit.Opts{}, vlib.NewRng(1))
	defer k.Close()
	// fragmentation: 16 pages worth of fillers per record size, 98% freed
	var keep []*[]byte
	for _, sz := range []int{40, 46, 60, 70} {
		var fl []*[]byte
		for i := 0; i < 200000; i++ {
			fl = append(fl, mem.Malloc(sz))
		}
		for i, p := range fl {
			if i%50 == 0 {
				keep = append(keep, p)
			} else {
				mem.Free(p)
			}
		}
	}
	var cbs []*btc.Tx
	for i := 0; i < 103; i++ {
		cb, _ := k.MustExtend(nil, 0)
		cbs = append(cbs, cb)
	}
	fork := k.Ch.LastBlock()
	before := chainkit.UtxoDump(k.Ch.Unspent)
	// branch A: one block spending cbs[0] into two outputs
	c0 := chainkit.OutCoins(cbs[0], nil, 1, true)[0]
	tx := chainkit.BuildTx(2, []*chainkit.Coin{c0}, nil, []chainkit.OutSpec{{20e8, chainkit.AnyoneScript}, {30e8, chainkit.AnyoneScript}}, 0)
	k.MustExtend([]*btc.Tx{tx}, 0)
	// branch B: two empty blocks on fork
	b1 := k.Build(chainkit.BlockSpec{Parent: fork})
	fmt.Println("B1:", k.Submit(b1).String())
	n1 := k.Ch.BlockIndex[btc.NewSha2Hash(b1[:80]).BIdx()]
	b2 := k.Build(chainkit.BlockSpec{Parent: n1})
	fmt.Println("B2:", k.Submit(b2).String())
	fmt.Println("tip height", k.Ch.LastBlock().Height, "tip is B2:", k.Ch.LastBlock().Parent == n1)
	after := chainkit.UtxoDump(k.Ch.Unspent)
	fmt.Println("after reorg: utxo", len(after), "before-fork", len(before))
	// now defrag as client does
	fill := map[*[]byte]bool{}
	for _, p := range keep {
		fill[p] = true
	}
	cnt := mem.DefragAllImproved(func(o, n *[]byte) {
		if fill[o] {
			delete(fill, o)
			fill[n] = true
			return
		}
		k.Ch.Unspent.Relocate(o, n)
	})
	fmt.Println("defrag relocated", cnt)
	after2 := chainkit.UtxoDump(k.Ch.Unspent)
	fmt.Println("after defrag: utxo", len(after2))
	fmt.Print(diff(after2, after))
	_ = keep
}

func probeDel(idle bool) {
	k, _ := chainkit.New(chainkit.Opts{}, vlib.NewRng(1))
	defer k.Close()
	var cbs []*btc.Tx
	for i := 0; i < 103; i++ {
		cb, _ := k.MustExtend(nil, 0)
		cbs = append(cbs, cb)
	}
	fork := k.Ch.LastBlock()
	k.MustExtend(nil, 0) // A1
	k.MustExtend(nil, 0) // A2
	node := func(raw []byte) *chain.BlockTreeNode { return k.Ch.BlockIndex[btc.NewSha2Hash(raw[:80]).BIdx()] }
	b1 := k.Build(chainkit.BlockSpec{Parent: fork})
	fmt.Println("B1:", k.Submit(b1).String())
	// B2 double spends cbs[0] in two txs
	c0 := chainkit.OutCoins(cbs[0], nil, 1, true)[0]
	t1 := chainkit.BuildTx(2, []*chainkit.Coin{c0}, nil, []chainkit.OutSpec{{20e8, chainkit.AnyoneScript}}, 0)
	t2 := chainkit.BuildTx(2, []*chainkit.Coin{c0}, nil, []chainkit.OutSpec{{21e8, chainkit.AnyoneScript}}, 0)
	b2 := k.Build(chainkit.BlockSpec{Parent: node(b1), Txs: []*btc.Tx{t1, t2}})
	fmt.Println("B2:", k.Submit(b2).String())
	if idle {
		k.Ch.Idle()
	}
	b3 := k.Build(chainkit.BlockSpec{Parent: node(b2)})
	fmt.Println("B3:", k.Submit(b3).String())
	fmt.Println("tip height", k.Ch.LastBlock().Height)
	ok := k.Ch.BlockIndexAccess.TryLock()
	fmt.Println("BlockIndexAccess free:", ok)
	if ok {
		k.Ch.BlockIndexAccess.Unlock()
	}
}

func main() {
	switch os.Args[1] {
	case "f7":
		probeF7()
	case "del":
		probeDel(false)
	case "delidle":
		probeDel(true)
	}
}
