// c06 — correspondence harness + property search for C06 (most-work valid tip, UTXO = replay, undo leaves no residue).
//
// Real code: chain.Chain (CheckBlock + AcceptBlock, Idle, UndoLastBlock) on synthetic chains (chainkit), optionally with
// utxo.Memory_Malloc/Memory_Free wired to lib/others/memory as client/common does, and the client's DefragUTXOMem body.
// Model: lean oracle_c06 (Model/UtxoOps + Model/ChainTree), fed the same deliveries.
// Property predicate (independent of both): a reference replay written here (ref.go) — validity of every block in the
// context of its own branch, exact cumulative work with math/big, first-seen tie-break, UTXO set of a path from genesis.
package main

import (
	"encoding/json"
	"fmt"
	"os"
	"runtime/pprof"
	"sort"
	"strings"
	"syscall"

	"github.com/piotrnar/gocoin/lib/btc"
	"verif/vlib"
)

var r *vlib.Run
var o *vlib.Oracle

var savedStdout *os.File
var savedStderrFd = -1

// gocoin prints a lot while reorganising (fmt.Println → os.Stdout, println → fd 2): silence both while scenarios run.
func quiet() {
	if os.Getenv("C06_LOUD") != "" { // development aid: let gocoin's console output through
		return
	}
	dn, err := os.OpenFile(os.DevNull, os.O_WRONLY, 0)
	if err != nil {
		return
	}
	savedStdout = os.Stdout
	os.Stdout = dn
	if os.Getenv("C06_VERBOSE") == "" {
		savedStderrFd, _ = syscall.Dup(2)
		syscall.Dup2(int(dn.Fd()), 2)
	}
}

func loud() {
	if savedStdout != nil {
		os.Stdout = savedStdout
		savedStdout = nil
	}
	if savedStderrFd >= 0 {
		syscall.Dup2(savedStderrFd, 2)
		syscall.Close(savedStderrFd)
		savedStderrFd = -1
	}
}

type replayDoc struct {
	Scenario string   `json:"scenario"` // corpus name or "random"
	Alloc    bool     `json:"alloc"`
	SubSeed  uint64   `json:"subseed"`
	Size     int      `json:"size"`
	Step     int      `json:"failing_step"`
	Ops      []string `json:"ops,omitempty"` // human-readable trace up to the failure
	Detail   string   `json:"detail,omitempty"`
}

func main() {
	r = vlib.NewRun("C06")
	var err error
	o, err = vlib.StartOracle("c06")
	if err != nil {
		fmt.Println("cannot start oracle:", err)
		os.Exit(3)
	}
	defer o.Close()
	// deterministic for a seed: gocoin's signer draws its nonce from crypto/rand unless told to use RFC 6979 — with random
	// nonces the txids (hence the sorted candidate lists every generator draws from) differ from run to run
	btc.EcdsaSignWithRFC6979 = true
	installRunawayGuard()
	quiet()
	if pf := os.Getenv("C06_PROF"); pf != "" {
		f, _ := os.Create(pf)
		pprof.StartCPUProfile(f)
		defer pprof.StopCPUProfile()
		n := 6
		for i := 0; i < n; i++ {
			runScenario("random", false, uint64(i+1), 20)
		}
		runScenario("random", true, 77, 12)
		pprof.StopCPUProfile()
		loud()
		os.Exit(0)
	}

	rule := "scenario = a block tree above a 101..108-block base chain (multi-output coinbases), 8..28 blocks, forks of depth 1..k incl. forks below the base tip, equal-work ties, invalid-when-connected blocks (double spend, missing / cross-branch input, immature coinbase, failing script, wrong key, spends of outputs locked by a HEIGHT-gated script rule — CLTV / CSV / P2WPKH with empty witness, which pass under the flags of height 0 —, overspend, coinbase overpay, own-coinbase spend, vout out of range, a transaction listed BEFORE the transaction of the same block whose output it spends — child just before its parent / child first and parent last / list reversed / random non-topological order) anywhere incl. on the winning branch and with descendants, random spend graphs (1..3 inputs, 1..4 outputs, partial spends, in-block chains; every second multi-transaction block lists its transactions in a random order that keeps each in-block spend behind its source); delivery = random topological order with children tried before parents, Idle() calls, final unwind of up to 6 blocks; second stream with the memory allocator wired and DefragAllImproved(Relocate) between deliveries; third stream random-mixed-bits: the genesis node carries bits 0x201fffff and every block is heavy (those bits) or light (0x207fffff, testnet 20-minute rule) at random, so that branches are heavier-but-not-taller, taller-but-lighter, and fall-backs after failed reorganisations see leaves of different work. fourth stream siblings: several episodes per scenario, each a parent with 3..5 children (the parent being the tip or a side block next to a competing main branch) of which one or two — mostly not the last — are invalid only when connected and arrived as side blocks, two or three of the surviving siblings' branches tie at the maximum work (delivery order inside a depth random; the first-seen leaf mostly on the earliest tied sibling), then the invalid siblings' branches become the heaviest one by one: the reorganisation fails at the sibling, DeleteBranch removes it from the middle of the child list and the FindFarthestNode fall-back shows the ORDER of the remaining children in the tip. Every stream also delivers, before about every fifth block, a TWIN of it whose previous-block field keeps only the first 8 bytes (the BlockIndex key) of the parent's hash (bytes 8..31 changed in one of four ways, nonce re-mined). sixth stream random-headers (+ random-headers-mixed-bits): the random trees delivered HEADER FIRST, the client's way — operation `header` (PreCheckBlock + AcceptHeader on the 80 header bytes) and operation `commit` (node still reachable from the root, HasAllParents, PostCheckBlock, at random Blocks.BlockAdd first, CommitBlock(bl, node)); headers run 0..3 generations or the whole tree ahead of the data, data arrives in random order (parked when a parent has no data, retried), about every sixth block comes through CheckBlock + AcceptBlock instead, headers and data are repeated (also after the block was thrown away as invalid), Idle in between, half of the scenarios with UnspentDB.CB.NotifyTxAdd/NotifyTxDel installed. In the plain random streams about every ninth step re-delivers a block (duplicate, or one that was removed as invalid). Hand-made corpus scenarios first (witnesses of fix c3d926ba: failed reorganisation with 1 / 2 / 3 announced headers above the tip; header-first sync; a block refused on the tip with announced descendants; a whole block on top of a header-only node; a side block 40 below the tip, and in thorough 2015 / 2016 below it; past defects, the prev-hash twin witness of fix 533896f3, ties, ties after a failed reorganisation with first child = / != first seen, genesis fork, failed reorganisation whose common block is genesis, heavier-not-taller, failed reorganisation with mixed bits, retarget/float work). One evaluation = one delivery/header/commit/idle/defrag/undo step compared three ways; distinct = distinct (tip, utxo digest, outcome) observations"
	expl := "after EVERY step the real chain's tip hash + full decoded UTXO dump + outcome are compared with (a) the Lean model (oracle_c06) and (b) the property predicate evaluated by an independent Go reference: tip = first-seen maximum-exact-work node whose whole branch is valid, UTXO = replay of that branch from genesis (a tie resolved against the first-seen block counts as the known finding only in the delivery whose reorganisation failed and only when the tip is the documented first-child fall-back choice, recomputed independently; any other choice is a violation); undo files of the active branch present (model) and actually usable (final unwind on the real chain)"

	if r.Replay != "" {
		b, err := os.ReadFile(r.Replay)
		if err != nil {
			loud()
			fmt.Println("cannot read replay:", err)
			os.Exit(3)
		}
		var doc struct {
			Replay replayDoc `json:"replay"`
		}
		json.Unmarshal(b, &doc)
		if doc.Replay.Scenario == "" {
			loud()
			fmt.Println("replay: nothing to re-run for this file (proof-level violation); see its 'broken' field")
			r.Finish("replay", "replay")
		}
		runScenario(doc.Replay.Scenario, doc.Replay.Alloc, doc.Replay.SubSeed, doc.Replay.Size)
		loud()
		r.Finish("replay of one recorded scenario", "replay")
	}

	if st := os.Getenv("C06_STREAM"); st != "" { // development aid: C06_STREAM=random-mixed-bits:200 runs only that stream
		var name string
		var cnt int
		if i := strings.LastIndex(st, ":"); i > 0 {
			name = st[:i]
			fmt.Sscan(st[i+1:], &cnt)
		}
		for i := 0; i < cnt; i++ {
			if ce := corpusByName(name); ce != nil {
				runScenario(name, ce.alloc, 1, 0)
				continue
			}
			runScenario(name, false, r.Rng.U64(), 8+r.Rng.Intn(21))
		}
		loud()
		r.Finish("development run of one stream: "+st, "development run")
	}
	// 1. corpus
	for _, c := range corpusList {
		if c.thoroughOnly && !r.Thorough() {
			continue
		}
		runScenario(c.name, c.alloc, 1, 0)
	}
	// 2. random trees, plain stream
	g := r.Rng
	n := r.N(24, 300)
	for i := 0; i < n; i++ {
		runScenario("random", false, g.U64(), 8+g.Intn(21))
	}
	// 3. random trees with the allocator wired + defrag between deliveries
	n = r.N(4, 44)
	for i := 0; i < n; i++ {
		runScenario("random", true, g.U64(), 8+g.Intn(16))
	}
	// 4. random trees whose blocks carry two different difficulty bits (heavier-but-not-taller branches)
	n = r.N(6, 100)
	for i := 0; i < n; i++ {
		runScenario("random-mixed-bits", false, g.U64(), 8+g.Intn(21))
	}

	// 5. sibling-order stream: parents with 3..5 children, an earlier sibling deleted as invalid-when-connected, ties among the rest
	n = r.N(10, 90)
	for i := 0; i < n; i++ {
		runScenario("siblings", false, g.U64(), 3+g.Intn(3))
	}

	// 6. header-first delivery (the client's path): the random trees again, headers running ahead of the data
	n = r.N(8, 80)
	for i := 0; i < n; i++ {
		runScenario("random-headers", false, g.U64(), 8+g.Intn(21))
	}
	n = r.N(2, 16)
	for i := 0; i < n; i++ {
		runScenario("random-headers-mixed-bits", false, g.U64(), 8+g.Intn(21))
	}

	r.Assume = []string{
		"script verification results are an input of the model (property C01); the harness labels a transaction's scripts as failing exactly when it spends an output it created with the always-false script or signs with the wrong key",
		"no two transactions share a txid or an 8-byte txid prefix (BIP30/34; the key-prefix aliasing is property C04)",
		"value sums stay below 2^64 (property C04)",
		"headers are valid (PoW, time, bits, merkle: property C05); only tree- and UTXO-related acceptance is modelled",
		"block look-ups: the model (deliverIdx) goes through the 8-byte BlockIndex key and compares the whole hash, as the code does since fix 533896f3; a previous-block FIELD that shares only its key with a known block is generated (twins) and must be an orphan; two different BLOCKS with the same first 8 hash bytes (2^64 work) are not generated",
		"the model's commitTxs is a reduced one (no sigop limit, no MoneyRange on inputs/fees, no coinbase-script length): no generated side block is invalid for one of these reasons only",
		"work is compared exactly (rationals) in model and reference; the code's float64 sums differ only on near-ties (corpus scenario o1-float-tie)",
		"header first: the client commits a block only on a node that is still reachable from the root (its DiscardedBlocks / CheckParentDiscarded bookkeeping, represented in the harness by walking the real tree) and only when HasAllParents holds; CheckBlock + AcceptBlock is used only on top of a parent that has its data (the one scenario that does otherwise never hands that parent's data over afterwards) and never below an entry that is unreachable from the root",
	}
	keys := make([]string, 0, len(outcomeSeen))
	for k := range outcomeSeen {
		keys = append(keys, k)
	}
	sort.Strings(keys)
	r.Extra["outcomes_seen_in_model_and_impl"] = strings.Join(keys, " ")
	loud()
	r.Finish(rule, expl)
}

var outcomeSeen = map[string]bool{}
