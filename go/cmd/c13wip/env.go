package main

// Environment of one wallet run: the REAL wallet binary (built from <repo>/wallet), a temp working dir with
// wallet.cfg, .secret, balance/unspent.txt + balance/<txid>.tx, optional batch / raw files.

import (
	"bytes"
	"encoding/hex"
	"fmt"
	"os"
	"os/exec"
	"path/filepath"
	"sort"
	"strings"
	"sync"
	"time"

	"github.com/piotrnar/gocoin/lib/btc"
	"verif/vtrans"
)

var walletBin string

func buildWallet(tmp string) error {
	walletBin = filepath.Join(tmp, "wallet_bin")
	cmd := exec.Command("go", "build", "-o", walletBin, ".")
	cmd.Dir = vtrans.RepoRoot() + "/wallet"
	cmd.Env = append(os.Environ(), "GOFLAGS=-mod=mod", "GOPROXY=off", "GOSUMDB=off", "GOTOOLCHAIN=local")
	out, err := cmd.CombinedOutput()
	if err != nil {
		return fmt.Errorf("go build wallet: %v\n%s", err, out)
	}
	return nil
}

// WCfg is the wallet configuration of a case.
type WCfg struct {
	Type    int    `json:"type"`
	Testnet bool   `json:"testnet"`
	Atype   string `json:"atype"`
	Keycnt  int    `json:"keycnt"`
	Seed    string `json:"seed"`   // cfg "seed=" (may be empty)
	Pass    string `json:"pass"`   // content of .secret
	HdPath  string `json:"hdpath"` // "" = default
	CfgFee  string `json:"cfgfee"` // cfg "fee=" ("" = not set)
	Minsig  bool   `json:"minsig"`
	// Others: the literal lines of the .others file (imported raw keys: "<WIF> [label]", '#' comment lines). The wallet
	// loads them IN FRONT of the deterministic keys; a key given in the uncompressed form has no SegWit address.
	Others []string `json:"others,omitempty"`
}

// nOthers: how many lines of .others the wallet is expected to load (load_others: empty and '#' lines skipped, a
// line whose first field does not decode is reported and skipped; a wrong version byte is only warned about).
func (w *WCfg) nOthers() int {
	n := 0
	for _, l := range w.Others {
		f := strings.SplitN(strings.Trim(l, " "), " ", 2)
		if len(l) == 0 || f[0] == "" || f[0][0] == '#' {
			continue
		}
		if pa, e := btc.DecodePrivateAddr(f[0]); e == nil && pa != nil {
			n++
		}
	}
	return n
}

// writeKeyFiles writes wallet.cfg, .secret and (when the case has imported keys) .others into dir.
func (w *WCfg) writeKeyFiles(dir string, apply2bal bool) {
	os.WriteFile(filepath.Join(dir, "wallet.cfg"), []byte(w.cfgText(apply2bal)), 0600)
	os.WriteFile(filepath.Join(dir, ".secret"), []byte(w.Pass), 0600)
	if len(w.Others) > 0 {
		os.WriteFile(filepath.Join(dir, ".others"), []byte(strings.Join(w.Others, "\n")+"\n"), 0600)
	}
}

func (w *WCfg) keyCacheKey() string {
	return fmt.Sprintf("%d|%v|%d|%s|%s|%s|%s", w.Type, w.Testnet, w.Keycnt, w.Seed, w.Pass, w.HdPath, strings.Join(w.Others, "\n"))
}

func (w *WCfg) bech32Mode() bool { return w.Atype == "bech32" || w.Atype == "tap" }

func (w *WCfg) cfgText(apply2bal bool) string {
	var b strings.Builder
	fmt.Fprintf(&b, "# generated\ntype=%d\nkeycnt=%d\natype=%s\n", w.Type, w.Keycnt, w.Atype)
	if w.Testnet {
		b.WriteString("testnet=true\n")
	}
	if w.Seed != "" {
		fmt.Fprintf(&b, "seed=%s\n", w.Seed)
	}
	if w.HdPath != "" {
		fmt.Fprintf(&b, "hdpath=%s\n", w.HdPath)
	}
	if w.CfgFee != "" {
		fmt.Fprintf(&b, "fee=%s\n", w.CfgFee)
	}
	if w.Minsig {
		b.WriteString("minsig=true\n")
	}
	if !apply2bal {
		b.WriteString("apply2bal=false\n")
	}
	return b.String()
}

type RunResult struct {
	Exit     int
	Stdout   string
	Stderr   string
	TimedOut bool
	NewFiles map[string][]byte // files that appeared or changed in the working dir (relative names)
}

func snapshot(dir string) map[string]string {
	m := map[string]string{}
	filepath.Walk(dir, func(p string, fi os.FileInfo, err error) error {
		if err != nil || fi.IsDir() {
			return nil
		}
		b, _ := os.ReadFile(p)
		rel, _ := filepath.Rel(dir, p)
		m[rel] = string(b)
		return nil
	})
	return m
}

// runWallet executes the wallet binary in dir and reports what it wrote.
func runWallet(dir string, args []string) *RunResult {
	before := snapshot(dir)
	cmd := exec.Command(walletBin, args...)
	cmd.Dir = dir
	cmd.Env = []string{"HOME=" + dir, "PATH=/usr/bin:/bin"}
	var so, se bytes.Buffer
	cmd.Stdout, cmd.Stderr = &so, &se
	cmd.Stdin = strings.NewReader("")
	res := &RunResult{NewFiles: map[string][]byte{}}
	if err := cmd.Start(); err != nil {
		res.Exit = -1
		res.Stderr = err.Error()
		return res
	}
	done := make(chan error, 1)
	go func() { done <- cmd.Wait() }()
	select {
	case err := <-done:
		if err != nil {
			if ee, ok := err.(*exec.ExitError); ok {
				res.Exit = ee.ExitCode()
			} else {
				res.Exit = -1
			}
		}
	case <-time.After(20 * time.Second):
		cmd.Process.Kill()
		<-done
		res.TimedOut = true
		res.Exit = -2
	}
	res.Stdout, res.Stderr = so.String(), se.String()
	after := snapshot(dir)
	for k, v := range after {
		if old, ok := before[k]; !ok || old != v {
			res.NewFiles[k] = []byte(v)
		}
	}
	return res
}

// ---------------------------------------------------------------- wallet public keys (from the real wallet: -l -atype pks)
var pubCache sync.Map

func walletPubkeys(w *WCfg) ([][]byte, error) {
	key := w.keyCacheKey()
	if v, ok := pubCache.Load(key); ok {
		return v.([][]byte), nil
	}
	dir, err := os.MkdirTemp("", "vc13k")
	if err != nil {
		return nil, err
	}
	defer os.RemoveAll(dir)
	w2 := *w
	w2.Atype = "pks"
	w2.writeKeyFiles(dir, true)
	res := runWallet(dir, []string{"-l", "-q"})
	var pubs [][]byte
	for _, l := range strings.Split(res.Stdout, "\n") {
		f := strings.Fields(l)
		if len(f) >= 2 && (len(f[0]) == 66 || len(f[0]) == 130) { // keys[] in the wallet's own order: imported keys first
			if b, e := hex.DecodeString(f[0]); e == nil {
				pubs = append(pubs, b)
			}
		}
	}
	if len(pubs) != w.Keycnt+w.nOthers() {
		return nil, fmt.Errorf("wallet -l listed %d keys, expected %d + %d imported (exit %d)\n%s\n%s", len(pubs), w.Keycnt, w.nOthers(), res.Exit, res.Stdout, res.Stderr)
	}
	pubCache.Store(key, pubs)
	return pubs, nil
}

// walletPrivkeys: the 32-byte secrets, from the real wallet's own export (-dump '*': one WIF string per key, same order
// as -l). Used only by the signer tie of -rfc6979 runs.
var privCache sync.Map

func walletPrivkeys(w *WCfg) ([][]byte, error) {
	key := w.keyCacheKey()
	if v, ok := privCache.Load(key); ok {
		return v.([][]byte), nil
	}
	dir, err := os.MkdirTemp("", "vc13k")
	if err != nil {
		return nil, err
	}
	defer os.RemoveAll(dir)
	w2 := *w
	w2.Atype = "p2kh"
	w2.writeKeyFiles(dir, true)
	res := runWallet(dir, []string{"-dump", "*", "-q"})
	var privs [][]byte
	for _, l := range strings.Split(res.Stdout, "\n") {
		f := strings.Fields(l)
		if len(f) >= 2 && len(f[0]) >= 50 && len(f[0]) <= 53 {
			if pa, e := btc.DecodePrivateAddr(f[0]); e == nil && pa != nil && len(pa.Key) == 32 {
				privs = append(privs, append([]byte{}, pa.Key...))
			}
		}
	}
	if len(privs) != w.Keycnt+w.nOthers() {
		return nil, fmt.Errorf("wallet -dump listed %d keys, expected %d + %d imported (exit %d)\n%s\n%s", len(privs), w.Keycnt, w.nOthers(), res.Exit, res.Stdout, res.Stderr)
	}
	privCache.Store(key, privs)
	return privs, nil
}

// ---------------------------------------------------------------- scripts
func h160(b []byte) []byte {
	var o [20]byte
	btc.RimpHash(b, o[:])
	return o[:]
}

func scrP2PKH(h []byte) []byte  { return append(append([]byte{0x76, 0xa9, 20}, h...), 0x88, 0xac) }
func scrP2SH(h []byte) []byte   { return append(append([]byte{0xa9, 20}, h...), 0x87) }
func scrP2WPKH(h []byte) []byte { return append([]byte{0, 20}, h...) }
func scrP2TR(x []byte) []byte   { return append([]byte{0x51, 32}, x...) }
func scrWit(ver int, prog []byte) []byte {
	op := byte(0)
	if ver > 0 {
		op = byte(0x50 + ver)
	}
	return append([]byte{op, byte(len(prog))}, prog...)
}

// ownScript: the output script of wallet key `pub` for one of the four supported types.
func ownScript(kind string, pub []byte) []byte {
	switch kind {
	case "p2pkh":
		return scrP2PKH(h160(pub))
	case "p2sh":
		return scrP2SH(h160(scrP2WPKH(h160(pub))))
	case "p2wpkh":
		return scrP2WPKH(h160(pub))
	case "p2tr":
		return scrP2TR(pub[1:33])
	}
	panic("kind " + kind)
}

// ownedBy reports whether the wallet (pubs, atype) treats the script as its own, computed independently of the
// model: P2PKH / P2WPKH / P2TR of any key always; P2SH-P2WPKH only when the wallet is not in bech32 mode. A key
// that is not compressed (imported through .others) has its P2PKH address only.
func ownedBy(pubs [][]byte, bech32 bool, scr []byte) bool {
	for _, p := range pubs {
		if bytes.Equal(scr, ownScript("p2pkh", p)) {
			return true
		}
		if len(p) != 33 {
			continue
		}
		if bytes.Equal(scr, ownScript("p2wpkh", p)) || bytes.Equal(scr, ownScript("p2tr", p)) {
			return true
		}
		if !bech32 && bytes.Equal(scr, ownScript("p2sh", p)) {
			return true
		}
	}
	return false
}

func sortedKeys(m map[string][]byte) []string {
	var ks []string
	for k := range m {
		ks = append(ks, k)
	}
	sort.Strings(ks)
	return ks
}
