// entrypaths.go — the same block bytes through every way a *btc.Block object reaches PostCheckBlock.
//
// Chain.CheckBlock on an object made by btc.NewBlock(whole serialisation) is only one of the ways the client checks a
// block. A btc.Block carries state derived from its bytes — (TxCount, TxOffset) set by UpdateContent, Txs /
// BlockWeight / TotalInputs set by BuildTxList — and the client builds the object in steps:
//
//	hdr-assign   client/network/hdrs.go + data.go (every downloaded block): NewBlock(80-byte header), PreCheckBlock,
//	             later `bl.Raw = <whole block>` and PostCheckBlock — TxCount is still 0 when BuildTxList runs;
//	hdr-update   client/network/cblk.go (compact blocks): NewBlock(header), PreCheckBlock, bl.UpdateContent(whole block),
//	             PostCheckBlock;
//	retry-assign data.go after a corrupt copy from one peer: header, PreCheckBlock, `bl.Raw = <corrupt copy>`,
//	             PostCheckBlock fails, the hand reset of data.go (Raw = header, BlockWeight, TotalInputs, TxCount,
//	             TxOffset = 0, Txs = nil), then `bl.Raw = <whole block>` from another peer and PostCheckBlock;
//	retry-update cblk.go after a corrupt assembled copy: UpdateContent(corrupt), PostCheckBlock fails,
//	             UpdateContent(header) + BlockWeight, TotalInputs = 0, Txs = nil, then UpdateContent(whole block).
//
// The property is about the bytes ("a block is accepted only if …"): the verdict must not depend on the path. For every
// whole-block case of the stream (all mutations, all weights, all transaction counts) each path runs on a fresh
// object; predicate on the real code:
//   - the final verdict equals Chain.CheckBlock's on NewBlock(whole) — a path that ACCEPTS what the reference finds
//     invalid is reported under the same key as the main run (accepted-invalid:<rule>);
//   - Block.BlockWeight, Height, MedianPastTime, VerifyFlags, len(Txs) are the same on every path, and BlockWeight
//     equals the reference's BIP141 weight whenever the block is well formed;
//   - no panic;
// and the model is asked again with the value bl.TxCount had when the path entered PostCheckBlock (PostIn.cntOnEntry).
// The corrupt copy of the retry paths is derived from the block itself: a flipped byte near the end (Merkle mismatch),
// a body with one transaction less / one more (the count prefix may change its width), or a truncated body.
package main

import (
	"bytes"
	"fmt"
	"strings"
	"time"

	"github.com/piotrnar/gocoin/lib/btc"
	"verif/vlib"
)

type p0res struct {
	newBlockErr bool // btc.NewBlock(whole serialisation) refused the bytes (corrupt count field)
	dos, later  bool
	code        string
	accepted    bool
	weight      uint
	ntx         int
	txsNil      bool
	height, mtp uint32
	flags       uint32
	viol        []string // the reference's violations (judged == true)
	judged      bool
}

type pathRes struct {
	name        string
	preCode     string
	dos, later  bool
	code        string // final verdict: PreCheckBlock's when it refused, else PostCheckBlock's
	accepted    bool
	weight      uint
	ntx         int
	txsNil      bool
	height, mtp uint32
	flags       uint32
	cntOnEntry  int // bl.TxCount when the final PostCheckBlock was entered
	ranPost     bool
	skipped     string
	pan         string
}

// corruptCopy: another body for the same header, as a peer could send it.
func corruptCopy(g *vlib.Rng, s *blockSpec, raw []byte) (out []byte, how string) {
	wellFormed := s.cutTail == 0 && (s.txCount < 0 || s.txCount == len(s.txs)) && len(s.trailing) == 0 && len(s.txs) > 0
	mode := g.Intn(4)
	if !wellFormed && mode != 0 {
		mode = 3
	}
	switch mode {
	case 1, 2: // one transaction less / the last one twice: the count (and possibly the width of its prefix) changes
		txs := s.txs
		how = "one-more"
		if mode == 1 && len(txs) > 1 {
			txs = txs[:len(txs)-1]
			how = "one-less"
		} else {
			txs = append(append([]*rtx{}, txs...), txs[len(txs)-1])
		}
		var b bytes.Buffer
		b.Write(raw[:80])
		putVarInt(&b, uint64(len(txs)))
		for _, t := range txs {
			b.Write(t.ser(true))
		}
		out = append([]byte{}, b.Bytes()...)
	case 3: // truncated body
		how = "truncated"
		n := 81 + g.Intn(len(raw)-80)
		if n > len(raw) {
			n = len(raw)
		}
		out = make([]byte, n)
		copy(out, raw)
	default: // a flipped bit in the last bytes (lock time of the last transaction): parses, Merkle root differs
		how = "bit-flip"
		out = append([]byte{}, raw...)
		if len(out) > 81 {
			out[len(out)-1-g.Intn(min(4, len(out)-81))] ^= 1 << uint(g.Intn(8))
		}
	}
	return
}

func runPath(name string, sc *scenario, s *blockSpec, raw, corrupt []byte) (pr pathRes) {
	pr.name = name
	defer func() {
		if x := recover(); x != nil {
			pr.pan = fmt.Sprint(x)
		}
	}()
	ch := sc.ch
	whole := append([]byte{}, raw...) // each object owns its bytes, as a message buffer would be
	bl, er := btc.NewBlock(whole[:80:80])
	if er != nil {
		pr.skipped = "newblock(header):" + er.Error()
		return
	}
	if s.trusted {
		bl.Trusted.Set()
	}
	pr.dos, pr.later, er = ch.PreCheckBlock(bl)
	pr.preCode = errCode(er)
	pr.code = pr.preCode
	pr.height, pr.mtp = bl.Height, bl.MedianPastTime
	if er != nil {
		return
	}
	attach := func(b []byte) {
		if strings.HasSuffix(name, "update") {
			bl.UpdateContent(b) // the client ignores the result
		} else {
			bl.Raw = b
		}
	}
	if strings.HasPrefix(name, "retry") {
		prev := bl.Raw
		attach(append([]byte{}, corrupt...))
		e1 := ch.PostCheckBlock(bl)
		if e1 == nil {
			pr.skipped = "corrupt-copy-passed"
			return
		}
		if strings.HasSuffix(name, "update") { // cblk.go
			bl.UpdateContent(whole[:80:80])
			bl.BlockWeight, bl.TotalInputs = 0, 0
			bl.Txs = nil
		} else { // data.go
			bl.Raw = prev
			bl.BlockWeight, bl.TotalInputs = 0, 0
			bl.TxCount, bl.TxOffset = 0, 0
			bl.Txs = nil
		}
	}
	attach(whole)
	pr.cntOnEntry = bl.TxCount
	pr.ranPost = true
	er = ch.PostCheckBlock(bl)
	pr.code = errCode(er)
	pr.dos = er != nil
	pr.accepted = er == nil
	pr.weight, pr.ntx, pr.txsNil = bl.BlockWeight, len(bl.Txs), bl.Txs == nil
	pr.height, pr.mtp, pr.flags = bl.Height, bl.MedianPastTime, bl.VerifyFlags
	return
}

var entryPathJudged, entryPathSkipped int

var entryPathNames = []string{"hdr-assign", "hdr-update", "retry-assign", "retry-update"}

func sameCode(a, b string) bool {
	return a == b || (strings.HasPrefix(a, "tx:") && strings.HasPrefix(b, "tx:")) // the goroutines race: any failing transaction may be reported
}

func entryPaths(kind string, sc *scenario, s *blockSpec, raw []byte, now int64, rep map[string]interface{}, p0 *p0res, askPost func(cnt int) string) {
	if len(raw) < 81 {
		return
	}
	g := vlib.NewRng(uint64(len(raw))*1000003 + uint64(raw[len(raw)-1]) + uint64(raw[76])<<8 + uint64(raw[77])<<16)
	corrupt, how := corruptCopy(g, s, raw)
	wellFormed := s.cutTail == 0 && (s.txCount < 0 || s.txCount == len(s.txs)) && len(s.trailing) == 0 && len(s.txs) > 0
	refW := -1
	if wellFormed {
		refW = refWeight(s.txs)
	}
	var res []pathRes
	for _, name := range entryPathNames {
		res = append(res, runPath(name, sc, s, raw, corrupt))
	}
	if time.Now().Unix() != now && int64(s.time) >= now+7190 && int64(s.time) <= now+7510 {
		r.Hit("entry-paths-skipped(clock moved at the +2h boundary)")
		return
	}
	modelBy := map[int]string{}
	for _, pr := range res {
		rp := map[string]interface{}{}
		for k, v := range rep {
			rp[k] = v
		}
		rp["entry_path"] = pr.name
		rp["corrupt_copy"] = how
		rp["path_result"] = fmt.Sprintf("%s dos=%s later=%s weight=%d ntx=%d TxCount-on-entry=%d", pr.code, b2s(pr.dos), b2s(pr.later), pr.weight, pr.ntx, pr.cntOnEntry)
		r.Eval("block-entry-path/"+pr.name, "")
		if pr.pan != "" {
			r.PropFail("checkblock-panic:entry-path:"+pr.name, fmt.Sprintf("PreCheckBlock / PostCheckBlock panics (%s) on a block of kind %s handled header first (%s)", pr.pan, s.mut, pr.name), rp)
			return
		}
		if pr.skipped != "" {
			r.Hit("entry-path-skipped/" + pr.skipped)
			entryPathSkipped++
			continue
		}
		r.Hit("entry-path-result/" + pr.code)
		entryPathJudged++
		if p0.newBlockErr {
			// NewBlock(whole) refuses these bytes outright: no object-building order may accept them
			if pr.accepted {
				r.PropFail("accepted-invalid:malformed", fmt.Sprintf("a block that btc.NewBlock refuses (corrupt transaction count, kind %s) is accepted when the object is made from its header and the body attached afterwards (%s)", s.mut, pr.name), rp)
				return
			}
			continue
		}
		if !sameCode(pr.code, p0.code) || pr.accepted != p0.accepted {
			what := fmt.Sprintf("the same block bytes (kind %s, %d transactions, %d bytes) get %q from Chain.CheckBlock on NewBlock(whole block) and %q when the object is made from the header and the body attached afterwards (%s: bl.TxCount = %d on entry of PostCheckBlock, Block.BlockWeight %d vs %d)",
				s.mut, len(s.txs), len(raw), p0.code, pr.code, pr.name, pr.cntOnEntry, p0.weight, pr.weight)
			switch {
			case pr.accepted && p0.judged && len(p0.viol) > 0:
				r.PropFail("accepted-invalid:"+p0.viol[0], "accepted although the reference finds a violation ("+strings.Join(p0.viol, ",")+"): "+what, rp)
			case pr.accepted != p0.accepted:
				r.PropFail("verdict-depends-on-entry-path:"+pr.name, what, rp)
			default:
				r.TieFail("refusal-code-depends-on-entry-path:"+pr.name, what, rp)
			}
			return
		}
		if pr.ranPost {
			built := !pr.txsNil && !p0.txsNil && pr.code != "build-failed" && p0.code != "build-failed"
			if built && (pr.weight != p0.weight || pr.ntx != p0.ntx) {
				r.PropFail("blockweight-depends-on-entry-path:"+pr.name, fmt.Sprintf("Block.BlockWeight / len(Txs) of the same bytes (kind %s): %d / %d on NewBlock(whole block), %d / %d header first (%s, bl.TxCount = %d on entry)",
					s.mut, p0.weight, p0.ntx, pr.weight, pr.ntx, pr.name, pr.cntOnEntry), rp)
				return
			}
			if built && refW >= 0 && pr.ntx == len(s.txs) && int(pr.weight) != refW {
				r.PropFail("blockweight-not-bip141:"+pr.name, fmt.Sprintf("Block.BlockWeight = %d for a well-formed block of %d transactions whose BIP141 weight is %d (kind %s, path %s, bl.TxCount = %d on entry)",
					pr.weight, len(s.txs), refW, s.mut, pr.name, pr.cntOnEntry), rp)
				return
			}
			if pr.height != p0.height || pr.mtp != p0.mtp || (pr.flags != p0.flags && (pr.accepted || !strings.HasPrefix(pr.name, "retry"))) {
				// (a refused retry keeps the VerifyFlags the refused corrupt copy left: not an output of this call)
				r.TieFail("block-fields-depend-on-entry-path:"+pr.name, fmt.Sprintf("Height/MedianPastTime/VerifyFlags %d/%d/%d on NewBlock(whole block), %d/%d/%d header first (%s, kind %s)",
					p0.height, p0.mtp, p0.flags, pr.height, pr.mtp, pr.flags, pr.name, s.mut), rp)
				return
			}
			// the model with the counter value this path entered PostCheckBlock with
			if askPost != nil {
				m, ok := modelBy[pr.cntOnEntry]
				if !ok {
					m = askPost(pr.cntOnEntry)
					modelBy[pr.cntOnEntry] = m
				}
				mf := strings.Fields(m)
				mc := m
				if len(mf) == 2 {
					mc = mf[0]
					if strings.HasPrefix(mc, "tx:") && strings.HasPrefix(pr.code, "tx:") {
						mc = pr.code
					}
				}
				if mc != pr.code {
					rp["model_post"] = m
					r.TieFail("tie-postcheck-entry-path:"+pr.name, fmt.Sprintf("model postCheckBlock (cntOnEntry = %d) answers %q, PostCheckBlock on the %s object %q (kind %s)", pr.cntOnEntry, m, pr.name, pr.code, s.mut), rp)
					return
				}
				r.TieOK()
			}
		}
	}
	if refW >= 0 && !p0.newBlockErr && !p0.txsNil && p0.ntx == len(s.txs) && p0.code != "build-failed" && int(p0.weight) != refW {
		r.PropFail("blockweight-not-bip141:whole", fmt.Sprintf("Block.BlockWeight = %d for a well-formed block of %d transactions whose BIP141 weight is %d (kind %s, NewBlock(whole block))", p0.weight, len(s.txs), refW, s.mut), rep)
	}
}
