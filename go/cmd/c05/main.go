// c05 — correspondence harness + property search for C05 (block header / structure / commitment rules).
// Real code: btc.SetCompact/GetCompact/CheckProofOfWork, chain.GetNextWorkRequired, GetMedianTimePast,
// btc.CalcMerkle, script.UintToScript, Tx.IsFinal, Block.BuildTxListExt, Chain.CheckBlock (Pre+PostCheckBlock)
// on hand-built in-memory chain states. Model: lean oracle_c05. Reference: ref.go (Bitcoin Core's rules).
package main

import (
	"bytes"
	"encoding/binary"
	"encoding/json"
	"fmt"
	"math/big"
	"os"
	"strings"
	"syscall"

	"github.com/piotrnar/gocoin/lib/btc"
	"github.com/piotrnar/gocoin/lib/chain"
	"github.com/piotrnar/gocoin/lib/script"
	"verif/vlib"
)

var r *vlib.Run
var o *vlib.Oracle

var seedUsed uint64

// every stream draws from its own generator derived from VERIF_SEED (so one stream can be re-run alone)
func rngFor(id uint64) *vlib.Rng { return vlib.NewRng(seedUsed*1000003 + id) }

func min(a, b int) int {
	if a < b {
		return a
	}
	return b
}

func b2s(b bool) string {
	if b {
		return "1"
	}
	return "0"
}

// ---------------------------------------------------------------- compact targets

func isCanonical(c uint32) bool {
	if c&0x00800000 != 0 {
		return false
	}
	s, m := c>>24, c&0x007fffff
	if s == 0 {
		return m == 0
	}
	if m < 0x8000 {
		return false
	}
	if s <= 2 && m%(1<<(8*(3-s))) != 0 {
		return false
	}
	return true
}

func checkSetCompact(kind string, c uint32) {
	r.Eval("setcompact/"+kind, fmt.Sprintf("setc:%d", c))
	v := btc.SetCompact(c)
	mo := o.MustAsk(fmt.Sprintf("setc %d", c))
	rep := map[string]interface{}{"op": "setc", "c": c, "impl": v.String(), "model": mo}
	ref, neg, ovf := refSetCompact(c)
	if ovf {
		r.Hit("setcompact-class/overflow")
	} else if neg {
		r.Hit("setcompact-class/negative")
	} else if ref.Sign() == 0 {
		r.Hit("setcompact-class/zero")
	} else {
		r.Hit("setcompact-class/regular")
	}
	if !ovf {
		want := new(big.Int).Set(ref)
		if neg {
			want.Neg(want)
		}
		if v.Cmp(want) != 0 {
			r.PropFail("setcompact-value", fmt.Sprintf("SetCompact(0x%08x) = %s, arith_uint256::SetCompact gives %s (negative=%v)", c, v, ref, neg), rep)
			return
		}
	}
	if v.String() != mo {
		r.TieFail("tie-setc", fmt.Sprintf("model/impl differ on SetCompact(0x%08x): impl=%s model=%s", c, v, mo), rep)
		return
	}
	r.TieOK()
	// round trip on canonical encodings
	if isCanonical(c) {
		back := btc.GetCompact(v)
		if back != c {
			r.PropFail("compact-roundtrip", fmt.Sprintf("GetCompact(SetCompact(0x%08x)) = 0x%08x", c, back), rep)
		}
	}
}

func checkGetCompact(kind string, b *big.Int) {
	r.Eval("getcompact/"+kind, "getc:"+b.String())
	in := new(big.Int).Set(b)
	var c uint32
	pan := ""
	func() {
		defer func() {
			if x := recover(); x != nil {
				pan = fmt.Sprint(x)
			}
		}()
		c = btc.GetCompact(b)
	}()
	mo := o.MustAsk("getc " + in.String())
	rep := map[string]interface{}{"op": "getc", "b": in.String(), "impl": c, "model": mo}
	if pan != "" {
		r.PropFail("getcompact-panic", "GetCompact panics on "+in.String()+": "+pan, rep)
		return
	}
	if b.Cmp(in) != 0 {
		r.PropFail("getcompact-mutates", "GetCompact modifies its argument "+in.String(), rep)
		return
	}
	if in.Sign() >= 0 && in.Cmp(two256) < 0 {
		if want := refGetCompact(in); want != c {
			r.PropFail("getcompact-value", fmt.Sprintf("GetCompact(%s) = 0x%08x, arith_uint256::GetCompact gives 0x%08x", in, c, want), rep)
			return
		}
		if !isCanonical(c) {
			r.PropFail("getcompact-noncanonical", fmt.Sprintf("GetCompact(%s) = 0x%08x is not a canonical encoding", in, c), rep)
			return
		}
	}
	if fmt.Sprint(c) != mo {
		r.TieFail("tie-getc", fmt.Sprintf("model/impl differ on GetCompact(%s): impl=%d model=%s", in, c, mo), rep)
		return
	}
	r.TieOK()
}

func leHash(v *big.Int) []byte {
	be := v.Bytes()
	out := make([]byte, 32)
	for i := 0; i < len(be) && i < 32; i++ {
		out[i] = be[len(be)-1-i]
	}
	return out
}

var max256 = new(big.Int).Sub(two256, big.NewInt(1))

func checkPow(kind string, hashLE []byte, bits uint32) {
	r.Eval("pow/"+kind, fmt.Sprintf("pow:%x:%d", hashLE, bits))
	got := btc.CheckProofOfWork(btc.NewUint256(hashLE), bits)
	mo := o.MustAsk(fmt.Sprintf("pow %s %d", vlib.Hex(hashLE), bits))
	rep := map[string]interface{}{"op": "pow", "hash": vlib.Hex(hashLE), "bits": bits, "impl": got, "model": mo}
	ref := refCheckPoW(hashLE, bits, max256)
	if got != ref {
		if _, _, ovf := refSetCompact(bits); isCanonical(bits) && bits != 0 && !ovf {
			// a canonical non-zero encoding is what GetNextWorkRequired can demand: here both must agree
			r.PropFail("pow-canonical", fmt.Sprintf("CheckProofOfWork(%x, 0x%08x) = %v, Core's rule gives %v", hashLE, bits, got, ref), rep)
			return
		}
		if got {
			r.Hit("pow-edge/accepted-alone(neg|zero|overflow encodings rely on bits==required)")
		} else {
			r.Hit("pow-edge/refused-alone")
		}
	} else {
		r.Hit(fmt.Sprintf("pow-result/%v", got))
	}
	if b2s(got) != mo {
		r.TieFail("tie-pow", fmt.Sprintf("model/impl differ on CheckProofOfWork(%x,0x%08x): impl=%v model=%s", hashLE, bits, got, mo), rep)
		return
	}
	r.TieOK()
}

// ---------------------------------------------------------------- in-memory block trees

type tree struct {
	nodes []*chain.BlockTreeNode
	idx   map[*chain.BlockTreeNode]int
}

func newTree() *tree {
	o.MustAsk("reset")
	return &tree{idx: map[*chain.BlockTreeNode]int{}}
}

func (t *tree) add(parent *chain.BlockTreeNode, height, ts, bits uint32) *chain.BlockTreeNode {
	n := &chain.BlockTreeNode{Parent: parent, Height: height}
	binary.LittleEndian.PutUint32(n.BlockHeader[0:4], 4)
	binary.LittleEndian.PutUint32(n.BlockHeader[68:72], ts)
	binary.LittleEndian.PutUint32(n.BlockHeader[72:76], bits)
	h := dsha([]byte(fmt.Sprintf("node-%d-%d-%d-%d", len(t.nodes), height, ts, bits)))
	n.BlockHash = btc.NewUint256(h)
	pi := -1
	if parent != nil {
		pi = t.idx[parent]
		parent.Childs = append(parent.Childs, n)
	}
	rep := o.MustAsk(fmt.Sprintf("node %d %d %d %d", pi, height, ts, bits))
	if rep != fmt.Sprint(len(t.nodes)) {
		fmt.Println("oracle node index mismatch:", rep)
		os.Exit(3)
	}
	t.idx[n] = len(t.nodes)
	t.nodes = append(t.nodes, n)
	return n
}

func refChain(n *chain.BlockTreeNode) (out []refNode) {
	for ; n != nil; n = n.Parent {
		out = append(out, refNode{n.Height, n.Timestamp(), n.Bits()})
	}
	return
}

type netKind struct {
	name              string
	testnet, testnet4 bool
}

var nets = []netKind{{"mainnet", false, false}, {"testnet3", true, false}, {"testnet4", true, true}, {"main+tn4flag", false, true}}

func genesisFor(n netKind) *btc.Uint256 {
	var h [32]byte
	for i := range h {
		h[i] = byte(0xA0 + i)
	}
	h[0], h[1] = 0x6f, 0xe2
	if n.testnet {
		h[0] = 0x43
	}
	if n.testnet4 {
		h[1] = 0xf0
	}
	return btc.NewUint256(h[:])
}

func newChain(n netKind, maxBits uint32) *chain.Chain {
	ch := new(chain.Chain)
	ch.Genesis = genesisFor(n)
	ch.BlockIndex = map[[btc.Uint256IdxLen]byte]*chain.BlockTreeNode{}
	ch.Consensus.MaxPOWBits = maxBits
	ch.Consensus.MaxPOWValue = btc.SetCompact(maxBits)
	return ch
}

func (n netKind) params(powLimit *big.Int) refParams {
	return refParams{exact: new(big.Int).Mul(powLimit, big.NewInt(4*14*24*3600)).Cmp(two256) >= 0, powLimit: powLimit, allowMinDiff: n.testnet, enforceBIP94: n.testnet4, interval: 2016, targetSpacing: 600, timespan: 14 * 24 * 3600}
}

// checkGnwr: one GetNextWorkRequired call. validChain = the chain was grown with the reference rule
// (so Core's and gocoin's results must coincide); otherwise only model = impl is compared.
func checkGnwr(kind string, ch *chain.Chain, t *tree, net netKind, lst *chain.BlockTreeNode, ts uint32, validChain bool) (res uint32, ok bool) {
	r.Eval("gnwr/"+kind, fmt.Sprintf("gnwr:%s:%s:%d:%d", net.name, lst.BlockHash.String(), lst.Height, ts))
	il := ""
	func() {
		defer func() {
			if x := recover(); x != nil {
				il = "panic"
			}
		}()
		res = ch.GetNextWorkRequired(lst, ts)
		il = fmt.Sprintf("ok %d", res)
		ok = true
	}()
	mo := o.MustAsk(fmt.Sprintf("gnwr %d %d %s %s %d %s", t.idx[lst], ts, b2s(net.testnet), b2s(net.testnet4), ch.Consensus.MaxPOWBits, ch.Consensus.MaxPOWValue.String()))
	rep := map[string]interface{}{"op": "gnwr", "net": net.name, "height": lst.Height, "ts": ts, "impl": il, "model": mo, "chain_tail": refChain(lst)[:min(len(refChain(lst)), 12)], "note": "chain built by generator " + kind + " under this seed"}
	if (lst.Height+1)%2016 == 0 {
		r.Hit("gnwr-branch/retarget")
	} else if net.testnet {
		r.Hit("gnwr-branch/testnet-nonretarget")
	} else {
		r.Hit("gnwr-branch/same-as-last")
	}
	if validChain && !(net.testnet4 && !net.testnet) {
		if net.params(ch.Consensus.MaxPOWValue).exact {
			r.Hit("gnwr-note/synthetic pow limit: limit*4T >= 2^256, Core's 256-bit product would wrap; reference uses exact arithmetic")
		}
		want, wok := refNextWork(refChain(lst), ts, net.params(ch.Consensus.MaxPOWValue))
		if wok != ok || (ok && want != res) {
			r.PropFail("gnwr-required-bits:"+net.name, fmt.Sprintf("GetNextWorkRequired(height %d, ts %d, %s) = %s, Core's rule gives 0x%08x (ok=%v)", lst.Height, ts, net.name, il, want, wok), rep)
			return
		}
	}
	if il != mo {
		r.TieFail("tie-gnwr", fmt.Sprintf("model/impl differ on GetNextWorkRequired(height %d, ts %d, %s): impl=%q model=%q", lst.Height, ts, net.name, il, mo), rep)
		return
	}
	r.TieOK()
	return
}

func checkMTP(kind string, t *tree, n *chain.BlockTreeNode) uint32 {
	r.Eval("mtp/"+kind, fmt.Sprintf("mtp:%v", refChain(n)[:min(len(refChain(n)), 12)]))
	got := n.GetMedianTimePast()
	mo := o.MustAsk(fmt.Sprintf("mtp %d", t.idx[n]))
	rc := refChain(n)
	rep := map[string]interface{}{"op": "mtp", "times": rc[:min(len(rc), 12)], "impl": got, "model": mo}
	if want := refMTP(rc); want != got {
		r.PropFail("mtp-median", fmt.Sprintf("GetMedianTimePast = %d, median of the last %d timestamps is %d", got, min(len(rc), 11), want), rep)
		return got
	}
	if mo != fmt.Sprintf("ok %d", got) {
		r.TieFail("tie-mtp", fmt.Sprintf("model/impl differ on GetMedianTimePast: impl=%d model=%q", got, mo), rep)
		return got
	}
	r.TieOK()
	return got
}

func checkU2S(kind string, n uint32) {
	r.Eval("u2s/"+kind, fmt.Sprintf("u2s:%d", n))
	got := script.UintToScript(n)
	mo := o.MustAsk(fmt.Sprintf("u2s %d", n))
	rep := map[string]interface{}{"op": "u2s", "n": n, "impl": vlib.Hex(got), "model": mo}
	if want := refPushInt(int64(n)); !bytes.Equal(want, got) {
		r.PropFail("bip34-push", fmt.Sprintf("UintToScript(%d) = %x, CScript() << %d is %x", n, got, n, want), rep)
		return
	}
	if mo != vlib.Hex(got) {
		r.TieFail("tie-u2s", fmt.Sprintf("model/impl differ on UintToScript(%d): impl=%x model=%s", n, got, mo), rep)
		return
	}
	r.TieOK()
}

func checkMerkle(kind string, hs [][]byte) {
	var parts []string
	mtr := make([][32]byte, len(hs), 3*len(hs)+1)
	for i, h := range hs {
		copy(mtr[i][:], h)
		parts = append(parts, vlib.Hex(h))
	}
	arg := "_"
	if len(parts) > 0 {
		arg = strings.Join(parts, ",")
	}
	r.Eval("merkle/"+kind, "merkle:"+vlib.ShortHash([]byte(arg)))
	il := ""
	var root []byte
	var mut bool
	func() {
		defer func() {
			if recover() != nil {
				il = "panic"
			}
		}()
		root, mut = btc.CalcMerkle(mtr)
		il = fmt.Sprintf("ok %s %s", vlib.Hex(root), b2s(mut))
	}()
	mo := o.MustAsk("merkle " + arg)
	rep := map[string]interface{}{"op": "merkle", "leaves": arg, "impl": il, "model": mo}
	if len(hs) > 0 {
		wr, wm := refMerkle(hs)
		r.Hit(fmt.Sprintf("merkle-mutated/%v", wm))
		if il == "panic" || !bytes.Equal(wr, root) || wm != mut {
			r.PropFail("merkle-root-or-mutation", fmt.Sprintf("CalcMerkle on %d leaves = %s, ComputeMerkleRoot gives %x mutated=%v", len(hs), il, wr, wm), rep)
			return
		}
	}
	if il != mo {
		r.TieFail("tie-merkle", fmt.Sprintf("model/impl differ on CalcMerkle (%d leaves): impl=%q model=%q", len(hs), il, mo), rep)
		return
	}
	r.TieOK()
}

func checkFinal(kind string, lock uint32, seqs []uint32, height, btime uint32) {
	r.Eval("final/"+kind, fmt.Sprintf("final:%d:%v:%d:%d", lock, seqs, height, btime))
	tx := &btc.Tx{Lock_time: lock}
	var ss []string
	for _, s := range seqs {
		tx.TxIn = append(tx.TxIn, &btc.TxIn{Sequence: s})
		ss = append(ss, fmt.Sprint(s))
	}
	arg := "_"
	if len(ss) > 0 {
		arg = strings.Join(ss, ",")
	}
	got := tx.IsFinal(height, btime)
	mo := o.MustAsk(fmt.Sprintf("final %d %d %d %s", lock, height, btime, arg))
	rep := map[string]interface{}{"op": "final", "lock": lock, "seqs": seqs, "height": height, "time": btime, "impl": got, "model": mo}
	r.Hit(fmt.Sprintf("final-result/%v", got))
	if want := refIsFinal(lock, seqs, int64(height), int64(btime)); want != got {
		r.PropFail("isfinal", fmt.Sprintf("IsFinal(lock %d, seqs %v, height %d, time %d) = %v, IsFinalTx gives %v", lock, seqs, height, btime, got, want), rep)
		return
	}
	if mo != b2s(got) {
		r.TieFail("tie-final", fmt.Sprintf("model/impl differ on IsFinal(lock %d,…): impl=%v model=%s", lock, got, mo), rep)
		return
	}
	r.TieOK()
}

// ---------------------------------------------------------------- main

func main() {
	r = vlib.NewRun("C05")
	// gocoin reports refused blocks with println (fd 2): keep our own stderr, silence theirs
	if fd, e := syscall.Dup(2); e == nil {
		os.Stderr = os.NewFile(uintptr(fd), "stderr")
		if dn, e := os.OpenFile("/dev/null", os.O_WRONLY, 0); e == nil {
			syscall.Dup3(int(dn.Fd()), 2, 0)
		}
	}
	var err error
	o, err = vlib.StartOracle("c05")
	if err != nil {
		fmt.Println("cannot start oracle:", err)
		os.Exit(3)
	}
	defer o.Close()
	if r.Replay != "" {
		replay(r.Replay)
		r.Finish("replay of one recorded case", "replay")
	}
	seedUsed = r.Seed
	streamConsensus()
	streamCompact(rngFor(1))
	streamPow(rngFor(2))
	streamRetarget(rngFor(3))
	streamMTP(rngFor(4))
	streamU2S(rngFor(5))
	streamMerkle(rngFor(6))
	streamFinal(rngFor(7))
	streamBlocks(rngFor(8))
	weightManyTxCases(rngFor(9))
	weightCountCases(rngFor(10))
	generatorFloor()

	r.Assume = []string{
		"SHA-256 is modelled (executable Lean version validated here against Go's), theorems are parametric in the hash function",
		"math/big is modelled as Lean Int/Nat; Go slices/maps as lists; time.Now() is a parameter",
		"the byte-level transaction parser (NewTx) is not part of the C05 model (property C09): the model starts from the parsed transactions",
		"PostCheckBlock is entered with bl.Txs == nil (all callers that handle untrusted data do so); with pre-parsed Txs the weight limit is skipped",
		"the independent reference in go/cmd/c05/ref.go states Bitcoin Core's header/block rules",
		"the retry entry paths mirror the client's hand reset of a Block object after a corrupt copy (client/network/data.go, cblk.go) in the harness; netBlockReceived itself is not driven",
		"BlockIndex is keyed by the first 8 bytes of a BLOCK HASH: two different blocks whose hashes share those 8 bytes (about 2^64 hash evaluations on top of the proof of work to hit a given known block) cannot both be stored — the second one is refused (index-collision), which the model mirrors and a synthetic index state exercises; such a pair is not constructed from real blocks here. The header's previous-block FIELD, by contrast, is free data: it is compared as a whole (fix 533896f3), modelled, proved (precheck_sound) and generated (parent-prefix-only)",
	}
	r.Finish("corpus of compact-target / height / locktime / merkle edge values named in the property's quantifier, then generators: compact encodings (all sizes 0..255 x mantissa edges, negative, zero, overflowing), big ints of every byte length incl. negative, hashes at target-1/target/target+1, in-memory block trees of 1..4100 nodes for mainnet/testnet3/testnet4 with timespans below T/4, inside, above 4T and min-difficulty runs, MTP windows of 1..15 nodes with ties, BIP34 heights across every byte-length boundary, merkle leaf lists of 1..40 with duplicated pairs/tails (CVE-2012-2459), IsFinal boundary grids, and whole blocks mined at 0x207fffff on synthetic chain states with one rule violated per case (see histogram block-mutation/*), and blocks of hundreds of 0.3..7 KB transactions (150..250 parallel hashing packs) built to weight 4,000,004 / 4,000,000 / 4,000,001 / ... and checked repeatedly on fresh objects at GOMAXPROCS 16 (histogram weight-many-run/*), blocks with a chosen NUMBER of transactions (2, 252, 253, 254, hundreds to thousands: 1- and 3-byte count prefix) built to weight 4,000,000 / 4,000,004 / 4,000,008 / 4,000,001 (histogram weight-count/*), and EVERY whole block again on the same bytes through the header-first / retry ways of building the Block object (histogram block-entry-path/*, entry-path-result/*); contextual rules are also violated on a parent other than the last block (block-mutation/*@side) and on chain states whose LastBlock stays behind the header tip (scenario/last-block-behind-header-tip); trusted blocks are judged for the rules that stay in force (reference-judged-trusted-block); generator floors are asserted (generator_floor/*). distinct = distinct (operation,input) pairs; every generated case reaches the function under test",
		"each case is run through the real gocoin functions, the Lean model (oracle_c05) and an independent reference written from Bitcoin Core's rules; the property predicate (a block accepted by Chain.CheckBlock violates no rule of the reference; refused blocks leave LastBlock/BlockIndex untouched; compact round trip; required bits = Core's; median; BIP34 push = CScript<<height; mutated flag = Core's; an over-weight many-transaction block is refused on every one of the repeated runs and Block.BlockWeight equals the reference weight on every run; the verdict, Block.BlockWeight and the fields CheckBlock assigns are the same when the object is made from the header and the body attached by `bl.Raw = …` / UpdateContent, also after a refused corrupt copy and the client's reset) is evaluated on the real code, model/impl equality is the tie for the Lean theorems in Props/C05.lean")
}

// generatorFloor (audit 2, 3e): the constructed families may skip a case they cannot build, and a retry path may be skipped
// when the corrupt copy happens to pass — fine at today's rate (0 / a handful), but a generator regression must not thin
// the stream silently: below these floors the run fails as a broken tie.
func generatorFloor() {
	floor := func(name string, built, asked, minPct int) {
		r.Extra["generator_floor/"+name] = fmt.Sprintf("%d of %d", built, asked)
		if asked == 0 || built*100 < asked*minPct {
			r.TieFail("generator-thin:"+name, fmt.Sprintf("only %d of %d %s cases were constructed / judged (floor %d%%): the stream no longer exercises what the manifest says", built, asked, name, minPct), map[string]interface{}{"op": "generator-floor", "family": name})
		}
	}
	floor("weight", weightBuilt, weightAsked, 80)
	floor("weight-many", weightManyBuilt, weightManyAsked, 75)
	floor("weight-count", weightCountBuilt, weightCountAsked, 80)
	floor("entry-paths", entryPathJudged, entryPathJudged+entryPathSkipped, 90)
	for _, m := range []string{"commit-37", "commit-37-after", "lock-time@side", "time-mtp@side", "trusted"} {
		if mutSeen[m] == 0 {
			r.TieFail("generator-thin:mutation:"+m, "the block stream drew no case of mutation "+m, map[string]interface{}{"op": "generator-floor", "family": m})
		}
	}
}

// streamConsensus: the consensus parameters a real chain.NewChainExt installs for the three networks, against
// Bitcoin Core's chainparams (reference) and against what the translator read from the source (model).
func streamConsensus() {
	type want struct {
		name                                      string
		bits                                      uint32
		bip34, bip65, bip66, csv, segwit, taproot uint32
	}
	// Core chainparams.cpp: BIP34Height/BIP65Height/BIP66Height/CSVHeight/SegwitHeight, taproot = first block enforcing it
	ws := []want{{"mainnet", 0x1d00ffff, 227931, 388381, 363725, 419328, 481824, 709632},
		{"testnet3", 0x1d00ffff, 21111, 581885, 330776, 770112, 834624, 2011968},
		{"testnet4", 0x1d00ffff, 1, 1, 1, 1, 1, 1}}
	limit, _ := new(big.Int).SetString("00000000ffffffffffffffffffffffffffffffffffffffffffffffffffffffff", 16)
	for i, w := range ws {
		r.Eval("consensus-params", "cons:"+w.name)
		dir, err := os.MkdirTemp("", "vc05")
		if err != nil {
			fmt.Println("cannot create temp dir:", err)
			os.Exit(3)
		}
		var ch *chain.Chain
		func() {
			defer func() { recover() }()
			ch = chain.NewChainExt(dir+string(os.PathSeparator), genesisFor(nets[i]), false, nil, nil)
		}()
		if ch == nil {
			os.RemoveAll(dir)
			r.TieFail("consensus-newchain", "chain.NewChainExt failed on an empty directory for "+w.name, map[string]interface{}{"op": "cons", "net": w.name})
			continue
		}
		c := ch.Consensus
		il := fmt.Sprintf("%d %s %d %d %d %d %d %d", c.MaxPOWBits, c.MaxPOWValue.String(), c.BIP34Height, c.BIP65Height, c.BIP66Height, c.Enforce_CSV, c.Enforce_SEGWIT, c.Enforce_Taproot)
		func() {
			defer func() { recover() }()
			ch.Close()
		}()
		os.RemoveAll(dir)
		mo := o.MustAsk("cons " + w.name)
		rep := map[string]interface{}{"op": "cons", "net": w.name, "impl": il, "model": mo}
		wl := fmt.Sprintf("%d %s %d %d %d %d %d %d", w.bits, limit.String(), w.bip34, w.bip65, w.bip66, w.csv, w.segwit, w.taproot)
		if il != wl {
			r.PropFail("consensus-params:"+w.name, fmt.Sprintf("NewChainExt installs consensus parameters %q for %s, the network's are %q (maxbits maxvalue bip34 bip65 bip66 csv segwit taproot)", il, w.name, wl), rep)
			continue
		}
		if il != mo {
			r.TieFail("tie-consensus", fmt.Sprintf("translator and runtime disagree on the consensus parameters of %s: impl=%q model=%q", w.name, il, mo), rep)
			continue
		}
		r.TieOK()
	}
}

func streamCompact(g *vlib.Rng) {
	corpus := []uint32{0, 1, 0x00800000, 0x00ffffff, 0x01003456, 0x01123456, 0x02008000, 0x02800000, 0x03000000, 0x037fffff, 0x03800000, 0x03ffffff,
		0x04000000, 0x04123456, 0x04923456, 0x05009234, 0x1d00ffff, 0x1d00fffe, 0x1c7fffff, 0x1b0404cb, 0x207fffff, 0x20800000, 0x2000ffff,
		0x21000001, 0x21000100, 0x220000ff, 0x22000100, 0x23000001, 0x23000000, 0xff000000, 0xff7fffff, 0xffffffff, 0xff800001, 0x01800000, 0x01810000, 0x01010000, 0x017f0000, 0x02007f00, 0x02008000, 0x0200ff00, 0x03008000, 0x03007fff}
	for _, c := range corpus {
		checkSetCompact("corpus", c)
		checkGetCompact("corpus-setc", btc.SetCompact(c))
	}
	r.Sample(map[string]interface{}{"op": "setc", "c": "0x1d00ffff"})
	// every size byte x mantissa edges x sign
	mant := []uint32{0, 1, 0x7f, 0x80, 0xff, 0x100, 0x7fff, 0x8000, 0xffff, 0x10000, 0x7fffff, 0x400000, 0x008001}
	for s := uint32(0); s < 256; s++ {
		for _, m := range mant {
			checkSetCompact("grid", s<<24|m)
			checkSetCompact("grid-neg", s<<24|m|0x00800000)
		}
	}
	for i := 0; i < r.N(3000, 150000); i++ {
		var c uint32
		switch g.Intn(4) {
		case 0:
			c = uint32(g.U64())
		case 1:
			c = uint32(g.Intn(40))<<24 | uint32(g.U64())&0x007fffff
		case 2:
			c = uint32(g.Intn(6))<<24 | uint32(g.U64())&0x00ffffff
		case 3:
			c = uint32(30+g.Intn(8))<<24 | uint32(g.U64())&0x00ffffff
		}
		checkSetCompact("random", c)
	}
	// GetCompact: every byte length, top byte edges, negatives
	for n := 0; n <= 40; n++ {
		for _, top := range []byte{0x01, 0x7f, 0x80, 0xff} {
			for k := 0; k < 3; k++ {
				b := g.Bytes(n)
				if n > 0 {
					b[0] = top
				}
				if k == 1 && n > 3 {
					for j := 3; j < n; j++ {
						b[j] = 0
					}
				}
				if k == 2 && n > 1 {
					for j := 1; j < n; j++ {
						b[j] = 0xff
					}
				}
				v := new(big.Int).SetBytes(b)
				checkGetCompact("bytelen", v)
				checkGetCompact("bytelen-neg", new(big.Int).Neg(v))
			}
		}
	}
	for _, s := range []string{"0", "1", "-1", "127", "128", "255", "256", "32767", "32768", "8388607", "8388608", "16777215", "16777216", "-8388608", "-16777216", "-4294967041", "-4294967296", "4294967295", "4294967296"} {
		v, _ := new(big.Int).SetString(s, 10)
		checkGetCompact("corpus", v)
	}
	huge := new(big.Int).Lsh(big.NewInt(0x7fffff), 8*252)
	checkGetCompact("huge", huge)
	checkGetCompact("huge", new(big.Int).Lsh(big.NewInt(0x800000), 8*252))
	checkGetCompact("huge", new(big.Int).Lsh(big.NewInt(1), 8*300))
	for i := 0; i < r.N(2000, 100000); i++ {
		n := g.Intn(36)
		v := new(big.Int).SetBytes(g.Bytes(n))
		if g.Chance(1, 5) {
			v.Neg(v)
		}
		checkGetCompact("random", v)
	}
}

func streamPow(g *vlib.Rng) {
	edge := []uint32{0x1d00ffff, 0x207fffff, 0x1b0404cb, 0x03000001, 0x01010000, 0x02008000, 0, 0x00800000, 0x01800000, 0x1d80ffff, 0x04923456, 0x21000001, 0x2100ffff, 0x22000100, 0x23000001, 0xff7fffff, 0x20800001, 0x01003456, 0x03800001}
	for i := 0; i < r.N(300, 20000); i++ {
		var bits uint32
		if i < len(edge) {
			bits = edge[i]
		} else if g.Chance(1, 3) {
			bits = uint32(g.U64())
		} else {
			bits = refGetCompact(new(big.Int).SetBytes(g.Bytes(1 + g.Intn(32))))
		}
		t := btc.SetCompact(bits)
		at := new(big.Int).Abs(t)
		for _, d := range []int64{-1, 0, 1} {
			h := new(big.Int).Add(at, big.NewInt(d))
			if h.Sign() < 0 || h.Cmp(two256) >= 0 {
				continue
			}
			checkPow(fmt.Sprintf("target%+d", d), leHash(h), bits)
		}
		checkPow("zero-hash", make([]byte, 32), bits)
		checkPow("max-hash", leHash(max256), bits)
		checkPow("random-hash", g.Bytes(32), bits)
	}
	r.Sample(map[string]interface{}{"op": "pow", "bits": "0x1d00ffff", "hash": "target, target+1, target-1"})
}

// grow appends a node whose bits follow the reference rule (a "valid" chain).
func grow(t *tree, net netKind, powLimit *big.Int, tip *chain.BlockTreeNode, ts uint32) *chain.BlockTreeNode {
	bits, _ := refNextWork(refChain(tip), ts, net.params(powLimit))
	return t.add(tip, tip.Height+1, ts, bits)
}

func streamRetarget(g *vlib.Rng) {
	type cfg struct {
		net     netKind
		maxBits uint32
		spacing int
		len     int
	}
	var cfgs []cfg
	spacings := []int{100, 150, 149, 151, 600, 599, 2400, 2401, 2399, 3000, 30}
	nlong := r.N(5, 40)
	for i := 0; i < nlong; i++ {
		mb := uint32(0x1d00ffff)
		if g.Chance(1, 3) {
			mb = 0x207fffff
		}
		if g.Chance(1, 6) {
			mb = 0x1e0fffff
		}
		cfgs = append(cfgs, cfg{nets[i%len(nets)], mb, spacings[g.Intn(len(spacings))], 2014 + g.Intn(5) + 2016*g.Intn(3)})
	}
	// (round-4 seed C05-r4-1 was seen by the model tie only) one testnet3 chain of two periods is always there: the first
	// period is fast (ci%2 == 0 pattern below), so the second carries a target below the limit, and at every retarget
	// boundary an alternative last block of the period that is a legal 20-minute-rule minimum-difficulty block is probed:
	// Core takes that block's bits as the base on testnet3 and the last non-min-difficulty block's on testnet4 only
	for _, n := range nets {
		if n.testnet && !n.testnet4 {
			cfgs = append([]cfg{{n, 0x1d00ffff, 100, 4034}}, cfgs[:len(cfgs)-1]...)
		}
	}
	for ci, c := range cfgs {
		t := newTree()
		ch := newChain(c.net, c.maxBits)
		lim := ch.Consensus.MaxPOWValue
		ts := uint32(1600000000)
		tip := t.add(nil, 0, ts, c.maxBits)
		valid := !(c.net.testnet4 && !c.net.testnet)
		// the spacing changes from one retarget period to the next, so that difficulty goes up and then down again
		// (only then do both clamps change the result below the pow limit)
		perSp := []int{c.spacing, spacings[g.Intn(len(spacings))], spacings[g.Intn(len(spacings))], spacings[g.Intn(len(spacings))]}
		if ci%2 == 0 {
			perSp = []int{100 + g.Intn(60), 2300 + g.Intn(900), 500 + g.Intn(200), 30}
		}
		for int(tip.Height) < c.len {
			c.spacing = perSp[(int(tip.Height)/2016)%len(perSp)]
			step := uint32(c.spacing)
			if g.Chance(1, 10) {
				step = uint32(g.Intn(2 * c.spacing + 1))
			}
			if c.net.testnet && g.Chance(1, 8) {
				step = 1201 + uint32(g.Intn(100)) // min-difficulty block
			}
			ts += step
			h1 := tip.Height + 1
			// probe the rule around interesting heights before committing the node
			if h1%2016 <= 1 || h1%2016 >= 2014 || (c.net.testnet && g.Chance(1, 40)) || g.Chance(1, 300) {
				checkGnwr("grown", ch, t, c.net, tip, ts, valid)
				if c.net.testnet {
					checkGnwr("grown-gap-edge", ch, t, c.net, tip, tip.Timestamp()+1200, valid)
					checkGnwr("grown-gap-edge", ch, t, c.net, tip, tip.Timestamp()+1201, valid)
				}
				if h1%2016 == 0 && c.net.testnet && tip.Parent != nil {
					// the last block of the period is a minimum-difficulty block (20-minute rule)
					alt := t.add(tip.Parent, tip.Height, tip.Parent.Timestamp()+1201+uint32(g.Intn(600)), c.maxBits)
					if tip.Parent.Bits() != c.maxBits {
						r.Hit("gnwr-branch/retarget-after-min-difficulty-block(period target below the limit)")
					}
					checkGnwr("boundary-after-min-difficulty-block", ch, t, c.net, alt, alt.Timestamp()+uint32(g.Intn(1500)), valid)
				}
				if h1%2016 == 0 {
					// alternative tips at the retarget boundary: exact clamp edges
					first := tip
					for i := 0; i < 2015 && first.Parent != nil; i++ {
						first = first.Parent
					}
					for _, span := range []int64{302399, 302400, 302401, 4838399, 4838400, 4838401, 1209600, 1209599, 0, -5000, 1, 40000000} {
						alt := t.add(tip.Parent, tip.Height, uint32(int64(first.Timestamp())+span), tip.Bits())
						checkGnwr(fmt.Sprintf("clamp-edge-%d", span), ch, t, c.net, alt, ts, valid)
					}
				}
			}
			tip = grow(t, c.net, lim, tip, ts)
		}
		if ci == 0 {
			r.Sample(map[string]interface{}{"op": "gnwr", "net": c.net.name, "chain_len": c.len, "spacing": c.spacing, "maxbits": c.maxBits})
		}
		// invalid / odd chains on top: arbitrary bits in the last blocks, inconsistent heights, short chains
		for k := 0; k < r.N(20, 200); k++ {
			base := t.nodes[g.Intn(len(t.nodes))]
			bits := uint32(g.U64())
			if g.Bool() {
				bits = c.maxBits
			}
			h := base.Height + 1
			if g.Chance(1, 4) {
				h = uint32(2016*(1+g.Intn(3)) - 1) // pretend retarget height on a (maybe too short) chain
			}
			if g.Chance(1, 20) {
				h = 0xffffffff
			}
			alt := t.add(base, h, base.Timestamp()+uint32(g.Intn(3000)), bits)
			checkGnwr("odd", ch, t, c.net, alt, alt.Timestamp()+uint32(g.Intn(2500)), false)
		}
	}
	// short trees: genesis only, 2 nodes, timestamps close to 2^32 (uint32 wrap of ts+1200)
	for _, net := range nets {
		t := newTree()
		ch := newChain(net, 0x1d00ffff)
		gen := t.add(nil, 0, 1231006505, 0x1d00ffff)
		checkGnwr("genesis", ch, t, net, gen, 1231006505+600, true)
		n1 := t.add(gen, 1, 0xfffffff0, 0x1d00ffff)
		checkGnwr("ts-wrap", ch, t, net, n1, 5, false)
		checkGnwr("ts-wrap", ch, t, net, n1, 0xffffffff, false)
		n2 := t.add(n1, 2015, 100, 0x1c00ffff)
		checkGnwr("short-retarget", ch, t, net, n2, 200, false)
	}
}

func streamMTP(g *vlib.Rng) {
	for k := 0; k < r.N(300, 20000); k++ {
		t := newTree()
		n := 1 + g.Intn(15)
		var tip *chain.BlockTreeNode
		base := uint32(1500000000 + g.Intn(1000))
		for i := 0; i < n; i++ {
			var ts uint32
			switch g.Intn(4) {
			case 0:
				ts = base + uint32(i*600)
			case 1:
				ts = base + uint32(g.Intn(5)) // many ties
			case 2:
				ts = base - uint32(i*600) // decreasing
			default:
				ts = uint32(g.U64())
			}
			tip = t.add(tip, uint32(i), ts, 0x1d00ffff)
			checkMTP(fmt.Sprintf("len%d", min(i+1, 12)), t, tip)
		}
		if k == 0 {
			r.Sample(map[string]interface{}{"op": "mtp", "times": refChain(tip)})
		}
	}
}

func streamU2S(g *vlib.Rng) {
	edges := []uint32{0, 1, 15, 16, 17, 0x7f, 0x80, 0xff, 0x100, 0x7fff, 0x8000, 0xffff, 0x10000, 0x7fffff, 0x800000, 0xffffff, 0x1000000, 0x7fffffff, 0x80000000, 0xffffffff, 227931, 21111, 500000, 840000}
	for _, n := range edges {
		checkU2S("edge", n)
		if n > 0 {
			checkU2S("edge", n-1)
		}
		if n < 0xffffffff {
			checkU2S("edge", n+1)
		}
	}
	for i := 0; i < r.N(2000, 100000); i++ {
		sh := uint(g.Intn(32))
		checkU2S("random", uint32(g.U64())>>sh)
	}
	r.Sample(map[string]interface{}{"op": "u2s", "n": 32768})
}

func streamMerkle(g *vlib.Rng) {
	checkMerkle("empty", nil)
	for n := 1; n <= 40; n++ {
		var hs [][]byte
		for i := 0; i < n; i++ {
			hs = append(hs, g.Bytes(32))
		}
		checkMerkle("distinct", hs)
		// CVE-2012-2459: duplicate the tail so that the root is unchanged
		if n%2 == 1 && n > 1 {
			checkMerkle("cve-2012-2459-tail", append(append([][]byte{}, hs...), hs[n-1]))
		}
		if n >= 3 && n%2 == 1 {
			// duplicate the last two-subtree: [a b c] -> [a b c c] same root; for 6: [a b c d e f] -> [.. e f e f]
			checkMerkle("cve-2012-2459-subtree", append(append([][]byte{}, hs...), hs[n-1:]...))
		}
		if n >= 6 && n%4 == 2 {
			checkMerkle("cve-2012-2459-subtree2", append(append([][]byte{}, hs...), hs[n-2:]...))
		}
		for k := 0; k < r.N(3, 40); k++ {
			m := append([][]byte{}, hs...)
			i := g.Intn(n)
			j := g.Intn(n)
			m[i] = m[j] // equal leaves at adjacent-pair, same index, or non-paired positions
			checkMerkle("dup-leaf", m)
		}
	}
	r.Sample(map[string]interface{}{"op": "merkle", "leaves": "a,b,c vs a,b,c,c"})
}

func streamFinal(g *vlib.Rng) {
	locks := []uint32{0, 1, 99, 100, 101, 499999999, 500000000, 500000001, 1700000000, 1699999999, 1700000001, 0xffffffff}
	for _, l := range locks {
		for _, h := range []uint32{0, 99, 100, 101, 500000000} {
			for _, tm := range []uint32{0, 1699999999, 1700000000, 1700000001} {
				for _, sq := range [][]uint32{{0xffffffff}, {0}, {0xffffffff, 0xfffffffe}, {0xffffffff, 0xffffffff}, {}} {
					checkFinal("grid", l, sq, h, tm)
				}
			}
		}
	}
	for i := 0; i < r.N(1000, 50000); i++ {
		h := uint32(g.Intn(1000000))
		tm := uint32(1600000000 + g.Intn(100000000))
		var l uint32
		switch g.Intn(5) {
		case 0:
			l = h + uint32(g.Intn(3)) - 1
		case 1:
			l = tm + uint32(g.Intn(3)) - 1
		case 2:
			l = 500000000 + uint32(g.Intn(3)) - 1
		default:
			l = uint32(g.U64())
		}
		var sq []uint32
		for k := 0; k < g.Intn(4); k++ {
			if g.Bool() {
				sq = append(sq, 0xffffffff)
			} else {
				sq = append(sq, uint32(g.U64()))
			}
		}
		checkFinal("random", l, sq, h, tm)
	}
	r.Sample(map[string]interface{}{"op": "final", "lock": 100, "height": 100, "seqs": []uint32{0}})
}

func replay(path string) {
	b, err := os.ReadFile(path)
	if err != nil {
		fmt.Println("cannot read replay:", err)
		os.Exit(3)
	}
	var doc struct {
		Replay map[string]interface{} `json:"replay"`
		Seed   uint64                 `json:"seed"`
		Tier   string                 `json:"tier"`
	}
	json.Unmarshal(b, &doc)
	seedUsed = doc.Seed
	if doc.Tier == "quick" || doc.Tier == "thorough" {
		r.Tier = doc.Tier // stream re-runs must draw the same number of cases as the recorded run
	}
	num := func(k string) uint64 { f, _ := doc.Replay[k].(float64); return uint64(f) }
	str := func(k string) string { s, _ := doc.Replay[k].(string); return s }
	switch str("op") {
	case "setc":
		checkSetCompact("replay", uint32(num("c")))
	case "getc":
		v, _ := new(big.Int).SetString(str("b"), 10)
		checkGetCompact("replay", v)
	case "pow":
		checkPow("replay", vlib.UnHex(str("hash")), uint32(num("bits")))
	case "u2s":
		checkU2S("replay", uint32(num("n")))
	case "merkle":
		var hs [][]byte
		if str("leaves") != "_" {
			for _, p := range strings.Split(str("leaves"), ",") {
				hs = append(hs, vlib.UnHex(p))
			}
		}
		checkMerkle("replay", hs)
	case "final":
		var sq []uint32
		if l, ok := doc.Replay["seqs"].([]interface{}); ok {
			for _, x := range l {
				f, _ := x.(float64)
				sq = append(sq, uint32(f))
			}
		}
		checkFinal("replay", uint32(num("lock")), sq, uint32(num("height")), uint32(num("time")))
	case "cons":
		streamConsensus()
	case "block", "weight-block":
		replayBlock(doc.Replay)
	case "weight-many":
		weightManyTxCases(rngFor(9))
	case "weight-count":
		var cs uint64
		fmt.Sscan(str("wc_seed"), &cs)
		wit, _ := doc.Replay["witness"].(bool)
		tr, _ := doc.Replay["trusted"].(bool)
		weightCountCase(cs, int(num("transactions")), int(num("target_weight")), wit, tr)
	default:
		// gnwr / mtp cases and proof-level violations are reproduced by re-running the stream with the same seed
		// tree-based streams are reproduced by re-running that stream with the recorded seed
		switch str("op") {
		case "gnwr":
			streamRetarget(rngFor(3))
		case "mtp":
			streamMTP(rngFor(4))
		default:
			fmt.Println("replay: nothing to re-run for this file (proof-level violation); see its 'broken' field")
		}
	}
}
