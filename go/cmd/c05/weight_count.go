// weight_count.go — the weight limit × the NUMBER of transactions × the way the Block object was made.
//
// The weight of a block counts its transaction counter at its real length: 1 byte up to 252 transactions, 3 bytes
// from 253 (5 bytes would need 65536 transactions, which do not fit under the limit: a transaction is at least 60
// bytes). weightCases (one huge transaction) and weightManyTxCases (hundreds of big ones, whatever count comes out)
// leave the count to chance; here the count is chosen — around the width boundary 252 / 253 / 254, tiny (2, 3) and
// large (hundreds to thousands of minimal transactions) — and the block is built to an exact BIP141 weight at and just
// above the limit, with and without witness data (4,000,000 / 4,000,004 / 4,000,008, and 4,000,001 / 4,000,005 with a
// witness so that the weight is not a multiple of 4). Each block goes through runBlock: Chain.CheckBlock on
// NewBlock(whole block) against model and reference, then the header-first / retry paths of entrypaths.go on the
// same bytes. Every case is rebuilt from (seed, count, weight, witness) — that is what its replay file records.
package main

import (
	"bytes"
	"fmt"

	"verif/vlib"
)

// smallTx: a near-minimal transaction (one input, one output, inert scripts)
func smallTx(g *vlib.Rng) *rtx {
	t := &rtx{version: 1 + uint32(g.Intn(2))}
	in := rin{vout: uint32(g.Intn(4)), script: inertScript(g, g.Intn(4)), seq: 0xffffffff}
	copy(in.prev[:], g.Bytes(32))
	in.prev[0] |= 1
	t.ins = []rin{in}
	t.outs = []rout{{uint64(g.Intn(100000)), inertScript(g, 1+g.Intn(6))}}
	return t
}

// countTxBlock: coinbase + exactly ntx-1 other transactions, reference weight exactly `target`.
func countTxBlock(g *vlib.Rng, height uint32, ntx, target int, withWit bool) (txs []*rtx, ok bool) {
	cb := coinbaseTx(g, height, -1)
	for i := range cb.outs {
		cb.outs[i].pk = inertScript(g, len(cb.outs[i].pk))
	}
	txs = []*rtx{cb}
	var wtx *rtx
	if withWit {
		wtx = smallTx(g)
		wtx.wit = [][][]byte{{{1}}}
	}
	filler := smallTx(g)
	nsmall := ntx - 2
	if withWit {
		nsmall--
	}
	if nsmall < 0 {
		return nil, false
	}
	wpos := 1 + g.Intn(nsmall+1)
	big := ntx <= 3000
	for i := 0; i < nsmall; i++ {
		if len(txs) == wpos && withWit {
			txs = append(txs, wtx)
		}
		var t *rtx
		if big && g.Chance(1, 3) {
			t = regularTx(g, false)
			for k := range t.outs {
				t.outs[k].pk = inertScript(g, len(t.outs[k].pk))
			}
		} else {
			t = smallTx(g)
		}
		txs = append(txs, t)
	}
	if withWit && len(txs) <= wpos {
		txs = append(txs, wtx)
	}
	// the filler at a random position after the coinbase (not always last)
	fpos := 1 + g.Intn(len(txs))
	txs = append(txs, nil)
	copy(txs[fpos+1:], txs[fpos:])
	txs[fpos] = filler
	if len(txs) != ntx {
		return nil, false
	}
	build := func(pad, wl int) int {
		filler.outs[0].pk = bytes.Repeat([]byte{0x6a}, pad)
		if withWit {
			wtx.wit[0][0] = bytes.Repeat([]byte{7}, wl)
			cb.wit = nil
			if p := refCommitPos(cb); p >= 0 {
				cb.outs = cb.outs[:p]
			}
			addCommitmentDet(txs)
		}
		return refWeight(txs)
	}
	pad, wl := 1, 1
	w := build(pad, wl)
	for it := 0; it < 16; it++ {
		if w == target {
			return txs, true
		}
		d := target - w
		switch {
		case !withWit || d >= 4 || d <= -4:
			pad += d / 4
		case wl+d >= 1:
			wl += d
		default:
			pad--
			wl += 4 + d
		}
		if pad < 1 || wl < 1 {
			return nil, false
		}
		w = build(pad, wl)
	}
	return txs, w == target
}

var weightCountBuilt, weightCountAsked int

func weightCountCase(caseSeed uint64, ntx, target int, withWit, trusted bool) {
	weightCountAsked++
	g := vlib.NewRng(caseSeed)
	sc := newScenario(g.U64(), nets[0], 12, 600)
	now := stableNow()
	height := sc.tip.Height + 1
	rc := refChain(sc.tip)
	mtp := refMTP(rc)
	cons := consH{1, 1, 1, 1, 1, 1}
	s := &blockSpec{txCount: -1, mut: fmt.Sprintf("weight-count-%s-%d", countClass(ntx), target), parent: sc.tip, version: 4, time: mtp + 1}
	if withWit {
		s.mut += "-wit"
	}
	if trusted {
		s.mut += "-trusted"
		s.trusted = true
	}
	txs, ok := countTxBlock(g, height, ntx, target, withWit)
	if !ok {
		r.Hit("weight-count-case-not-constructed")
		return
	}
	weightCountBuilt++
	s.txs = txs
	s.merkle, _ = refMerkle(txids(s.txs))
	s.prevHash = sc.tip.BlockHash.Hash[:]
	s.bits, _ = refNextWork(rc, s.time, sc.net.params(sc.ch.Consensus.MaxPOWValue))
	raw := s.raw()
	r.Hit(fmt.Sprintf("weight-count/count-prefix-%d-bytes", varIntSize(uint64(ntx))))
	rep := map[string]interface{}{"op": "weight-count", "mutation": s.mut, "target_weight": target, "transactions": ntx, "witness": withWit,
		"raw_len": len(raw), "scenario": sc.desc, "wc_seed": fmt.Sprint(caseSeed), "trusted": trusted}
	runBlock("weight-count", sc, s, cons, raw, now, rep)
}

func countClass(ntx int) string {
	switch {
	case ntx <= 3:
		return "tiny"
	case ntx < 253:
		return "1-byte-counter"
	case ntx <= 254:
		return "3-byte-counter-edge"
	}
	return "3-byte-counter"
}

func weightCountCases(g *vlib.Rng) {
	type tc struct {
		target  int
		withWit bool
	}
	targets := []tc{{4000004, false}, {4000000, false}, {4000001, true}, {4000008, false}, {4000000, true}, {4000005, true}, {4000008, true}, {3999996, false}, {4000012, false}}
	nt := r.N(4, len(targets))
	counts := []int{2, 252, 253, 254, 255 + g.Intn(3000)}
	if r.Tier == "thorough" {
		counts = append(counts, 3, 251, 1000+g.Intn(1000), 9000+g.Intn(5000))
	}
	for _, ntx := range counts {
		for ti, c := range targets {
			if ti >= nt {
				break
			}
			n := ntx
			if c.withWit && n < 3 {
				n = 3
			}
			weightCountCase(g.U64(), n, c.target, c.withWit, false)
		}
		if ntx == 2 || ntx == 253 {
			// audit 2, 3c: trusted x over-weight — the weight limit is not among the rules a trusted block skips
			weightCountCase(g.U64(), ntx, 4000004, false, true)
			weightCountCase(g.U64(), ntx, 4000000, false, true)
		}
	}
}
