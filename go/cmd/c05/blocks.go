// blocks.go — whole-block stream: Chain.CheckBlock (PreCheckBlock + PostCheckBlock) on hand-built in-memory
// chain states, one rule violated per case, against the Lean model and the reference of ref.go.
package main

import (
	"bytes"
	"encoding/binary"
	"fmt"
	"math/big"
	"reflect"
	"strings"
	"time"

	"github.com/piotrnar/gocoin/lib/btc"
	"github.com/piotrnar/gocoin/lib/chain"
	"verif/vlib"
)

const easyBits = 0x207fffff

type scenario struct {
	net             netKind
	ch              *chain.Chain
	t               *tree
	tip             *chain.BlockTreeNode
	desc            string
	seed            uint64
	length, spacing int
	// lastBack > 0: Chain.LastBlock() stays this many blocks behind sc.tip (headers run ahead of the connected chain, the
	// client's normal download state): every generated block then has a parent other than LastBlock
	lastBack int
	// byHash: the reference's own view of "which blocks exist", keyed by the WHOLE hash (independent of gocoin's
	// 8-byte BlockIndex key)
	byHash map[[32]byte]*chain.BlockTreeNode
}

func bkey(h []byte) uint64 { return binary.LittleEndian.Uint64(h[:8]) } // BIdx as the model's number

// register: ch.BlockIndex[hash] = n, mirrored into the chain state the oracle holds for checkBlockM
func (sc *scenario) register(n *chain.BlockTreeNode) {
	sc.ch.BlockIndex[n.BlockHash.BIdx()] = n
	o.MustAsk(fmt.Sprintf("idx %x %d", n.BlockHash.Hash[:], sc.t.idx[n]))
	sc.byHash[n.BlockHash.Hash] = n
}

// refParentOf: the block the header's previous-block field names, by whole hash (nil = no such block)
func (sc *scenario) refParentOf(raw []byte) *chain.BlockTreeNode {
	if len(raw) < 80 {
		return nil
	}
	var h [32]byte
	copy(h[:], raw[4:36])
	return sc.byHash[h]
}

// indexSnapshot: every entry of BlockIndex with the node fields CheckBlock could reach
func indexSnapshot(ch *chain.Chain) map[[btc.Uint256IdxLen]byte]string {
	m := make(map[[btc.Uint256IdxLen]byte]string, len(ch.BlockIndex))
	for k, n := range ch.BlockIndex {
		m[k] = fmt.Sprintf("%p %p %d %d %x %x", n, n.Parent, n.Height, len(n.Childs), n.BlockHash.Hash, n.BlockHeader)
	}
	return m
}

func newScenario(seed uint64, net netKind, length, spacing int) *scenario {
	return newScenarioLB(seed, net, length, spacing, 0)
}

func newScenarioLB(seed uint64, net netKind, length, spacing, lastBack int) *scenario {
	g := vlib.NewRng(seed)
	sc := &scenario{net: net, t: newTree(), ch: newChain(net, easyBits), seed: seed, length: length, spacing: spacing, byHash: map[[32]byte]*chain.BlockTreeNode{}}
	sc.desc = fmt.Sprintf("%s len=%d spacing=%d", net.name, length, spacing)
	ts := uint32(1700000000 - length*spacing - 100000)
	tip := sc.t.add(nil, 0, ts, easyBits)
	sc.ch.BlockTreeRoot = tip
	sc.register(tip)
	for int(tip.Height) < length {
		step := uint32(spacing)
		switch g.Intn(10) {
		case 0:
			step = uint32(g.Intn(2*spacing + 1))
		case 1:
			step = 0
		case 2:
			if net.testnet {
				step = 1201 + uint32(g.Intn(50))
			}
		}
		ts += step
		tip = grow(sc.t, net, sc.ch.Consensus.MaxPOWValue, tip, ts)
		sc.register(tip)
	}
	sc.tip = tip
	last := tip
	for i := 0; i < lastBack && last.Parent != nil; i++ {
		last = last.Parent
		sc.lastBack = i + 1
	}
	if sc.lastBack > 0 {
		sc.desc += fmt.Sprintf(" last-behind=%d", sc.lastBack)
	}
	sc.ch.SetLast(last)
	o.MustAsk(fmt.Sprintf("last %d", sc.t.idx[last]))
	return sc
}

type blockSpec struct {
	mut       string
	parent    *chain.BlockTreeNode // nil = unknown parent (random prev hash)
	prevHash  []byte
	version   uint32
	time      uint32
	bits      uint32
	txs       []*rtx
	merkle    []byte
	badPow    bool
	cutTail   int    // bytes removed from the end of the raw block
	trailing  []byte // bytes appended after the last transaction
	txCount   int    // -1 = len(txs)
	trusted   bool
	preParsed bool
	dupIndex  string // "", "dup", "genesis": pre-register the block hash in BlockIndex; "collide", "collide-genesis": pre-register
	// a node under the block's 8-byte key whose whole hash differs (synthetic index state: from blocks it takes 2^64 work)
	noRef     bool   // contextual refusal that the reference cannot judge (unknown parent, duplicate, too deep)
	shortRaw  int    // >0: hand PreCheckBlock a Block whose Raw has this many bytes (<80)
}

func randScript(g *vlib.Rng, n int) []byte { return g.Bytes(n) }

func regularTx(g *vlib.Rng, withWit bool) *rtx {
	t := &rtx{version: 1 + uint32(g.Intn(2))}
	for i := 0; i < 1+g.Intn(3); i++ {
		in := rin{vout: uint32(g.Intn(4)), script: randScript(g, g.Intn(40)), seq: 0xffffffff}
		copy(in.prev[:], g.Bytes(32))
		in.prev[0] |= 1
		if g.Chance(1, 4) {
			in.seq = uint32(g.U64())
		}
		t.ins = append(t.ins, in)
	}
	for i := 0; i < 1+g.Intn(3); i++ {
		t.outs = append(t.outs, rout{uint64(g.Intn(100000)), randScript(g, 1+g.Intn(34))})
	}
	if withWit {
		t.wit = make([][][]byte, len(t.ins))
		for i := range t.wit {
			for k := 0; k < g.Intn(3); k++ {
				t.wit[i] = append(t.wit[i], g.Bytes(g.Intn(40)))
			}
		}
		if len(t.wit[0]) == 0 {
			t.wit[0] = [][]byte{g.Bytes(1 + g.Intn(70))}
		}
	}
	return t
}

func coinbaseTx(g *vlib.Rng, height uint32, scriptLen int) *rtx {
	t := &rtx{version: 1, lock: 0}
	sc := refPushInt(int64(height))
	if scriptLen < 0 {
		scriptLen = len(sc) + 1 + g.Intn(20)
	}
	for len(sc) < scriptLen {
		sc = append(sc, byte(g.U64()))
	}
	t.ins = []rin{{vout: 0xffffffff, script: sc, seq: 0xffffffff}}
	for i := 0; i < 1+g.Intn(2); i++ {
		t.outs = append(t.outs, rout{uint64(50e8), randScript(g, 1+g.Intn(30))})
	}
	return t
}

// addCommitment gives the coinbase a witness nonce and a correct BIP141 commitment output.
func addCommitment(g *vlib.Rng, txs []*rtx) {
	cb := txs[0]
	nonce := g.Bytes(32)
	cb.wit = [][][]byte{{nonce}}
	leaves := [][]byte{make([]byte, 32)}
	for _, t := range txs[1:] {
		leaves = append(leaves, t.wtxid())
	}
	wr, _ := refMerkle(leaves)
	c := dsha(append(append([]byte{}, wr...), nonce...))
	pk := append(append([]byte{}, witnessHdr...), c...)
	if g.Chance(1, 4) {
		pk = append(pk, g.Bytes(1+g.Intn(5))...) // longer than 38 is allowed
	}
	cb.outs = append(cb.outs, rout{0, pk})
}

func commitPk(cb *rtx) []byte {
	if p := refCommitPos(cb); p >= 0 {
		return cb.outs[p].pk
	}
	return nil
}

func (s *blockSpec) header(nonce uint32) []byte {
	h := make([]byte, 80)
	binary.LittleEndian.PutUint32(h[0:4], s.version)
	copy(h[4:36], s.prevHash)
	copy(h[36:68], s.merkle)
	binary.LittleEndian.PutUint32(h[68:72], s.time)
	binary.LittleEndian.PutUint32(h[72:76], s.bits)
	binary.LittleEndian.PutUint32(h[76:80], nonce)
	return h
}

func (s *blockSpec) raw() []byte {
	var hdr []byte
	for nonce := uint32(0); nonce < 4000; nonce++ {
		hdr = s.header(nonce)
		ok := refCheckPoW(dsha(hdr), s.bits, max256)
		if ok != s.badPow {
			break
		}
		if nonce > 64 && !s.badPow {
			if _, _, ovf := refSetCompact(s.bits); ovf || s.bits&0x00800000 != 0 || s.bits&0x007fffff == 0 {
				break // cannot be mined under Core's reading; keep what we have
			}
		}
	}
	var b bytes.Buffer
	b.Write(hdr)
	n := s.txCount
	if n < 0 {
		n = len(s.txs)
	}
	putVarInt(&b, uint64(n))
	for _, t := range s.txs {
		b.Write(t.ser(true))
	}
	b.Write(s.trailing)
	out := b.Bytes()
	if s.cutTail > 0 && s.cutTail < len(out)-80 {
		// exact capacity: gocoin's parser bounds-checks through slice panics, which look at cap, not len
		cut := make([]byte, len(out)-s.cutTail)
		copy(cut, out)
		return cut
	}
	exact := make([]byte, len(out))
	copy(exact, out)
	return exact
}

type consH struct{ bip34, bip65, bip66, csv, segwit, taproot uint32 }

func pickH(g *vlib.Rng, h uint32, allowOff bool) uint32 {
	if allowOff && g.Chance(1, 5) {
		return 0
	}
	d := []int{-3, -1, 0, 0, 1, 2}[g.Intn(6)]
	v := int(h) + d
	if v < 1 {
		v = 1
	}
	return uint32(v)
}

// sideMuts: mutations that are also drawn on a parent other than sc.tip (mutation name + "@side")
var sideMuts = map[string]bool{"time-mtp": true, "time-mtp+1": true, "time-mtp-1": true, "version": true, "lock-height": true, "lock-height-1": true,
	"lock-time": true, "lock-time-1": true, "bip34-wrong-height": true, "bip34-missing": true, "bits-off": true, "commit-wrong": true, "commit-missing": true,
	"cb-len-1": true, "cb-len-101": true, "merkle-wrong": true, "dup-tail": true}

var blockMuts = []string{"none", "none", "none", "none", "none", "none",
	"version", "version", "version", "time-mtp", "time-mtp+1", "time-mtp-1", "time-now+7200", "time-now+7201", "time-now+7500", "time-now+7501",
	"bits-off", "bits-neg", "bits-zero", "bits-overflow", "bits-noncanon", "high-hash", "parent-unknown", "duplicate", "genesis-dup",
	"parent-prefix-only", "parent-prefix-only", "parent-suffix-only", "hash-key-collision",
	"fork-side", "cb-len-1", "cb-len-2", "cb-len-100", "cb-len-101", "bip34-wrong-height", "bip34-nonminimal", "bip34-missing",
	"no-coinbase", "cb-second", "cb-not-first", "empty-block", "truncated", "trailing", "lock-height", "lock-height-1", "lock-time", "lock-time-1",
	"lock-cb", "dup-tail", "dup-subtree", "merkle-wrong", "commit-wrong", "commit-missing", "commit-superfluous", "commit-two-last-right", "commit-two-first-right", "commit-37", "commit-37-after",
	"nonce-31", "nonce-33", "nonce-2items", "nonce-absent", "unexpected-witness", "null-prevout", "no-outputs", "vout-toolarge", "total-toolarge", "trusted", "trusted-badmerkle", "preparsed", "short-raw", "header-only"}

func genBlock(g *vlib.Rng, sc *scenario, now int64, cons *consH, force string) *blockSpec {
	s := &blockSpec{txCount: -1}
	s.mut = blockMuts[g.Intn(len(blockMuts))]
	forceSide := strings.HasSuffix(force, "@side")
	if force != "" {
		s.mut = strings.TrimSuffix(force, "@side")
	}
	s.parent = sc.tip
	// audit 2, 3b: the contextual rules are also violated on blocks whose parent is NOT sc.tip (an ancestor 1..3 back: a side
	// branch, or — in scenarios whose LastBlock stays behind the header tip — simply another ancestor than LastBlock), so a
	// rule evaluated against the wrong ancestor is judged by the reference on a block that violates it
	side := false
	if (force == "" && sideMuts[s.mut] && g.Chance(1, 3)) || forceSide {
		side = true
	}
	if s.mut == "fork-side" || side || (s.mut == "parent-prefix-only" && g.Chance(1, 3)) {
		for i := 0; i < 1+g.Intn(3) && s.parent.Parent != nil; i++ {
			s.parent = s.parent.Parent
		}
	}
	if side {
		defer func() { s.mut += "@side" }()
	}
	height := s.parent.Height + 1
	rc := refChain(s.parent)
	mtp := refMTP(rc)
	s.time = mtp + 1 + uint32(g.Intn(1300))
	if g.Chance(1, 3) && s.parent.Timestamp() > mtp {
		s.time = s.parent.Timestamp() + uint32(g.Intn(1300))
	}
	if side && g.Chance(1, 2) {
		s.time = mtp + 1 + uint32(g.Intn(6000)) // often later than the median of the blocks after the fork point
	}
	switch s.mut {
	case "time-mtp":
		s.time = mtp
	case "time-mtp+1":
		s.time = mtp + 1
	case "time-mtp-1":
		s.time = mtp - 1
	case "time-now+7200":
		s.time = uint32(now + 7200)
	case "time-now+7201":
		s.time = uint32(now + 7201)
	case "time-now+7500":
		s.time = uint32(now + 7500)
	case "time-now+7501":
		s.time = uint32(now + 7501)
	}
	*cons = consH{pickH(g, height, false), pickH(g, height, false), pickH(g, height, false), pickH(g, height, true), pickH(g, height, true), pickH(g, height, true)}
	s.version = []uint32{4, 4, 0x20000000, 5, 0x3fffe000}[g.Intn(5)]
	if s.mut == "version" {
		s.version = []uint32{0, 1, 2, 3, 4, 5, 0x20000000, 0x7fffffff, 0x80000000, 0x80000004, 0xffffffff}[g.Intn(11)]
	}
	segwitOn := cons.segwit != 0 && height >= cons.segwit
	csvOn := cons.csv != 0 && height >= cons.csv
	cutoff := s.time
	if csvOn {
		cutoff = mtp
	}
	// body
	cbLen := -1
	switch s.mut {
	case "cb-len-1":
		cbLen = 1
	case "cb-len-2":
		cbLen = 2
	case "cb-len-100":
		cbLen = 100
	case "cb-len-101":
		cbLen = 101
	}
	cb := coinbaseTx(g, height, cbLen)
	if cbLen > 0 && len(cb.ins[0].script) > cbLen {
		cb.ins[0].script = cb.ins[0].script[:cbLen]
	}
	switch s.mut {
	case "bip34-wrong-height":
		d := int64(1)
		if g.Bool() && height > 0 {
			d = -1
		}
		cb.ins[0].script = append(refPushInt(int64(height)+d), g.Bytes(3)...)
	case "bip34-nonminimal":
		le := make([]byte, 4)
		binary.LittleEndian.PutUint32(le, height)
		switch g.Intn(3) {
		case 0:
			cb.ins[0].script = append(append([]byte{4}, le...), g.Bytes(2)...) // 4-byte push, zero padded
		case 1:
			min := refPushInt(int64(height))
			if len(min) > 1 {
				cb.ins[0].script = append(append([]byte{0x4c}, min...), g.Bytes(2)...) // OP_PUSHDATA1
			} else {
				cb.ins[0].script = append([]byte{1, byte(height)}, g.Bytes(2)...) // explicit push of a small number
			}
		case 2:
			cb.ins[0].script = append(append([]byte{5}, append(le, 0)...), g.Bytes(2)...)
		}
	case "bip34-missing":
		cb.ins[0].script = g.Bytes(2 + g.Intn(30))
	case "lock-cb":
		cb.lock = height
		cb.ins[0].seq = 0
	}
	s.txs = []*rtx{cb}
	ntx := g.Intn(7)
	if g.Chance(1, 40) {
		ntx = 244 + g.Intn(16) // around 253 transactions the count prefix grows from 1 to 3 bytes (every rule, every entry path)
	}
	anyWit := false
	for i := 0; i < ntx; i++ {
		w := segwitOn && g.Chance(1, 2)
		anyWit = anyWit || w
		s.txs = append(s.txs, regularTx(g, w))
	}
	lockTx := func(lock uint32) {
		t := regularTx(g, false)
		t.lock = lock
		t.ins[0].seq = uint32(g.Intn(0xffffffff))
		s.txs = append(s.txs, t)
	}
	switch s.mut {
	case "lock-height":
		lockTx(height)
	case "lock-height-1":
		lockTx(height - 1)
	case "lock-time":
		lockTx(cutoff)
	case "lock-time-1":
		lockTx(cutoff - 1)
	case "no-coinbase":
		s.txs[0] = regularTx(g, false)
	case "cb-second":
		s.txs = append(s.txs, coinbaseTx(g, height, -1))
	case "cb-not-first":
		s.txs = append([]*rtx{regularTx(g, false)}, s.txs...)
	case "null-prevout":
		t := regularTx(g, false)
		t.ins = append(t.ins, rin{vout: 0xffffffff, seq: 0xffffffff})
		s.txs = append(s.txs, t)
	case "no-outputs":
		t := regularTx(g, false)
		t.outs = nil
		s.txs = append(s.txs, t)
	case "vout-toolarge":
		t := regularTx(g, false)
		t.outs[0].value = 21000000*100000000 + uint64(g.Intn(2))
		if g.Chance(1, 4) {
			t.outs[0].value = 1 << 63
		}
		s.txs = append(s.txs, t)
	case "total-toolarge":
		t := regularTx(g, false)
		t.outs = []rout{{21000000*100000000 - 5, []byte{0x51}}, {uint64(5 + g.Intn(2)), []byte{0x51}}}
		s.txs = append(s.txs, t)
	case "unexpected-witness":
		s.txs = append(s.txs, regularTx(g, true))
		anyWit = false // no commitment will be added
	case "commit-missing":
		s.txs = append(s.txs, regularTx(g, true))
		anyWit = false
	}
	wantCommit := segwitOn && (anyWit || g.Chance(1, 3))
	switch s.mut {
	case "commit-wrong", "commit-two-last-right", "commit-two-first-right", "nonce-31", "nonce-33", "nonce-2items", "nonce-absent", "commit-superfluous",
		"commit-37", "commit-37-after":
		wantCommit = true // also when segwit is not active: then the commitment is just an output
	}
	if wantCommit && s.txs[0].isCoinbase() {
		addCommitment(g, s.txs)
		cb := s.txs[0]
		p := refCommitPos(cb)
		switch s.mut {
		case "commit-wrong":
			cb.outs[p].pk[6+g.Intn(32)] ^= byte(1 << uint(g.Intn(8)))
		case "commit-two-last-right":
			bad := append([]byte{}, cb.outs[p].pk...)
			bad[10] ^= 1
			cb.outs = append([]rout{{0, bad}}, cb.outs...)
		case "commit-two-first-right":
			bad := append([]byte{}, cb.outs[p].pk...)
			bad[10] ^= 1
			cb.outs = append(cb.outs, rout{0, bad})
		case "commit-37":
			// boundary of `len(Pk_script) >= 38`: the commitment output cut to 37 bytes is NOT a commitment (the coinbase's
			// witness is then unexpected)
			cb.outs[p].pk = append([]byte{}, cb.outs[p].pk[:37]...)
		case "commit-37-after":
			// a 37-byte commitment-shaped output AFTER the right one: still the right one is the last that matches
			cb.outs = append(cb.outs, rout{0, append(append([]byte{}, witnessHdr...), g.Bytes(31)...)})
		case "nonce-31":
			cb.wit = [][][]byte{{g.Bytes(31)}}
		case "nonce-33":
			cb.wit = [][][]byte{{g.Bytes(33)}}
		case "nonce-2items":
			cb.wit = [][][]byte{{cb.wit[0][0], g.Bytes(32)}}
		case "nonce-absent", "commit-superfluous":
			cb.wit = nil
		}
	}
	// CVE-2012-2459
	switch s.mut {
	case "dup-tail":
		for len(s.txs)%2 == 0 {
			s.txs = append(s.txs, regularTx(g, false))
		}
		if len(s.txs) == 1 {
			s.txs = append(s.txs, regularTx(g, false), regularTx(g, false))
		}
		root, _ := refMerkle(txids(s.txs))
		s.merkle = root
		s.txs = append(s.txs, s.txs[len(s.txs)-1])
	case "dup-subtree":
		for len(s.txs)%4 != 2 {
			s.txs = append(s.txs, regularTx(g, false))
		}
		root, _ := refMerkle(txids(s.txs))
		s.merkle = root
		s.txs = append(s.txs, s.txs[len(s.txs)-2:]...)
	}
	if s.merkle == nil {
		s.merkle, _ = refMerkle(txids(s.txs))
	}
	switch s.mut {
	case "merkle-wrong", "trusted-badmerkle":
		s.merkle = append([]byte{}, s.merkle...)
		s.merkle[g.Intn(32)] ^= byte(1 << uint(g.Intn(8)))
	case "empty-block":
		s.txs = nil
		s.merkle = make([]byte, 32)
	case "truncated":
		s.cutTail = 1 + g.Intn(4)
	case "trailing":
		s.trailing = g.Bytes(1 + g.Intn(10))
	case "header-only":
		s.txs = nil
		s.cutTail = 0
	}
	if s.mut == "trusted" || s.mut == "trusted-badmerkle" {
		s.trusted = true
	}
	s.preParsed = s.mut == "preparsed"
	// header
	s.prevHash = s.parent.BlockHash.Hash[:]
	req, _ := refNextWork(rc, s.time, sc.net.params(sc.ch.Consensus.MaxPOWValue))
	s.bits = req
	switch s.mut {
	case "bits-off":
		s.bits = req ^ uint32(1<<uint(g.Intn(16)))
	case "bits-neg":
		s.bits = req | 0x00800000
	case "bits-zero":
		s.bits = []uint32{0, 0x01000000, 0x20000000, 0x00800000}[g.Intn(4)]
	case "bits-overflow":
		s.bits = []uint32{0x23000001, 0x2100ffff, 0x22000100, 0xff7fffff, 0x217fffff}[g.Intn(5)]
	case "bits-noncanon":
		s.bits = (req>>24+1)<<24 | (req&0x007fffff)>>8
	case "high-hash":
		s.badPow = true
	case "parent-unknown":
		s.parent = nil
		s.prevHash = g.Bytes(32)
	case "parent-prefix-only":
		// the previous-block field keeps the first 8 bytes (the BlockIndex key) of the parent's hash; the block is valid
		// in every other respect for that parent (fixed 533896f3: it was accepted)
		s.prevHash = scrambleTail(g, s.parent.BlockHash.Hash[:], g.Intn(5))
	case "parent-suffix-only":
		// the other way round: bytes 8..31 of a known hash, another index key
		ph := append([]byte{}, s.parent.BlockHash.Hash[:]...)
		ph[g.Intn(8)] ^= byte(1 << uint(g.Intn(8)))
		s.prevHash = ph
	case "hash-key-collision":
		s.dupIndex = []string{"collide", "collide", "collide-genesis"}[g.Intn(3)]
		s.noRef = true
	case "duplicate":
		s.dupIndex = "dup"
		s.noRef = true
	case "genesis-dup":
		s.dupIndex = "genesis"
		s.noRef = true
	case "short-raw":
		s.shortRaw = g.Intn(80)
		s.noRef = true
	}
	return s
}

// scrambleTail keeps bytes 0..7 of a hash and changes bytes 8..31 (mode 0: xor 0x5a, 1: random, 2: one bit, 3: only
// the last byte, 4: only byte 8)
func scrambleTail(g *vlib.Rng, h []byte, mode int) []byte {
	out := append([]byte{}, h...)
	switch mode {
	case 0:
		for i := 8; i < 32; i++ {
			out[i] ^= 0x5a
		}
	case 1:
		copy(out[8:], g.Bytes(24))
		out[8] ^= 1 // never the original by accident
		if bytes.Equal(out, h) {
			out[9] ^= 1
		}
	case 3:
		out[31] ^= 0x80
	case 4:
		out[8] ^= 1
	default:
		out[8+g.Intn(24)] ^= byte(1 << uint(g.Intn(8)))
	}
	return out
}

func errCode(er error) string {
	if er == nil {
		return "ok"
	}
	m := er.Error()
	if i := strings.Index(m, "RPC_Result:"); i >= 0 {
		c := m[i+len("RPC_Result:"):]
		if j := strings.IndexAny(c, "( "); j >= 0 {
			c = c[:j]
		}
		switch c {
		case "bad-version":
			if strings.Contains(m, "Rejected Version") {
				return "bad-version-gate"
			}
			return "bad-version"
		case "bad-prevblk":
			if strings.Contains(m, "too deep") {
				return "too-deep"
			}
			return "bad-prevblk"
		case "rejected":
			if strings.Contains(m, "collides with") {
				return "index-collision"
			}
			return "rejected"
		case "bad-blk-length":
			if strings.Contains(m, "txn_count") {
				return "build-failed"
			}
			return "bad-blk-length"
		case "bad-txns-vin-empty", "bad-txns-vout-empty", "bad-txns-oversize", "bad-txns-vout-toolarge", "bad-txns-txouttotal-toolarge", "bad-cb-length", "bad-txns-prevout-null", "bad-txns-nonfinal":
			return "tx:" + c
		}
		return c
	}
	switch {
	case m == "Genesis":
		return "genesis"
	case m == "NewTx failed":
		return "build-failed"
	}
	return "other:" + m
}

// modelTxTokens parses the raw block once more with the real parser and renders the parsed transactions for
// the model (the model starts after NewTx).
func modelTxTokens(raw []byte) (buildOk bool, toks []string) {
	if len(raw) < 80 {
		return false, nil
	}
	bl, er := btc.NewBlock(raw)
	if er != nil || len(raw) < 81 {
		return false, nil
	}
	func() {
		defer func() {
			if recover() != nil {
				er = fmt.Errorf("panic")
			}
		}()
		er = bl.BuildTxList()
	}()
	buildOk = er == nil
	for i, tx := range bl.Txs {
		if tx == nil {
			break
		}
		toks = append(toks, txToken(tx, i == 0))
	}
	return
}

// buildAssigned: does BuildTxList on a fresh Block made of raw leave bl.Txs non-nil (it returns before the
// assignment when the count field is corrupt)?
func buildAssigned(raw []byte) (yes bool) {
	defer func() { recover() }()
	bl, er := btc.NewBlock(raw)
	if er != nil || len(raw) < 81 {
		return false
	}
	defer func() { yes = bl.Txs != nil }()
	bl.BuildTxList()
	return
}

func hx(b []byte) string {
	if len(b) == 0 {
		return "e"
	}
	return fmt.Sprintf("%x", b)
}

func txToken(tx *btc.Tx, first bool) string {
	var ins []string
	for _, in := range tx.TxIn {
		ins = append(ins, fmt.Sprintf("%s:%d:%d", b2s(in.Input.IsNull()), in.Sequence, len(in.ScriptSig)))
	}
	insS := "_"
	if len(ins) > 0 {
		insS = strings.Join(ins, ";")
	}
	in0 := "e"
	if first && len(tx.TxIn) > 0 {
		in0 = hx(tx.TxIn[0].ScriptSig)
	}
	outs := fmt.Sprintf("#%d", len(tx.TxOut))
	if first {
		var os []string
		for _, o := range tx.TxOut {
			os = append(os, hx(o.Pk_script))
		}
		outs = "_"
		if len(os) > 0 {
			outs = strings.Join(os, ";")
		}
	}
	sw := "nil"
	if tx.SegWit != nil {
		sw = "w"
		if first {
			var st []string
			for _, s := range tx.SegWit {
				var its []string
				for _, it := range s {
					its = append(its, hx(it))
				}
				st = append(st, strings.Join(its, "."))
			}
			sw += strings.Join(st, ";")
		}
	}
	var vals []string
	for _, o := range tx.TxOut {
		vals = append(vals, fmt.Sprint(o.Value))
	}
	valS := "_"
	if len(vals) > 0 {
		valS = strings.Join(vals, ";")
	}
	return fmt.Sprintf("%x,%x,%d,%d,%d,%s,%s,%s,%s,%s", tx.Hash.Hash[:], tx.WTxID().Hash[:], tx.Lock_time, tx.NoWitSize, tx.Size, insS, in0, outs, sw, valS)
}

func applyCons(ch *chain.Chain, c consH) {
	ch.Consensus.BIP34Height, ch.Consensus.BIP65Height, ch.Consensus.BIP66Height = c.bip34, c.bip65, c.bip66
	ch.Consensus.Enforce_CSV, ch.Consensus.Enforce_SEGWIT, ch.Consensus.Enforce_Taproot = c.csv, c.segwit, c.taproot
}

type blockResult struct {
	implLine, modelLine string
	accepted            bool
}

// runBlock: one block through the real CheckBlock, the model and the reference.
func runBlock(kind string, sc *scenario, s *blockSpec, cons consH, raw []byte, now int64, rep map[string]interface{}) {
	r.Eval("block/"+kind, "block:"+vlib.ShortHash(raw)+sc.desc+s.mut)
	r.Hit("block-mutation/" + s.mut)
	mutSeen[s.mut]++
	ch := sc.ch
	applyCons(ch, cons)
	var bl *btc.Block
	if s.shortRaw > 0 || len(raw) < 80 {
		short := raw
		if s.shortRaw > 0 && s.shortRaw < len(raw) {
			short = raw[:s.shortRaw]
		}
		raw = short
		bl = &btc.Block{Raw: short, Hash: btc.NewSha2Hash(append(append([]byte{}, short...), make([]byte, 80)...)[:80])}
	} else {
		var er error
		bl, er = btc.NewBlock(raw)
		if er != nil {
			// e.g. corrupt txn_count: refused before CheckBlock; nothing to compare for an object made of the whole
			// serialisation — but an object made of the header never sees UpdateContent's test
			r.Hit("block-newblock-error")
			entryPaths(kind, sc, s, raw, now, rep, &p0res{newBlockErr: true}, nil)
			return
		}
	}
	if s.trusted {
		bl.Trusted.Set()
	}
	if s.preParsed {
		func() {
			defer func() { recover() }()
			bl.BuildTxList()
		}()
	}
	var dupNode *chain.BlockTreeNode
	switch s.dupIndex {
	case "dup":
		dupNode = &chain.BlockTreeNode{BlockHash: bl.Hash, Parent: sc.tip, Height: sc.tip.Height + 1}
	case "genesis":
		dupNode = &chain.BlockTreeNode{BlockHash: bl.Hash}
	case "collide":
		dupNode = &chain.BlockTreeNode{BlockHash: btc.NewUint256(scrambleTail(vlib.NewRng(uint64(len(raw))), bl.Hash.Hash[:], len(raw)%3)), Parent: sc.tip, Height: sc.tip.Height + 1}
	case "collide-genesis":
		dupNode = &chain.BlockTreeNode{BlockHash: btc.NewUint256(scrambleTail(vlib.NewRng(uint64(len(raw))), bl.Hash.Hash[:], len(raw)%3))}
	}
	if dupNode != nil {
		ch.BlockIndex[bl.Hash.BIdx()] = dupNode
		defer delete(ch.BlockIndex, bl.Hash.BIdx())
		// the same entry in the oracle's chain state (a node outside the tree's child lists, as here)
		pi := -1
		if dupNode.Parent != nil {
			pi = sc.t.idx[dupNode.Parent]
		}
		ni := o.MustAsk(fmt.Sprintf("node %d %d 0 0", pi, dupNode.Height))
		sc.t.idx[dupNode] = len(sc.t.nodes)
		sc.t.nodes = append(sc.t.nodes, dupNode)
		o.MustAsk(fmt.Sprintf("idx %x %s", dupNode.BlockHash.Hash[:], ni))
		defer o.MustAsk(fmt.Sprintf("unidx %x", dupNode.BlockHash.Hash[:]))
	}
	// model inputs from the same chain state
	// (for the `pre` request the harness hands over the ENTRIES found under the 8-byte keys, each with its whole
	// hash; the whole-hash comparisons are the model's. The `cb` request below lets the model do the look-ups too.)
	known := "n"
	if n, ok := ch.BlockIndex[bl.Hash.BIdx()]; ok {
		known = "d"
		if n.Parent == nil {
			known = "g"
		}
		known += fmt.Sprintf("%x", n.BlockHash.Hash[:])
	}
	pidx := -1
	var pnode *chain.BlockTreeNode
	if len(raw) >= 80 {
		if n, ok := ch.BlockIndex[btc.NewUint256(raw[4:36]).BIdx()]; ok {
			pnode = n
			pidx = sc.t.idx[n]
		}
	}
	last := ch.LastBlock()
	idxLen := len(ch.BlockIndex)
	idxSnap := indexSnapshot(ch)
	unspentBefore := ch.Unspent
	rawCopy := append([]byte{}, raw...)
	preParsedIn := s.preParsed && bl.Txs != nil
	cntEntry := bl.TxCount // what NewBlock / UpdateContent left (the count field of the whole serialisation)
	rawCnt, rawOff := 0, 0
	if b2, e2 := btc.NewBlock(raw); e2 == nil && len(raw) >= 80 {
		rawCnt = b2.TxCount
		if b2.TxOffset >= 80 {
			rawOff = b2.TxOffset - 80
		}
	}
	// the rest of the object state BuildTxListExt writes, as it is before the call (audit 2: BlockWeight / TotalInputs /
	// TxOffset were outside the model's block object)
	offEntry, wgtEntry, tinEntry := bl.TxOffset, bl.BlockWeight, bl.TotalInputs

	var dos, later bool
	var er error
	pan := ""
	func() {
		defer func() {
			if x := recover(); x != nil {
				pan = fmt.Sprint(x)
			}
		}()
		if s.shortRaw > 0 || len(raw) < 80 {
			dos, later, er = ch.PreCheckBlock(bl)
		} else {
			dos, later, er = ch.CheckBlock(bl)
		}
	}()
	code := errCode(er)
	impl := fmt.Sprintf("%s dos=%s later=%s", code, b2s(dos), b2s(later))
	if pan != "" {
		impl = "panic"
	}
	rep["impl"] = impl
	if er != nil {
		rep["impl_error"] = er.Error()
	}
	r.Hit("block-result/" + code)

	// ---- model
	var ver, btime, bits uint32
	hashHex := vlib.Hex(bl.Hash.Hash[:])
	if len(raw) >= 80 {
		ver, btime, bits = binary.LittleEndian.Uint32(raw[0:4]), binary.LittleEndian.Uint32(raw[68:72]), binary.LittleEndian.Uint32(raw[72:76])
	}
	prevHex := vlib.Hex(make([]byte, 32))
	if len(raw) >= 80 {
		prevHex = vlib.Hex(raw[4:36])
	}
	pre := o.MustAsk(fmt.Sprintf("pre %d %d %s %s %d %d %d %s %d %s %d %s %s %d %s %d %d %d", len(raw), ver, hashHex, prevHex, bits, btime, now, known, pidx,
		b2s(pnode != nil && pnode == last), last.Height, b2s(sc.net.testnet), b2s(sc.net.testnet4), ch.Consensus.MaxPOWBits, ch.Consensus.MaxPOWValue.String(),
		cons.bip34, cons.bip65, cons.bip66))
	model := pre
	pf := strings.Fields(pre)
	txErrSet := ""
	if len(pf) == 5 {
		model = fmt.Sprintf("%s dos=%s later=%s", pf[2], pf[0], pf[1])
		if pf[2] == "ok" && !(s.shortRaw > 0 || len(raw) < 80) {
			buildOk, toks := modelTxTokens(raw)
			post := o.MustAsk(fmt.Sprintf("post %d %s %s %s %s %s %d %s %d %d %d %d %d %d %d %s", len(raw), b2s(s.preParsed && bl.Txs != nil), b2s(buildOk), b2s(s.trusted),
				pf[3], pf[4], btime, vlib.Hex(raw[36:68]), cons.bip34, cons.bip65, cons.bip66, cons.csv, cons.segwit, cons.taproot, cntEntry, strings.Join(toks, " ")))
			qf := strings.Fields(post)
			if len(qf) == 2 {
				pc := qf[0]
				if strings.HasPrefix(pc, "tx:") {
					txErrSet = pc[3:]
					if strings.HasPrefix(code, "tx:") {
						for _, e := range strings.Split(txErrSet, "|") {
							if "tx:"+e == code {
								pc = code // the goroutines race: any one of the failing transactions may be reported
							}
						}
					}
				}
				model = fmt.Sprintf("%s dos=%s later=0", pc, b2s(pc != "ok"))
				if pc == "ok" || strings.HasPrefix(pc, "tx:") || pc == "bad-witness-nonce-size" || pc == "bad-witness-merkle-match" || pc == "unexpected-witness" {
					if fmt.Sprint(bl.VerifyFlags) != qf[1] {
						model += " flags=" + qf[1]
						impl += fmt.Sprintf(" flags=%d", bl.VerifyFlags)
					}
				}
			} else {
				model = post
			}
			if pf[3] != fmt.Sprint(bl.Height) || pf[4] != fmt.Sprint(bl.MedianPastTime) {
				model += " height/mtp=" + pf[3] + "/" + pf[4]
				impl += fmt.Sprintf(" height/mtp=%d/%d", bl.Height, bl.MedianPastTime)
			}
		}
	}
	rep["model"] = model

	// ---- property on the real result
	if pan != "" {
		r.PropFail("checkblock-panic:"+s.mut, "Chain.CheckBlock panics ("+pan+") on a block of kind "+s.mut, rep)
		return
	}
	if !bytes.Equal(raw, rawCopy) || ch.LastBlock() != last || len(ch.BlockIndex) != idxLen || ch.Unspent != unspentBefore ||
		!reflect.DeepEqual(idxSnap, indexSnapshot(ch)) || !bytes.Equal(bl.Raw, rawCopy) {
		r.PropFail("checkblock-sideeffect", "Chain.CheckBlock changed the chain state (BlockIndex entries / node fields / tip / Unspent) or the raw block (kind "+s.mut+")", rep)
		return
	}
	// ---- the property's own predicate FIRST (audit 2, 3a): the reference judges the real answer before any model tie, so a
	// broken guard yields accepted-invalid:<rule> with a replayable witness even where the model (regenerated from the
	// same source, or simply disagreeing) would otherwise stop the case as a plain tie
	accepted := er == nil
	// the reference finds the parent by the WHOLE previous-block field in its own map — never through BlockIndex
	refParent := sc.refParentOf(raw)
	if pnode != nil && refParent == nil {
		r.Hit("prev-hash-shares-only-the-index-key-with-a-known-block")
	}
	if !s.noRef && refParent == nil && len(raw) >= 80 {
		rep["reference_violations"] = []string{"prev-blk-not-found"}
		if accepted {
			r.PropFail("accepted-invalid:prev-blk-not-found", fmt.Sprintf("Chain.CheckBlock accepts a block (kind %s) whose previous-block field %x is the hash of no known block (it shares its first 8 bytes, the BlockIndex key, with %v)", s.mut, raw[4:36], pnode != nil), rep)
			return
		}
		r.Hit("unknown-parent-refused/" + code)
	}
	if !s.noRef && refParent != nil && len(raw) >= 80 {
		pnode := refParent
		rc := refChain(pnode)
		req, _ := refNextWork(rc, btime, sc.net.params(ch.Consensus.MaxPOWValue))
		h := int64(pnode.Height) + 1
		ctx := refCtx{height: h, mtp: int64(refMTP(rc)), now: now, required: req, powLimit: ch.Consensus.MaxPOWValue,
			bip34: int64(cons.bip34), bip65: int64(cons.bip65), bip66: int64(cons.bip66),
			csv: cons.csv != 0 && h >= int64(cons.csv), segwit: cons.segwit != 0 && h >= int64(cons.segwit)}
		viol := refCheckBlock(refHeader{int32(ver), raw[36:68], btime, bits, bl.Hash.Hash[:]}, s.txs, ctx)
		if s.cutTail > 0 || (s.txCount >= 0 && s.txCount != len(s.txs)) {
			viol = append(viol, "malformed")
		}
		if s.trusted {
			// a block marked trusted (below the client's checkpoint) skips the coinbase / commitment / transaction rules by
			// design; what stays in force is judged: header rules, well-formedness, weight, merkle root and mutation
			var keep []string
			for _, v := range viol {
				switch v {
				case "pow", "bits", "time-old", "time-new", "version", "merkle", "merkle-mutated", "weight", "malformed":
					keep = append(keep, v)
				}
			}
			viol = keep
			r.Hit("reference-judged-trusted-block")
		}
		rep["reference_violations"] = viol
		if accepted && len(viol) > 0 {
			if s.preParsed && len(viol) == 1 && viol[0] == "weight" {
				r.Hit("preparsed-overweight-accepted(API use no caller makes; see assumptions)")
			} else {
				r.PropFail("accepted-invalid:"+viol[0], fmt.Sprintf("Chain.CheckBlock accepts a block (kind %s, height %d, version 0x%08x) that violates: %s", s.mut, h, ver, strings.Join(viol, ",")), rep)
				return
			}
		}
		if !accepted && len(viol) == 0 {
			r.Hit("valid-by-reference-but-refused/" + code)
			if code != "too-deep" && code != "bad-version" {
				// gocoin has two extra rules (fork depth, version 0); anything else refused although valid is a disagreement
				r.TieFail("refused-valid:"+code, fmt.Sprintf("Chain.CheckBlock refuses (%s) a block the reference finds valid (kind %s)", code, s.mut), rep)
				return
			}
		}
		if accepted {
			r.Hit("accepted-valid")
		}
	}
	// ---- the model with explicit effects (BlockCheck.checkBlockM): the look-ups are made by the model in its own copy
	// of the chain state; compared: result, the block-object fields CheckBlock assigns, and the chain state afterwards
	if !(s.shortRaw > 0 || len(raw) < 80) {
		buildOk, toks := modelTxTokens(raw)
		assigned := buildAssigned(raw) // BuildTxList returns before bl.Txs = make(...) on a corrupt count
		cb := o.MustAsk(fmt.Sprintf("cb %d %d %s %s %d %d %d %s %s %d %s %d %d %d %d %d %d %s %s %s %s %s %d %d %d %d %d %d %s", len(raw), ver, hashHex, prevHex,
			bits, btime, now, b2s(sc.net.testnet), b2s(sc.net.testnet4), ch.Consensus.MaxPOWBits, ch.Consensus.MaxPOWValue.String(),
			cons.bip34, cons.bip65, cons.bip66, cons.csv, cons.segwit, cons.taproot, b2s(preParsedIn), b2s(buildOk), b2s(assigned), b2s(s.trusted), vlib.Hex(raw[36:68]),
			cntEntry, rawCnt, rawOff, offEntry, wgtEntry, tinEntry, strings.Join(toks, " ")))
		cf := strings.Fields(cb)
		ntx := "nil"
		if bl.Txs != nil {
			ntx = fmt.Sprint(len(bl.Txs))
		}
		implM := fmt.Sprintf("%s %s %s %d %d %d %s %d %d %d %d %d %d", b2s(dos), b2s(later), code, bl.Height, bl.MedianPastTime, bl.VerifyFlags, ntx, len(ch.BlockIndex), sc.t.idx[ch.LastBlock()], bl.TxCount,
			bl.TxOffset, bl.BlockWeight, bl.TotalInputs)
		modelM := cb
		if len(cf) == 14 {
			mc := cf[2]
			if strings.HasPrefix(mc, "tx:") && strings.HasPrefix(code, "tx:") {
				for _, e := range strings.Split(mc[3:], "|") {
					if "tx:"+e == code {
						mc = code // the goroutines race: any one of the failing transactions may be reported
					}
				}
			}
			modelM = strings.Join([]string{cf[0], cf[1], mc, cf[3], cf[4], cf[5], cf[6], cf[8], cf[9], cf[10], cf[11], cf[12], cf[13]}, " ")
		}
		rep["model_with_effects"] = modelM
		if implM != modelM {
			r.TieFail("tie-checkblock-effects:"+s.mut, fmt.Sprintf("model checkBlockM / impl differ on CheckBlock's result or effects (kind %s): impl=%q model=%q (dos later code Height MedianPastTime VerifyFlags len(Txs) len(BlockIndex) last TxCount TxOffset BlockWeight TotalInputs)", s.mut, implM, modelM), rep)
			return
		}
		r.TieOK()
		if er != nil {
			r.Hit("refused-unchanged-confirmed")
		}
	}
	if impl != model {
		r.TieFail("tie-checkblock:"+s.mut, fmt.Sprintf("model/impl differ on CheckBlock (kind %s): impl=%q model=%q", s.mut, impl, model), rep)
		return
	}
	r.TieOK()
	// ---- the same bytes through the other ways a Block object reaches PostCheckBlock (entrypaths.go)
	if !(s.shortRaw > 0 || len(raw) < 80) && !s.preParsed && dupNode == nil {
		viol, _ := rep["reference_violations"].([]string)
		p0 := &p0res{dos: dos, later: later, code: code, accepted: accepted, weight: bl.BlockWeight, ntx: len(bl.Txs), txsNil: bl.Txs == nil,
			height: bl.Height, mtp: bl.MedianPastTime, flags: bl.VerifyFlags, viol: viol, judged: rep["reference_violations"] != nil}
		askPost := func(cnt int) string {
			buildOk, toks := modelTxTokens(raw)
			return o.MustAsk(fmt.Sprintf("post %d 0 %s %s %d %d %d %s %d %d %d %d %d %d %d %s", len(raw), b2s(buildOk), b2s(s.trusted),
				bl.Height, bl.MedianPastTime, btime, vlib.Hex(raw[36:68]), cons.bip34, cons.bip65, cons.bip66, cons.csv, cons.segwit, cons.taproot, cnt, strings.Join(toks, " ")))
		}
		entryPaths(kind, sc, s, raw, now, rep, p0, askPost)
	}
}

func stableNow() int64 { return time.Now().Unix() }

func oneBlockCase(kind string, g *vlib.Rng, sc *scenario) {
	oneBlockCaseSeed(kind, g.U64(), sc)
}

// oneBlockCaseSeed: the whole case is a function of (scenario seed/shape, case seed) and of the clock for the
// time-relative mutations — that pair is what a replay file records.
func oneBlockCaseSeed(kind string, caseSeed uint64, sc *scenario) {
	for attempt := 0; attempt < 5; attempt++ {
		gg := vlib.NewRng(caseSeed)
		now := stableNow()
		var cons consH
		s := genBlock(gg, sc, now, &cons, "")
		raw := s.raw()
		rawHex := fmt.Sprintf("%x", raw)
		if len(rawHex) > 4000 {
			rawHex = rawHex[:4000] + "…"
		}
		rep := map[string]interface{}{"op": "block", "mutation": s.mut, "raw": rawHex, "scenario": sc.desc, "now_at_run": now,
			"cons":         []uint32{cons.bip34, cons.bip65, cons.bip66, cons.csv, cons.segwit, cons.taproot},
			"parent_chain": refChain(sc.tip)[:min(len(refChain(sc.tip)), 14)], "trusted": s.trusted, "preparsed": s.preParsed, "dup": s.dupIndex, "short": s.shortRaw,
			"net": sc.net.name, "parent_back": backSteps(sc.tip, s.parent),
			"sc_seed": fmt.Sprint(sc.seed), "sc_len": sc.length, "sc_spacing": sc.spacing, "sc_lastback": sc.lastBack, "case_seed": fmt.Sprint(caseSeed), "kind": kind}
		if time.Now().Unix() != now { // the second changed while building: the +2h boundary would be ambiguous
			continue
		}
		runBlockTimed(kind, sc, s, cons, raw, now, rep)
		return
	}
}

// runBlockTimed runs the case and, if the wall-clock second changed during the call, repeats it (the block
// itself is unchanged; only time-relative expectations are recomputed by the caller's next attempt).
func runBlockTimed(kind string, sc *scenario, s *blockSpec, cons consH, raw []byte, now int64, rep map[string]interface{}) {
	nearBoundary := int64(s.time) >= now+7190 && int64(s.time) <= now+7510
	if nearBoundary {
		// wait for a fresh second so that both time.Now() calls inside PreCheckBlock see `now`
		for time.Now().UnixNano()%1e9 > 6e8 {
			time.Sleep(20 * time.Millisecond)
		}
		n2 := time.Now().Unix()
		if n2 != now {
			s.time += uint32(n2 - now)
			now = n2
			raw = s.raw()
			rep["raw"] = fmt.Sprintf("%x", raw)
			rep["now_at_run"] = now
		}
	}
	runBlock(kind, sc, s, cons, raw, now, rep)
}

func backSteps(tip, parent *chain.BlockTreeNode) int {
	if parent == nil {
		return -1
	}
	n := 0
	for x := tip; x != nil && x != parent; x = x.Parent {
		n++
	}
	return n
}

// corpusBlocks: fixed witnesses of past findings and the named boundaries, run first.
func corpusBlocks(g *vlib.Rng) {
	sc := newScenario(g.U64(), nets[0], 20, 600)
	// fixed 4aa7af8a: versions with the top bit set at heights where version gating is active
	for _, v := range []uint32{0x80000000, 0x80000004, 0xffffffff, 0xfffffffe, 0x7fffffff, 1, 2, 3, 4} {
		for _, gate := range []consH{{1, 1000, 1000, 0, 0, 0}, {1000, 1, 1000, 0, 0, 0}, {1000, 1000, 1, 0, 0, 0}, {21, 21, 21, 0, 0, 0}, {22, 22, 22, 0, 0, 0}} {
			now := stableNow()
			var cons consH
			s := genBlock(g.Fork(), sc, now, &cons, "version")
			s.version = v
			s.mut = fmt.Sprintf("version-corpus-%08x", v)
			raw := s.raw()
			rep := map[string]interface{}{"op": "block", "mutation": s.mut, "raw": fmt.Sprintf("%x", raw), "scenario": sc.desc, "now_at_run": now,
				"cons": []uint32{gate.bip34, gate.bip65, gate.bip66, 0, 0, 0}, "net": sc.net.name, "parent_back": 0}
			runBlock("corpus", sc, s, gate, raw, now, rep)
		}
	}
	// fixed 533896f3: a block that is valid on a known parent except that its previous-block field keeps only the first
	// 8 bytes (the BlockIndex key) of that parent's hash — three ways of changing bytes 8..31, parent = tip / an ancestor;
	// and the reverse (bytes 8..31 kept, key changed); and a synthetic index entry under the block's own key
	for back := 0; back < 3; back++ {
		for mode := 0; mode < 5; mode++ {
			now := stableNow()
			var cons consH
			save := sc.tip
			for i := 0; i < back; i++ {
				sc.tip = sc.tip.Parent
			}
			s := genBlock(g.Fork(), sc, now, &cons, "none")
			sc.tip = save
			s.mut = fmt.Sprintf("parent-prefix-only-corpus-%d-back%d", mode, back)
			s.prevHash = scrambleTail(g, s.parent.BlockHash.Hash[:], mode)
			raw := s.raw()
			rep := map[string]interface{}{"op": "block", "mutation": s.mut, "raw": fmt.Sprintf("%x", raw), "scenario": sc.desc, "now_at_run": now,
				"cons": []uint32{cons.bip34, cons.bip65, cons.bip66, cons.csv, cons.segwit, cons.taproot}, "net": sc.net.name, "parent_back": back,
				"real_parent": s.parent.BlockHash.String()}
			runBlock("corpus", sc, s, cons, raw, now, rep)
		}
	}
	for _, kind := range []string{"parent-suffix-only", "hash-key-collision", "hash-key-collision", "hash-key-collision", "parent-unknown"} {
		now := stableNow()
		var cons consH
		s := genBlock(g.Fork(), sc, now, &cons, kind)
		raw := s.raw()
		rep := map[string]interface{}{"op": "block", "mutation": s.mut + "-corpus", "raw": fmt.Sprintf("%x", raw), "scenario": sc.desc, "now_at_run": now,
			"cons": []uint32{cons.bip34, cons.bip65, cons.bip66, cons.csv, cons.segwit, cons.taproot}, "net": sc.net.name, "dup": s.dupIndex}
		runBlock("corpus", sc, s, cons, raw, now, rep)
	}
	// audit 2, 3b / 3c: a contextual rule violated on a block whose parent is not the last block, on a chain state whose
	// LastBlock is the header tip and on one where it stays behind; the 37-byte commitment-shaped output
	for _, lb := range []int{0, 3} {
		sc2 := newScenarioLB(g.U64(), nets[0], 20, 600, lb)
		for _, kind := range []string{"lock-time@side", "lock-time@side", "lock-time-1@side", "time-mtp@side", "time-mtp+1@side", "version@side", "bip34-wrong-height@side",
			"lock-time", "time-mtp", "time-mtp+1", "commit-37", "commit-37", "commit-37-after", "commit-37-after", "trusted", "trusted-badmerkle"} {
			now := stableNow()
			var cons consH
			s := genBlock(g.Fork(), sc2, now, &cons, kind)
			if strings.HasPrefix(kind, "commit-37") {
				cons.segwit = 1
				if refCommitPos(s.txs[0]) < 0 && kind == "commit-37-after" {
					continue
				}
			}
			raw := s.raw()
			rep := map[string]interface{}{"op": "block", "mutation": s.mut + "-corpus", "raw": fmt.Sprintf("%x", raw), "scenario": sc2.desc, "now_at_run": now,
				"cons": []uint32{cons.bip34, cons.bip65, cons.bip66, cons.csv, cons.segwit, cons.taproot}, "net": sc2.net.name, "parent_back": backSteps(sc2.tip, s.parent)}
			runBlock("corpus", sc2, s, cons, raw, now, rep)
		}
	}
	e2ePrefixOnlyParent(g.U64())
}

func streamBlocks(g *vlib.Rng) {
	corpusBlocks(g)
	nsc := r.N(40, 400)
	per := r.N(40, 200)
	for i := 0; i < nsc; i++ {
		net := nets[g.Intn(3)]
		length := 1 + g.Intn(30)
		if g.Chance(1, 6) {
			length = 0
		}
		lb := 0
		if g.Chance(1, 4) {
			lb = 1 + g.Intn(6) // headers ahead of the connected chain
		}
		sc := newScenarioLB(g.U64(), net, length, 600, lb)
		if sc.lastBack > 0 {
			r.Hit("scenario/last-block-behind-header-tip")
		}
		for k := 0; k < per; k++ {
			oneBlockCase("short-chain", g, sc)
		}
		if i == 0 {
			r.Sample(map[string]interface{}{"op": "block", "scenario": sc.desc, "blocks": per})
		}
	}
	// retarget boundaries with real blocks: chains of 2015 / 4031 nodes, timespans below T/4, inside, above 4T
	for i, sp := range []int{100, 600, 2500, 140} {
		if i >= r.N(3, 4) {
			break
		}
		net := nets[i%3]
		length := 2015
		if i >= 2 {
			length = 4031
		}
		sc := newScenario(g.U64(), net, length, sp)
		for k := 0; k < r.N(25, 150); k++ {
			oneBlockCase("retarget-boundary", g, sc)
		}
		// fork depth: last block far ahead of the parent
		for _, back := range []int{2014, 2015, 2016, 2017} {
			if back > length {
				continue
			}
			deepForkCase(g, sc, back)
		}
	}
	weightCases(g)
}

// deepForkCase: a valid block whose parent is `back` blocks behind the last block (fork-depth rule of gocoin).
func deepForkCase(g *vlib.Rng, sc *scenario, back int) {
	parent := sc.tip
	for i := 0; i < back; i++ {
		parent = parent.Parent
	}
	now := stableNow()
	var cons consH
	save := sc.tip
	sc.tip = parent
	s := genBlock(g.Fork(), sc, now, &cons, []string{"none", "none", "merkle-wrong", "version"}[g.Intn(4)])
	sc.tip = save
	if s.parent != parent || s.noRef {
		return
	}
	s.mut = fmt.Sprintf("fork-depth-%d(%s)", back-1, s.mut)
	raw := s.raw()
	rep := map[string]interface{}{"op": "block", "mutation": s.mut, "raw": fmt.Sprintf("%x", raw), "scenario": sc.desc, "now_at_run": now,
		"cons": []uint32{cons.bip34, cons.bip65, cons.bip66, cons.csv, cons.segwit, cons.taproot}, "net": sc.net.name, "parent_back": back}
	runBlock("fork-depth", sc, s, cons, raw, now, rep)
}

// weightCases: blocks of weight exactly 4,000,000 and 4,000,001 (and neighbours), fresh and pre-parsed.
var weightBuilt, weightAsked int // constructed exact-weight cases (floor asserted by generatorFloor)
var mutSeen = map[string]int{}

func weightCases(g *vlib.Rng) {
	sc := newScenario(g.U64(), nets[0], 12, 600)
	targets := []int{3999999, 4000000, 4000001, 4000004}
	for i, target := range targets {
		if i >= r.N(3, 4) {
			break
		}
		for variant := 0; variant < 3; variant++ {
			pre, trusted := variant == 1, variant == 2 // audit 2, 3c: trusted x over-weight (the weight limit holds for trusted blocks too)
			if pre && target != 4000001 {
				continue
			}
			if trusted && target < 4000000 {
				continue
			}
			now := stableNow()
			height := sc.tip.Height + 1
			rc := refChain(sc.tip)
			mtp := refMTP(rc)
			cons := consH{1, 1, 1, 1, 1, 1}
			s := &blockSpec{txCount: -1, mut: fmt.Sprintf("weight-%d", target), parent: sc.tip, version: 4, time: mtp + 1, preParsed: pre}
			if pre {
				s.mut += "-preparsed"
			}
			if trusted {
				s.mut += "-trusted"
				s.trusted = true
			}
			weightAsked++
			cb := coinbaseTx(g, height, -1)
			big1 := regularTx(g, true)
			big1.wit[0] = [][]byte{{1}}
			s.txs = []*rtx{cb, big1}
			build := func(pad, wl int) int {
				big1.outs[0].pk = bytes.Repeat([]byte{0x6a}, pad)
				big1.wit[0][0] = bytes.Repeat([]byte{7}, wl)
				cb.wit = nil
				if p := refCommitPos(cb); p >= 0 {
					cb.outs = cb.outs[:p]
				}
				addCommitmentDet(s.txs)
				return refWeight(s.txs)
			}
			w := build(1, 1)
			pad := (target-w)/4 - 400
			wl := 1
			okk := false
			for it := 0; it < 12; it++ {
				w = build(pad, wl)
				if w == target {
					okk = true
					break
				}
				wl += target - w
				if wl < 1 {
					pad -= 100
					wl = 1
				}
			}
			if !okk {
				r.Hit("weight-case-not-constructed")
				continue
			}
			weightBuilt++
			s.merkle, _ = refMerkle(txids(s.txs))
			s.prevHash = sc.tip.BlockHash.Hash[:]
			s.bits, _ = refNextWork(rc, s.time, sc.net.params(sc.ch.Consensus.MaxPOWValue))
			raw := s.raw()
			rep := map[string]interface{}{"op": "weight-block", "mutation": s.mut, "target_weight": target, "raw_len": len(raw), "scenario": sc.desc, "seed_note": "rebuilt from the seed: stream 8, weightCases"}
			runBlock("weight", sc, s, cons, raw, now, rep)
		}
	}
}

func addCommitmentDet(txs []*rtx) {
	cb := txs[0]
	nonce := make([]byte, 32)
	cb.wit = [][][]byte{{nonce}}
	leaves := [][]byte{make([]byte, 32)}
	for _, t := range txs[1:] {
		leaves = append(leaves, t.wtxid())
	}
	wr, _ := refMerkle(leaves)
	c := dsha(append(append([]byte{}, wr...), nonce...))
	cb.outs = append(cb.outs, rout{0, append(append([]byte{}, witnessHdr...), c...)})
}

// replayBlock re-runs a recorded block case: scenario and block are regenerated from the recorded seeds
// (time-relative mutations are rebuilt relative to the current clock, which is what the rule is about).
func replayBlock(m map[string]interface{}) {
	str := func(k string) string { s, _ := m[k].(string); return s }
	num := func(k string) int { f, _ := m[k].(float64); return int(f) }
	if str("e2e_seed") != "" {
		var seed uint64
		fmt.Sscan(str("e2e_seed"), &seed)
		e2ePrefixOnlyParent(seed)
		return
	}
	if str("sc_seed") == "" || str("case_seed") == "" {
		fmt.Println("replay: this block case is re-generated by running the block stream with the recorded seed")
		streamBlocks(rngFor(8))
		return
	}
	var scSeed, caseSeed uint64
	fmt.Sscan(str("sc_seed"), &scSeed)
	fmt.Sscan(str("case_seed"), &caseSeed)
	net := nets[0]
	for _, n := range nets {
		if n.name == str("net") {
			net = n
		}
	}
	sc := newScenarioLB(scSeed, net, num("sc_len"), num("sc_spacing"), num("sc_lastback"))
	oneBlockCaseSeed(str("kind"), caseSeed, sc)
	_ = big.NewInt
}
