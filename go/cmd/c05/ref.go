// ref.go — independent reference ("Spec side") for C05, written from Bitcoin Core's pow.cpp, arith_uint256.cpp,
// chain.h (GetMedianTimePast), script.h (CScript::push_int64), consensus/merkle.cpp, tx_verify.cpp (IsFinalTx),
// validation.cpp (CheckBlock / ContextualCheckBlock[Header]) and BIP34/113/141. Nothing here calls gocoin.
package main

import (
	"bytes"
	"crypto/sha256"
	"encoding/binary"
	"math/big"
	"sort"
)

var two256 = new(big.Int).Lsh(big.NewInt(1), 256)

func dsha(b []byte) []byte {
	a := sha256.Sum256(b)
	c := sha256.Sum256(a[:])
	return c[:]
}

// refSetCompact = arith_uint256::SetCompact (value truncated to 256 bits, out-flags).
func refSetCompact(c uint32) (v *big.Int, neg, overflow bool) {
	size := int(c >> 24)
	word := c & 0x007fffff
	if size <= 3 {
		word >>= uint(8 * (3 - size))
		v = new(big.Int).SetUint64(uint64(word))
	} else {
		v = new(big.Int).SetUint64(uint64(word))
		v.Lsh(v, uint(8*(size-3)))
		v.Mod(v, two256)
	}
	neg = word != 0 && (c&0x00800000) != 0
	overflow = word != 0 && (size > 34 || (word > 0xff && size > 33) || (word > 0xffff && size > 32))
	return
}

// refGetCompact = arith_uint256::GetCompact(fNegative=false) for 0 <= v < 2^256.
func refGetCompact(v *big.Int) uint32 {
	size := (v.BitLen() + 7) / 8
	var compact uint32
	if size <= 3 {
		compact = uint32(v.Uint64() << uint(8*(3-size)))
	} else {
		bn := new(big.Int).Rsh(v, uint(8*(size-3)))
		compact = uint32(bn.Uint64())
	}
	if compact&0x00800000 != 0 {
		compact >>= 8
		size++
	}
	compact |= uint32(size) << 24
	return compact
}

// refCheckPoW = CheckProofOfWork(hash, nBits, params) of pow.cpp; hash is the 32 bytes as stored (little endian).
func refCheckPoW(hashLE []byte, bits uint32, powLimit *big.Int) bool {
	t, neg, ovf := refSetCompact(bits)
	if neg || t.Sign() == 0 || ovf || t.Cmp(powLimit) > 0 {
		return false
	}
	be := make([]byte, 32)
	for i := range be {
		be[i] = hashLE[31-i]
	}
	return new(big.Int).SetBytes(be).Cmp(t) <= 0
}

type refNode struct {
	height uint32
	ts     uint32
	bits   uint32
}

type refParams struct {
	exact         bool // synthetic pow limit with limit*4T >= 2^256: do not wrap the product (Core never retargets such a chain)
	powLimit      *big.Int
	allowMinDiff  bool // testnet3 / testnet4
	enforceBIP94  bool // testnet4
	interval      int64
	targetSpacing int64
	timespan      int64
}

// refNextWork = GetNextWorkRequired + CalculateNextWorkRequired (pow.cpp). chain[0] = pindexLast, chain[i+1] = its parent.
// ok=false when the chain is too short for the look-back (Core would dereference a null pointer as well).
func refNextWork(chain []refNode, blockTime uint32, p refParams) (bits uint32, ok bool) {
	limit := refGetCompact(p.powLimit)
	last := chain[0]
	if len(chain) == 1 { // pindexLast->pprev == nullptr: gocoin's "genesis" shortcut; Core: only pindexLast == nullptr
		// Core would go on and (height+1)%interval != 0 → return last.bits; both are the pow limit for a genesis block.
		return limit, true
	}
	if (int64(last.height)+1)%p.interval != 0 {
		if p.allowMinDiff {
			if int64(blockTime) > int64(last.ts)+p.targetSpacing*2 {
				return limit, true
			}
			i := 0
			for i+1 < len(chain) && int64(chain[i].height)%p.interval != 0 && chain[i].bits == limit {
				i++
			}
			return chain[i].bits, true
		}
		return last.bits, true
	}
	fi := int(p.interval - 1)
	if fi >= len(chain) {
		return 0, false
	}
	first := chain[fi]
	span := int64(last.ts) - int64(first.ts)
	if span < p.timespan/4 {
		span = p.timespan / 4
	}
	if span > p.timespan*4 {
		span = p.timespan * 4
	}
	var bn *big.Int
	if p.enforceBIP94 {
		bn, _, _ = refSetCompact(first.bits)
	} else {
		bn, _, _ = refSetCompact(last.bits)
	}
	bn = new(big.Int).Mul(bn, big.NewInt(span))
	if !p.exact {
		bn.Mod(bn, two256) // arith_uint256 multiplication wraps
	}
	bn.Div(bn, big.NewInt(p.timespan))
	if bn.Cmp(p.powLimit) > 0 {
		bn = p.powLimit
	}
	return refGetCompact(bn), true
}

// refMTP = CBlockIndex::GetMedianTimePast.
func refMTP(chain []refNode) uint32 {
	var ts []int64
	for i := 0; i < 11 && i < len(chain); i++ {
		ts = append(ts, int64(chain[i].ts))
	}
	sort.Slice(ts, func(a, b int) bool { return ts[a] < ts[b] })
	return uint32(ts[len(ts)/2])
}

// refPushInt = CScript() << int64 (script.h push_int64 + CScriptNum::serialize + push of a vector).
func refPushInt(n int64) []byte {
	if n == -1 || (n >= 1 && n <= 16) {
		return []byte{byte(n + 0x50)}
	}
	if n == 0 {
		return []byte{0}
	}
	neg := n < 0
	abs := uint64(n)
	if neg {
		abs = uint64(-n)
	}
	var res []byte
	for abs != 0 {
		res = append(res, byte(abs&0xff))
		abs >>= 8
	}
	if res[len(res)-1]&0x80 != 0 {
		if neg {
			res = append(res, 0x80)
		} else {
			res = append(res, 0)
		}
	} else if neg {
		res[len(res)-1] |= 0x80
	}
	return append([]byte{byte(len(res))}, res...) // len < OP_PUSHDATA1 always
}

// refMerkle = ComputeMerkleRoot(hashes, &mutated) of consensus/merkle.cpp.
func refMerkle(hs [][]byte) (root []byte, mutated bool) {
	if len(hs) == 0 {
		return make([]byte, 32), false
	}
	cur := append([][]byte{}, hs...)
	for len(cur) > 1 {
		for pos := 0; pos+1 < len(cur); pos += 2 {
			if bytes.Equal(cur[pos], cur[pos+1]) {
				mutated = true
			}
		}
		if len(cur)&1 == 1 {
			cur = append(cur, cur[len(cur)-1])
		}
		var nxt [][]byte
		for i := 0; i < len(cur); i += 2 {
			nxt = append(nxt, dsha(append(append([]byte{}, cur[i]...), cur[i+1]...)))
		}
		cur = nxt
	}
	return cur[0], mutated
}

// refIsFinal = IsFinalTx(tx, nBlockHeight, nBlockTime).
func refIsFinal(lock uint32, seqs []uint32, height int64, btime int64) bool {
	if lock == 0 {
		return true
	}
	lim := btime
	if int64(lock) < 500000000 {
		lim = height
	}
	if int64(lock) < lim {
		return true
	}
	for _, s := range seqs {
		if s != 0xffffffff {
			return false
		}
	}
	return true
}

// ---------------------------------------------------------------- transactions as built by the harness

type rin struct {
	prev   [32]byte
	vout   uint32
	script []byte
	seq    uint32
}
type rout struct {
	value uint64
	pk    []byte
}
type rtx struct {
	version uint32
	ins     []rin
	outs    []rout
	wit     [][][]byte // nil = serialised without marker/flag
	lock    uint32
}

func putVarInt(b *bytes.Buffer, v uint64) {
	switch {
	case v < 0xfd:
		b.WriteByte(byte(v))
	case v <= 0xffff:
		b.WriteByte(0xfd)
		binary.Write(b, binary.LittleEndian, uint16(v))
	case v <= 0xffffffff:
		b.WriteByte(0xfe)
		binary.Write(b, binary.LittleEndian, uint32(v))
	default:
		b.WriteByte(0xff)
		binary.Write(b, binary.LittleEndian, v)
	}
}

func varIntSize(v uint64) int {
	switch {
	case v < 0xfd:
		return 1
	case v <= 0xffff:
		return 3
	case v <= 0xffffffff:
		return 5
	}
	return 9
}

func (t *rtx) ser(withWit bool) []byte {
	var b bytes.Buffer
	binary.Write(&b, binary.LittleEndian, t.version)
	w := withWit && t.wit != nil
	if w {
		b.Write([]byte{0, 1})
	}
	putVarInt(&b, uint64(len(t.ins)))
	for _, in := range t.ins {
		b.Write(in.prev[:])
		binary.Write(&b, binary.LittleEndian, in.vout)
		putVarInt(&b, uint64(len(in.script)))
		b.Write(in.script)
		binary.Write(&b, binary.LittleEndian, in.seq)
	}
	putVarInt(&b, uint64(len(t.outs)))
	for _, o := range t.outs {
		binary.Write(&b, binary.LittleEndian, o.value)
		putVarInt(&b, uint64(len(o.pk)))
		b.Write(o.pk)
	}
	if w {
		for i := range t.ins {
			var st [][]byte
			if i < len(t.wit) {
				st = t.wit[i]
			}
			putVarInt(&b, uint64(len(st)))
			for _, it := range st {
				putVarInt(&b, uint64(len(it)))
				b.Write(it)
			}
		}
	}
	binary.Write(&b, binary.LittleEndian, t.lock)
	return b.Bytes()
}

func (t *rtx) txid() []byte { return dsha(t.ser(false)) }
func (t *rtx) wtxid() []byte { return dsha(t.ser(true)) }
func (t *rtx) isCoinbase() bool {
	return len(t.ins) == 1 && t.ins[0].prev == [32]byte{} && t.ins[0].vout == 0xffffffff
}
func (in *rin) isNull() bool { return in.prev == [32]byte{} && in.vout == 0xffffffff }

// refWeight = GetBlockWeight: 3 * stripped size + total size.
func refWeight(txs []*rtx) int {
	stripped := 80 + varIntSize(uint64(len(txs)))
	total := stripped
	for _, t := range txs {
		stripped += len(t.ser(false))
		total += len(t.ser(true))
	}
	return 3*stripped + total
}

var witnessHdr = []byte{0x6a, 0x24, 0xaa, 0x21, 0xa9, 0xed}

// refCommitPos = GetWitnessCommitmentIndex: the LAST output that matches.
func refCommitPos(cb *rtx) int {
	pos := -1
	for i, o := range cb.outs {
		if len(o.pk) >= 38 && bytes.Equal(o.pk[:6], witnessHdr) {
			pos = i
		}
	}
	return pos
}

type refCtx struct {
	height      int64
	mtp         int64 // median time past of the parent
	now         int64
	required    uint32 // required bits after the parent
	powLimit    *big.Int
	bip34, bip65, bip66 int64
	csv, segwit bool // deployments active for this block
}

type refHeader struct {
	version  int32
	merkle   []byte
	time     uint32
	bits     uint32
	hashLE   []byte
}

// refCheckBlock returns the list of rules (names as in the property statement) that the block violates.
func refCheckBlock(h refHeader, txs []*rtx, c refCtx) (viol []string) {
	add := func(s string) { viol = append(viol, s) }
	// CheckBlockHeader / ContextualCheckBlockHeader
	if !refCheckPoW(h.hashLE, h.bits, c.powLimit) {
		add("pow")
	}
	if h.bits != c.required {
		add("bits")
	}
	if int64(h.time) <= c.mtp {
		add("time-old")
	}
	if int64(h.time) > c.now+2*60*60 {
		add("time-new")
	}
	if (h.version < 2 && c.height >= c.bip34) || (h.version < 3 && c.height >= c.bip66) || (h.version < 4 && c.height >= c.bip65) {
		add("version")
	}
	// CheckBlock
	root, mutated := refMerkle(txids(txs))
	if len(txs) == 0 || !bytes.Equal(root, h.merkle) {
		add("merkle")
	}
	if mutated {
		add("merkle-mutated")
	}
	if len(txs) == 0 || !txs[0].isCoinbase() {
		add("coinbase-first")
	}
	for i := 1; i < len(txs); i++ {
		if txs[i].isCoinbase() {
			add("coinbase-multiple")
			break
		}
	}
	for _, t := range txs {
		if len(t.ins) == 0 || len(t.outs) == 0 {
			add("tx-empty")
		}
		var tot uint64
		for _, o := range t.outs {
			if o.value > 21000000*100000000 {
				add("value-range")
				break
			}
			tot += o.value
			if tot > 21000000*100000000 {
				add("value-range")
				break
			}
		}
		if t.isCoinbase() {
			if l := len(t.ins[0].script); l < 2 || l > 100 {
				add("cb-length")
			}
		} else {
			for i := range t.ins {
				if t.ins[i].isNull() {
					add("prevout-null")
					break
				}
			}
		}
	}
	// ContextualCheckBlock
	cutoff := int64(h.time)
	if c.csv {
		cutoff = c.mtp
	}
	for _, t := range txs {
		var seqs []uint32
		for _, in := range t.ins {
			seqs = append(seqs, in.seq)
		}
		if !refIsFinal(t.lock, seqs, c.height, cutoff) {
			add("nonfinal")
			break
		}
	}
	if c.height >= c.bip34 && len(txs) > 0 && len(txs[0].ins) > 0 {
		exp := refPushInt(c.height)
		if !bytes.HasPrefix(txs[0].ins[0].script, exp) {
			add("bip34")
		}
	}
	haveCommit := false
	if c.segwit && len(txs) > 0 {
		if pos := refCommitPos(txs[0]); pos >= 0 {
			cb := txs[0]
			if cb.wit == nil || len(cb.wit) < 1 || len(cb.wit[0]) != 1 || len(cb.wit[0][0]) != 32 {
				add("witness-nonce")
			} else {
				leaves := [][]byte{make([]byte, 32)}
				for _, t := range txs[1:] {
					leaves = append(leaves, t.wtxid())
				}
				wr, _ := refMerkle(leaves)
				if !bytes.Equal(dsha(append(append([]byte{}, wr...), cb.wit[0][0]...)), cb.outs[pos].pk[6:38]) {
					add("witness-commitment")
				}
			}
			haveCommit = true
		}
	}
	if !haveCommit {
		for _, t := range txs {
			if t.wit != nil {
				add("unexpected-witness")
				break
			}
		}
	}
	if refWeight(txs) > 4000000 {
		add("weight")
	}
	return
}

func txids(txs []*rtx) (out [][]byte) {
	for _, t := range txs {
		out = append(out, t.txid())
	}
	return
}
