// prevhash.go — end-to-end witness of fix 533896f3 on a running chain (chainkit): a valid block on the tip whose
// previous-block field keeps only the first 8 bytes (the BlockIndex key) of the tip's hash. Before the fix
// CheckBlock + AcceptBlock accepted it and it became the tip although no block with that hash exists.
// Also: AcceptHeader (the headers-first path, client/network/hdrs.go) must not link such a header under the known block.
package main

import (
	"encoding/binary"
	"fmt"
	"strings"

	"github.com/piotrnar/gocoin/lib/btc"
	"verif/chainkit"
	"verif/vlib"
)

func remine(raw []byte) {
	for n := uint32(0); ; n++ {
		binary.LittleEndian.PutUint32(raw[76:80], n)
		if btc.CheckProofOfWork(btc.NewSha2Hash(raw[:80]), binary.LittleEndian.Uint32(raw[72:76])) {
			return
		}
	}
}

func e2ePrefixOnlyParent(seed uint64) {
	g := vlib.NewRng(seed)
	for mode := 0; mode < 5; mode++ {
		r.Eval("block/e2e-parent-prefix-only", fmt.Sprintf("e2e-prefix:%d", mode))
		k, err := chainkit.New(chainkit.Opts{}, g.Fork())
		if err != nil {
			r.TieFail("e2e-chainkit", "chainkit.New failed: "+err.Error(), map[string]interface{}{"op": "block", "e2e_seed": fmt.Sprint(seed)})
			return
		}
		for i := 0; i < 3; i++ {
			k.MustExtend(nil, 0)
		}
		tip0, h0 := k.Tip()
		raw := k.Build(chainkit.BlockSpec{})
		good := append([]byte{}, raw...)
		copy(raw[4:36], scrambleTail(g, raw[4:36], mode))
		remine(raw)
		rep := map[string]interface{}{"op": "block", "e2e_seed": fmt.Sprint(seed), "mode": mode, "raw": fmt.Sprintf("%x", raw), "tip": tip0, "height": h0,
			"note": "chainkit chain of 3 blocks built from the run's seed; the block is valid on the tip except for bytes 8..31 of its previous-block field"}
		// headers-first path: PreCheckBlock refuses; a caller that went on to AcceptHeader must not get a node linked under the tip
		bl, _ := btc.NewBlock(raw)
		nidx := len(k.Ch.BlockIndex)
		var linked bool
		func() {
			defer func() { recover() }()
			k.Ch.BlockIndexAccess.Lock()
			defer k.Ch.BlockIndexAccess.Unlock()
			if _, _, er := k.Ch.PreCheckBlock(bl); er == nil {
				linked = true
				return
			}
			if n := k.Ch.AcceptHeader(bl); n != nil {
				linked = true
			}
		}()
		if linked || len(k.Ch.BlockIndex) != nidx {
			r.PropFail("accepted-invalid:prev-blk-not-found", "PreCheckBlock passes / AcceptHeader links a header whose previous-block field shares only its first 8 bytes with the tip's hash", rep)
			k.Close()
			return
		}
		res := k.Submit(raw)
		tip1, h1 := k.Tip()
		rep["submit"] = res.String()
		if res.OK() || tip1 != tip0 || h1 != h0 {
			r.PropFail("accepted-invalid:prev-blk-not-found", fmt.Sprintf("CheckBlock+AcceptBlock accept a block whose previous-block field %x is the hash of no block (tip %s height %d -> %s height %d)", raw[4:36], tip0, h0, tip1, h1), rep)
			k.Close()
			return
		}
		r.Hit("e2e-parent-prefix-only/refused:" + errCodeStr(res.String()))
		// and the untouched block is still accepted afterwards (the refusal left nothing behind)
		if res2 := k.Submit(good); !res2.OK() {
			rep["submit_good"] = res2.String()
			r.PropFail("e2e-valid-block-refused-after-prefix-only", "the valid block is refused after its prefix-only twin was refused: "+res2.String(), rep)
			k.Close()
			return
		}
		r.TieOK()
		k.Close()
	}
}

func errCodeStr(s string) string {
	if j := strings.Index(s, "RPC_Result:"); j >= 0 {
		return s[j+len("RPC_Result:"):]
	}
	return "other"
}
