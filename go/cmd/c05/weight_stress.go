// weight_stress.go — weight limit on blocks made of MANY transactions, checked REPEATEDLY.
//
// Block.BuildTxListExt hashes the transactions in parallel: every ~4 KB of transactions ("pack") goes to its own
// goroutine, and each goroutine adds the weight of its transactions to one shared counter. The boundary blocks of
// weightCases are one huge transaction = one pack = one goroutine, so nothing there can tell an atomic add from a plain
// `+=`. Here the block is a coinbase plus hundreds of transactions of 0.3..7 KB (150..250 packs), built to an exact
// BIP141 weight at / just above the limit, and Chain.CheckBlock runs on fresh Block objects of the same bytes many times
// with GOMAXPROCS 16. The property predicate on the real code:
//   * a block whose reference weight is > 4,000,000 is refused on EVERY run ("... the weight is at most 4,000,000.
//     Otherwise it is refused");
//   * Block.BlockWeight equals the reference weight on every run (a function of the bytes, not of the schedule);
//   * the result code is the same on every run.
// The first run of each block goes through runBlock (model + reference + side-effect check) like every other block case.
package main

import (
	"bytes"
	"fmt"
	"runtime"

	"github.com/piotrnar/gocoin/lib/btc"
	"verif/vlib"
)

// scripts without signature operations and without push opcodes (the sigop limit is another rule)
func inertScript(g *vlib.Rng, n int) []byte {
	b := make([]byte, n)
	for i := range b {
		b[i] = byte(g.Pick(0x6a, 0x61, 0x51, 0x75, 0x60))
	}
	return b
}

// manyTxBlock: coinbase + many transactions with reference weight exactly `target`. withWit: one transaction carries a
// witness (so the weight need not be a multiple of 4) and the coinbase the BIP141 commitment.
func manyTxBlock(g *vlib.Rng, height uint32, target int, withWit bool) (txs []*rtx, ok bool) {
	cb := coinbaseTx(g, height, -1)
	txs = []*rtx{cb}
	var wtx *rtx
	if withWit {
		wtx = regularTx(g, true)
		for i := range wtx.wit {
			wtx.wit[i] = nil
		}
		wtx.wit[0] = [][]byte{{1}}
	}
	filler := regularTx(g, false)
	filler.outs[0].pk = inertScript(g, 1)
	wpos := -1
	if withWit {
		wpos = 1 + g.Intn(40)
	}
	room := 4 * (9000 + len(filler.ser(true)))
	if withWit {
		room += 4*len(wtx.ser(true)) + 4*60
	}
	w := refWeight(txs)
	for {
		if len(txs) == wpos {
			txs = append(txs, wtx)
			w += 3*len(wtx.ser(false)) + len(wtx.ser(true))
			continue
		}
		t := regularTx(g, false)
		t.outs[0].pk = inertScript(g, g.Pick(300, 1000, 2500, 3900, 4100, 4100, 5000, 7000)+g.Intn(200))
		tw := 4 * len(t.ser(true))
		if w+tw+room+12 > target { // 12: the count prefix may grow from 1 to 3 bytes
			break
		}
		txs = append(txs, t)
		w += tw
	}
	if withWit && len(txs) <= wpos {
		txs = append(txs, wtx)
	}
	txs = append(txs, filler)
	build := func(pad, wl int) int {
		filler.outs[0].pk = bytes.Repeat([]byte{0x6a}, pad)
		if withWit {
			wtx.wit[0][0] = bytes.Repeat([]byte{7}, wl)
			cb.wit = nil
			if p := refCommitPos(cb); p >= 0 {
				cb.outs = cb.outs[:p]
			}
			addCommitmentDet(txs)
		}
		return refWeight(txs)
	}
	pad, wl := 1, 1
	w = build(pad, wl)
	for it := 0; it < 16; it++ {
		if w == target {
			return txs, true
		}
		d := target - w
		switch {
		case !withWit || d >= 4 || d <= -4:
			pad += d / 4
		case wl+d >= 1:
			wl += d
		default: // a little too heavy and no witness byte left to drop: one output byte less, the witness fills up
			pad--
			wl += 4 + d
		}
		if pad < 1 || wl < 1 {
			return nil, false
		}
		w = build(pad, wl)
	}
	return txs, w == target
}

var weightManyBuilt, weightManyAsked int

func weightManyTxCases(g *vlib.Rng) {
	sc := newScenario(g.U64(), nets[0], 12, 600)
	type tc struct {
		target  int
		withWit bool
	}
	cases := []tc{{4000004, false}, {4000000, false}, {4000001, true}, {4000000, true}, {4000008, false}, {3999996, false}, {4000002, true}}
	ncases := r.N(4, len(cases))
	runs := r.N(40, 400)
	prevProcs := runtime.GOMAXPROCS(16)
	defer runtime.GOMAXPROCS(prevProcs)
	totalRuns, packsMin, packsMax := 0, 0, 0
	for ci, c := range cases {
		if ci >= ncases {
			break
		}
		now := stableNow()
		height := sc.tip.Height + 1
		rc := refChain(sc.tip)
		mtp := refMTP(rc)
		cons := consH{1, 1, 1, 1, 1, 1}
		s := &blockSpec{txCount: -1, mut: fmt.Sprintf("weight-many-%d", c.target), parent: sc.tip, version: 4, time: mtp + 1}
		if c.withWit {
			s.mut += "-wit"
		}
		weightManyAsked++
		txs, ok := manyTxBlock(g, height, c.target, c.withWit)
		if ok {
			weightManyBuilt++
		}
		if !ok {
			r.Hit("weight-many-case-not-constructed")
			continue
		}
		s.txs = txs
		s.merkle, _ = refMerkle(txids(s.txs))
		s.prevHash = sc.tip.BlockHash.Hash[:]
		s.bits, _ = refNextWork(rc, s.time, sc.net.params(sc.ch.Consensus.MaxPOWValue))
		raw := s.raw()
		// packs as BuildTxListExt cuts them (for the evidence: the stream must be made of many)
		packs, acc := 0, 0
		for _, t := range txs {
			acc += len(t.ser(true))
			if acc >= 4096 {
				packs, acc = packs+1, 0
			}
		}
		if acc > 0 {
			packs++
		}
		if packsMin == 0 || packs < packsMin {
			packsMin = packs
		}
		if packs > packsMax {
			packsMax = packs
		}
		rep := map[string]interface{}{"op": "weight-many", "mutation": s.mut, "target_weight": c.target, "transactions": len(txs), "packs": packs,
			"raw_len": len(raw), "scenario": sc.desc, "seed_note": "rebuilt from the seed: stream 9, weightManyTxCases"}
		runBlock("weight-many", sc, s, cons, raw, now, rep)
		// repeated runs on fresh objects of the same bytes
		applyCons(sc.ch, cons)
		first := ""
		for k := 0; k < runs; k++ {
			var code string
			var weight uint
			pan := ""
			func() {
				defer func() {
					if x := recover(); x != nil {
						pan = fmt.Sprint(x)
					}
				}()
				bl, er := btc.NewBlock(raw)
				if er != nil {
					code = "newblock:" + er.Error()
					return
				}
				if k%4 == 3 { // the parser alone, as the block downloader uses it
					er = bl.BuildTxList()
					code = "build:" + errCode(er)
				} else {
					_, _, er = sc.ch.CheckBlock(bl)
					code = errCode(er)
				}
				weight = bl.BlockWeight
			}()
			totalRuns++
			r.Hit("weight-many-run/" + code)
			rep2 := map[string]interface{}{}
			for kk, v := range rep {
				rep2[kk] = v
			}
			rep2["run"] = k
			rep2["code"] = code
			rep2["block_weight_reported"] = weight
			if pan != "" {
				r.PropFail("checkblock-panic:"+s.mut, "Chain.CheckBlock / BuildTxList panics ("+pan+") on a many-transaction block", rep2)
				break
			}
			if c.target > btc.MAX_BLOCK_WEIGHT && code == "ok" {
				r.PropFail("accepted-invalid:weight", fmt.Sprintf("Chain.CheckBlock accepts, on run %d of %d of the same bytes, a block of %d transactions (%d hashing packs) whose weight is %d > %d (Block.BlockWeight reported as %d)",
					k, runs, len(txs), packs, c.target, int(btc.MAX_BLOCK_WEIGHT), weight), rep2)
				break
			}
			if weight != uint(c.target) {
				r.PropFail("blockweight-not-function-of-bytes", fmt.Sprintf("Block.BlockWeight = %d on run %d of a block of %d transactions (%d hashing packs) whose BIP141 weight is %d: the weight the limit is checked against depends on the schedule",
					weight, k, len(txs), packs, c.target), rep2)
				break
			}
			key := code
			if k%4 == 3 {
				continue
			}
			if first == "" {
				first = key
			} else if key != first {
				r.PropFail("checkblock-nondeterministic:"+s.mut, fmt.Sprintf("Chain.CheckBlock returned %q and %q for the same block bytes (weight %d, %d transactions)", first, key, c.target, len(txs)), rep2)
				break
			}
		}
	}
	r.Extra["weight_many_runs"] = totalRuns
	r.Extra["weight_many_packs_min_max"] = []int{packsMin, packsMax}
	r.Extra["weight_many_gomaxprocs"] = 16
}
