// Whole transactions with SEVERAL signed inputs, and scripts with SEVERAL signature checks.
//
// A Multi is one transaction in which a set of inputs is spent for real: bare / P2SH / P2WSH / P2SH-P2WSH scripts and
// tapscripts made of several OP_CHECKSIG(VERIFY) / OP_CHECKMULTISIG(VERIFY) (tapscript: OP_CHECKSIGADD chains) with
// executed and never-executed OP_CODESEPARATORs between them, next to P2PKH / P2WPKH / taproot key-path inputs. Every
// signature is made by the independent signer (ec.go) over the reference digest (ref.go) with the script code / code
// separator position that is right for ITS check, or on purpose over another digest (a flipped bit, the script code of
// another check of the same script, another input). The verdict of script.VerifyTxScript must be "valid" exactly when
// every signature is over the digest the specification defines for its position —
//   - sequentially, all spends on ONE transaction object (the per-transaction caches shared between kinds), and
//   - concurrently (child process): one goroutine per input on one object, as lib/chain/chain_accept.go and
//     client/txpool do, several transactions at the same time, different start disciplines, a fresh object per round.
package main

import (
	"bytes"
	"fmt"
	"math/big"
	"runtime"
	"sync"
	"sync/atomic"

	"github.com/piotrnar/gocoin/lib/btc"
	"github.com/piotrnar/gocoin/lib/script"
	"verif/vlib"
)

// Chk is one signature check of a script.
type Chk struct {
	Sep   bool     `json:"sep,omitempty"`   // an executed OP_CODESEPARATOR in front of this check
	Dead  bool     `json:"dead,omitempty"`  // `OP_0 OP_IF OP_CODESEPARATOR OP_ENDIF` in front of it (never executed)
	N     int      `json:"n,omitempty"`     // 0: <key> CHECKSIG(VERIFY); >0: M-of-N CHECKMULTISIG(VERIFY) (tapscript: a CHECKSIGADD chain)
	M     int      `json:"m,omitempty"`     // number of signatures (keys Start .. Start+M-1 sign)
	Start int      `json:"start,omitempty"` //
	Ht    []uint32 `json:"ht"`              // hash type of each signature
	Bad   int      `json:"bad"`             // index of the signature made over another digest, -1: none
	Mode  string   `json:"mode,omitempty"`  // flip | code (script code / separator position of check From) | otheridx
	From  int      `json:"from,omitempty"`
}

// Spend is one really spent input.
type Spend struct {
	Idx    int     `json:"idx"`
	Kind   string  `json:"kind"` // bare p2sh p2wsh p2sh-p2wsh tapscript | p2pkh p2wpkh p2tr-key (one check, N = 0)
	Checks []Chk   `json:"checks"`
	Annex  *string `json:"annex,omitempty"`
	Path   int     `json:"path,omitempty"` // tapscript: length of the merkle path (TapBranch steps)
	Key    string  `json:"key"`
}

type Multi struct {
	Tx     Case    `json:"tx"`
	Spends []Spend `json:"spends"`
}

// Built is what the child process needs: the finished transaction and the verdict the specification gives per spend.
type Built struct {
	Tx    Case       `json:"tx"`
	Idx   []int      `json:"idx"`
	Kind  []string   `json:"kind"`
	Sig   []string   `json:"sig"`
	Wit   [][]string `json:"wit"`
	Want  []bool     `json:"want"`
	Class []string   `json:"-"`
}

func (s *Spend) scriptKind() bool {
	switch s.Kind {
	case "bare", "p2sh", "p2wsh", "p2sh-p2wsh", "tapscript":
		return true
	}
	return false
}

func kd(seed string, a, b int) *big.Int {
	d := new(big.Int).SetBytes(sha([]byte(fmt.Sprintf("%s/%d/%d", seed, a, b))))
	d.Mod(d, ecN)
	if d.Sign() == 0 {
		d.SetInt64(1)
	}
	return d
}

func tapBranchRef(a, b []byte) []byte {
	if bytes.Compare(a, b) < 0 {
		return taggedHash("TapBranch", a, b)
	}
	return taggedHash("TapBranch", b, a)
}

// chkLay: where check i sits — byte offset of its script code (after the last executed code separator in front of it),
// opcode position of that separator (0xffffffff: none), and its keys.
type chkLay struct {
	start int
	pos   uint32
	keys  []*big.Int
}

func opN(n int) byte {
	if n == 0 {
		return 0
	}
	return byte(0x50 + n)
}

// layout builds the script of a script-kind spend.
func (s *Spend) layout() (scr []byte, lay []chkLay) {
	tap := s.Kind == "tapscript"
	start, pos, n := 0, uint32(0xffffffff), uint32(0)
	for i := range s.Checks {
		k := &s.Checks[i]
		last := i == len(s.Checks)-1
		if k.Dead {
			scr = append(scr, 0x00, 0x63, 0xab, 0x68)
			n += 4
		}
		if k.Sep {
			scr = append(scr, 0xab)
			pos = n
			n++
			start = len(scr)
		}
		l := chkLay{start: start, pos: pos}
		nk := k.N
		if nk == 0 {
			nk = 1
		}
		for j := 0; j < nk; j++ {
			l.keys = append(l.keys, kd(s.Key, i, j))
		}
		pub := func(d *big.Int) []byte {
			if tap {
				px, _ := xonlyPub(d)
				return px
			}
			return pub33(d)
		}
		switch {
		case k.N == 0:
			scr = append(scr, pushData(pub(l.keys[0]))...)
			if last {
				scr = append(scr, 0xac)
			} else {
				scr = append(scr, 0xad)
			}
			n += 2
		case !tap:
			scr = append(scr, opN(k.M))
			for _, d := range l.keys {
				scr = append(scr, pushData(pub(d))...)
			}
			scr = append(scr, opN(k.N))
			if last {
				scr = append(scr, 0xae)
			} else {
				scr = append(scr, 0xaf)
			}
			n += uint32(k.N) + 3
		default:
			for j, d := range l.keys {
				scr = append(scr, pushData(pub(d))...)
				if j == 0 {
					scr = append(scr, 0xac)
				} else {
					scr = append(scr, 0xba)
				}
			}
			scr = append(scr, opN(k.M))
			if last {
				scr = append(scr, 0x9c)
			} else {
				scr = append(scr, 0x9d)
			}
			n += 2*uint32(k.N) + 2
		}
		lay = append(lay, l)
	}
	return
}

type spendPlan struct {
	scr      []byte
	lay      []chkLay
	spk      []byte
	leaf     []byte
	control  []byte
	annex    []byte
	keySec   *big.Int // p2tr-key: the tweaked secret
	simpleSc []byte   // p2pkh / p2wpkh: the script code
}

// build: phase 1 derives every spent scriptPubKey (BIP341 digests commit to all of them), phase 2 signs.
func (m *Multi) build() *Built {
	c, plans := m.plan()
	return m.sign(c, plans)
}

// plan: phase 1 - the scripts and scriptPubKeys of the spends (they depend on the keys only, not on the transaction).
func (m *Multi) plan() (Case, []spendPlan) {
	c := m.Tx
	c.Spent = append([]JOut{}, m.Tx.Spent...)
	plans := make([]spendPlan, len(m.Spends))
	for si := range m.Spends {
		s := &m.Spends[si]
		p := &plans[si]
		if s.Annex != nil {
			p.annex = unhx(*s.Annex)
			if p.annex == nil {
				p.annex = []byte{}
			}
		}
		switch s.Kind {
		case "bare":
			p.scr, p.lay = s.layout()
			p.spk = p.scr
		case "p2sh":
			p.scr, p.lay = s.layout()
			h := btc.Rimp160AfterSha256(p.scr)
			p.spk = cat([]byte{0xa9, 0x14}, h[:], []byte{0x87})
		case "p2wsh":
			p.scr, p.lay = s.layout()
			p.spk = cat([]byte{0x00, 0x20}, sha(p.scr))
		case "p2sh-p2wsh":
			p.scr, p.lay = s.layout()
			h := btc.Rimp160AfterSha256(cat([]byte{0x00, 0x20}, sha(p.scr)))
			p.spk = cat([]byte{0xa9, 0x14}, h[:], []byte{0x87})
		case "tapscript":
			p.scr, p.lay = s.layout()
			p.leaf = taggedHash("TapLeaf", []byte{0xc0}, cs(uint64(len(p.scr))), p.scr)
			root := p.leaf
			var path []byte
			for d := 0; d < s.Path; d++ {
				sib := sha([]byte(fmt.Sprintf("%s/sibling/%d", s.Key, d)))
				path = append(path, sib...)
				root = tapBranchRef(root, sib)
			}
			internal := kd(s.Key, -1, 0)
			ix, _ := xonlyPub(internal)
			q, parity, _ := tapTweak(internal, root)
			p.control = cat([]byte{0xc0 | parity}, ix, path)
			p.spk = append([]byte{0x51, 0x20}, q...)
		case "p2pkh":
			d := kd(s.Key, 0, 0)
			h := btc.Rimp160AfterSha256(pub33(d))
			p.spk = cat([]byte{0x76, 0xa9, 0x14}, h[:], []byte{0x88, 0xac})
			p.simpleSc = p.spk
			p.lay = []chkLay{{keys: []*big.Int{d}}}
		case "p2wpkh":
			d := kd(s.Key, 0, 0)
			h := btc.Rimp160AfterSha256(pub33(d))
			p.spk = cat([]byte{0x00, 0x14}, h[:])
			p.simpleSc = cat([]byte{0x76, 0xa9, 0x14}, h[:], []byte{0x88, 0xac})
			p.lay = []chkLay{{keys: []*big.Int{d}}}
		case "p2tr-key":
			d := kd(s.Key, 0, 0)
			var q []byte
			q, _, p.keySec = tapTweak(d, nil)
			p.spk = append([]byte{0x51, 0x20}, q...)
			p.lay = []chkLay{{keys: []*big.Int{p.keySec}}}
		}
		c.Spent[s.Idx].Pk = hx(p.spk)
	}
	return c, plans
}

// sign: phase 2.
func (m *Multi) sign(c Case, plans []spendPlan) *Built {
	t, sp := c.ref()
	b := &Built{Tx: c}
	for si := range m.Spends {
		s := &m.Spends[si]
		p := &plans[si]
		amount := c.Spent[s.Idx].Value
		// the digest the specification defines for (script code of check `from`, input in, hash type)
		digest := func(from, in int, ht uint32) ([]byte, bool) {
			code := p.simpleSc
			if p.scr != nil {
				code = p.scr[p.lay[from].start:]
			}
			switch s.Kind {
			case "bare", "p2sh", "p2pkh":
				pre, one, ok := refLegacy(t, code, in, ht)
				if !ok {
					return make([]byte, 32), false
				}
				if one {
					return append([]byte{1}, make([]byte, 31)...), true
				}
				return dsha(pre), true
			case "p2wsh", "p2sh-p2wsh", "p2wpkh":
				pre, ok := refBIP143(t, code, amount, in, ht)
				if !ok {
					return make([]byte, 32), false
				}
				return dsha(pre), true
			}
			var ext *refExt
			if s.Kind == "tapscript" {
				ext = &refExt{p.leaf, p.lay[from].pos}
			}
			pre, ok := refBIP341(t, sp, in, byte(ht), p.annex, ext)
			if !ok {
				return make([]byte, 32), false
			}
			return sha(pre), true
		}
		tap := s.Kind == "tapscript" || s.Kind == "p2tr-key"
		want := true
		class := "good"
		items := make([][][]byte, len(s.Checks)) // per check, bottom → top
		for i := range s.Checks {
			k := &s.Checks[i]
			nsig := k.M
			if k.N == 0 {
				nsig = 1
			}
			sigs := make([][]byte, nsig)
			for j := 0; j < nsig; j++ {
				ht := k.Ht[j%len(k.Ht)] & 0xff
				truth, defined := digest(i, s.Idx, ht)
				signed := truth
				if k.Bad == j {
					switch k.Mode {
					case "flip":
						signed = append([]byte{}, truth...)
						signed[int(ht)%32] ^= 1 << (ht % 8)
					case "code":
						signed, _ = digest(k.From%len(s.Checks), s.Idx, ht)
					case "otheridx":
						signed, _ = digest(i, (s.Idx+1)%len(c.Ins), ht)
					}
				}
				if !defined || !bytes.Equal(signed, truth) {
					want = false
					if !defined {
						class = "undefined"
					} else {
						class = "bad-" + k.Mode
					}
				}
				key := p.lay[i].keys[(k.Start+j)%len(p.lay[i].keys)]
				aux := sha([]byte(fmt.Sprintf("%s/nonce/%d/%d", s.Key, i, j)))
				if tap {
					sg := schnorrSign(key, signed, aux)
					if ht != 0 {
						sg = append(sg, byte(ht))
					}
					sigs[j] = sg
				} else {
					sigs[j] = append(ecdsaSign(key, signed, new(big.Int).SetBytes(aux)), byte(ht))
				}
			}
			switch {
			case k.N == 0:
				items[i] = [][]byte{sigs[0]}
			case !tap:
				items[i] = append([][]byte{{}}, sigs...)
			default:
				for j := k.N - 1; j >= 0; j-- { // the signature for the first key of the chain on top
					x := j - k.Start%k.N
					if x >= 0 && x < k.M {
						items[i] = append(items[i], sigs[x])
					} else {
						items[i] = append(items[i], []byte{})
					}
				}
			}
		}
		var stack [][]byte
		for i := len(s.Checks) - 1; i >= 0; i-- {
			stack = append(stack, items[i]...)
		}
		var scriptSig []byte
		var wit [][]byte
		pushes := func() (o []byte) {
			for _, it := range stack {
				o = append(o, pushData(it)...)
			}
			return
		}
		switch s.Kind {
		case "bare":
			scriptSig = pushes()
		case "p2sh":
			scriptSig = append(pushes(), pushData(p.scr)...)
		case "p2wsh":
			wit = append(stack, p.scr)
		case "p2sh-p2wsh":
			wit = append(stack, p.scr)
			scriptSig = pushData(cat([]byte{0x00, 0x20}, sha(p.scr)))
		case "tapscript":
			wit = append(stack, p.scr, p.control)
		case "p2pkh":
			scriptSig = cat(pushData(stack[0]), pushData(pub33(p.lay[0].keys[0])))
		case "p2wpkh":
			wit = [][]byte{stack[0], pub33(p.lay[0].keys[0])}
		case "p2tr-key":
			wit = [][]byte{stack[0]}
		}
		if tap && s.Annex != nil {
			wit = append(wit, p.annex)
		}
		var ws []string
		for _, w := range wit {
			ws = append(ws, hx(w))
		}
		b.Idx = append(b.Idx, s.Idx)
		b.Kind = append(b.Kind, s.Kind)
		b.Sig = append(b.Sig, hx(scriptSig))
		b.Wit = append(b.Wit, ws)
		b.Want = append(b.Want, want)
		b.Class = append(b.Class, class)
	}
	return b
}

// real: a fresh transaction object (empty caches) with every spend's scriptSig / witness in place.
func (b *Built) real() *btc.Tx {
	tx := b.bare()
	b.Tx.alloc(tx, "append")
	return tx
}

// bare: the same object before AllocVerVars (TxVerVars nil).
func (b *Built) bare() *btc.Tx {
	tx := b.Tx.bare()
	anyWit := false
	for n, idx := range b.Idx {
		tx.TxIn[idx].ScriptSig = unhx(b.Sig[n])
		if len(b.Wit[n]) > 0 {
			anyWit = true
		}
	}
	if anyWit {
		tx.SegWit = make([][][]byte, len(tx.TxIn))
		for n, idx := range b.Idx {
			for _, w := range b.Wit[n] {
				x := unhx(w)
				if x == nil {
					x = []byte{}
				}
				tx.SegWit[idx] = append(tx.SegWit[idx], x)
			}
		}
	}
	return tx
}

// verdict of the real code for spend n: "ok" | "fail" | "panic"
func (b *Built) verify(tx *btc.Tx, n int) (res string) {
	defer func() {
		if recover() != nil {
			res = "panic"
		}
	}()
	idx := b.Idx[n]
	if script.VerifyTxScript(unhx(b.Tx.Spent[idx].Pk), &script.SigChecker{Tx: tx, Idx: idx, Amount: b.Tx.Spent[idx].Value}, e2eFlags) {
		return "ok"
	}
	return "fail"
}

func okfail(b bool) string {
	if b {
		return "ok"
	}
	return "fail"
}

func (s *Spend) shape() string {
	if !s.scriptKind() {
		return ""
	}
	seps, multis := 0, 0
	for i, k := range s.Checks {
		if k.Sep && i > 0 {
			seps++
		}
		if k.N > 0 {
			multis++
		}
	}
	if multis > 2 {
		multis = 2
	}
	return fmt.Sprintf("checks=%s,multisigs=%s,separator-between=%v", map[bool]string{false: "1", true: ">=2"}[len(s.Checks) > 1], []string{"0", "1", ">=2"}[multis], seps > 0)
}

// runMulti: the sequential part. All spends of the transaction on ONE object, in the listed order; a wrong verdict is
// re-examined on a fresh object to say whether the cache or the digest is at fault. Returns the built transaction.
func runMulti(m *Multi) (b *Built, failed bool) {
	b = m.build()
	shared := b.real()
	txh := vlib.ShortHash([]byte(b.Tx.oracleLine()))
	r.Hit("multi:ins=" + bucketN(len(b.Tx.Ins)) + ",spends=" + fmt.Sprint(len(b.Idx)))
	for n := range b.Idx {
		s := &m.Spends[n]
		got := b.verify(shared, n)
		want := okfail(b.Want[n])
		if sh := s.shape(); sh != "" {
			r.Hit("multi-script:" + sh)
		}
		r.Eval("multi:"+s.Kind+":"+b.Class[n], fmt.Sprintf("multi/%s/%d/%s/%s", s.Kind, s.Idx, txh, vlib.ShortHash([]byte(b.Sig[n]+fmt.Sprint(b.Wit[n])))))
		if got == want {
			continue
		}
		one := Multi{Tx: m.Tx, Spends: m.Spends[:n+1]}
		alone := b.verify(b.real(), n)
		key := "e2e-" + s.Kind
		what := fmt.Sprintf("%s spend of input %d (%d signature checks%s; signatures by the independent signer, %s): VerifyTxScript says %s, the reference digests give %s", s.Kind, s.Idx, len(s.Checks), s.describe(), b.Class[n], got, want)
		if alone == want {
			key = "e2e-cache-" + s.Kind
			what += fmt.Sprintf(" - on a fresh transaction object the verdict is %s: the inputs verified before on the same object changed it", alone)
		} else if s.scriptKind() && len(s.Checks) > 1 {
			key = "e2e-multi-check-" + s.Kind
		}
		r.PropFail(key, what, map[string]interface{}{"multi": []*Multi{&one}})
		failed = true
	}
	return b, failed
}

func (s *Spend) describe() string {
	if !s.scriptKind() {
		return ""
	}
	d := ""
	for i, k := range s.Checks {
		if k.Dead {
			d += " [unexecuted CODESEPARATOR]"
		}
		if k.Sep {
			d += " CODESEPARATOR"
		}
		if k.N == 0 {
			d += fmt.Sprintf(" CHECKSIG#%d(ht %x)", i, k.Ht)
		} else {
			d += fmt.Sprintf(" %d-of-%d-MULTISIG#%d(ht %x)", k.M, k.N, i, k.Ht)
		}
	}
	return ":" + d
}

func bucketN(n int) string {
	switch {
	case n <= 1:
		return fmt.Sprint(n)
	case n <= 8:
		return "2..8"
	case n <= 64:
		return "9..64"
	case n <= 512:
		return "65..512"
	}
	return ">512"
}

// ---------------------------------------------------------------- concurrent verification (runs in the child process)

// start disciplines of a round: all goroutines are released together (channel), start within nanoseconds of each other
// (spin barrier), or one after another at a distance that doubles from round to round (the second caller arrives while
// the first one is in the middle of filling a cache).
func startGate(n, round int) func(j int) {
	switch round % 3 {
	case 0:
		var arrived int32
		return func(j int) {
			atomic.AddInt32(&arrived, 1)
			for k := 0; atomic.LoadInt32(&arrived) < int32(n); k++ {
				if k&63 == 63 {
					runtime.Gosched()
				}
			}
		}
	case 1:
		var arrived int32
		stride := 40 << uint((round/3)%11)
		return func(j int) {
			atomic.AddInt32(&arrived, 1)
			for k := 0; atomic.LoadInt32(&arrived) < int32(n); k++ {
				if k&63 == 63 {
					runtime.Gosched()
				}
			}
			var x int32
			for k := 0; k < j*stride; k++ {
				atomic.AddInt32(&x, 1)
			}
		}
	}
	return func(int) {}
}

// runSpendsParallel: `rounds` times: a fresh object per transaction, one goroutine per spent input, all transactions
// at the same time; every verdict must be the reference's.
func runSpendsParallel(bs []*Built, rounds int) string {
	total := 0
	for _, b := range bs {
		total += len(b.Idx)
	}
	for round := 0; round < rounds; round++ {
		txs := make([]*btc.Tx, len(bs))
		for i, b := range bs {
			txs[i] = b.real()
		}
		gate := startGate(total, round)
		release := make(chan struct{})
		res := make([][]string, len(bs))
		var wg sync.WaitGroup
		g := 0
		for i, b := range bs {
			res[i] = make([]string, len(b.Idx))
			for n := range b.Idx {
				wg.Add(1)
				go func(i, n, g int, b *Built) {
					defer wg.Done()
					<-release
					gate(g)
					res[i][n] = b.verify(txs[i], n)
				}(i, n, g, b)
				g++
			}
		}
		close(release)
		wg.Wait()
		for i, b := range bs {
			for n := range b.Idx {
				if want := okfail(b.Want[n]); res[i][n] != want {
					return fmt.Sprintf("round %d: %d transactions, %d inputs verified by one goroutine each at the same time: %s input %d of transaction %d (%d inputs) gets the verdict %s, the reference digests (and the sequential run) give %s", round, len(bs), total, b.Kind[n], b.Idx[n], i, len(b.Tx.Ins), res[i][n], want)
				}
			}
		}
	}
	return ""
}

// parMember: one transaction object with Par concurrent callers issuing its digest requests.
type parMember struct {
	Case  *Case    `json:"case"`
	Fresh []string `json:"fresh"`
}

// runDigestsParallel: every member has its OWN object (different transactions) and Par callers on it; all callers of all
// members run at the same time. A result that differs from the sequential one is reported.
func runDigestsParallel(ms []parMember, rounds int) string {
	total := 0
	for _, m := range ms {
		total += m.Case.Par
	}
	for round := 0; round < rounds; round++ {
		var wg sync.WaitGroup
		bad := make([]string, total)
		gate := startGate(total, round)
		release := make(chan struct{})
		g := 0
		for mi := range ms {
			c, fresh := ms[mi].Case, ms[mi].Fresh
			obj := c.real()
			for p := 0; p < c.Par; p++ {
				wg.Add(1)
				go func(mi, p, g int) {
					defer wg.Done()
					<-release
					gate(g)
					for j := range c.Calls {
						n := (j*(2*p+1) + p) % len(c.Calls) // a different order per caller
						if got := realCall(obj, &c.Calls[n]); got != fresh[n] && bad[g] == "" && len(c.Spent) >= len(c.Ins) {
							bad[g] = fmt.Sprintf("call %d (%s, input %d, hash type 0x%x) of transaction %d returns %s under concurrency (%d transaction objects, %d callers in all, %d on this object), %s sequentially", n, c.Calls[n].Kind, c.Calls[n].Idx, c.Calls[n].Ht, mi, got, len(ms), total, c.Par, fresh[n])
						}
					}
				}(mi, p, g)
				g++
			}
		}
		close(release)
		wg.Wait()
		for _, b := range bad {
			if b != "" {
				return b
			}
		}
	}
	return ""
}

// ---------------------------------------------------------------- generators

var e2eValidHt = []uint32{1, 2, 3, 0x81, 0x82, 0x83}

func genShapeN(g *vlib.Rng, ni, no int) *Case {
	c := &Case{Version: edge32(g), Lock: edge32(g), Label: "multi"}
	for i := 0; i < ni; i++ {
		c.Ins = append(c.Ins, JIn{hx(g.Bytes(32)), edge32(g), edge32(g)})
		v := g.U64()
		if g.Chance(1, 4) {
			v = uint64(g.Intn(100000))
		}
		c.Spent = append(c.Spent, JOut{v, hx(g.Bytes(genLen(g, false)))})
	}
	for i := 0; i < no; i++ {
		c.Outs = append(c.Outs, JOut{g.U64(), hx(g.Bytes(genLen(g, false)))})
	}
	return c
}

func genHt(g *vlib.Rng, tap bool) uint32 {
	if tap && g.Chance(1, 4) {
		return 0
	}
	if g.Chance(1, 10) {
		return uint32(g.Intn(256))
	}
	return e2eValidHt[g.Intn(len(e2eValidHt))]
}

func genSpend(g *vlib.Rng, idx int, kind string) Spend {
	s := Spend{Idx: idx, Kind: kind, Key: hx(g.Bytes(16))}
	tap := kind == "tapscript" || kind == "p2tr-key"
	if tap && g.Chance(1, 4) {
		s.Annex = strp("50" + hx(g.Bytes(g.Intn(12))))
	}
	nchk := 1
	if s.scriptKind() {
		nchk = 1 + g.Intn(4)
		if kind == "tapscript" {
			s.Path = g.Intn(5)
		}
	}
	common := genHt(g, tap)
	sameHt := g.Bool()
	for i := 0; i < nchk; i++ {
		k := Chk{Bad: -1}
		if s.scriptKind() {
			k.Sep = g.Chance(3, 5)
			k.Dead = g.Chance(1, 5)
			if g.Chance(1, 2) {
				k.N = 1 + g.Intn(4)
				k.M = 1 + g.Intn(k.N)
				k.Start = g.Intn(k.N - k.M + 1)
			}
		}
		nsig := k.M
		if k.N == 0 {
			nsig = 1
		}
		for j := 0; j < nsig; j++ {
			if sameHt {
				k.Ht = append(k.Ht, common)
			} else {
				k.Ht = append(k.Ht, genHt(g, tap))
			}
		}
		s.Checks = append(s.Checks, k)
	}
	if kind == "p2sh" {
		// the redeem script is pushed by the scriptSig: at most 520 bytes
		for scr, _ := s.layout(); len(scr) > 520; scr, _ = s.layout() {
			s.Checks = s.Checks[:len(s.Checks)-1]
		}
		nchk = len(s.Checks)
	}
	if g.Chance(1, 4) {
		k := &s.Checks[g.Intn(nchk)]
		k.Bad = 0
		if k.M > 1 {
			k.Bad = g.Intn(k.M)
		}
		k.Mode = []string{"flip", "code", "code", "otheridx"}[g.Intn(4)]
		k.From = g.Intn(nchk)
		if !s.scriptKind() && k.Mode == "code" {
			k.Mode = "flip"
		}
	}
	return s
}

var multiKinds = []string{"tapscript", "tapscript", "tapscript", "p2tr-key", "p2tr-key", "p2tr-key", "p2wsh", "p2wsh", "bare", "bare", "p2sh", "p2sh-p2wsh", "p2wpkh", "p2pkh"}

// genMulti: size 0: a few inputs; 1: tens; 2: hundreds; 3: thousands (the one-off fill of the per-transaction hashes
// takes long enough for a second goroutine to arrive in the middle of it).
func genMulti(g *vlib.Rng, size int) *Multi {
	ni := 1 + g.Intn(6)
	switch size {
	case 1:
		ni = 7 + g.Intn(54)
	case 2:
		ni = 100 + g.Intn(300)
	case 3:
		ni = 800 + g.Intn(1700)
	}
	c := genShapeN(g, ni, g.Intn(6))
	m := &Multi{Tx: *c}
	ns := 1 + g.Intn(8)
	if ns > ni {
		ns = ni
	}
	if size >= 2 && ns < 4 {
		ns = 4 + g.Intn(5)
	}
	// distinct inputs, in random order
	used := map[int]bool{}
	taproot := g.Chance(1, 3) // every spend a taproot one
	for len(m.Spends) < ns {
		idx := g.Intn(ni)
		if used[idx] {
			continue
		}
		used[idx] = true
		kind := multiKinds[g.Intn(len(multiKinds))]
		if taproot {
			kind = multiKinds[g.Intn(6)]
		}
		m.Spends = append(m.Spends, genSpend(g, idx, kind))
	}
	return m
}

// multiCorpus: the shapes the property's text names, written out: two and three checks of one script with an executed
// code separator between them, same and different hash types, every wrapping; the second signature made with the
// script code of the first check.
func multiCorpus() []*Multi {
	var out []*Multi
	for n, kind := range []string{"bare", "p2sh", "p2wsh", "p2sh-p2wsh", "tapscript"} {
		for v := 0; v < 6; v++ {
			c := oneInTx()
			c.Label = "multi"
			c.Ins = append(c.Ins, JIn{hs(0x44), 7, 0})
			c.Spent = append(c.Spent, JOut{7777, "51"})
			c.Outs = append(c.Outs, JOut{1234, "6a"})
			two := v&1 == 0 // two multisig checks / one multisig and one checksig
			s := Spend{Idx: (n + v) % 3, Kind: kind, Key: fmt.Sprintf("corpus-%s-%d", kind, v), Path: v % 3}
			ht2 := uint32(1)
			if v >= 4 {
				ht2 = 0x83
			}
			k0 := Chk{N: 2, M: 2, Ht: []uint32{1, 1}, Bad: -1, Dead: v == 3}
			k1 := Chk{Sep: true, N: 3, M: 2, Start: 1, Ht: []uint32{ht2, ht2}, Bad: -1}
			if !two {
				k0 = Chk{Ht: []uint32{1}, Bad: -1, Sep: v == 5}
			}
			s.Checks = []Chk{k0, k1}
			if v == 2 {
				s.Checks = append(s.Checks, Chk{Sep: true, N: 1, M: 1, Ht: []uint32{1}, Bad: -1})
			}
			good := Multi{Tx: c, Spends: []Spend{s}}
			out = append(out, &good)
			// the signature of the second check made with the script code of the first one: invalid
			sb := s
			sb.Checks = append([]Chk{}, s.Checks...)
			sb.Checks[1].Bad, sb.Checks[1].Mode, sb.Checks[1].From = 1, "code", 0
			bad := Multi{Tx: c, Spends: []Spend{sb}}
			out = append(out, &bad)
		}
	}
	return out
}
