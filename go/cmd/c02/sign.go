// Stream 2b: the SIGNING side of the digests - btc.Tx.Sign (legacy) and btc.Tx.SignWitness (BIP143), the two library
// functions that turn a one-byte hash type into the `int32` handed to SignatureHash / WitnessSigHash.
// For every input and a sweep of hash-type bytes (the six defined ones, 0x00, and bytes with the top bit set such as
// 0x80 / 0xc1 / 0xff where a sign-extending conversion would serialise ff ff ff in the four hash-type bytes) the
// signature the function leaves in the transaction must (1) end in the hash-type byte, (2) verify with the independent
// ECDSA verifier (extvec.go, math/big) over the REFERENCE digest of (script code, input, hash type byte zero-extended),
// and (3) make the input verify through script.VerifyTxScript as a P2PKH / P2WPKH spend.
package main

import (
	"bytes"
	"fmt"
	"math/big"

	"github.com/piotrnar/gocoin/lib/btc"
	"github.com/piotrnar/gocoin/lib/script"
	"verif/vlib"
)

type SignCase struct {
	Tx      Case   `json:"tx"`
	Idx     int    `json:"idx"`
	Ht      byte   `json:"ht"`
	Witness bool   `json:"witness"` // SignWitness (BIP143) instead of Sign (legacy)
	Key     string `json:"key"`
}

func runSign(s *SignCase) {
	c := s.Tx
	d := new(big.Int).SetBytes(unhx(s.Key))
	d.Mod(d, ecN)
	if d.Sign() == 0 {
		d.SetInt64(1)
	}
	priv := b32(d)
	pub := pub33(d)
	h := btc.Rimp160AfterSha256(pub)
	code := cat([]byte{0x76, 0xa9, 0x14}, h[:], []byte{0x88, 0xac})
	spk := code
	if s.Witness {
		spk = cat([]byte{0x00, 0x14}, h[:])
	}
	idx := s.Idx
	inRange := idx >= 0 && idx < len(c.Ins)
	if inRange {
		c.Spent = append([]JOut{}, c.Spent...)
		c.Spent[idx].Pk = hx(spk)
	}
	t, _ := c.ref()
	tx := c.real()
	rep := map[string]interface{}{"sign": s}
	fn := "Tx.Sign"
	if s.Witness {
		fn = "Tx.SignWitness"
	}
	class := "sign:" + fn + ":" + htClass(s.Ht)
	var amount uint64
	if inRange {
		amount = c.Spent[idx].Value
	}
	was := btc.EcdsaSignWithRFC6979
	btc.EcdsaSignWithRFC6979 = true // deterministic nonce: the run does not depend on crypto/rand
	var err error
	panicked := ""
	func() {
		defer func() {
			if x := recover(); x != nil {
				panicked = fmt.Sprint(x)
			}
		}()
		if s.Witness {
			err = tx.SignWitness(idx, code, amount, s.Ht, pub, priv)
		} else {
			err = tx.Sign(idx, code, s.Ht, pub, priv)
		}
	}()
	btc.EcdsaSignWithRFC6979 = was
	if !inRange {
		r.Eval(class+":idx-out-of-range", "")
		if panicked != "" || err == nil {
			r.PropFail("sign-index-out-of-range", fmt.Sprintf("%s for input %d of %d: error expected, got panic=%q err=%v", fn, idx, len(c.Ins), panicked, err), rep)
		}
		return
	}
	r.Eval(class, fmt.Sprintf("sign/%v/%d/%02x/%s", s.Witness, idx, s.Ht, vlib.ShortHash([]byte(c.oracleLine()))))
	if panicked != "" || err != nil {
		r.PropFail("sign-fails", fmt.Sprintf("%s for input %d, hash type 0x%02x: panic=%q err=%v", fn, idx, s.Ht, panicked, err), rep)
		return
	}
	// the reference digest: the hash type is the BYTE, zero-extended to the four bytes the algorithms serialise
	var digest []byte
	if s.Witness {
		pre, ok := refBIP143(t, code, amount, idx, uint32(s.Ht))
		if !ok {
			return
		}
		digest = dsha(pre)
	} else {
		pre, one, ok := refLegacy(t, code, idx, uint32(s.Ht))
		if !ok {
			return
		}
		if one {
			digest = append([]byte{1}, make([]byte, 31)...)
		} else {
			digest = dsha(pre)
		}
	}
	// where the function leaves its result
	var sig, gotPub []byte
	shapeOK := false
	if s.Witness {
		if len(tx.SegWit) == len(tx.TxIn) && len(tx.SegWit[idx]) == 2 {
			sig, gotPub, shapeOK = tx.SegWit[idx][0], tx.SegWit[idx][1], true
		}
	} else {
		ss := tx.TxIn[idx].ScriptSig
		if len(ss) > 1 && int(ss[0]) < 0x4c && 1+int(ss[0]) < len(ss) {
			sig = ss[1 : 1+int(ss[0])]
			rest := ss[1+int(ss[0]):]
			if int(rest[0]) == len(rest)-1 {
				gotPub, shapeOK = rest[1:], true
			}
		}
	}
	if !shapeOK || len(sig) < 9 || !bytes.Equal(gotPub, pub) {
		r.PropFail("sign-shape", fmt.Sprintf("%s for input %d, hash type 0x%02x does not leave <signature> <public key> in the input", fn, idx, s.Ht), rep)
		return
	}
	if sig[len(sig)-1] != s.Ht {
		r.PropFail("sign-hashtype-byte", fmt.Sprintf("%s for input %d: the signature ends in 0x%02x, the hash type asked for is 0x%02x", fn, idx, sig[len(sig)-1], s.Ht), rep)
		return
	}
	if !ecdsaVerifyRef(pub, sig[:len(sig)-1], digest) {
		r.PropFail("sign-digest", fmt.Sprintf("%s for input %d, hash type 0x%02x: the signature does not verify (independent ECDSA verifier) over the specified digest %x of this input for this hash type - the function signed another message", fn, idx, s.Ht, digest), rep)
		return
	}
	r.Hit("sign:verifies-over-reference-digest")
	// and the spend verifies (legacy / BIP143 checks take any hash-type byte without STRICTENC)
	ok, vp := false, ""
	func() {
		defer func() {
			if x := recover(); x != nil {
				vp = fmt.Sprint(x)
			}
		}()
		ok = script.VerifyTxScript(spk, &script.SigChecker{Tx: tx, Idx: idx, Amount: amount}, e2eFlags)
	}()
	if !ok {
		r.PropFail("sign-then-verify", fmt.Sprintf("the input %d signed by %s with hash type 0x%02x is refused by VerifyTxScript (panic=%q) although its signature is over the specified digest", idx, fn, s.Ht, vp), rep)
		return
	}
	r.Hit("sign:spend-verifies")
}

func htClass(ht byte) string {
	switch {
	case ht >= 1 && ht <= 3, ht >= 0x81 && ht <= 0x83:
		return fmt.Sprintf("ht=0x%02x", ht)
	case ht >= 0x80:
		return "ht=other>=0x80"
	}
	return "ht=other<0x80"
}

func signStream(g *vlib.Rng) {
	key := "5150515051505150515051505150515051505150515051505150515051505150"
	// corpus: every defined hash type and the sign-extension edges on both inputs of the two-input transaction, both functions
	for _, ht := range []byte{1, 2, 3, 0x81, 0x82, 0x83, 0, 0x04, 0x1f, 0x20, 0x41, 0x7f, 0x80, 0x84, 0xc1, 0xe3, 0xff} {
		for idx := 0; idx < 2; idx++ {
			for _, w := range []bool{false, true} {
				runSign(&SignCase{Tx: oneInTx(), Idx: idx, Ht: ht, Witness: w, Key: key})
			}
		}
	}
	runSign(&SignCase{Tx: oneInTx(), Idx: 2, Ht: 1, Key: key})
	runSign(&SignCase{Tx: oneInTx(), Idx: 2, Ht: 0x81, Witness: true, Key: key})
	hts := []byte{1, 2, 3, 0x81, 0x82, 0x83}
	for i := 0; i < r.N(40, 600); i++ {
		c := genTxShape(g, false)
		for len(c.Ins) == 0 || len(c.Ins) > 8 || len(c.Outs) > 8 {
			c = genTxShape(g, false)
		}
		c.Label = "sign"
		s := &SignCase{Tx: *c, Idx: g.Intn(len(c.Ins)), Ht: hts[g.Intn(len(hts))], Witness: g.Bool(), Key: hx(g.Bytes(32))}
		if g.Chance(1, 3) {
			s.Ht = byte(g.Intn(256))
		}
		runSign(s)
	}
}
