// c02 — correspondence harness + property search for C02 (signature hashes).
// Real code : Tx.SignatureHash / WitnessSigHash / TaprootSigHash, SigChecker.CheckSchnorrSignature,
//
//	script.VerifyTxScript (lib/btc, lib/script of the repository the harness was built against).
//
// Model     : lean oracle_c02 (Model.SigHash with the cache threaded, Spec.SigHash).
// Reference : ref.go (the three algorithms from the specifications) and ec.go (BIP340 / ECDSA signer);
//
//	the property predicate on the real code is evaluated against these, never against gocoin.
package main

import (
	"bufio"
	"bytes"
	"encoding/hex"
	"encoding/json"
	"fmt"
	"io"
	"os"
	"os/exec"
	"strings"
	"sync"
	"time"

	"github.com/piotrnar/gocoin/lib/btc"
	"github.com/piotrnar/gocoin/lib/script"
	"verif/vlib"
)

var r *vlib.Run
var o *vlib.Oracle

// ---------------------------------------------------------------- cases

type Call struct {
	Kind   string  `json:"kind"` // leg | wit | tap
	Sc     string  `json:"sc,omitempty"`
	Amount uint64  `json:"amount,omitempty"`
	Idx    int     `json:"idx"`
	Ht     uint32  `json:"ht"`
	Annex  *string `json:"annex,omitempty"` // nil = no annex
	Leaf   string  `json:"leaf,omitempty"`
	Cs     uint32  `json:"codesep,omitempty"`
	Script bool    `json:"script,omitempty"`
	NoSpec bool    `json:"nospec,omitempty"` // legacy script code of tens of thousands of operations: the Lean Spec (quadratic parser) is asked in thorough only
}

type JIn struct {
	Hash string `json:"hash"`
	Vout uint32 `json:"vout"`
	Seq  uint32 `json:"seq"`
}
type JOut struct {
	Value uint64 `json:"value"`
	Pk    string `json:"pk"`
}
type Case struct {
	Label   string `json:"label"`
	Version uint32 `json:"version"`
	Lock    uint32 `json:"lock"`
	Ins     []JIn  `json:"ins"`
	Outs    []JOut `json:"outs"`
	Spent   []JOut `json:"spent"`
	Calls   []Call `json:"calls"`
	Par     int    `json:"parallel,omitempty"` // >0: additionally run the calls from Par goroutines on one object
}

func hx(b []byte) string { return hex.EncodeToString(b) }
func unhx(s string) []byte {
	b, _ := hex.DecodeString(s)
	return b
}

func (c *Case) ref() (*rTx, []rOut) {
	t := &rTx{Version: c.Version, Lock: c.Lock}
	for _, i := range c.Ins {
		t.Ins = append(t.Ins, rIn{Hash: unhx(i.Hash), Vout: i.Vout, Seq: i.Seq})
	}
	for _, x := range c.Outs {
		t.Outs = append(t.Outs, rOut{x.Value, unhx(x.Pk)})
	}
	var sp []rOut
	for _, x := range c.Spent {
		sp = append(sp, rOut{x.Value, unhx(x.Pk)})
	}
	return t, sp
}

// real builds a fresh gocoin transaction object (empty cache).
func (c *Case) real() *btc.Tx {
	tx := c.bare()
	c.alloc(tx, "append")
	return tx
}

// alloc: what a caller does before the first digest request - tx.AllocVerVars(), then the spent outputs of THIS
// transaction are installed: by append (wallet/signtx.go) or into a slice made for them (chain_accept.go, txpool).
func (c *Case) alloc(tx *btc.Tx, how string) {
	tx.AllocVerVars()
	if how == "assign" {
		tx.Spent_outputs = make([]*btc.TxOut, len(c.Spent))
		for i, x := range c.Spent {
			tx.Spent_outputs[i] = &btc.TxOut{Value: x.Value, Pk_script: unhx(x.Pk)}
		}
		return
	}
	for _, x := range c.Spent {
		tx.Spent_outputs = append(tx.Spent_outputs, &btc.TxOut{Value: x.Value, Pk_script: unhx(x.Pk)})
	}
}

// bare: the transaction object as the parser leaves it - TxVerVars is nil.
func (c *Case) bare() *btc.Tx {
	tx := &btc.Tx{Version: c.Version, Lock_time: c.Lock}
	for _, i := range c.Ins {
		in := &btc.TxIn{Sequence: i.Seq}
		copy(in.Input.Hash[:], unhx(i.Hash))
		in.Input.Vout = i.Vout
		tx.TxIn = append(tx.TxIn, in)
	}
	for _, x := range c.Outs {
		tx.TxOut = append(tx.TxOut, &btc.TxOut{Value: x.Value, Pk_script: unhx(x.Pk)})
	}
	return tx
}

func (c *Case) oracleLine() string { return "tx" + c.oracleFields() }

func (c *Case) oracleFields() string {
	var sb strings.Builder
	fmt.Fprintf(&sb, " %d %d %d %d %d", c.Version, c.Lock, len(c.Ins), len(c.Outs), len(c.Spent))
	for _, i := range c.Ins {
		fmt.Fprintf(&sb, " %s %d %d", i.Hash, i.Vout, i.Seq)
	}
	for _, x := range c.Outs {
		fmt.Fprintf(&sb, " %d %s", x.Value, vlib.Hex(unhx(x.Pk)))
	}
	for _, x := range c.Spent {
		fmt.Fprintf(&sb, " %d %s", x.Value, vlib.Hex(unhx(x.Pk)))
	}
	return sb.String()
}

func (k *Call) execdata() *btc.ScriptExecutionData {
	ed := &btc.ScriptExecutionData{M_tapleaf_hash: unhx(k.Leaf), M_codeseparator_pos: k.Cs, M_codeseparator_pos_init: true}
	if k.Annex != nil {
		ed.M_annex_hash = sha(cat(cs(uint64(len(unhx(*k.Annex)))), unhx(*k.Annex)))
	}
	return ed
}

// realCall runs one digest request on the real code: "panic", "nil" or the hex digest.
func realCall(tx *btc.Tx, k *Call) (res string) {
	defer func() {
		if e := recover(); e != nil {
			res = "panic"
		}
	}()
	var d []byte
	switch k.Kind {
	case "leg":
		d = tx.SignatureHash(unhx(k.Sc), k.Idx, int32(k.Ht))
	case "wit":
		d = tx.WitnessSigHash(unhx(k.Sc), k.Amount, k.Idx, int32(k.Ht))
	case "tap":
		d = tx.TaprootSigHash(k.execdata(), k.Idx, byte(k.Ht), k.Script)
	}
	if d == nil {
		return "nil"
	}
	return hx(d)
}

const callTimeout = 15 * time.Second

// guardedCall: realCall with a watchdog. A digest request that blocks forever (hashLock never released by an
// earlier call on the same object) would otherwise end the whole harness with the run-time's deadlock report.
func guardedCall(tx *btc.Tx, k *Call) (res string, hung bool) {
	ch := make(chan string, 1)
	go func() { ch <- realCall(tx, k) }()
	select {
	case res = <-ch:
		return res, false
	case <-time.After(callTimeout):
		return "", true
	}
}

// modelCall asks the oracle (cache threaded inside the oracle): kind, preimage, digest
func modelCall(k *Call) (kind, pre, dig string) {
	return modelAsk(k, k.Kind)
}

// modelAsk: cmd = "leg" / "wit" / "tap" (the one object of the oracle) or "wleg 3" … (object 3 of a history)
func modelAsk(k *Call, cmd string) (kind, pre, dig string) {
	var rep string
	switch k.Kind {
	case "leg":
		rep = o.MustAsk(fmt.Sprintf("%s %s %d %d", cmd, vlib.Hex(unhx(k.Sc)), k.Idx, k.Ht))
	case "wit":
		rep = o.MustAsk(fmt.Sprintf("%s %s %d %d %d", cmd, vlib.Hex(unhx(k.Sc)), k.Amount, k.Idx, k.Ht))
	case "tap":
		ah := "nil"
		if k.Annex != nil {
			ah = modelAnnexHash(unhx(*k.Annex)) // Model.annexHashOf (compared with the reference there)
		}
		rep = o.MustAsk(fmt.Sprintf("%s %s %s %d %d %d %s", cmd, ah, vlib.Hex(unhx(k.Leaf)), k.Cs, k.Idx, k.Ht, b01(k.Script)))
	}
	f := strings.Fields(rep)
	switch {
	case len(f) == 1 && (f[0] == "panic" || f[0] == "undefined"):
		return f[0], "", ""
	case len(f) == 2 && f[0] == "const":
		return "const", "", f[1]
	case len(f) == 3 && f[0] == "hashed":
		return "hashed", f[1], f[2]
	}
	fmt.Fprintln(os.Stderr, "ORACLE-ERROR: unexpected reply", rep)
	os.Exit(3)
	return
}

func b01(b bool) string {
	if b {
		return "1"
	}
	return "0"
}

// specCall asks the Lean Spec: "none" | "one" | hex preimage
func specCall(k *Call) string {
	var rep string
	switch k.Kind {
	case "leg":
		rep = o.MustAsk(fmt.Sprintf("sleg %s %d %d", vlib.Hex(unhx(k.Sc)), k.Idx, k.Ht))
	case "wit":
		rep = o.MustAsk(fmt.Sprintf("swit %s %d %d %d", vlib.Hex(unhx(k.Sc)), k.Amount, k.Idx, k.Ht))
	case "tap":
		an := "nil"
		if k.Annex != nil {
			an = vlib.Hex(unhx(*k.Annex))
		}
		rep = o.MustAsk(fmt.Sprintf("stap %s %s %d %d %d %s", an, vlib.Hex(unhx(k.Leaf)), k.Cs, k.Idx, k.Ht, b01(k.Script)))
	}
	f := strings.Fields(rep)
	if len(f) == 2 && f[0] == "msg" {
		return f[1]
	}
	return rep
}

// refCall: the reference. defined=false: the specification defines no digest for these arguments.
func refCall(t *rTx, spent []rOut, k *Call) (defined bool, digest string, pre []byte) {
	switch k.Kind {
	case "leg":
		p, one, ok := refLegacy(t, unhx(k.Sc), k.Idx, k.Ht)
		if !ok {
			return false, "", nil
		}
		if one {
			return true, "01" + strings.Repeat("00", 31), nil
		}
		return true, hx(dsha(p)), p
	case "wit":
		p, ok := refBIP143(t, unhx(k.Sc), k.Amount, k.Idx, k.Ht)
		if !ok {
			return false, "", nil
		}
		return true, hx(dsha(p)), p
	case "tap":
		var an []byte
		if k.Annex != nil {
			an = unhx(*k.Annex)
			if an == nil {
				an = []byte{}
			}
		}
		var ext *refExt
		if k.Script {
			ext = &refExt{unhx(k.Leaf), k.Cs}
		}
		p, ok := refBIP341(t, spent, k.Idx, byte(k.Ht), an, ext)
		if !ok {
			return false, "", nil
		}
		return true, hx(sha(p)), p
	}
	return
}

var nilChecked int
var signKey = mustBig("5c0de5c0de5c0de5c0de5c0de5c0de5c0de5c0de5c0de5c0de5c0de5c0de5c0d")

// schnorrAccepts: does the real CheckSchnorrSignature accept a signature (made by the independent
// signer over whatever digest the real TaprootSigHash hands out) although no digest is defined?
func schnorrAccepts(c *Case, k *Call) (accepted bool, digestUsed string) {
	defer func() {
		if e := recover(); e != nil {
			accepted = false
		}
	}()
	tx := c.real()
	d := tx.TaprootSigHash(k.execdata(), k.Idx, byte(k.Ht), k.Script)
	if d == nil {
		d = make([]byte, 32) // the digest a careless caller would see
		digestUsed = "nil"
	} else {
		digestUsed = hx(d)
	}
	pk, _ := xonlyPub(signKey)
	sig := schnorrSign(signKey, d, make([]byte, 32))
	if byte(k.Ht) != 0 {
		sig = append(sig, byte(k.Ht))
	}
	ver := script.SIGVERSION_TAPROOT
	if k.Script {
		ver = script.SIGVERSION_TAPSCRIPT
	}
	ch := &script.SigChecker{Tx: c.real(), Idx: k.Idx}
	return ch.CheckSchnorrSignature(sig, pk, ver, k.execdata()), digestUsed
}

// runCase: all calls of the case, in order, on ONE real object and ONE model object; every result is
// compared with (1) the reference digest, (2) the same call on a fresh real object, (3) the model.
func runCase(c *Case) []string {
	t, spent := c.ref()
	o.MustAsk(c.oracleLine())
	r.Hit("shape:ins=" + bucket(len(c.Ins)) + ",outs=" + bucket(len(c.Outs)))
	shared := c.real()
	txh := vlib.ShortHash([]byte(c.oracleLine()))
	fresh := make([]string, len(c.Calls))
	signed := 0
	for n := range c.Calls {
		k := &c.Calls[n]
		one := Case{Label: c.Label, Version: c.Version, Lock: c.Lock, Ins: c.Ins, Outs: c.Outs, Spent: c.Spent, Calls: c.Calls[:n+1]}
		got, hung := guardedCall(shared, k)
		if hung {
			// the shared object is stuck (hashLock left locked): nothing more can be asked of it
			what := fmt.Sprintf("call %d (%s, input %d, hash type 0x%x) on the shared transaction object never returns (no answer within %v): an earlier request left hashLock locked", n, k.Kind, k.Idx, k.Ht, callTimeout)
			if len(c.Spent) >= len(c.Ins) {
				r.PropFail("cache-call-blocks", what, one)
			} else {
				r.TieFail("model-call-blocks", what+" - after a recovered panic (Spent_outputs shorter than the inputs); the model answers every request", one)
			}
			return nil
		}
		fresh[n] = realCall(c.real(), k)
		defined, want, refPre := refCall(t, spent, k)
		mk, mpre, mdig := modelCall(k)
		inRange := k.Idx >= 0 && k.Idx < len(c.Ins) && (k.Kind != "tap" || len(c.Spent) == len(c.Ins))
		dk := ""
		if inRange {
			dk = fmt.Sprintf("%s/%d/%x/%s", k.Kind, k.Idx, k.Ht, vlib.ShortHash([]byte(txh+k.Sc+k.Leaf)))
		}
		class := k.Kind
		if !inRange {
			class += "-idx-out-of-range"
		} else if !defined {
			class += "-undefined"
		}
		r.Eval(c.Label+":"+class, dk)
		r.Hit("real:" + k.Kind + ":" + resClass(got))

		// (1) the digest is the specified one
		if defined && got != want {
			r.PropFail("digest-"+k.Kind, fmt.Sprintf("%s digest for input %d, hash type 0x%x is %s, the specification gives %s", k.Kind, k.Idx, k.Ht, got, want), one)
		}
		// (1b) no digest defined: the signature check must fail
		if !defined && inRange && k.Kind == "tap" && (got != "nil" || nilChecked < 60) {
			if got == "nil" {
				nilChecked++
			}
			if acc, used := schnorrAccepts(c, k); acc {
				r.PropFail("taproot-undefined-digest-accepted", fmt.Sprintf("BIP341 defines no digest for hash type 0x%02x / input %d of %d outputs, yet CheckSchnorrSignature accepts a signature over %s", k.Ht, k.Idx, len(c.Outs), used), one)
			}
			r.Hit("undefined-taproot-checked")
		}
		// (2) the cache never changes a result
		if got != fresh[n] && len(c.Spent) >= len(c.Ins) {
			r.PropFail("cache-"+k.Kind, fmt.Sprintf("call %d (%s, input %d, hash type 0x%x) returns %s on the shared object but %s on a fresh one", n, k.Kind, k.Idx, k.Ht, got, fresh[n]), one)
		}
		// (3) model = code
		mres := mdig
		switch mk {
		case "panic":
			mres = "panic"
		case "undefined":
			mres = "nil"
		}
		if mres != got {
			r.TieFail("model-"+k.Kind, fmt.Sprintf("model %s vs code %s (call %d: %s input %d hash type 0x%x)", mres, got, n, k.Kind, k.Idx, k.Ht), one)
		} else {
			r.TieOK()
		}
		// (4) the model's preimage is the reference preimage
		if defined && refPre != nil && mk == "hashed" && mpre != hx(refPre) {
			r.TieFail("model-preimage-"+k.Kind, fmt.Sprintf("model preimage differs from the reference preimage (call %d: %s input %d hash type 0x%x)", n, k.Kind, k.Idx, k.Ht), one)
		}
		// (5) the signature check around the taproot digest: real CheckSchnorrSignature = the model's schnorrPlan
		// (thorough sweeps all 256 hash types per transaction: there every third request is followed by the check)
		if k.Kind == "tap" && k.Idx >= 0 && (!r.Thorough() || c.Label == "corpus" || n%3 == 0) {
			if !schnorrTie(c, shared, n, k, mk, mdig, got, &signed, one) {
				return nil
			}
		}
	}
	if c.Par > 0 {
		// the concurrent callers run in a child process: a run-time fatal error there (deadlock on hashLock, concurrent
		// map access, a crash no recover() can catch) is an observation about THIS transaction and call list
		q := &parReq{Group: []parMember{{c, fresh}}, Rounds: 1}
		bad, crash := askChild(q)
		raceNote(q, map[string]interface{}{"group": []*Case{c}})
		r.Eval(c.Label+":parallel", "")
		switch {
		case crash != "":
			r.PropFail("cache-parallel-crash", fmt.Sprintf("%d concurrent callers on one transaction object (%d digest requests each, different orders): %s", c.Par, len(c.Calls), crash), c)
		case bad != "":
			r.PropFail("cache-parallel", bad, c)
		default:
			r.Hit(fmt.Sprintf("parallel:callers=%d:ok", c.Par))
		}
	}
	return fresh
}

// ---------------------------------------------------------------- the child process for concurrent callers

// parReq: Group = digest requests, every member on its own transaction object with Case.Par callers, all at the same
// time; Multis = whole transactions whose spent inputs are verified by one goroutine each, all at the same time.
type parReq struct {
	Group  []parMember `json:"group,omitempty"`
	Multis []*Built    `json:"multis,omitempty"`
	Node   *nodeReq    `json:"node,omitempty"`
	Canary bool        `json:"canary,omitempty"` // race-detector child only: perform one deliberate data race
	Rounds int         `json:"rounds"`
}
type parRep struct {
	Bad  string `json:"bad"`
	Note string `json:"note,omitempty"` // counters of the request for the parent's histogram ("name=n name=n")
}

var lastChildNote string

// childMain: `c02 -child` — one request per line on stdin, one reply per line on stdout, until EOF.
func childMain() {
	script.DBG_ERR = false
	in := bufio.NewReaderSize(os.Stdin, 1<<20)
	out := bufio.NewWriter(os.Stdout)
	os.Stdout = os.Stderr // the reply channel is ours alone: whatever the client packages print goes to the crash-report side
	for {
		line, err := in.ReadBytes('\n')
		if len(bytes.TrimSpace(line)) > 0 {
			var q parReq
			bad := json.Unmarshal(line, &q) != nil
			kinds := 0
			for _, present := range []bool{len(q.Group) > 0, len(q.Multis) > 0, q.Node != nil, q.Canary} {
				if present {
					kinds++
				}
			}
			bad = bad || kinds != 1
			for _, m := range q.Group {
				bad = bad || m.Case == nil || len(m.Fresh) != len(m.Case.Calls)
			}
			if q.Node != nil {
				q.Multis = q.Node.Txs // same shape checks
			}
			for _, m := range q.Multis {
				bad = bad || m == nil || len(m.Idx) != len(m.Want) || len(m.Idx) != len(m.Sig) || len(m.Idx) != len(m.Wit) || len(m.Idx) != len(m.Kind)
			}
			if bad {
				fmt.Fprintln(os.Stderr, "c02 -child: bad request")
				os.Exit(4)
			}
			var res, note string
			if q.Canary {
				raceCanary()
			} else if len(q.Group) > 0 {
				res = runDigestsParallel(q.Group, q.Rounds)
			} else if q.Node != nil {
				res = runNodeChild(q.Node, q.Rounds)
				if res == "" {
					res = runPoolChild(q.Node, q.Rounds)
					note = fmt.Sprintf("submitted=%d variants=%d variants-failing=%d pool-inputs=%d", poolNote.submitted, poolNote.variants, poolNote.variantsBad, poolNote.mem)
				}
			} else {
				res = runSpendsParallel(q.Multis, q.Rounds)
			}
			b, _ := json.Marshal(parRep{res, note})
			out.Write(b)
			out.WriteByte('\n')
			out.Flush()
		}
		if err != nil {
			return
		}
	}
}

// headBuf keeps the first bytes written to it (a Go crash report starts with the reason).
type headBuf struct {
	mu sync.Mutex
	b  []byte
}

func (h *headBuf) Write(p []byte) (int, error) {
	h.mu.Lock()
	if room := 3000 - len(h.b); room > 0 {
		if len(p) < room {
			room = len(p)
		}
		h.b = append(h.b, p[:room]...)
	}
	h.mu.Unlock()
	return len(p), nil
}
func (h *headBuf) String() string { h.mu.Lock(); defer h.mu.Unlock(); return string(h.b) }

type parChild struct {
	cmd  *exec.Cmd
	in   io.WriteCloser
	out  *bufio.Reader
	errb *headBuf
}

var pc *parChild
var parChildrenStarted int
var childExe string   // "" = this executable; the race stream puts its -race build here
var childEnv []string // nil = the environment of this process

const parTimeout = 90 * time.Second

func parStart() *parChild {
	exe, err := os.Executable()
	if err != nil {
		fmt.Fprintln(os.Stderr, "c02: cannot find own executable:", err)
		os.Exit(3)
	}
	if childExe != "" {
		exe = childExe
	}
	p := &parChild{cmd: exec.Command(exe, "-child"), errb: &headBuf{}}
	p.cmd.Env = childEnv
	p.cmd.Stderr = p.errb
	p.in, _ = p.cmd.StdinPipe()
	so, _ := p.cmd.StdoutPipe()
	p.out = bufio.NewReaderSize(so, 1<<16)
	if err := p.cmd.Start(); err != nil {
		fmt.Fprintln(os.Stderr, "c02: cannot start the child process:", err)
		os.Exit(3)
	}
	parChildrenStarted++
	return p
}

func parStop() {
	if pc != nil {
		pc.in.Close()
		pc.cmd.Wait()
		pc = nil
	}
	if nodeDir != "" {
		os.RemoveAll(nodeDir)
		nodeDir = ""
	}
}

// askChild: bad = a wrong digest / verdict under concurrency; crash = the child died / hung on this request.
func askChild(q *parReq) (bad, crash string) {
	if pc == nil {
		pc = parStart()
	}
	p := pc
	b, _ := json.Marshal(q)
	type res struct {
		line []byte
		err  error
	}
	ch := make(chan res, 1)
	go func() {
		_, werr := p.in.Write(append(b, '\n'))
		if werr != nil {
			ch <- res{nil, werr}
			return
		}
		l, e := p.out.ReadBytes('\n')
		ch <- res{l, e}
	}()
	var x res
	hung := false
	select {
	case x = <-ch:
	case <-time.After(parTimeout):
		hung = true
		p.cmd.Process.Kill()
		x = <-ch
	}
	if !hung && x.err == nil {
		var rep parRep
		if json.Unmarshal(x.line, &rep) == nil {
			lastChildNote = rep.Note
			return rep.Bad, ""
		}
	}
	// the child is gone (or was killed): collect its status and the head of its crash report
	p.in.Close()
	werr := p.cmd.Wait()
	pc = nil
	status := "exit status 0"
	if werr != nil {
		status = werr.Error()
	}
	// (the node prints a line per rejected block - expected for the blocks that carry a bad signature)
	var kept []string
	for _, l := range strings.Split(p.errb.String(), "\n") {
		if !strings.HasPrefix(l, "VerifyScript failed") {
			kept = append(kept, l)
		}
	}
	reason := strings.TrimSpace(strings.Join(kept, "\n"))
	if i := strings.Index(reason, "\n\n"); i > 0 {
		reason = reason[:i] // the first paragraph: "fatal error: …" / "panic: …"
	}
	if len(reason) > 400 {
		reason = reason[:400]
	}
	reason = strings.ReplaceAll(reason, "\n", " | ")
	if hung {
		return "", fmt.Sprintf("no answer within %v (callers blocked: deadlock / livelock); the process was killed", parTimeout)
	}
	return "", fmt.Sprintf("the process died (%s): %s", status, reason)
}

func bucket(n int) string {
	switch {
	case n == 0:
		return "0"
	case n == 1:
		return "1"
	case n < 252:
		return "2..251"
	case n == 252:
		return "252"
	}
	return ">=253"
}

func resClass(s string) string {
	switch s {
	case "panic", "nil":
		return s
	case "01" + "00000000000000000000000000000000000000000000000000000000000000":
		return "one"
	case strings.Repeat("00", 32):
		return "zero"
	}
	return "digest"
}

// specCheck: the Lean Spec against the Go reference (validates the Spec the theorems speak about).
func specCheck(c *Case) {
	t, spent := c.ref()
	o.MustAsk(c.oracleLine())
	for n := range c.Calls {
		k := &c.Calls[n]
		if k.NoSpec && !r.Thorough() {
			continue
		}
		defined, want, refPre := refCall(t, spent, k)
		got := specCall(k)
		exp := "none"
		if defined {
			if refPre == nil {
				exp = "one"
			} else {
				exp = hx(refPre)
			}
		}
		_ = want
		if got != exp {
			one := Case{Label: "spec", Version: c.Version, Lock: c.Lock, Ins: c.Ins, Outs: c.Outs, Spent: c.Spent, Calls: []Call{*k}}
			r.TieFail("spec-"+k.Kind, fmt.Sprintf("Lean Spec and Go reference disagree (%s input %d hash type 0x%x): spec %.40s… ref %.40s…", k.Kind, k.Idx, k.Ht, got, exp), one)
		} else {
			r.TieOK()
		}
		r.Hit("spec-vs-ref:" + k.Kind)
	}
}

func replay(path string) {
	b, err := os.ReadFile(path)
	if err != nil {
		fmt.Println("cannot read replay:", err)
		os.Exit(3)
	}
	var doc struct {
		Key    string          `json:"key"`
		Replay json.RawMessage `json:"replay"`
	}
	if json.Unmarshal(b, &doc) != nil {
		fmt.Println("bad replay file")
		os.Exit(3)
	}
	var probe struct {
		E2E    *E2E        `json:"e2e"`
		DScr   *string     `json:"delsig_script"`
		DSig   *string     `json:"delsig_sig"`
		Multi  []*Multi    `json:"multi"`
		Group  []*Case     `json:"group"`
		Life   *Life       `json:"life"`
		LifeM  *LifeM      `json:"lifemulti"`
		Node   *NodeBlock  `json:"node"`
		Caller *CallerHist `json:"caller"`
		Sign   *SignCase   `json:"sign"`
		Race   bool        `json:"race"`
	}
	if json.Unmarshal(doc.Replay, &probe) == nil && probe.E2E != nil {
		runE2E(probe.E2E)
		return
	}
	if probe.Race {
		// found by the race-detector child: the sequential / ordinary concurrent replay below, then the same requests there
		raceReplay = true
		raceBuildStart()
		defer raceStream()
	}
	// a failure under concurrency depends on the schedule: many more rounds than in the run that found it
	if len(probe.Multi) > 0 {
		runMultis(probe.Multi, 400)
		return
	}
	if len(probe.Group) > 0 {
		runGroup(probe.Group, 60)
		return
	}
	if probe.Node != nil {
		runNode(probe.Node, 200)
		return
	}
	if probe.Caller != nil {
		runCallerHist(probe.Caller)
		return
	}
	if probe.Sign != nil {
		runSign(probe.Sign)
		return
	}
	if json.Unmarshal(doc.Replay, &probe) == nil && probe.Life != nil {
		runLife(probe.Life)
		return
	}
	if probe.LifeM != nil {
		runLifeM(probe.LifeM)
		return
	}
	if probe.DScr != nil && probe.DSig != nil {
		delSigOne(unhx(*probe.DScr), unhx(*probe.DSig), "replay")
		return
	}
	var c Case
	if json.Unmarshal(doc.Replay, &c) != nil {
		fmt.Println("bad replay case")
		os.Exit(3)
	}
	runCase(&c)
	specCheck(&c)
}

func main() {
	if len(os.Args) > 1 && os.Args[1] == "-child" {
		childMain()
		return
	}
	r = vlib.NewRun("C02")
	script.DBG_ERR = false
	var err error
	o, err = vlib.StartOracle("c02")
	if err != nil {
		fmt.Println("cannot start oracle:", err)
		os.Exit(3)
	}
	defer o.Close()
	r.Assume = []string{
		"SHA-256 is modelled, not verified (theorems hold for every hash function; the oracle's SHA-256 is compared with crypto/sha256 through every digest)",
		"Spent_outputs has one entry per input, and no entry that a request reads is nil at the moment the request runs. A caller that fills the slice entry by entry is modelled (Model.SigHashCaller: a request sees the stored prefix, a nil entry is the panic the code shows, with tapSingleHashes already published) and the theorems say which interleavings of stores and requests are sound; that the node's caller keeps to them (Chain.commitTxs starts its workers after the collecting loop) is not derived from the source here (C11's source fact spawnAfterComplete does that) but tested: whole blocks through Chain.ProcessBlockTransactions in the child process. The callers in client/txpool and client/usif/webui (sequential: all outputs first, then the inputs one after the other) are not driven",
		"tx.AllocVerVars() was called before the first digest request and the caller installed the spent outputs of this transaction (a nil TxVerVars - legacy digest unaffected, nil dereference on hashLock in WitnessSigHash / TaprootSigHash - is part of the life-cycle model and compared model-vs-code in the histories over several objects only)",
		"AllocVerVars / Clean are not called concurrently with a digest request on the same transaction object (no caller in /repo does); the histories over several transaction objects (AllocVerVars, requests, Clean, interleaved) are sequential",
		"external expectations exist for the legacy algorithm (Core's sighash.json, 500 vectors) and for BIP143 (corpus/C02/bip143_external.json: the signed BIP143 example transactions of /repo/lib/test/tx_valid.json whose authors' signatures must verify over the digest of code = reference = Lean Spec, two sighash values stated in that file, and the sighash values of the BIP143 text recalled offline and kept only because code, reference and Spec reproduce them). For BIP341 NO external vectors are available offline (the wallet-test-vectors are not in /repo; lib/test/bip341_script_tests.json is empty): there the Go reference ref.go and the Lean Spec - same author - are the only expectations, so a misreading of BIP341 shared by both is noticed only where gocoin disagrees",
		"each digest request is one atomic step (the functions hold hashLock for their whole body) and the tagged-hash objects handed out by btc.Hasher are private to the call: the model has no goroutines and treats tagged hashes as pure functions; both are outside the theorems and are covered only by the concurrent streams (child process) and by the same requests in a child built with Go's race detector (every unsynchronised access inside gocoin that happens there is a reported failure, independent of timing)",
		"which script code / code-separator position the interpreter hands to the digest functions at each executed CHECKSIG / CHECKMULTISIG / CHECKSIGADD is C01's model; here it is tested end to end (scripts with several checks and code separators)",
		"legacy: script codes that do not decode into opcodes are outside the specification (every caller fails on them); model and code are still compared there",
		"btc.SchnorrVerify / EcdsaVerify are C03's: here CheckSchnorrSignature is compared with the model's plan (fail / panic / verify this key, signature, message) and the verdict on that triple is the independent BIP340 verifier's; Tx.Sign / Tx.SignWitness have no Lean model - their signatures are judged by the independent ECDSA verifier over the reference digest",
	}
	if r.Replay != "" {
		replay(r.Replay)
		parStop()
		r.Finish("replay of one recorded case", "replay")
	}
	raceBuildStart()
	g := r.Rng
	secs := map[string]float64{}
	last := time.Now()
	lap := func(name string) {
		secs[name] = float64(int(time.Since(last).Seconds()*10)) / 10
		last = time.Now()
	}

	// 1. corpus: the F1 witnesses and one spend per kind through script.VerifyTxScript,
	//    Core's sighash.json (500 legacy vectors), hand-made boundary cases
	e2eCorpus()
	corpusSighashJSON()
	corpusBIP143External()
	for _, c := range handCorpus() {
		c := c
		runCase(&c)
		specCheck(&c)
	}
	lap("1-corpus")
	// 2. random end-to-end spends
	for i := 0; i < r.N(200, 4000); i++ {
		e := genE2E(g)
		runE2E(e)
	}
	lap("2-e2e-single-input")
	// 3. random transactions, hash-type sweeps on one object (cache threaded on both sides)
	ntx := r.N(120, 900)
	for i := 0; i < ntx; i++ {
		c := genCase(g, r.Thorough(), i)
		runCase(c)
		if i%4 == 0 {
			specCheck(c)
		}
		if i < 3 {
			s := *c
			if len(s.Calls) > 2 {
				s.Calls = s.Calls[:2]
			}
			r.Sample(s)
		}
	}
	lap("3-sweeps")
	// 4. call-order permutations and parallel callers on one object
	for i := 0; i < r.N(100, 2000); i++ {
		c := genCacheCase(g)
		runCase(c)
	}
	lap("4-cache-one-object")
	// 4b. digest requests on DIFFERENT transaction objects at the same time
	for i := 0; i < r.N(40, 800); i++ {
		runGroup(genGroup(g), 2)
	}
	lap("4b-parallel-different-transactions")
	// 4c. whole transactions with several signed inputs / scripts with several signature checks, sequentially on one
	//     object and with one goroutine per input
	multiStreams(g)
	lap("4c-multi-input-multi-check")
	// 4c'. whole blocks through the node's own caller of the digest functions (Chain.ProcessBlockTransactions),
	//      then their transactions through the mempool's caller (txpool.HandleNetTx, pool.go)
	nodeStreams(g)
	lap("4c2-blocks-through-commitTxs")
	secs["4c2-of-which-in-the-node"] = float64(int(nodeChildSecs*10)) / 10
	// 4c''. the same caller, one schedule at a time: Spent_outputs filled entry by entry between digest requests
	callerStreams(g)
	lap("4c3-caller-histories")
	// 4d. histories over several transaction objects: AllocVerVars / digest requests or whole spends / Clean, interleaved
	lifeStreams(g)
	lap("4d-lifecycle-across-objects")
	// 5. delSig (real code through the verif hook) against FindAndDelete and the model
	delSigCorpus()
	for i := 0; i < r.N(300, 20000); i++ {
		delSigCase(g, i)
	}
	lap("5-delsig")
	// 6. the signing side: Tx.Sign / Tx.SignWitness over a hash-type sweep, verified over the reference digest
	signStream(g)
	lap("6-sign-then-verify")
	// 7. a slice of the concurrent requests of 4 / 4b / 4c again, in a child built with the race detector
	raceStream()
	lap("7-race-detector-child")
	parStop()
	r.Extra["seconds_by_stream"] = secs
	r.Extra["oracle_requests"] = o.N
	r.Extra["parallel_child_processes_started"] = parChildrenStarted
	r.Finish("corpus (sighash.json, external BIP143 examples, boundary transactions, F1 witness), then random transactions (0..n inputs/outputs, CompactSize boundaries 252/253, random version/locktime/sequence) with a hash-type sweep per transaction (all 256 byte values in thorough, edge set + random in quick, 4-byte types for legacy/BIP143) for the three algorithms on ONE object, call-order permutations and parallel callers on one object and on several transaction objects at the same time; whole transactions with 1..8 really spent inputs out of 1..2500 (bare/P2SH/P2WSH/P2SH-P2WSH scripts and tapscripts with 1..4 CHECKSIG / CHECKMULTISIG / CHECKSIGADD checks, executed and unexecuted code separators between them, P2PKH/P2WPKH/key path) verified sequentially on one object and by one goroutine per input; whole blocks (1..3 transactions after a coinbase, 2..2500 inputs, every input verifiable: signed spends of all kinds next to anyone-can-spend inputs, or every input signed; funded by UTXO records of 1..64 outputs or by outputs of an earlier transaction of the block; one block in four with one signature over another digest) through the node's own caller Chain.ProcessBlockTransactions, 12..24 rounds on fresh transaction objects with three start disciplines of the node's workers; interleavings of storing the next spent output and digest requests on one object (the code's order, overlapping but safe, arbitrary); histories over 2..5 transaction objects (AllocVerVars with Spent_outputs assigned or appended / digest requests or whole spends / Clean / re-allocation, interleaved; the real code runs a whole history in one goroutine without I/O in between); Tx.Sign / Tx.SignWitness on every defined hash type and sign-extension edge bytes; the first concurrent requests again in a race-detector build; a case is distinct by (algorithm, input, hash type, hash of transaction+script) and non-trivial when the input index is in range",
		"Every digest of the real code is compared with an independent reference (ref.go) and with the Lean model; the model's preimage with the reference preimage; results on a shared object with results on a fresh object; undefined taproot cases are attacked with a real BIP340 signature over the digest handed out; after every taproot digest request the real CheckSchnorrSignature (same object) is compared with the model's plan for signatures of eight shapes (good, one bit off, foreign, 63/66/0 bytes, explicit 0x00), the model's annex hash with the reference; end-to-end taproot verdicts with the model's verdict derived from its own annex hash; a recovered panic of VerifyTxScript is a failure, not 'invalid'; end-to-end spends (P2PKH/bare with code separators and embedded signatures - including pre-BIP66 spends whose script code embeds its own lax-DER padded signature as a push of 75/76/77/…/255/256 bytes -, P2WPKH/P2WSH, taproot key and script path with annex) are signed by the independent signer over the reference digest and must verify, and must not verify over any other digest; the real delSig (verif hook) is compared with the reference FindAndDelete and the model at every push-opcode boundary; scripts with several signature checks are signed per check with the script code / separator position of THAT check (and, on purpose, with another check's) and must verify exactly when every signature is over its own reference digest; in histories over several transaction objects every digest / verdict must equal the one of a fresh object of the same transaction and the reference, and the Lean life-cycle model (lifeStep) is run through the same history; a block handed to Chain.ProcessBlockTransactions must be accepted exactly when every signature is over its own reference digest (else rejected for its scripts), and every spend must verify again on the transaction objects the node left behind; the same transactions (and copies with one bit of a scriptSig / witness item flipped) handed to the mempool's caller txpool.HandleNetTx must be accepted exactly when every input verifies against its own digest, on one OS thread and on all; on one object whose Spent_outputs is filled entry by entry the model answers every request as the code does (panic on a nil entry, later answers from the half-filled cache included) and, as long as every request read stored entries only, each result equals the fresh-object result and the reference; concurrent callers (several on one transaction object; several transaction objects at once; one goroutine per spent input through script.VerifyTxScript, fresh object per round, three start disciplines) run in a child process so that a crash, a hang, a wrong digest or a wrong verdict under concurrency is a reported failure with the transactions and call lists at hand.")
}

func mustBigHex(s string) []byte { return unhx(s) }

var _ = bytes.Equal
