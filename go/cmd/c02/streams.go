// The concurrent streams beyond "several callers on one object": different transaction objects at the same time
// (process-wide state such as shared hasher objects is not protected by a per-transaction lock), and whole inputs
// verified by one goroutine each (what the node does with the inputs of a block / of a mempool transaction).
package main

import (
	"fmt"

	"verif/vlib"
)

// runGroup: each case sequentially first (reference, model, fresh-object results), then all of them concurrently.
func runGroup(cs []*Case, rounds int) {
	var ms []parMember
	callers := 0
	for _, c := range cs {
		par := c.Par
		c.Par = 0
		fresh := runCase(c)
		c.Par = par
		if fresh == nil {
			return
		}
		ms = append(ms, parMember{c, fresh})
		callers += par
	}
	q := &parReq{Group: ms, Rounds: rounds}
	bad, crash := askChild(q)
	r.Eval("cache:parallel-different-transactions", "")
	rep := map[string]interface{}{"group": cs}
	raceNote(q, rep)
	switch {
	case crash != "":
		r.PropFail("parallel-txs-crash", fmt.Sprintf("%d transaction objects with %d concurrent callers in all, each issuing the digest requests of its own transaction: %s", len(cs), callers, crash), rep)
	case bad != "":
		r.PropFail("parallel-txs-digest", bad, rep)
	default:
		r.Hit(fmt.Sprintf("parallel:different-txs=%d:ok", len(cs)))
	}
}

func genGroup(g *vlib.Rng) []*Case {
	n := 2 + g.Intn(4)
	var cs []*Case
	for i := 0; i < n; i++ {
		c := genCacheCase(g)
		if g.Bool() {
			// taproot digests only (script path and key path): the tagged-hash heavy mix
			for j := range c.Calls {
				if c.Calls[j].Kind != "tap" {
					c.Calls[j] = genCall(g, c, "tap", []uint32{0, 1, 2, 3, 0x81, 0x82, 0x83}[g.Intn(7)])
				}
			}
		}
		c.Label = "group"
		c.Par = 1 + g.Intn(3)
		cs = append(cs, c)
	}
	return cs
}

// runMultis: every transaction sequentially (runMulti), then all their spent inputs at the same time, one goroutine each.
func runMultis(ms []*Multi, rounds int) {
	var bs []*Built
	inputs := 0
	for _, m := range ms {
		b, failed := runMulti(m)
		if failed {
			return // already wrong without any concurrency: the concurrent run would only repeat it
		}
		bs = append(bs, b)
		inputs += len(b.Idx)
	}
	q := &parReq{Multis: bs, Rounds: rounds}
	bad, crash := askChild(q)
	r.Eval("multi:parallel-inputs", "")
	rep := map[string]interface{}{"multi": ms}
	raceNote(q, rep)
	switch {
	case crash != "":
		r.PropFail("parallel-verify-crash", fmt.Sprintf("%d transactions, %d inputs verified through script.VerifyTxScript by one goroutine each: %s", len(ms), inputs, crash), rep)
	case bad != "":
		r.PropFail("parallel-verify-verdict", bad, rep)
	default:
		r.Hit(fmt.Sprintf("parallel:verify:txs=%d:ok", len(ms)))
	}
}

func multiStreams(g *vlib.Rng) {
	for _, m := range multiCorpus() {
		runMulti(m)
	}
	// small and medium transactions, one to four at a time
	for i := 0; i < r.N(45, 900); i++ {
		n := []int{1, 1, 2, 3, 4}[g.Intn(5)]
		var ms []*Multi
		for j := 0; j < n; j++ {
			size := 0
			if g.Chance(1, 4) {
				size = 1
			}
			ms = append(ms, genMulti(g, size))
		}
		runMultis(ms, r.N(9, 18))
	}
	// transactions with hundreds / thousands of inputs: the one-off fill of the shared hashes takes long
	for i := 0; i < r.N(6, 60); i++ {
		runMultis([]*Multi{genMulti(g, 2)}, r.N(24, 48))
	}
	for i := 0; i < r.N(3, 24); i++ {
		runMultis([]*Multi{genMulti(g, 3)}, r.N(24, 48))
	}
}
