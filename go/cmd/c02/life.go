// Histories over SEVERAL transaction objects: the life cycle of the scratch struct TxVerVars (lib/btc/tx.go
// Tx.AllocVerVars / Tx.Clean, as driven by chain_accept.go, Block.Clean, txpool, wallet/signtx.go).
//
// The property says "cached intermediate hashes never change a result, whatever the order of calls": a digest
// request (or a whole spend verified through script.VerifyTxScript) on transaction object B must give what it gives
// on a fresh object of B - whatever other transaction objects were allocated, asked for digests and cleaned before or
// in between. Model: Model/SigHashLife.lean (lifeStep freshAlloc), theorem lifecycle_transparent.
//
// The real code runs the WHOLE history first, in one goroutine and without any I/O in between (a struct that an
// allocator keeps per thread / per P is handed from Clean to the next AllocVerVars only if nothing else runs in
// between); references, fresh-object results and the model are evaluated afterwards.
package main

import (
	"fmt"
	"time"

	"github.com/piotrnar/gocoin/lib/btc"
	"verif/vlib"
)

type LifeEv struct {
	Op   string `json:"op"` // alloc | clean | call
	Obj  int    `json:"obj"`
	How  string `json:"how,omitempty"` // alloc: assign | append (how the caller installs Spent_outputs)
	Call *Call  `json:"call,omitempty"`
}

// Life: the transaction objects (Calls of the cases are not used) and the events on them.
type Life struct {
	Objs []*Case  `json:"objs"`
	Evs  []LifeEv `json:"evs"`
}

const lifeTimeout = 30 * time.Second

// lifeDrain: every history must stand on its own (a replay runs it alone). If Clean hands structs to an allocator
// that keeps them, the ones a history leaves behind are taken out again by objects that are never cleaned - so
// neither the next history nor the fresh objects of the evaluation phase start with somebody else's struct.
func lifeDrain(outstanding int) {
	for i := 0; i < outstanding+4; i++ {
		(&btc.Tx{}).AllocVerVars()
	}
}

// lifeReal: the whole history on the real code. res[n] = result of event n ("" unless it is a digest request).
func lifeReal(l *Life) (res []string, hung bool) {
	ch := make(chan []string, 1)
	go func() {
		txs := make([]*btc.Tx, len(l.Objs))
		for i, c := range l.Objs {
			txs[i] = c.bare()
		}
		out := make([]string, len(l.Evs))
		kept := 0
		for n := range l.Evs {
			e := &l.Evs[n]
			tx := txs[e.Obj]
			switch e.Op {
			case "alloc":
				if tx.TxVerVars == nil {
					l.Objs[e.Obj].alloc(tx, e.How)
				}
			case "clean":
				if tx.TxVerVars != nil {
					kept++
				}
				tx.Clean()
			case "call":
				out[n] = realCall(tx, e.Call)
			}
		}
		lifeDrain(kept)
		ch <- out
	}()
	select {
	case res = <-ch:
		return res, false
	case <-time.After(lifeTimeout):
		return nil, true
	}
}

func (l *Life) describe(upto int) string {
	s := ""
	for n := 0; n <= upto && n < len(l.Evs); n++ {
		e := &l.Evs[n]
		if n > 0 {
			s += " "
		}
		switch e.Op {
		case "alloc":
			s += fmt.Sprintf("T%d.AllocVerVars", e.Obj)
		case "clean":
			s += fmt.Sprintf("T%d.Clean", e.Obj)
		case "call":
			s += fmt.Sprintf("T%d.%s(in=%d,ht=0x%x)", e.Obj, e.Call.Kind, e.Call.Idx, e.Call.Ht)
		}
	}
	if len(s) > 600 {
		s = "… " + s[len(s)-600:]
	}
	return s
}

func runLife(l *Life) {
	for _, e := range l.Evs {
		if e.Obj < 0 || e.Obj >= len(l.Objs) || (e.Op == "call") != (e.Call != nil) {
			fmt.Println("bad life-cycle case")
			return
		}
	}
	got, hung := lifeReal(l)
	rep := func(n int) interface{} {
		return map[string]interface{}{"life": &Life{Objs: l.Objs, Evs: l.Evs[:n+1]}}
	}
	if hung {
		r.PropFail("lifecycle-blocks", fmt.Sprintf("a history of %d events over %d transaction objects (AllocVerVars / digest requests / Clean) does not finish within %v", len(l.Evs), len(l.Objs), lifeTimeout), rep(len(l.Evs)-1))
		return
	}
	// the model: the same history through lifeStep
	o.MustAsk("wnew")
	for _, c := range l.Objs {
		o.MustAsk("wobj" + c.oracleFields())
	}
	alive := make([]bool, len(l.Objs))
	handovers, cleaned := 0, 0
	type refT struct {
		t  *rTx
		sp []rOut
	}
	refs := make([]refT, len(l.Objs))
	for i, c := range l.Objs {
		refs[i].t, refs[i].sp = c.ref()
	}
	r.Hit(fmt.Sprintf("life:objects=%d", len(l.Objs)))
	for n := range l.Evs {
		e := &l.Evs[n]
		c := l.Objs[e.Obj]
		switch e.Op {
		case "alloc":
			if !alive[e.Obj] {
				alive[e.Obj] = true
				if cleaned > 0 {
					handovers++
					r.Hit("life:alloc-after-some-clean:" + e.How)
				}
			}
			o.MustAsk(fmt.Sprintf("walloc %d %s", e.Obj, e.How))
			continue
		case "clean":
			if alive[e.Obj] {
				cleaned++
			}
			alive[e.Obj] = false
			o.MustAsk(fmt.Sprintf("wclean %d", e.Obj))
			continue
		}
		k := e.Call
		mk, _, mdig := modelAsk(k, fmt.Sprintf("w%s %d", k.Kind, e.Obj))
		mres := mdig
		switch mk {
		case "panic":
			mres = "panic"
		case "undefined":
			mres = "nil"
		}
		if !alive[e.Obj] {
			// TxVerVars is nil: outside the property (every caller allocates first); model = code only
			r.Eval("life:call-on-nil-TxVerVars:"+k.Kind, "")
			if mres != got[n] {
				r.TieFail("model-life-nil-"+k.Kind, fmt.Sprintf("%s request on a transaction object whose TxVerVars is nil: model %s, code %s", k.Kind, mres, got[n]), rep(n))
			} else {
				r.TieOK()
			}
			continue
		}
		inRange := k.Idx >= 0 && k.Idx < len(c.Ins)
		defined, want, _ := refCall(refs[e.Obj].t, refs[e.Obj].sp, k)
		fresh := realCall(c.real(), k)
		dk := ""
		if inRange {
			dk = fmt.Sprintf("life/%s/%d/%x/%d/%s", k.Kind, k.Idx, k.Ht, handovers, vlib.ShortHash([]byte(c.oracleLine()+k.Sc+k.Leaf)))
		}
		class := "first-use"
		if handovers > 0 {
			class = "after-handover"
		}
		r.Eval("life:"+k.Kind+":"+class, dk)
		where := fmt.Sprintf("event %d of the history [%s]: %s digest for input %d, hash type 0x%x of transaction object T%d (%d inputs, %d outputs)", n, l.describe(n), k.Kind, k.Idx, k.Ht, e.Obj, len(c.Ins), len(c.Outs))
		switch {
		case got[n] != fresh:
			what := where + fmt.Sprintf(" is %s, a fresh object of the same transaction gives %s", got[n], fresh)
			if defined {
				what += " (the specification: " + want + ")"
			}
			r.PropFail("lifecycle-"+k.Kind, what+" - something computed for ANOTHER transaction object (or left behind by Clean / AllocVerVars) changed the result", rep(n))
		case defined && got[n] != want:
			r.PropFail("digest-"+k.Kind, where+fmt.Sprintf(" is %s, the specification gives %s", got[n], want), rep(n))
		}
		if mres != got[n] {
			r.TieFail("model-life-"+k.Kind, where+fmt.Sprintf(": model %s vs code %s", mres, got[n]), rep(n))
		} else {
			r.TieOK()
		}
	}
}

var lifeHts = []uint32{0, 1, 2, 3, 0x81, 0x82, 0x83}

// genLifeEvents: a random interleaving over n objects. Every object starts with TxVerVars nil; an event picks an
// object: nil -> AllocVerVars (rarely a digest request on the nil object), allocated -> a request from its pool of
// calls or Clean. After a Clean the next event is, more often than not, an AllocVerVars of another object (the node's
// pattern: block / mempool transaction done, next one starts).
func genLifeEvents(g *vlib.Rng, n, steps int, call func(obj int) *Call) []LifeEv {
	alive := make([]bool, n)
	var evs []LifeEv
	how := func() string {
		if g.Bool() {
			return "assign"
		}
		return "append"
	}
	justCleaned := false
	for len(evs) < steps {
		i := g.Intn(n)
		if justCleaned && g.Chance(2, 3) {
			// somebody who is not allocated
			for t := 0; t < 8 && alive[i]; t++ {
				i = g.Intn(n)
			}
		}
		justCleaned = false
		switch {
		case !alive[i] && call != nil && g.Chance(1, 30):
			evs = append(evs, LifeEv{Op: "call", Obj: i, Call: call(i)})
		case !alive[i]:
			alive[i] = true
			evs = append(evs, LifeEv{Op: "alloc", Obj: i, How: how()})
			// a freshly allocated object is used at once
			for j := 1 + g.Intn(3); j > 0 && call != nil; j-- {
				evs = append(evs, LifeEv{Op: "call", Obj: i, Call: call(i)})
			}
		case g.Chance(1, 3):
			alive[i] = false
			justCleaned = true
			evs = append(evs, LifeEv{Op: "clean", Obj: i})
		default:
			evs = append(evs, LifeEv{Op: "call", Obj: i, Call: call(i)})
		}
	}
	return evs
}

func genLife(g *vlib.Rng) *Life {
	l := &Life{}
	n := 2 + g.Intn(4)
	pools := make([][]Call, n)
	// one digest family for the whole history (the per-family cached fields are hit again and again) or a mix
	family := []string{"", "", "tap", "tap", "wit", "leg"}[g.Intn(6)]
	for i := 0; i < n; i++ {
		c := genTxShape(g, false)
		for len(c.Ins) == 0 || len(c.Ins) > 20 {
			c = genTxShape(g, false)
		}
		if i > 0 && g.Chance(1, 6) {
			// same inputs and spent outputs as the previous one, other outputs (a replacement) - or the other way round
			p := l.Objs[i-1]
			if g.Bool() {
				c.Ins, c.Spent = p.Ins, p.Spent
			} else {
				c.Outs = p.Outs
			}
		}
		c.Label = "life"
		l.Objs = append(l.Objs, c)
		for j := 0; j < 6; j++ {
			kind := family
			if kind == "" {
				kind = []string{"wit", "tap", "tap", "wit", "leg"}[g.Intn(5)]
			}
			ht := lifeHts[g.Intn(len(lifeHts))]
			if g.Chance(1, 8) {
				ht = uint32(g.Intn(256))
			}
			pools[i] = append(pools[i], genCall(g, c, kind, ht))
		}
	}
	l.Evs = genLifeEvents(g, n, 12+g.Intn(30), func(i int) *Call {
		k := pools[i][g.Intn(len(pools[i]))]
		return &k
	})
	return l
}

// ---------------------------------------------------------------- whole spends

// LifeM: whole signed transactions; event "call" = verify spend N of the object through script.VerifyTxScript.
type LifeM struct {
	Multis []*Multi  `json:"multis"`
	Evs    []LifeMEv `json:"evs"`
}
type LifeMEv struct {
	Op  string `json:"op"` // alloc | clean | verify
	Obj int    `json:"obj"`
	How string `json:"how,omitempty"`
	N   int    `json:"n,omitempty"`
}

func runLifeM(l *LifeM) {
	bs := make([]*Built, len(l.Multis))
	for i, m := range l.Multis {
		bs[i] = m.build()
	}
	for _, e := range l.Evs {
		if e.Obj < 0 || e.Obj >= len(bs) || (e.Op == "verify" && (e.N < 0 || e.N >= len(bs[e.Obj].Idx))) {
			fmt.Println("bad life-cycle case")
			return
		}
	}
	type out struct {
		res   []string
		alive []bool
	}
	ch := make(chan out, 1)
	go func() {
		txs := make([]*btc.Tx, len(bs))
		for i, b := range bs {
			txs[i] = b.bare()
		}
		o := out{make([]string, len(l.Evs)), make([]bool, len(l.Evs))}
		kept := 0
		for n, e := range l.Evs {
			tx := txs[e.Obj]
			switch e.Op {
			case "alloc":
				if tx.TxVerVars == nil {
					bs[e.Obj].Tx.alloc(tx, e.How)
				}
			case "clean":
				if tx.TxVerVars != nil {
					kept++
				}
				tx.Clean()
			case "verify":
				o.alive[n] = tx.TxVerVars != nil
				if o.alive[n] {
					o.res[n] = bs[e.Obj].verify(tx, e.N)
				}
			}
		}
		lifeDrain(kept)
		ch <- o
	}()
	var got out
	select {
	case got = <-ch:
	case <-time.After(lifeTimeout):
		r.PropFail("lifecycle-blocks", fmt.Sprintf("a history of %d events over %d transaction objects (AllocVerVars / spends verified through VerifyTxScript / Clean) does not finish within %v", len(l.Evs), len(bs), lifeTimeout), map[string]interface{}{"lifemulti": l})
		return
	}
	r.Hit(fmt.Sprintf("life-e2e:objects=%d", len(bs)))
	cleaned := 0
	for n, e := range l.Evs {
		if e.Op == "clean" {
			cleaned++
		}
		if e.Op != "verify" || !got.alive[n] {
			continue
		}
		b, m := bs[e.Obj], l.Multis[e.Obj]
		s := &m.Spends[e.N]
		want := okfail(b.Want[e.N])
		class := "first-use"
		if cleaned > 0 {
			class = "after-some-clean"
		}
		r.Eval("life-e2e:"+s.Kind+":"+class, fmt.Sprintf("life-e2e/%s/%d/%d/%s", s.Kind, s.Idx, cleaned, vlib.ShortHash([]byte(b.Tx.oracleLine()+b.Sig[e.N]+fmt.Sprint(b.Wit[e.N])))))
		if got.res[n] == want {
			continue
		}
		alone := b.verify(b.real(), e.N)
		key := "e2e-" + s.Kind
		what := fmt.Sprintf("event %d of a history over %d transaction objects (AllocVerVars / spends / Clean): %s spend of input %d of T%d (signatures by the independent signer, %s): VerifyTxScript says %s, the reference digests give %s", n, len(bs), s.Kind, s.Idx, e.Obj, b.Class[e.N], got.res[n], want)
		if alone == want {
			key = "lifecycle-e2e-" + s.Kind
			what += fmt.Sprintf(" - on a fresh object of this transaction the verdict is %s: what was verified (and cleaned) before on this or ANOTHER transaction object changed it", alone)
		}
		r.PropFail(key, what, map[string]interface{}{"lifemulti": &LifeM{Multis: l.Multis, Evs: l.Evs[:n+1]}})
		return
	}
}

func genLifeM(g *vlib.Rng) *LifeM {
	l := &LifeM{}
	n := 2 + g.Intn(3)
	taproot := g.Chance(1, 3)
	for i := 0; i < n; i++ {
		m := genMulti(g, 0)
		if taproot {
			for j := range m.Spends {
				if m.Spends[j].Kind != "tapscript" && m.Spends[j].Kind != "p2tr-key" {
					m.Spends[j] = genSpend(g, m.Spends[j].Idx, multiKinds[g.Intn(6)])
				}
			}
		}
		l.Multis = append(l.Multis, m)
	}
	next := make([]int, n) // the node verifies the inputs of a transaction in order; wrap around after the last
	evs := genLifeEvents(g, n, 10+g.Intn(20), func(i int) *Call { return &Call{} })
	for _, e := range evs {
		x := LifeMEv{Op: e.Op, Obj: e.Obj, How: e.How}
		if e.Op == "call" {
			x.Op = "verify"
			x.N = next[e.Obj] % len(l.Multis[e.Obj].Spends)
			next[e.Obj]++
		}
		l.Evs = append(l.Evs, x)
	}
	return l
}

// lifeCorpus: the shapes written out - two and three objects, one digest family each, strictly one after the other
// (alloc, requests, clean; next object), every valid hash type; then the same with the first object allocated again.
func lifeCorpus(g *vlib.Rng) []*Life {
	var out []*Life
	for _, kind := range []string{"wit", "tap", "leg"} {
		for v := 0; v < 3; v++ {
			l := &Life{}
			n := 2 + v%2
			for i := 0; i < n; i++ {
				c := genShapeN(g, 1+g.Intn(3), 1+g.Intn(3))
				c.Label = "life"
				l.Objs = append(l.Objs, c)
			}
			order := []int{}
			for i := 0; i < n; i++ {
				order = append(order, i)
			}
			if v == 2 {
				order = append(order, 0)
			}
			for _, i := range order {
				how := "assign"
				if (i+v)%2 == 1 {
					how = "append"
				}
				l.Evs = append(l.Evs, LifeEv{Op: "alloc", Obj: i, How: how})
				for _, ht := range lifeHts {
					k := genCall(g, l.Objs[i], kind, ht)
					k.Idx = int(ht) % len(l.Objs[i].Ins)
					l.Evs = append(l.Evs, LifeEv{Op: "call", Obj: i, Call: &k})
				}
				l.Evs = append(l.Evs, LifeEv{Op: "clean", Obj: i})
			}
			out = append(out, l)
		}
	}
	return out
}

func lifeStreams(g *vlib.Rng) {
	for _, l := range lifeCorpus(g) {
		runLife(l)
	}
	for i := 0; i < r.N(120, 1500); i++ {
		runLife(genLife(g))
	}
	for i := 0; i < r.N(40, 500); i++ {
		runLifeM(genLifeM(g))
	}
}
