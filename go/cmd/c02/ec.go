// Independent secp256k1 arithmetic (math/big, affine), BIP340 Schnorr sign/verify and ECDSA signing.
// Written from SEC2 / BIP340 / RFC6979-free (nonce from the harness PRNG); shares no code with gocoin.
package main

import (
	"crypto/sha256"
	"math/big"
)

var (
	ecP, _  = new(big.Int).SetString("FFFFFFFFFFFFFFFFFFFFFFFFFFFFFFFFFFFFFFFFFFFFFFFFFFFFFFFEFFFFFC2F", 16)
	ecN, _  = new(big.Int).SetString("FFFFFFFFFFFFFFFFFFFFFFFFFFFFFFFEBAAEDCE6AF48A03BBFD25E8CD0364141", 16)
	ecGx, _ = new(big.Int).SetString("79BE667EF9DCBBAC55A06295CE870B07029BFCDB2DCE28D959F2815B16F81798", 16)
	ecGy, _ = new(big.Int).SetString("483ADA7726A3C4655DA4FBFC0E1108A8FD17B448A68554199C47D08FFB10D4B8", 16)
)

type pt struct{ x, y *big.Int } // nil x = infinity

func ptAdd(a, b pt) pt {
	if a.x == nil {
		return b
	}
	if b.x == nil {
		return a
	}
	var l *big.Int
	if a.x.Cmp(b.x) == 0 {
		if new(big.Int).Mod(new(big.Int).Add(a.y, b.y), ecP).Sign() == 0 {
			return pt{}
		}
		num := new(big.Int).Mul(a.x, a.x)
		num.Mul(num, big.NewInt(3))
		den := new(big.Int).Lsh(a.y, 1)
		l = num.Mul(num, den.ModInverse(den, ecP))
	} else {
		num := new(big.Int).Sub(b.y, a.y)
		den := new(big.Int).Sub(b.x, a.x)
		den.Mod(den, ecP)
		l = num.Mul(num, den.ModInverse(den, ecP))
	}
	l.Mod(l, ecP)
	x := new(big.Int).Mul(l, l)
	x.Sub(x, a.x).Sub(x, b.x).Mod(x, ecP)
	y := new(big.Int).Sub(a.x, x)
	y.Mul(y, l).Sub(y, a.y).Mod(y, ecP)
	return pt{x, y}
}

func ptMul(k *big.Int, p pt) pt {
	r := pt{}
	for i := k.BitLen() - 1; i >= 0; i-- {
		r = ptAdd(r, r)
		if k.Bit(i) == 1 {
			r = ptAdd(r, p)
		}
	}
	return r
}

func ecG() pt { return pt{new(big.Int).Set(ecGx), new(big.Int).Set(ecGy)} }

func b32(x *big.Int) []byte {
	b := x.Bytes()
	out := make([]byte, 32)
	copy(out[32-len(b):], b)
	return out
}

func liftX(x *big.Int) (pt, bool) {
	if x.Cmp(ecP) >= 0 {
		return pt{}, false
	}
	c := new(big.Int).Exp(x, big.NewInt(3), ecP)
	c.Add(c, big.NewInt(7)).Mod(c, ecP)
	e := new(big.Int).Add(ecP, big.NewInt(1))
	e.Rsh(e, 2)
	y := new(big.Int).Exp(c, e, ecP)
	if new(big.Int).Exp(y, big.NewInt(2), ecP).Cmp(c) != 0 {
		return pt{}, false
	}
	if y.Bit(0) == 1 {
		y.Sub(ecP, y)
	}
	return pt{new(big.Int).Set(x), y}, true
}

func taggedHash(tag string, parts ...[]byte) []byte {
	t := sha256.Sum256([]byte(tag))
	h := sha256.New()
	h.Write(t[:])
	h.Write(t[:])
	for _, p := range parts {
		h.Write(p)
	}
	return h.Sum(nil)
}

// xonlyPub returns the BIP340 public key of secret d (and the possibly negated secret).
func xonlyPub(d *big.Int) ([]byte, *big.Int) {
	P := ptMul(d, ecG())
	dd := new(big.Int).Set(d)
	if P.y.Bit(0) == 1 {
		dd.Sub(ecN, dd)
	}
	return b32(P.x), dd
}

// schnorrSign: BIP340 signing of an arbitrary-length message (the algorithm does not need 32 bytes).
func schnorrSign(d *big.Int, msg, aux []byte) []byte {
	px, dd := xonlyPub(d)
	t := taggedHash("BIP0340/aux", aux)
	db := b32(dd)
	for i := range t {
		t[i] ^= db[i]
	}
	k0 := new(big.Int).SetBytes(taggedHash("BIP0340/nonce", t, px, msg))
	k0.Mod(k0, ecN)
	if k0.Sign() == 0 {
		k0.SetInt64(1)
	}
	R := ptMul(k0, ecG())
	if R.y.Bit(0) == 1 {
		k0.Sub(ecN, k0)
	}
	e := new(big.Int).SetBytes(taggedHash("BIP0340/challenge", b32(R.x), px, msg))
	e.Mod(e, ecN)
	s := e.Mul(e, dd)
	s.Add(s, k0).Mod(s, ecN)
	return append(b32(R.x), b32(s)...)
}

func schnorrVerify(pk, sig, msg []byte) bool {
	if len(pk) != 32 || len(sig) != 64 {
		return false
	}
	P, ok := liftX(new(big.Int).SetBytes(pk))
	if !ok {
		return false
	}
	rr := new(big.Int).SetBytes(sig[:32])
	s := new(big.Int).SetBytes(sig[32:])
	if rr.Cmp(ecP) >= 0 || s.Cmp(ecN) >= 0 {
		return false
	}
	e := new(big.Int).SetBytes(taggedHash("BIP0340/challenge", sig[:32], pk, msg))
	e.Mod(e, ecN)
	e.Sub(ecN, e)
	R := ptAdd(ptMul(s, ecG()), ptMul(e, P))
	if R.x == nil || R.y.Bit(0) == 1 {
		return false
	}
	return R.x.Cmp(rr) == 0
}

// tapTweak: output key Q = P + H_TapTweak(P‖root)·G ; returns x(Q), parity of Q, tweaked secret for key-path spends.
func tapTweak(d *big.Int, root []byte) (q []byte, parity byte, dq *big.Int) {
	px, dd := xonlyPub(d)
	t := new(big.Int).SetBytes(taggedHash("TapTweak", px, root))
	t.Mod(t, ecN)
	dq = new(big.Int).Add(dd, t)
	dq.Mod(dq, ecN)
	Q := ptMul(dq, ecG())
	if Q.y.Bit(0) == 1 {
		parity = 1
	}
	return b32(Q.x), parity, dq
}

// compressed public key
func pub33(d *big.Int) []byte {
	P := ptMul(d, ecG())
	return append([]byte{byte(2 + P.y.Bit(0))}, b32(P.x)...)
}

func derInt(x *big.Int) []byte {
	b := x.Bytes()
	if len(b) == 0 {
		b = []byte{0}
	}
	if b[0] >= 0x80 {
		b = append([]byte{0}, b...)
	}
	return append([]byte{2, byte(len(b))}, b...)
}

// ecdsaSign: textbook ECDSA over a 32-byte digest, nonce k supplied by the caller, low-S, DER encoded.
func ecdsaSign(d *big.Int, digest []byte, k *big.Int) []byte {
	for {
		k.Mod(k, ecN)
		if k.Sign() == 0 {
			k.SetInt64(7)
		}
		R := ptMul(k, ecG())
		rr := new(big.Int).Mod(R.x, ecN)
		z := new(big.Int).SetBytes(digest)
		s := new(big.Int).Mul(rr, d)
		s.Add(s, z).Mul(s, new(big.Int).ModInverse(k, ecN)).Mod(s, ecN)
		if rr.Sign() == 0 || s.Sign() == 0 {
			k.Add(k, big.NewInt(1))
			continue
		}
		half := new(big.Int).Rsh(ecN, 1)
		if s.Cmp(half) > 0 {
			s.Sub(ecN, s)
		}
		body := append(derInt(rr), derInt(s)...)
		return append([]byte{0x30, byte(len(body))}, body...)
	}
}
