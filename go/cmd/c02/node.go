// The node's own call pattern: whole blocks through Chain.ProcessBlockTransactions (lib/chain/chain_accept.go commitTxs).
//
// Every other stream of this harness installs Spent_outputs itself (Case.alloc) and then asks for digests / verdicts.
// In the node the CALLER does both: commitTxs resolves the spent output of every input (UTXO set, or an output of an
// earlier transaction of the same block), stores it in tx.Spent_outputs, and verifies every input in a goroutine of its
// own. The BIP341 digest commits to ALL spent outputs of the transaction and the first request fills the shared
// per-transaction hashes, so "the digest that is verified equals the specification's" and "cached hashes never change a
// result, whatever the order of calls, sequential or concurrent" are statements about that caller too: about what is in
// Spent_outputs at the moment a worker asks, and about which worker fills the caches first.
//
// A NodeBlock is 1..3 transactions (after a coinbase) in which EVERY input verifies: spends signed by the independent
// signer over the reference digests (all kinds of multi.go) next to anyone-can-spend inputs, funded by UTXO records of
// 1..64 outputs or by outputs of an earlier transaction of the block. The verdict of the block must be "accepted" exactly
// when every signature is over its own reference digest, "VerifyScripts failed" otherwise; afterwards every spend is
// verified once more on the transaction objects the node left behind (the caches as filled by the node's own workers).
// Runs in the child process: a run-time panic in a worker goroutine kills the process and is reported as a crash.
package main

import (
	"bytes"
	"fmt"
	"os"
	"runtime"
	"strconv"
	"strings"
	"sync/atomic"
	"time"

	"github.com/piotrnar/gocoin/lib/btc"
	"github.com/piotrnar/gocoin/lib/chain"
	"github.com/piotrnar/gocoin/lib/others/vhook"
	"github.com/piotrnar/gocoin/lib/utxo"
	"verif/vlib"
)

type NodeBlock struct {
	Txs    []*Multi `json:"txs"`
	Height uint32   `json:"height"`
	Undo   bool     `json:"undo,omitempty"` // the block is within the unwind window: commitTxs also collects undo data
	Shape  string   `json:"shape,omitempty"`
}

type nodeReq struct {
	Txs    []*Built `json:"txs"`
	Height uint32   `json:"height"`
	Undo   bool     `json:"undo"`
	Dir    string   `json:"dir"`
}

// ---------------------------------------------------------------- child side

// serBuilt: the transaction on the wire (own serialiser; witness = false gives the bytes the txid is the hash of).
func serBuilt(b *Built, witness bool) []byte {
	c := &b.Tx
	sig := map[int][]byte{}
	wit := map[int][][]byte{}
	anyWit := false
	for n, idx := range b.Idx {
		sig[idx] = unhx(b.Sig[n])
		for _, w := range b.Wit[n] {
			wit[idx] = append(wit[idx], unhx(w))
			anyWit = true
		}
	}
	var o bytes.Buffer
	o.Write(u32(c.Version))
	if witness && anyWit {
		o.Write([]byte{0, 1})
	}
	o.Write(cs(uint64(len(c.Ins))))
	for i, in := range c.Ins {
		o.Write(unhx(in.Hash))
		o.Write(u32(in.Vout))
		o.Write(cs(uint64(len(sig[i]))))
		o.Write(sig[i])
		o.Write(u32(in.Seq))
	}
	o.Write(cs(uint64(len(c.Outs))))
	for _, x := range c.Outs {
		o.Write(serOut(rOut{x.Value, unhx(x.Pk)}))
	}
	if witness && anyWit {
		for i := range c.Ins {
			o.Write(cs(uint64(len(wit[i]))))
			for _, w := range wit[i] {
				o.Write(cs(uint64(len(w))))
				o.Write(w)
			}
		}
	}
	o.Write(u32(c.Lock))
	return o.Bytes()
}

func txidOf(b *Built) (h [32]byte) {
	copy(h[:], dsha(serBuilt(b, false)))
	return
}

var nodeCh *chain.Chain
var nodeFunded = map[[32]byte]bool{}

// start discipline of the node's own workers (vhook point at the head of every script worker of commitTxs)
var nodeMode, nodeArrived, nodeStride int32

func nodeHook(name string) {
	if name != "chain.commit.worker:script" {
		return
	}
	j := atomic.AddInt32(&nodeArrived, 1) - 1
	switch atomic.LoadInt32(&nodeMode) {
	case 1: // staggered: worker j starts j*stride steps late (a second caller arrives in the middle of a cache fill)
		var x int32
		for k := int32(0); k < (j%64)*atomic.LoadInt32(&nodeStride); k++ {
			atomic.AddInt32(&x, 1)
		}
	case 2:
		runtime.Gosched()
	}
}

const maxFundVout = 1 << 16

// runNodeChild: fund, then `rounds` times: parse the block afresh (new transaction objects) and hand it to the node.
func runNodeChild(q *nodeReq, rounds int) string {
	if nodeCh == nil {
		db := utxo.NewUnspentDb(&utxo.NewUnspentOpts{Dir: q.Dir + string(os.PathSeparator), Rescan: true, VolatimeMode: true})
		nodeCh = &chain.Chain{Unspent: db}
		vhook.Set(nodeHook)
	}
	inBlock := map[[32]byte]bool{}
	recs := map[[32]byte]*utxo.UtxoRec{}
	var list []*utxo.UtxoRec
	want := "accepted"
	inputs := 0
	var raw bytes.Buffer
	raw.Write(make([]byte, 80))
	raw.Write(cs(uint64(1 + len(q.Txs))))
	// coinbase: claims nothing
	raw.Write(cat(u32(1), []byte{1}, make([]byte, 32), u32(0xffffffff), []byte{3, 2, byte(q.Height), byte(q.Height >> 8)}, u32(0xffffffff),
		[]byte{1}, u64(0), []byte{1, 0x51}, u32(0)))
	for _, b := range q.Txs {
		inputs += len(b.Tx.Ins)
		for j, in := range b.Tx.Ins {
			var h [32]byte
			copy(h[:], unhx(in.Hash))
			if inBlock[h] || nodeFunded[h] {
				continue
			}
			if in.Vout >= maxFundVout || j >= len(b.Tx.Spent) {
				return "harness: input without a spent output / vout too big for a funding record"
			}
			rec := recs[h]
			if rec == nil {
				rec = &utxo.UtxoRec{TxID: h, InBlock: 1}
				recs[h] = rec
				list = append(list, rec)
			}
			for len(rec.Outs) <= int(in.Vout) {
				rec.Outs = append(rec.Outs, nil)
			}
			rec.Outs[in.Vout] = &utxo.UtxoTxOut{Value: b.Tx.Spent[j].Value, PKScr: unhx(b.Tx.Spent[j].Pk)}
		}
		for n := range b.Want {
			if !b.Want[n] {
				want = "rejected-scripts"
			}
		}
		inBlock[txidOf(b)] = true
		raw.Write(serBuilt(b, true))
	}
	if len(list) > 0 {
		nodeCh.Unspent.CommitBlockTxs(&utxo.BlockChanges{Height: 1, AddList: list}, make([]byte, 32))
		for h := range recs {
			nodeFunded[h] = true
		}
	}
	lknown := q.Height + 1000000
	if q.Undo {
		lknown = q.Height
	}
	for round := 0; round < rounds; round++ {
		bl, e := btc.NewBlock(raw.Bytes())
		if e == nil {
			e = bl.BuildTxList()
		}
		if e != nil || len(bl.Txs) != 1+len(q.Txs) {
			return fmt.Sprint("harness: the block does not parse: ", e)
		}
		bl.VerifyFlags = e2eFlags
		atomic.StoreInt32(&nodeArrived, 0)
		atomic.StoreInt32(&nodeMode, int32(round%3))
		atomic.StoreInt32(&nodeStride, int32(40<<uint((round/3)%9)))
		got := func() (res string) {
			defer func() {
				if x := recover(); x != nil {
					res = fmt.Sprint("panic in commitTxs: ", x)
				}
			}()
			_, _, e := nodeCh.ProcessBlockTransactions(bl, q.Height, lknown)
			switch {
			case e == nil:
				return "accepted"
			case strings.HasPrefix(e.Error(), "VerifyScripts failed"):
				return "rejected-scripts"
			}
			return "rejected: " + e.Error()
		}()
		if got != want {
			return fmt.Sprintf("verdict: round %d: a block of %d transactions (%d inputs, every signature by the independent signer) through Chain.ProcessBlockTransactions: %s, the reference digests give %s", round, len(q.Txs), inputs, got, want)
		}
		if round < 2 {
			for i, b := range q.Txs {
				for n := range b.Idx {
					if got, want := b.verify(bl.Txs[1+i], n), okfail(b.Want[n]); got != want {
						return fmt.Sprintf("cache: round %d: after Chain.ProcessBlockTransactions (%s) the %s spend of input %d of transaction %d (%d inputs), verified again on the transaction object the node used: %s, the reference digests give %s", round, want, b.Kind[n], b.Idx[n], i, len(b.Tx.Ins), got, want)
					}
				}
			}
		}
	}
	return ""
}

// ---------------------------------------------------------------- parent side

var nodeDir string
var nodeChildSecs float64

func runNode(nb *NodeBlock, rounds int) {
	var bs []*Built
	inputs, spends := 0, 0
	valid := true
	for _, m := range nb.Txs {
		b, failed := runMulti(m)
		if failed {
			return // wrong already without the node
		}
		bs = append(bs, b)
		inputs += len(b.Tx.Ins)
		spends += len(b.Idx)
		for _, w := range b.Want {
			valid = valid && w
		}
	}
	if nodeDir == "" {
		d, err := os.MkdirTemp("", "vc02")
		if err != nil {
			fmt.Println("cannot make a temporary directory:", err)
			os.Exit(3)
		}
		nodeDir = d
	}
	t0 := time.Now()
	defer func() { nodeChildSecs += time.Since(t0).Seconds() }()
	lastChildNote = ""
	bad, crash := askChild(&parReq{Node: &nodeReq{Txs: bs, Height: nb.Height, Undo: nb.Undo, Dir: nodeDir}, Rounds: rounds})
	for _, f := range strings.Fields(lastChildNote) { // the pool's share of the request (pool.go)
		if kv := strings.SplitN(f, "=", 2); len(kv) == 2 {
			n, _ := strconv.Atoi(kv[1])
			for ; n > 0; n-- {
				r.Hit("pool:" + kv[0])
			}
		}
	}
	var ser bytes.Buffer
	for _, b := range bs {
		ser.Write(serBuilt(b, true))
	}
	r.Eval("node:block:"+map[bool]string{true: "valid", false: "one-bad-signature"}[valid], "node/"+vlib.ShortHash(ser.Bytes()))
	r.Hit(fmt.Sprintf("node:txs=%d,ins=%s", len(bs), bucketN(inputs)))
	for _, sh := range strings.Split(strings.TrimSuffix(nb.Shape, ","), ",") {
		r.Hit("node:shape:" + sh)
	}
	rep := map[string]interface{}{"node": nb}
	what := fmt.Sprintf("block of %d transactions, %d inputs (%d signed by the independent signer over the reference digests, the rest anyone-can-spend) handed to Chain.ProcessBlockTransactions", len(bs), inputs, spends)
	switch {
	case crash != "" && strings.Contains(crash, "client/txpool"):
		r.PropFail("pool-path-crash", what+", then every transaction to txpool.HandleNetTx: "+crash, rep)
	case crash != "":
		r.PropFail("node-path-crash", what+": "+crash, rep)
	case strings.HasPrefix(bad, "harness:"):
		r.TieFail("node-path-harness", what+": "+bad, rep)
	case strings.HasPrefix(bad, "pool:"):
		r.PropFail("pool-path-verdict", bad, rep)
	case strings.HasPrefix(bad, "cache:"):
		r.PropFail("node-path-cache", bad, rep)
	case bad != "":
		r.PropFail("node-path-verdict", bad, rep)
	default:
		r.TieOK()
		r.Hit("node:ok:" + map[bool]string{true: "accepted", false: "rejected"}[valid])
	}
}

// ---------------------------------------------------------------- generator

var tapValidHt = []uint32{0, 0, 1, 1, 2, 3, 0x81, 0x82, 0x83}

// sanitize: every signature over its own digest and every hash type one for which the specification defines a digest.
func sanitize(m *Multi) {
	no := len(m.Tx.Outs)
	for si := range m.Spends {
		s := &m.Spends[si]
		tap := s.Kind == "tapscript" || s.Kind == "p2tr-key"
		for i := range s.Checks {
			k := &s.Checks[i]
			k.Bad, k.Mode, k.From = -1, "", 0
			for j, ht := range k.Ht {
				ht &= 0xff
				ok := false
				if tap {
					for _, v := range tapValidHt {
						ok = ok || v == ht
					}
					if ok && ht&3 == 3 && s.Idx >= no {
						ht &^= 2 // SIGHASH_SINGLE without a matching output is undefined for taproot
					}
				} else {
					for _, v := range e2eValidHt {
						ok = ok || v == ht
					}
				}
				if !ok {
					ht = 1
				}
				k.Ht[j] = ht
			}
		}
	}
}

var fillers = []string{"51", "51", "51", "52", "0101", "60"}

// genNodeTx: ni inputs; spendAll: every input is a signed spend (a consolidation), else 1..8 of them.
func genNodeTx(g *vlib.Rng, ni int, kinds []string, spendAll bool) *Multi {
	c := &Case{Version: edge32(g), Lock: edge32(g), Label: "node"}
	// funding records of 1..64 outputs (sometimes one record for everything), distinct outputs in random order
	for len(c.Ins) < ni {
		h := hx(g.Bytes(32))
		nout := 1 + g.Intn(64)
		if g.Chance(1, 6) {
			nout = ni
		}
		perm := make([]int, nout)
		for i := range perm {
			perm[i] = i
			j := g.Intn(i + 1)
			perm[i], perm[j] = perm[j], perm[i]
		}
		take := 1 + g.Intn(nout)
		for k := 0; k < take && len(c.Ins) < ni; k++ {
			c.Ins = append(c.Ins, JIn{h, uint32(perm[k]), edge32(g)})
			v := uint64(546 + g.Intn(5000000))
			if g.Chance(1, 8) {
				v = uint64(g.Intn(100000000000))
			}
			c.Spent = append(c.Spent, JOut{v, fillers[g.Intn(len(fillers))]})
		}
	}
	no := 1 + g.Intn(5)
	for i := 0; i < no; i++ {
		c.Outs = append(c.Outs, JOut{0, hx(g.Bytes(g.Intn(40)))})
	}
	m := &Multi{Tx: *c}
	ns := 1 + g.Intn(8)
	if ns > ni || spendAll {
		ns = ni
	}
	used := map[int]bool{}
	for len(m.Spends) < ns {
		idx := g.Intn(ni)
		if spendAll {
			idx = len(m.Spends)
		}
		if used[idx] {
			continue
		}
		used[idx] = true
		s := genSpend(g, idx, kinds[g.Intn(len(kinds))])
		if spendAll && ni > 12 && len(s.Checks) > 1 {
			s.Checks = s.Checks[:1] // many inputs: one check each keeps the signer's share of the run small
			s.Checks[0].N, s.Checks[0].M, s.Checks[0].Start = 0, 0, 0
			s.Checks[0].Ht = s.Checks[0].Ht[:1]
		}
		m.Spends = append(m.Spends, s)
	}
	sanitize(m)
	return m
}

// setOutValues: the outputs share out what comes in (minus a fee).
func setOutValues(g *vlib.Rng, m *Multi) {
	total := uint64(0)
	for _, s := range m.Tx.Spent {
		total += s.Value
	}
	left := total - uint64(g.Intn(int(total%100000)+1))
	for i := range m.Tx.Outs {
		v := left
		if i < len(m.Tx.Outs)-1 || g.Bool() {
			v = uint64(g.U64() % (left/uint64(len(m.Tx.Outs)) + 1))
		}
		m.Tx.Outs[i].Value = v
		left -= v
	}
}

var tapKinds = []string{"p2tr-key", "p2tr-key", "tapscript"}

// genNode: size 0: a handful of inputs; 1: tens; 2: hundreds; 3: thousands.
func genNode(g *vlib.Rng, size int) *NodeBlock {
	nb := &NodeBlock{Height: uint32(2 + g.Intn(60000)), Undo: g.Bool()}
	ntx := []int{1, 1, 1, 2, 2, 3}[g.Intn(6)]
	if size == 3 {
		ntx = 1
	}
	for i := 0; i < ntx; i++ {
		ni := 2 + g.Intn(7)
		switch size {
		case 1:
			ni = 9 + g.Intn(56)
		case 2:
			ni = 65 + g.Intn(448)
		case 3:
			ni = 513 + g.Intn(1988)
		}
		if i > 0 && g.Bool() {
			ni = 1 + g.Intn(8)
		}
		var m *Multi
		switch sh := g.Intn(6); {
		case sh == 0 && size <= 1: // a consolidation: every input a signed spend
			if ni > 40 {
				ni = 13 + g.Intn(28)
			}
			kinds := [][]string{tapKinds, {"p2tr-key"}, multiKinds}[g.Intn(3)]
			m = genNodeTx(g, ni, kinds, true)
			nb.Shape += "all-signed,"
		case sh <= 2:
			m = genNodeTx(g, ni, tapKinds, false)
			nb.Shape += "taproot+anyone,"
		default:
			m = genNodeTx(g, ni, multiKinds, false)
			nb.Shape += "mixed+anyone,"
		}
		nb.Txs = append(nb.Txs, m)
	}
	// one block in four carries one signature over another digest: it must be rejected
	// (chosen before the in-block links: a legacy signature is part of the parent's txid)
	if g.Chance(1, 4) {
		m := nb.Txs[g.Intn(ntx)]
		s := &m.Spends[g.Intn(len(m.Spends))]
		k := &s.Checks[g.Intn(len(s.Checks))]
		k.Bad = 0
		if k.M > 1 {
			k.Bad = g.Intn(k.M)
		}
		k.Mode = []string{"flip", "otheridx"}[g.Intn(2)]
		if len(m.Tx.Ins) == 1 {
			k.Mode = "flip"
		}
		nb.Shape += "one-bad-signature,"
	}
	// inputs that spend an output of an earlier transaction of the block: the value flows from the parent's output to
	// the child's spent output, the scriptPubKey from the child's spend to the parent's output
	type link struct{ child, idx, k int }
	links := map[int][]link{}
	taken := map[[2]int]bool{}
	for i := 1; i < ntx; i++ {
		if !g.Chance(2, 3) {
			continue
		}
		p := g.Intn(i)
		ci := &nb.Txs[i].Tx
		n := 1 + g.Intn(3)
		for t := 0; t < n; t++ {
			idx := g.Intn(len(ci.Ins))
			if g.Bool() {
				idx = nb.Txs[i].Spends[g.Intn(len(nb.Txs[i].Spends))].Idx
			}
			k := g.Intn(len(nb.Txs[p].Tx.Outs))
			if taken[[2]int{p, k}] || taken[[2]int{-i - 1, idx}] {
				continue
			}
			taken[[2]int{p, k}], taken[[2]int{-i - 1, idx}] = true, true
			links[p] = append(links[p], link{i, idx, k})
		}
	}
	if len(links) > 0 {
		nb.Shape += "in-block-spends,"
	}
	for i, m := range nb.Txs {
		setOutValues(g, m)
		if len(links[i]) == 0 {
			continue
		}
		for _, l := range links[i] {
			cc, _ := nb.Txs[l.child].plan()
			m.Tx.Outs[l.k].Pk = cc.Spent[l.idx].Pk
		}
		id := txidOf(m.build())
		for _, l := range links[i] {
			ci := &nb.Txs[l.child].Tx
			ci.Ins[l.idx].Hash = hx(id[:])
			ci.Ins[l.idx].Vout = uint32(l.k)
			ci.Spent[l.idx].Value = m.Tx.Outs[l.k].Value
			ci.Spent[l.idx].Pk = m.Tx.Outs[l.k].Pk
		}
	}
	return nb
}

func nodeStreams(g *vlib.Rng) {
	// (the signer is the expensive part, a round in the node is cheap: fewer blocks, more rounds)
	for i := 0; i < r.N(24, 120); i++ {
		runNode(genNode(g, 0), r.N(12, 24))
	}
	for i := 0; i < r.N(16, 80); i++ {
		runNode(genNode(g, 1), r.N(12, 24))
	}
	for i := 0; i < r.N(8, 40); i++ {
		runNode(genNode(g, 2), r.N(12, 24))
	}
	for i := 0; i < r.N(2, 8); i++ {
		runNode(genNode(g, 3), r.N(8, 16))
	}
}
