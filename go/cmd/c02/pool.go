// The client's own call pattern for unconfirmed transactions: client/txpool HandleNetTx -> processTx.
//
// processTx is the second caller in the repository that does what commitTxs does (node.go): it resolves the spent output
// of every input (UTXO set, or an output of a transaction that is already in the pool), stores them in tx.Spent_outputs
// and starts one goroutine per input that hands script.VerifyTxScript a SigChecker{Tx, Idx, Amount}. Which digest is
// verified for input k is decided THERE: by the Idx, the amount and the scriptPubKey each goroutine really uses. The
// property's observable - the verdict for signatures made by an independent signer over the reference digest - is
// therefore also a statement about this caller: a transaction is let into the pool exactly when EVERY input verifies
// against ITS OWN digest.
//
// Every transaction of a NodeBlock (after the rounds through Chain.ProcessBlockTransactions) is submitted to a fresh pool
// as a transaction received from the network, in block order, so inputs are found in the UTXO set and in the pool
// (in-block parents). Expected: accepted when every signature is over its own reference digest and all parents were
// accepted, TX_REJECTED_SCRIPT_FAIL when one is not. Then damaged copies: one bit of one scriptSig / witness item of one
// input flipped (no signing needed, so many of them); for these the expected verdict is the conjunction of the verdicts
// of the inputs verified one after the other on an object of the harness's own (the sequential direct call that streams
// 4/4b tie to the reference digests). Rounds alternate between one OS thread (the workers run after the loop that
// started them) and all of them. Runs in the child process.
package main

import (
	"fmt"
	"runtime"
	"sync/atomic"

	"github.com/piotrnar/gocoin/client/common"
	"github.com/piotrnar/gocoin/client/txpool"
	"github.com/piotrnar/gocoin/lib/btc"
	"github.com/piotrnar/gocoin/lib/script"
)

var poolReady bool

// counters of the last request, reported to the parent for the histogram
var poolNote struct{ submitted, variants, variantsBad, mem int }

func poolSetup() {
	if poolReady {
		return
	}
	poolReady = true
	common.BlockChain = nodeCh
	common.CFG.TXPool.Enabled = true
	common.CFG.TXPool.AllowMemInputs = true
	common.CFG.TXPool.NotFullRBF = false
	common.CFG.TXPool.MaxTxWeight = 4000000
	common.CFG.TXPool.RejectRecCnt = 1000
	common.CFG.TXPool.SaveOnDisk = false
	common.MaxRejectedSizeBytes = 1 << 40
	common.MaxNoUtxoSizeBytes = 1 << 40
	common.VerifSetTxPoolLimits(1<<40, 0)
	atomic.StoreUint32(&common.Last.ScriptFlags, e2eFlags)
	txpool.CurrentFeeAdjustedSPKB = 0
	txpool.SortingDisabled = false
}

func poolReset() {
	txpool.InitMempool()
	txpool.TxMutex.Lock()
	for b := range txpool.TransactionsPending {
		delete(txpool.TransactionsPending, b)
	}
	txpool.TxMutex.Unlock()
}

// poolSubmit: the bytes as a transaction received from a peer. "accepted" | "script-fail" | "refused-<code>" | "panic: …"
func poolSubmit(raw []byte) (res string) {
	defer func() {
		if x := recover(); x != nil {
			res = fmt.Sprint("panic: ", x)
		}
	}()
	tx, n := btc.NewTx(raw)
	if tx == nil || n != len(raw) {
		return "harness: the transaction does not parse"
	}
	tx.SetHash(raw)
	bidx := tx.Hash.BIdx()
	if why := txpool.NeedThisTxExt(&tx.Hash, func() { txpool.TransactionsPending[bidx] = true }); why != 0 {
		return fmt.Sprint("refused-not-needed-", why)
	}
	code := -1
	ntx := &txpool.TxRcvd{Tx: tx}
	ntx.FeedbackCB = func(n *txpool.TxRcvd, t2s *txpool.OneTxToSend) { code = int(n.Result) }
	ok := txpool.HandleNetTx(ntx)
	txpool.TxMutex.Lock()
	_, pooled := txpool.TransactionsToSend[bidx]
	txpool.TxMutex.Unlock()
	switch {
	case ok != pooled || ok != (code == 0):
		return fmt.Sprintf("inconsistent: HandleNetTx %v, result %d, in the pool %v", ok, code, pooled)
	case ok:
		return "accepted"
	case code == int(txpool.TX_REJECTED_SCRIPT_FAIL):
		return "script-fail"
	}
	return fmt.Sprint("refused-", code)
}

// directVerdict: every input verified by a direct call, one after the other, on an object of our own.
func directVerdict(b *Built, raw []byte) (all bool, firstBad int) {
	tx, _ := btc.NewTx(raw)
	tx.SetHash(raw)
	b.Tx.alloc(tx, "assign")
	all, firstBad = true, -1
	for i := range tx.TxIn {
		ok := func() (ok bool) {
			defer func() {
				if recover() != nil {
					ok = false
				}
			}()
			return script.VerifyTxScript(tx.Spent_outputs[i].Pk_script, &script.SigChecker{Tx: tx, Idx: i, Amount: tx.Spent_outputs[i].Value}, e2eFlags)
		}()
		if !ok && all {
			all, firstBad = false, i
		}
	}
	return
}

// damaged: a copy of b with one bit of one scriptSig / witness item flipped (choice derived from seed). nil: nothing to flip.
func damaged(b *Built, seed []byte) (*Built, int) {
	h := dsha(seed)
	type place struct{ n, w int } // w < 0: scriptSig
	var places []place
	for n := range b.Idx {
		if len(b.Sig[n]) > 0 {
			places = append(places, place{n, -1})
		}
		for w := range b.Wit[n] {
			if len(b.Wit[n][w]) > 0 {
				places = append(places, place{n, w})
			}
		}
	}
	if len(places) == 0 {
		return nil, 0
	}
	p := places[(int(h[0])<<8|int(h[1]))%len(places)]
	c := *b
	c.Sig = append([]string(nil), b.Sig...)
	c.Wit = make([][]string, len(b.Wit))
	for n := range b.Wit {
		c.Wit[n] = append([]string(nil), b.Wit[n]...)
	}
	flip := func(s string) string {
		x := unhx(s)
		x[(int(h[2])<<8|int(h[3]))%len(x)] ^= 1 << (h[4] % 8)
		return hx(x)
	}
	if p.w < 0 {
		c.Sig[p.n] = flip(c.Sig[p.n])
	} else {
		c.Wit[p.n][p.w] = flip(c.Wit[p.n][p.w])
	}
	return &c, b.Idx[p.n]
}

// runPoolChild: the transactions of the request through the pool, `rounds` times (fresh objects, fresh pool).
func runPoolChild(q *nodeReq, rounds int) string {
	poolSetup()
	poolNote.submitted, poolNote.variants, poolNote.variantsBad, poolNote.mem = 0, 0, 0, 0
	defer runtime.GOMAXPROCS(runtime.GOMAXPROCS(0))
	procs := runtime.GOMAXPROCS(0)
	ids := map[[32]byte]int{}
	raws := make([][]byte, len(q.Txs))
	for i, b := range q.Txs {
		ids[txidOf(b)] = i
		raws[i] = serBuilt(b, true)
	}
	// what the reference digests say about every transaction, parents included
	want := make([]string, len(q.Txs))
	for i, b := range q.Txs {
		want[i] = "accepted"
		for _, w := range b.Want {
			if !w {
				want[i] = "script-fail"
			}
		}
		for _, in := range b.Tx.Ins {
			var h [32]byte
			copy(h[:], unhx(in.Hash))
			if p, ok := ids[h]; ok && p < i {
				poolNote.mem++
				if want[p] != "accepted" {
					want[i] = "no-parent"
				}
			}
		}
	}
	for round := 0; round < rounds; round++ {
		if round%2 == 0 {
			runtime.GOMAXPROCS(1)
		} else {
			runtime.GOMAXPROCS(procs)
		}
		poolReset()
		for i, b := range q.Txs {
			got := poolSubmit(raws[i])
			poolNote.submitted++
			if want[i] == "no-parent" {
				if got == "accepted" {
					return fmt.Sprintf("pool: round %d: transaction %d spends an output of a transaction that was refused, HandleNetTx accepted it", round, i)
				}
				continue
			}
			if got != want[i] {
				return fmt.Sprintf("pool: round %d (%d OS threads): transaction %d (%d inputs, %d of them signed by the independent signer over the reference digests, the others anyone-can-spend) handed to txpool.HandleNetTx as a transaction from the network: %s, the reference digests give %s", round, runtime.GOMAXPROCS(0), i, len(b.Tx.Ins), len(b.Idx), got, want[i])
			}
		}
		// damaged copies, each on a pool that holds the (accepted) transactions before it
		if round >= 4 {
			continue
		}
		for i, b := range q.Txs {
			if want[i] == "no-parent" {
				continue
			}
			for v := 0; v < 2; v++ {
				c, at := damaged(b, append(append([]byte{byte(round), byte(v)}, raws[i]...), byte(i)))
				if c == nil {
					break
				}
				raw := serBuilt(c, true)
				all, firstBad := directVerdict(c, raw)
				wantV := "accepted"
				if !all {
					wantV = "script-fail"
					poolNote.variantsBad++
				}
				poolNote.variants++
				poolReset()
				for p := 0; p < i; p++ {
					if want[p] == "accepted" {
						poolSubmit(raws[p])
					}
				}
				if got := poolSubmit(raw); got != wantV {
					return fmt.Sprintf("pool: round %d (%d OS threads): transaction %d (%d inputs) with one bit of the scriptSig / witness of input %d flipped, handed to txpool.HandleNetTx: %s; its inputs verified one after the other by direct calls of script.VerifyTxScript: %s (first failing input: %d)", round, runtime.GOMAXPROCS(0), i, len(b.Tx.Ins), at, got, wantV, firstBad)
				}
			}
		}
	}
	poolReset()
	return ""
}
