// End-to-end spends through script.VerifyTxScript, signed by the independent signer (ec.go) over the
// reference digest (ref.go): the verdict must be "valid" exactly when the signature is over the
// specified digest — and "invalid" whenever the specification defines no digest.
package main

import (
	"bytes"
	"fmt"
	"math/big"

	"github.com/piotrnar/gocoin/lib/btc"
	"github.com/piotrnar/gocoin/lib/script"
	"verif/vlib"
)

type E2E struct {
	Kind    string  `json:"kind"` // p2pkh bare p2wpkh p2wsh p2tr-key p2tr-script
	Tx      Case    `json:"tx"`
	Idx     int     `json:"idx"`
	Ht      uint32  `json:"ht"`
	Annex   *string `json:"annex,omitempty"`
	PreNop  bool    `json:"prenop,omitempty"`
	PreSep  bool    `json:"presep,omitempty"`
	MidSep  bool    `json:"midsep,omitempty"`
	PostSep bool    `json:"postsep,omitempty"`
	Embed   bool    `json:"embed,omitempty"` // bare: the signature sits in the scriptPubKey (FindAndDelete)
	Expl0   bool    `json:"explicit0,omitempty"` // taproot, hash type 0: 65-byte signature with an explicit 0x00 (BIP341: invalid)
	Mode    string  `json:"mode"`            // good | flip | zero | otheridx
	NoDer   bool    `json:"noder,omitempty"`  // p2pkh/bare: verify without VER_DERSIG (a pre-BIP66 spend)
	SigLen  int     `json:"siglen,omitempty"` // p2pkh/bare: lax-DER signature padded (zero bytes in front of R) to exactly this many bytes incl. the hash type
	Key     string  `json:"key"`
}

const e2eFlags = script.VER_P2SH | script.VER_DERSIG | script.VER_WITNESS | script.VER_TAPROOT | script.VER_NULLFAIL

func pushData(d []byte) []byte { return refPush(d) }

// padSig re-encodes `30 L 02 lenR R 02 lenS S ht` with zero bytes in front of R so that the whole signature
// (hash type included) has exactly `target` bytes; one-byte lengths throughout (what a pre-BIP66 parser that
// reads the length bytes as they are accepts), so target <= 258. Returns nil when that is not possible.
func padSig(sigWithHt []byte, target int) []byte {
	pad := target - len(sigWithHt)
	if pad == 0 {
		return sigWithHt
	}
	if pad < 0 || len(sigWithHt) < 9 || 4+int(sigWithHt[3]) > len(sigWithHt)-1 {
		return nil
	}
	lenR := int(sigWithHt[3])
	if lenR+pad > 255 || int(sigWithHt[1])+pad > 255 {
		return nil
	}
	rr := sigWithHt[4 : 4+lenR]
	rest := sigWithHt[4+lenR : len(sigWithHt)-1] // 02 lenS S
	nr := append(make([]byte, pad), rr...)
	body := cat([]byte{0x02, byte(len(nr))}, nr, rest)
	return cat([]byte{0x30, byte(len(body))}, body, sigWithHt[len(sigWithHt)-1:])
}

// layout: [OP_1 OP_DROP]? [CODESEP]? <extra> <pubkey push> [CODESEP]? CHECKSIG [CODESEP]?
// returns the script, the script code from the last executed code separator, and the opcode position of it.
func (e *E2E) layout(extra, pub []byte) (scr, code []byte, pos uint32) {
	pos = 0xffffffff
	n := uint32(0)
	start := 0
	if e.PreNop {
		scr = append(scr, 0x51, 0x75)
		n += 2
	}
	if e.PreSep {
		scr = append(scr, 0xab)
		pos = n
		n++
		start = len(scr)
	}
	if extra != nil {
		scr = append(scr, extra...)
		n++
	}
	scr = append(scr, pushData(pub)...)
	n++
	if e.MidSep {
		scr = append(scr, 0xab)
		pos = n
		n++
		start = len(scr)
	}
	scr = append(scr, 0xac)
	if e.PostSep {
		scr = append(scr, 0xab)
	}
	return scr, scr[start:], pos
}

func (e *E2E) mangle(d []byte) []byte {
	d = append([]byte{}, d...)
	switch e.Mode {
	case "flip":
		d[int(e.Ht)%32] ^= 1 << (e.Ht % 8)
	case "zero":
		d = make([]byte, 32)
	}
	return d
}

func runE2E(e *E2E) {
	c := e.Tx
	d := new(big.Int).SetBytes(unhx(e.Key))
	d.Mod(d, ecN)
	if d.Sign() == 0 {
		d.SetInt64(1)
	}
	nonce := new(big.Int).SetBytes(sha(unhx(e.Key)))
	idx := e.Idx
	refIdx := idx
	if e.Mode == "otheridx" {
		refIdx = (idx + 1) % len(c.Ins)
	}
	amount := c.Spent[idx].Value
	var spk, scriptSig []byte
	var wit [][]byte
	defined := true
	lax := false
	var laxControl *ctl
	var refDigest, trueDigest []byte
	var tapSig, tapPk, tapAnnex []byte // taproot: what CheckSchnorrSignature is handed in the end
	var tapExt *refExt
	htb := byte(e.Ht)
	switch e.Kind {
	case "p2pkh", "bare":
		pub := pub33(d)
		var code []byte
		if e.Kind == "p2pkh" {
			h := btc.Rimp160AfterSha256(pub)
			spk = cat([]byte{0x76, 0xa9, 0x14}, h[:], []byte{0x88, 0xac})
			code = spk
		} else {
			_, code, _ = e.layout(nil, pub)
		}
		c.Spent[idx].Pk = hx(spk) // legacy digests do not look at it
		t, _ := c.ref()
		dg := func(i int) []byte {
			pre, one, _ := refLegacy(t, code, i, e.Ht)
			if one {
				return append([]byte{1}, make([]byte, 31)...)
			}
			return dsha(pre)
		}
		refDigest, trueDigest = dg(refIdx), dg(idx)
		sig := append(ecdsaSign(d, e.mangle(refDigest), nonce), htb)
		if e.SigLen > 0 {
			if ps := padSig(sig, e.SigLen); ps != nil {
				lax = len(ps) != len(sig)
				sig = ps
				r.Hit(fmt.Sprintf("e2e:sig-push-len=%s", lenClass(len(sig))))
			}
		}
		if e.Kind == "bare" && lax && e.NoDer {
			// control: the same signature in the scriptSig (same script code, same digest, nothing to remove). When the
			// interpreter's pre-BIP66 parser does not take this encoding the case says nothing about signature removal.
			cspk, _, _ := e.layout(nil, pub)
			laxControl = &ctl{spk: cspk, scriptSig: pushData(sig)}
		}
		if e.Kind == "p2pkh" {
			scriptSig = cat(pushData(sig), pushData(pub))
		} else if e.Embed {
			spk, _, _ = e.layout(pushData(sig), pub)
		} else {
			spk, _, _ = e.layout(nil, pub)
			scriptSig = pushData(sig)
		}
	case "p2wpkh", "p2wsh":
		pub := pub33(d)
		var code, ws []byte
		if e.Kind == "p2wpkh" {
			h := btc.Rimp160AfterSha256(pub)
			spk = cat([]byte{0x00, 0x14}, h[:])
			code = cat([]byte{0x76, 0xa9, 0x14}, h[:], []byte{0x88, 0xac})
		} else {
			ws, code, _ = e.layout(nil, pub)
			spk = cat([]byte{0x00, 0x20}, sha(ws))
		}
		t, _ := c.ref()
		pre, _ := refBIP143(t, code, amount, refIdx, e.Ht)
		refDigest = dsha(pre)
		pre, _ = refBIP143(t, code, amount, idx, e.Ht)
		trueDigest = dsha(pre)
		sig := append(ecdsaSign(d, e.mangle(refDigest), nonce), htb)
		if e.Kind == "p2wpkh" {
			wit = [][]byte{sig, pub}
		} else {
			wit = [][]byte{sig, ws}
		}
	case "p2tr-key", "p2tr-script":
		var annex []byte
		if e.Annex != nil {
			annex = unhx(*e.Annex)
		}
		var ext *refExt
		var q []byte
		var signer *big.Int
		var ts, control []byte
		if e.Kind == "p2tr-key" {
			q, _, signer = tapTweak(d, nil)
		} else {
			px, _ := xonlyPub(d)
			var pos uint32
			ts, _, pos = e.layout(nil, px)
			leaf := taggedHash("TapLeaf", []byte{0xc0}, cs(uint64(len(ts))), ts)
			internal := new(big.Int).Add(d, big.NewInt(12345))
			ix, _ := xonlyPub(internal)
			var parity byte
			q, parity, _ = tapTweak(internal, leaf)
			control = append([]byte{0xc0 | parity}, ix...)
			ext = &refExt{leaf, pos}
			signer = d
		}
		spk = append([]byte{0x51, 0x20}, q...)
		c.Spent[idx].Pk = hx(spk) // the taproot digest commits to the spent scriptPubKey
		t, sp := c.ref()
		pre, ok := refBIP341(t, sp, refIdx, htb, annex, ext)
		if ok {
			refDigest = sha(pre)
		} else {
			refDigest = make([]byte, 32)
		}
		pre, defined = refBIP341(t, sp, idx, htb, annex, ext)
		if defined {
			trueDigest = sha(pre)
		}
		sig := schnorrSign(signer, e.mangle(refDigest), sha(unhx(e.Key)))
		if htb != 0 || e.Expl0 {
			sig = append(sig, htb)
		}
		if htb == 0 && e.Expl0 {
			defined = false // SIGHASH_DEFAULT must not be spelled out
		}
		wit = [][]byte{sig}
		tapSig, tapAnnex, tapExt = sig, annex, ext
		if ts != nil {
			wit = append(wit, ts, control)
			tapPk, _ = xonlyPub(d)
		} else {
			tapPk = q
		}
		if annex != nil {
			wit = append(wit, annex)
		}
	}
	c.Spent[idx].Pk = hx(spk)
	tx := c.real()
	tx.TxIn[idx].ScriptSig = scriptSig
	if wit != nil {
		tx.SegWit = make([][][]byte, len(tx.TxIn))
		tx.SegWit[idx] = wit
	}
	// valid exactly when a digest is defined for THIS input and the signature was made over it
	want := defined && bytes.Equal(e.mangle(refDigest), trueDigest)
	flags := uint32(e2eFlags)
	if e.NoDer {
		flags &^= script.VER_DERSIG
	}
	if lax && !e.NoDer {
		want = false // BIP66: a padded signature is not strict DER
	}
	// three states: a recovered panic is NOT "invalid" - no spend built here (input in range, one spent output per
	// input, every push well-formed) may make the interpreter panic, whatever the expected verdict is
	panicked := ""
	verify := func(spk, scriptSig []byte) (ok bool) {
		defer func() {
			if x := recover(); x != nil {
				ok = false
				panicked = fmt.Sprint(x)
			}
		}()
		tx.TxIn[idx].ScriptSig = scriptSig
		return script.VerifyTxScript(spk, &script.SigChecker{Tx: tx, Idx: idx, Amount: amount}, flags)
	}
	if laxControl != nil && want {
		if !verify(laxControl.spk, laxControl.scriptSig) && panicked == "" {
			r.Hit("e2e:lax-der-encoding-not-accepted-by-the-interpreter(skipped)")
			return
		}
		r.Hit("e2e:lax-der-control-accepted")
	}
	got := verify(spk, scriptSig)
	if panicked != "" {
		r.Hit("e2e:verify:panic")
		r.Eval("e2e:"+e.Kind+":panic", "")
		if len(panicked) > 200 {
			panicked = panicked[:200]
		}
		r.PropFail("e2e-verify-panics", fmt.Sprintf("%s spend of input %d with hash type 0x%02x (signature made over %s digest, expected verdict %v): VerifyTxScript panics: %s", e.Kind, idx, e.Ht, e.Mode, want, panicked), map[string]interface{}{"e2e": e})
		return
	}
	r.Hit(fmt.Sprintf("e2e:verify:%v", got))
	if tapSig != nil {
		e2eSchnorrTie(e, &c, tapSig, tapPk, tapAnnex, e.Annex != nil, tapExt, fmt.Sprint(got))
	}
	class := e.Mode
	if lax && e.NoDer {
		class += ",pre-bip66-lax-sig"
		if e.Embed {
			class += "-embedded"
		}
	}
	if !defined {
		class = "undefined-" + e.Mode
	}
	r.Eval("e2e:"+e.Kind+":"+class, fmt.Sprintf("e2e/%s/%s/%d/%x/%d%v%v/%s", e.Kind, e.Mode, idx, e.Ht, e.SigLen, e.NoDer, e.Embed, vlib.ShortHash([]byte(c.oracleLine()))))
	if got != want {
		key := "e2e-" + e.Kind
		what := fmt.Sprintf("%s spend of input %d with hash type 0x%02x, signature made over %s digest: VerifyTxScript says %v, expected %v", e.Kind, idx, e.Ht, e.Mode, got, want)
		if e.Embed && laxControl != nil && want {
			key = "e2e-signature-removal"
			what = fmt.Sprintf("pre-BIP66 spend of input %d whose script code embeds its own signature as a push of %d bytes: VerifyTxScript refuses it, although the same signature is accepted from the scriptSig (same script code after FindAndDelete, same reference digest) - the signature push was not removed from the script code", idx, e.SigLen)
		}
		if !defined && got {
			key = "taproot-undefined-digest-accepted"
			what = fmt.Sprintf("%s spend, hash type 0x%02x, input %d of a transaction with %d outputs: BIP341 defines no digest, yet VerifyTxScript accepts a signature made over %x", e.Kind, e.Ht, idx, len(c.Outs), e.mangle(refDigest))
		}
		r.PropFail(key, what, map[string]interface{}{"e2e": e})
	}
}

type ctl struct{ spk, scriptSig []byte }

func lenClass(n int) string {
	switch {
	case n < 75:
		return "<75"
	case n <= 77:
		return fmt.Sprint(n)
	case n < 255:
		return "78..254"
	case n <= 256:
		return fmt.Sprint(n)
	}
	return ">256"
}

func oneInTx() Case {
	return Case{Label: "e2e", Version: 2, Lock: 0,
		Ins:   []JIn{{hs(0x11), 0, 0xfffffffd}, {hs(0x22), 1, 0xffffffff}},
		Outs:  []JOut{{90000, "0014" + hs(0x33)[:40]}},
		Spent: []JOut{{100000, ""}, {50000, "51"}}}
}

// e2eCorpus: the F1 witnesses (DESIGN §7) first, then one good and one bad spend per kind.
func e2eCorpus() {
	key := "c02c02c02c02c02c02c02c02c02c02c02c02c02c02c02c02c02c02c02c02c02c0"
	// F1: key-path spend, undefined hash type 0x04, signature over 32 zero bytes
	runE2E(&E2E{Kind: "p2tr-key", Tx: oneInTx(), Idx: 0, Ht: 4, Mode: "zero", Key: key})
	// F1: SIGHASH_SINGLE on input 1 of a transaction with a single output
	runE2E(&E2E{Kind: "p2tr-key", Tx: oneInTx(), Idx: 1, Ht: 3, Mode: "zero", Key: key})
	runE2E(&E2E{Kind: "p2tr-key", Tx: oneInTx(), Idx: 1, Ht: 0x83, Mode: "zero", Key: key})
	runE2E(&E2E{Kind: "p2tr-script", Tx: oneInTx(), Idx: 0, Ht: 0x84, Mode: "zero", Key: key, PreSep: true})
	runE2E(&E2E{Kind: "p2tr-script", Tx: oneInTx(), Idx: 1, Ht: 3, Mode: "zero", Key: key, Annex: strp("50ff")})
	for _, kind := range []string{"p2pkh", "bare", "p2wpkh", "p2wsh", "p2tr-key", "p2tr-script"} {
		for _, ht := range []uint32{0, 1, 2, 3, 0x81, 0x82, 0x83} {
			if ht == 0 && kind[:4] != "p2tr" {
				continue
			}
			for _, mode := range []string{"good", "flip"} {
				for idx := 0; idx < 2; idx++ {
					runE2E(&E2E{Kind: kind, Tx: oneInTx(), Idx: idx, Ht: ht, Mode: mode, Key: key, PreSep: idx == 1, MidSep: ht&1 == 0, PostSep: true, PreNop: ht&2 != 0})
				}
			}
		}
	}
	runE2E(&E2E{Kind: "bare", Tx: oneInTx(), Idx: 0, Ht: 1, Mode: "good", Key: key, Embed: true})
	runE2E(&E2E{Kind: "bare", Tx: oneInTx(), Idx: 0, Ht: 0x83, Mode: "good", Key: key, Embed: true, PreSep: true, PostSep: true})
	// signature removal at the push-opcode boundaries: a pre-BIP66 spend whose script code embeds its own (lax-DER
	// padded) signature as a push of exactly 75 (direct), 76, 77, 255 (PUSHDATA1), 256 (PUSHDATA2) bytes
	for _, n := range []int{75, 76, 77, 100, 255, 256} {
		for _, pre := range []bool{false, true} {
			runE2E(&E2E{Kind: "bare", Tx: oneInTx(), Idx: 0, Ht: 1, Mode: "good", Key: key, Embed: true, NoDer: true, SigLen: n, PreSep: pre, PostSep: pre})
			runE2E(&E2E{Kind: "bare", Tx: oneInTx(), Idx: 1, Ht: 0x83, Mode: "flip", Key: key, Embed: true, NoDer: true, SigLen: n, PreNop: pre})
		}
		runE2E(&E2E{Kind: "bare", Tx: oneInTx(), Idx: 0, Ht: 1, Mode: "good", Key: key, NoDer: true, SigLen: n})             // from the scriptSig
		runE2E(&E2E{Kind: "bare", Tx: oneInTx(), Idx: 0, Ht: 1, Mode: "good", Key: key, Embed: true, SigLen: n})              // BIP66 active: invalid
		runE2E(&E2E{Kind: "p2pkh", Tx: oneInTx(), Idx: 1, Ht: 2, Mode: "good", Key: key, NoDer: true, SigLen: n})
	}
	runE2E(&E2E{Kind: "p2tr-key", Tx: oneInTx(), Idx: 0, Ht: 0, Mode: "good", Key: key, Annex: strp("50")})
	runE2E(&E2E{Kind: "p2tr-key", Tx: oneInTx(), Idx: 0, Ht: 0, Mode: "good", Key: key, Expl0: true})
	runE2E(&E2E{Kind: "p2tr-script", Tx: oneInTx(), Idx: 1, Ht: 0, Mode: "good", Key: key, Expl0: true, MidSep: true})
}

func genE2E(g *vlib.Rng) *E2E {
	c := genTxShape(g, false)
	for len(c.Ins) == 0 || len(c.Ins) > 8 || len(c.Outs) > 8 {
		c = genTxShape(g, false)
	}
	c.Label = "e2e"
	kinds := []string{"p2pkh", "bare", "p2wpkh", "p2wsh", "p2tr-key", "p2tr-script", "p2tr-key", "p2tr-script"}
	e := &E2E{Kind: kinds[g.Intn(len(kinds))], Tx: *c, Idx: g.Intn(len(c.Ins)), Key: hx(g.Bytes(32)),
		PreNop: g.Bool(), PreSep: g.Bool(), MidSep: g.Bool(), PostSep: g.Bool()}
	valid := []uint32{0, 1, 2, 3, 0x81, 0x82, 0x83}
	taproot := e.Kind[:4] == "p2tr"
	e.Ht = valid[g.Intn(len(valid))]
	if g.Chance(1, 3) {
		e.Ht = uint32(g.Intn(256))
	}
	if !taproot && e.Ht == 0 && g.Bool() {
		e.Ht = 1
	}
	if taproot && e.Ht == 0 && g.Chance(1, 4) {
		e.Expl0 = true
	}
	if taproot && g.Chance(1, 3) {
		e.Annex = strp("50" + hx(g.Bytes(g.Intn(20))))
	}
	if e.Kind == "bare" {
		e.Embed = g.Bool()
	}
	if (e.Kind == "bare" || e.Kind == "p2pkh") && g.Chance(1, 2) {
		// a pre-BIP66 spend with a lax-DER padded signature (mostly embedded in the script code when bare)
		e.NoDer = g.Chance(5, 6)
		e.SigLen = []int{75, 76, 77, 78 + g.Intn(177), 255, 256, 257, 258}[g.Intn(8)]
		if e.Kind == "bare" && g.Chance(2, 3) {
			e.Embed = true
			if g.Chance(2, 3) {
				e.MidSep = false // keep the signature push inside the script code
			}
		}
	}
	switch g.Intn(8) {
	case 0, 1:
		e.Mode = "flip"
	case 2:
		e.Mode = "zero"
	case 3:
		if len(c.Ins) > 1 {
			e.Mode = "otheridx"
		} else {
			e.Mode = "good"
		}
	default:
		e.Mode = "good"
	}
	return e
}
