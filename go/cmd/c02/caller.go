// One transaction object in the hands of its caller, SEQUENTIALLY (Model.SigHashCaller, theorems
// caller_requests_sound / collect_then_verify_sound / early_worker_counterexample).
//
// commitTxs makes tx.Spent_outputs with one nil entry per input, stores the resolved outputs one by one and lets workers
// ask for digests. A CallerHist is one interleaving of "store the next spent output" and digest requests on ONE object
// in ONE goroutine: what a schedule of the caller's loop and its workers amounts to, request by request.
//   - model = code for every request of EVERY interleaving (an early taproot request panics on the nil entry and leaves
//     the published, half-filled tapSingleHashes behind; later requests are answered from it): the model of the
//     counterexample theorem is the code's behaviour;
//   - the property, for the interleavings the theorem covers (each request safe at the moment it runs: legacy / BIP143
//     any time, ANYONECANPAY taproot once its own input is stored, other taproot requests after all stores): every
//     result equals the result on a fresh object with all spent outputs, and the reference digest.
package main

import (
	"fmt"

	"github.com/piotrnar/gocoin/lib/btc"
	"verif/vlib"
)

type CallerHist struct {
	Tx  Case  `json:"tx"`  // Spent has one entry per input; Calls = the requests
	Evs []int `json:"evs"` // -1: store the next spent output; n >= 0: request Calls[n]
}

// safeAt: Model.SigHashCaller.safeAt
func (k *Call) safeAt(n, j int) bool {
	if k.Kind != "tap" {
		return true
	}
	return n <= j || (k.Ht&0x80 == 0x80 && k.Idx < j)
}

func runCallerHist(h *CallerHist) {
	c := &h.Tx
	n := len(c.Ins)
	if len(c.Spent) != n {
		return
	}
	t, spent := c.ref()
	o.MustAsk(c.oracleLine())
	o.MustAsk("cnew")
	tx := c.bare()
	tx.AllocVerVars()
	tx.Spent_outputs = make([]*btc.TxOut, n) // chain_accept.go:151
	stored := 0
	disciplined := true
	txh := vlib.ShortHash([]byte(c.oracleLine()))
	for en, ev := range h.Evs {
		if ev < 0 {
			if stored < n {
				tx.Spent_outputs[stored] = &btc.TxOut{Value: c.Spent[stored].Value, Pk_script: unhx(c.Spent[stored].Pk)}
				o.MustAsk("cstore")
				stored++
			}
			continue
		}
		if ev >= len(c.Calls) {
			continue
		}
		k := &c.Calls[ev]
		safe := k.safeAt(n, stored)
		disciplined = disciplined && safe
		one := CallerHist{Tx: *c, Evs: h.Evs[:en+1]}
		rep := map[string]interface{}{"caller": &one}
		got, hung := guardedCall(tx, k)
		if hung {
			r.TieFail("model-caller-blocks", fmt.Sprintf("event %d: the %s request (input %d, hash type 0x%x) with %d of %d spent outputs stored never returns (hashLock left locked by an earlier request); the model answers every request", en, k.Kind, k.Idx, k.Ht, stored, n), rep)
			return
		}
		mk, _, mdig := modelAsk(k, "c"+k.Kind)
		mres := mdig
		switch mk {
		case "panic":
			mres = "panic"
		case "undefined":
			mres = "nil"
		}
		class := "early-unsafe"
		switch {
		case stored >= n:
			class = "all-stored"
		case safe:
			class = "early-safe"
		}
		if !disciplined && safe {
			class += "-after-unsafe"
		}
		r.Eval("caller:"+k.Kind+":"+class, fmt.Sprintf("caller/%s/%d/%x/%d/%s", k.Kind, k.Idx, k.Ht, stored, txh))
		r.Hit("caller:real:" + class + ":" + resClass(got))
		if mres != got {
			r.TieFail("model-caller-"+k.Kind, fmt.Sprintf("event %d: %s request (input %d, hash type 0x%x) with %d of %d spent outputs stored: model %s vs code %s", en, k.Kind, k.Idx, k.Ht, stored, n, mres, got), rep)
		} else {
			r.TieOK()
		}
		if !disciplined {
			continue
		}
		// the property: a history whose requests were all safe so far answers like a fresh object with everything installed
		fresh := realCall(c.real(), k)
		defined, want, _ := refCall(t, spent, k)
		if got != fresh {
			r.PropFail("caller-history-"+k.Kind, fmt.Sprintf("event %d: %s request (input %d, hash type 0x%x) with %d of %d spent outputs stored (every request so far reads stored entries only) returns %s, a fresh object with all spent outputs %s", en, k.Kind, k.Idx, k.Ht, stored, n, got, fresh), rep)
		} else if defined && got != want {
			r.PropFail("digest-"+k.Kind, fmt.Sprintf("%s digest for input %d, hash type 0x%x is %s, the specification gives %s", k.Kind, k.Idx, k.Ht, got, want), rep)
		}
	}
}

func genCallerHist(g *vlib.Rng) *CallerHist {
	c := genCacheCase(g)
	c.Label = "caller"
	c.Par = 0
	n := len(c.Ins)
	for len(c.Spent) < n {
		c.Spent = append(c.Spent, JOut{g.U64(), hx(g.Bytes(genLen(g, false)))})
	}
	c.Spent = c.Spent[:n]
	h := &CallerHist{Tx: *c}
	order := make([]int, len(c.Calls))
	for i := range order {
		order[i] = i
		j := g.Intn(i + 1)
		order[i], order[j] = order[j], order[i]
	}
	switch g.Intn(3) {
	case 0: // the code as written: all stores, then the requests in some order
		for i := 0; i < n; i++ {
			h.Evs = append(h.Evs, -1)
		}
		h.Evs = append(h.Evs, order...)
	case 1: // requests overlap the stores, each held back until it is safe
		stored := 0
		pending := order
		for len(pending) > 0 {
			var rest []int
			for _, q := range pending {
				if c.Calls[q].safeAt(n, stored) && g.Bool() {
					h.Evs = append(h.Evs, q)
				} else {
					rest = append(rest, q)
				}
			}
			pending = rest
			if stored < n {
				h.Evs = append(h.Evs, -1)
				stored++
			}
		}
	default: // any interleaving
		stored := 0
		for _, q := range order {
			for stored < n && g.Chance(n, len(order)+1) {
				h.Evs = append(h.Evs, -1)
				stored++
			}
			h.Evs = append(h.Evs, q)
		}
		for ; stored < n; stored++ {
			h.Evs = append(h.Evs, -1)
		}
		// and once more when everything is stored
		h.Evs = append(h.Evs, order...)
	}
	return h
}

// callerCorpus: the history of the counterexample theorem (two taproot inputs, the worker of input 0 runs before
// input 1 is stored, the worker of input 1 after), key path and script path, and its disciplined twin.
func callerCorpus() []*CallerHist {
	c := oneInTx()
	c.Label = "caller"
	c.Spent = []JOut{{100000, "5120" + hs(0x55)}, {6000, "5120" + hs(0x22)}}
	c.Calls = []Call{
		{Kind: "tap", Idx: 0, Ht: 0},
		{Kind: "tap", Idx: 1, Ht: 0},
		{Kind: "tap", Idx: 0, Ht: 1, Script: true, Leaf: hs(0x33), Cs: 0xffffffff},
		{Kind: "tap", Idx: 0, Ht: 0x81},
		{Kind: "wit", Idx: 0, Ht: 1, Sc: "ac", Amount: 5000},
	}
	return []*CallerHist{
		{Tx: c, Evs: []int{-1, 0, -1, 1}},
		{Tx: c, Evs: []int{-1, 2, -1, 1, 0}},
		{Tx: c, Evs: []int{-1, 4, 3, -1, 0, 1, 2}},
		{Tx: c, Evs: []int{-1, -1, 1, 0, 2, 3, 4}},
	}
}

func callerStreams(g *vlib.Rng) {
	for _, h := range callerCorpus() {
		runCallerHist(h)
	}
	for i := 0; i < r.N(60, 1200); i++ {
		runCallerHist(genCallerHist(g))
	}
}
