// corpus and generators
package main

import (
	"encoding/binary"
	"encoding/json"
	"fmt"
	"math/big"
	"os"
	"strings"

	"github.com/piotrnar/gocoin/lib/script"
	"verif/vlib"
)

func mustBig(s string) *big.Int {
	x, ok := new(big.Int).SetString(s, 16)
	if !ok {
		panic("bad number")
	}
	return x
}

// parseLegacyTx: minimal independent parser of the non-witness serialisation (corpus only).
func parseLegacyTx(b []byte) (c Case, ok bool) {
	defer func() {
		if recover() != nil {
			ok = false
		}
	}()
	p := 0
	rd := func(n int) []byte { x := b[p : p+n]; p += n; return x }
	vi := func() uint64 {
		h := rd(1)[0]
		switch h {
		case 0xfd:
			return uint64(binary.LittleEndian.Uint16(rd(2)))
		case 0xfe:
			return uint64(binary.LittleEndian.Uint32(rd(4)))
		case 0xff:
			return binary.LittleEndian.Uint64(rd(8))
		}
		return uint64(h)
	}
	c.Version = binary.LittleEndian.Uint32(rd(4))
	for n := vi(); n > 0; n-- {
		var in JIn
		in.Hash = hx(rd(32))
		in.Vout = binary.LittleEndian.Uint32(rd(4))
		rd(int(vi()))
		in.Seq = binary.LittleEndian.Uint32(rd(4))
		c.Ins = append(c.Ins, in)
	}
	for n := vi(); n > 0; n-- {
		var x JOut
		x.Value = binary.LittleEndian.Uint64(rd(8))
		x.Pk = hx(rd(int(vi())))
		c.Outs = append(c.Outs, x)
	}
	c.Lock = binary.LittleEndian.Uint32(rd(4))
	return c, p == len(b)
}

// corpusSighashJSON: Bitcoin Core's 500 legacy vectors. Real code, reference and model must all give
// the listed digest.
func corpusSighashJSON() {
	dat, err := os.ReadFile(vlib.Root() + "/corpus/C02/sighash.json")
	if err != nil {
		fmt.Println("corpus missing:", err)
		os.Exit(3)
	}
	var arr [][]interface{}
	d := json.NewDecoder(strings.NewReader(string(dat)))
	d.UseNumber()
	if d.Decode(&arr) != nil {
		fmt.Println("corpus unreadable")
		os.Exit(3)
	}
	n := 0
	for _, e := range arr {
		if len(e) != 5 {
			continue
		}
		c, ok := parseLegacyTx(unhx(e[0].(string)))
		if !ok {
			continue
		}
		idx, _ := e[2].(json.Number).Int64()
		ht, _ := e[3].(json.Number).Int64()
		exp := unhx(e[4].(string))
		for i, j := 0, len(exp)-1; i < j; i, j = i+1, j-1 {
			exp[i], exp[j] = exp[j], exp[i]
		}
		c.Label = "sighash.json"
		c.Calls = []Call{{Kind: "leg", Sc: e[1].(string), Idx: int(idx), Ht: uint32(int32(ht))}}
		// the vector's digest is the authority here
		t, _ := c.ref()
		if def, want, _ := refCall(t, nil, &c.Calls[0]); def && want != hx(exp) {
			r.TieFail("reference-vs-vector", fmt.Sprintf("the harness's own reference disagrees with sighash.json entry %d", n), c)
		}
		if got := realCall(c.real(), &c.Calls[0]); got != hx(exp) {
			r.PropFail("digest-leg", fmt.Sprintf("sighash.json entry %d: SignatureHash gives %s, vector says %s", n, got, hx(exp)), c)
		}
		runCase(&c)
		if n%10 == 0 {
			specCheck(&c)
		}
		if n == 0 {
			r.Sample(c)
		}
		n++
	}
	r.Extra["corpus_sighash_json_vectors"] = n
}

func hs(b byte) string { return strings.Repeat(fmt.Sprintf("%02x", b), 32) }

func strp(s string) *string { return &s }

// handCorpus: boundaries named in the property's quantifier.
func handCorpus() []Case {
	in := func(b byte, v, s uint32) JIn { return JIn{hs(b), v, s} }
	two := Case{Label: "corpus", Version: 2, Lock: 0x11223344,
		Ins:   []JIn{in(0xaa, 0, 0xffffffff), in(0xbb, 1, 5), in(0xcc, 0xffffffff, 0)},
		Outs:  []JOut{{1000, "51"}, {^uint64(0), ""}},
		Spent: []JOut{{5000, "5120" + hs(1)}, {6000, "0014" + hs(2)[:40]}, {0, ""}}}
	var calls []Call
	sc := "76a914" + hs(3)[:40] + "88ac"
	scsep := "ab51ab" + "4104" + hs(4) + hs(5) + "acab" // code separators around a push and CHECKSIG
	for _, ht := range []uint32{0, 1, 2, 3, 4, 0x1f, 0x20, 0x41, 0x80, 0x81, 0x82, 0x83, 0x84, 0xff, 0x100, 0x103, 0x80000003, 0xffffff82} {
		for idx := 0; idx < 3; idx++ {
			calls = append(calls, Call{Kind: "leg", Sc: scsep, Idx: idx, Ht: ht})
			calls = append(calls, Call{Kind: "wit", Sc: sc, Amount: 5000, Idx: idx, Ht: ht})
			if ht < 256 {
				calls = append(calls, Call{Kind: "tap", Idx: idx, Ht: ht})
				calls = append(calls, Call{Kind: "tap", Idx: idx, Ht: ht, Annex: strp("50aabb"), Script: true, Leaf: hs(9), Cs: 0xffffffff})
				calls = append(calls, Call{Kind: "tap", Idx: idx, Ht: ht, Annex: strp("50"), Script: true, Leaf: hs(7), Cs: 2})
			}
		}
	}
	// truncated pushes (decode error → break) and a script that is only code separators
	for _, s := range []string{"ab4c", "51ab4d01", "ababab", "4e00000001", "05aabb", "ab", ""} {
		calls = append(calls, Call{Kind: "leg", Sc: s, Idx: 1, Ht: 1})
		calls = append(calls, Call{Kind: "leg", Sc: s, Idx: 2, Ht: 0x83})
	}
	// script codes at the five-byte CompactSize boundary (0xfd ffff | 0xfe 00000100), legacy and BIP143: exactly 65535 and
	// 65536 bytes (one PUSHDATA2 each - few operations keep the Lean Spec's parser, quadratic in the number of operations,
	// fast), 65536 bytes left after code separators in front and behind are removed, a PUSHDATA4 of 70000 bytes whose
	// data is full of 0xab bytes (kept) followed by a real code separator (removed), and 65536 one-byte operations
	push2 := func(n int, b string) string { return fmt.Sprintf("4d%02x%02x", n&0xff, n>>8) + strings.Repeat(b, n) }
	for i, s := range []string{push2(65532, "00"), push2(65533, "00"), "ab" + push2(65533, "7f") + "ab",
		"4e70110100" + strings.Repeat("ab", 70000) + "abac", strings.Repeat("51", 65536)} {
		calls = append(calls, Call{Kind: "leg", Sc: s, Idx: 1, Ht: 1, NoSpec: i == 4}, Call{Kind: "leg", Sc: s, Idx: 2, Ht: 0x83, NoSpec: i == 4},
			Call{Kind: "wit", Sc: s, Amount: 6000, Idx: 1, Ht: 1})
	}
	// index out of range
	calls = append(calls, Call{Kind: "leg", Sc: sc, Idx: 3, Ht: 1}, Call{Kind: "leg", Sc: sc, Idx: 3, Ht: 0x81},
		Call{Kind: "wit", Sc: sc, Idx: 3, Ht: 1}, Call{Kind: "tap", Idx: 3, Ht: 1}, Call{Kind: "tap", Idx: 3, Ht: 0x81}, Call{Kind: "tap", Idx: 7, Ht: 3})
	two.Calls = calls
	empty := Case{Label: "corpus", Version: 1, Calls: []Call{{Kind: "leg", Sc: "51", Idx: 0, Ht: 1}, {Kind: "leg", Sc: "51", Idx: 0, Ht: 0x81},
		{Kind: "wit", Sc: "51", Idx: 0, Ht: 1}, {Kind: "tap", Idx: 0, Ht: 0}, {Kind: "tap", Idx: 0, Ht: 4}}}
	// 253 inputs / outputs: three-byte CompactSize counts
	big := Case{Label: "corpus", Version: 0xffffffff, Lock: 0xffffffff}
	for i := 0; i < 253; i++ {
		big.Ins = append(big.Ins, in(byte(i), uint32(i), uint32(i)*77))
		big.Outs = append(big.Outs, JOut{uint64(i), fmt.Sprintf("%02x", i)})
		big.Spent = append(big.Spent, JOut{uint64(i) << 33, strings.Repeat("ac", i)})
	}
	for _, ht := range []uint32{0, 1, 2, 3, 0x81, 0x83, 5} {
		big.Calls = append(big.Calls, Call{Kind: "leg", Sc: strings.Repeat("51", 253), Idx: 252, Ht: ht},
			Call{Kind: "wit", Sc: strings.Repeat("51", 70000), Amount: 1 << 63, Idx: 252, Ht: ht},
			Call{Kind: "tap", Idx: 252, Ht: ht}, Call{Kind: "leg", Sc: "ac", Idx: 0, Ht: ht},
			Call{Kind: "leg", Sc: "4e70110100" + strings.Repeat("51", 70000), Idx: 252, Ht: ht})
	}
	// short Spent_outputs: panic in the middle of the cache fill, then the same object again
	poison := two
	poison.Spent = two.Spent[:1]
	poison.Calls = []Call{{Kind: "tap", Idx: 0, Ht: 0x81}, {Kind: "tap", Idx: 0, Ht: 1}, {Kind: "wit", Sc: sc, Idx: 0, Ht: 1}}
	return []Case{two, empty, big, poison}
}

// ------------------------------------------------------------ random transactions

func edge32(g *vlib.Rng) uint32 {
	switch g.Intn(6) {
	case 0:
		return 0
	case 1:
		return 0xffffffff
	case 2:
		return uint32(g.Intn(4))
	case 3:
		return 0x80000000 | uint32(g.Intn(3))
	}
	return uint32(g.U64())
}

func genLen(g *vlib.Rng, big bool) int {
	switch g.Intn(12) {
	case 0:
		return 0
	case 1:
		return 252 + g.Intn(3)
	case 2:
		if big {
			return 65534 + g.Intn(4)
		}
	}
	return g.Intn(40)
}

func genTxShape(g *vlib.Rng, big bool) *Case {
	c := &Case{Version: edge32(g), Lock: edge32(g)}
	ni, no := g.Intn(6), g.Intn(6)
	switch g.Intn(14) {
	case 0:
		ni = 0
	case 1:
		no = 0
	case 2:
		ni = 252 + g.Intn(3)
	case 3:
		no = 252 + g.Intn(3)
	case 4:
		ni, no = 1+g.Intn(3), 0
	}
	for i := 0; i < ni; i++ {
		c.Ins = append(c.Ins, JIn{hx(g.Bytes(32)), edge32(g), edge32(g)})
		v := g.U64()
		if g.Chance(1, 4) {
			v = uint64(g.Intn(100000))
		}
		c.Spent = append(c.Spent, JOut{v, hx(g.Bytes(genLen(g, false)))})
	}
	for i := 0; i < no; i++ {
		v := g.U64()
		if g.Chance(1, 8) {
			v = ^uint64(0)
		}
		c.Outs = append(c.Outs, JOut{v, hx(g.Bytes(genLen(g, big && ni+no < 20)))})
	}
	return c
}

// genScript: a script code made of whole operations, with code separators, signature-like pushes,
// PUSHDATA1/2/4 forms; with probability 1/10 it ends inside a push (decode error).
func genScript(g *vlib.Rng) []byte {
	var s []byte
	n := g.Intn(9)
	for i := 0; i < n; i++ {
		switch g.Intn(9) {
		case 0, 1:
			s = append(s, 0xab)
		case 2:
			s = append(s, 0xac+byte(g.Intn(4)))
		case 3:
			d := g.Bytes(g.Intn(76))
			s = append(append(s, byte(len(d))), d...)
		case 4:
			d := append([]byte{0x30, 0x44, 0x02, 0x20}, g.Bytes(68)...)
			s = append(append(s, byte(len(d))), d...)
		case 5:
			d := g.Bytes(g.Intn(300))
			switch g.Intn(3) {
			case 0:
				if len(d) < 256 {
					s = append(append(s, 0x4c, byte(len(d))), d...)
				}
			case 1:
				s = append(append(s, 0x4d, byte(len(d)), byte(len(d)>>8)), d...)
			case 2:
				s = append(append(s, 0x4e, byte(len(d)), byte(len(d)>>8), 0, 0), d...)
			}
		case 6:
			s = append(s, 0x4f+byte(g.Intn(0xb1)))
		case 7:
			s = append(s, 0x01, 0xab) // a push whose DATA is 0xab — not a code separator
		case 8:
			s = append(s, 0x51+byte(g.Intn(16)))
		}
	}
	if g.Chance(1, 10) {
		switch g.Intn(4) {
		case 0:
			s = append(s, 0x4c)
		case 1:
			s = append(s, 0x4d, 0x05)
		case 2:
			s = append(s, 0x4e, 1, 0, 0)
		case 3:
			s = append(s, byte(2+g.Intn(70)), 0x01)
		}
	}
	return s
}

var quickTypes = []uint32{0, 1, 2, 3, 4, 0x7f, 0x80, 0x81, 0x82, 0x83, 0x84, 0xc1, 0x1f, 0x20, 0x21, 0x22, 0x23, 0x43, 0x63, 0xe2, 0xff}

func genCall(g *vlib.Rng, c *Case, kind string, ht uint32) Call {
	idx := 0
	if len(c.Ins) > 0 {
		idx = g.Intn(len(c.Ins))
	}
	if g.Chance(1, 25) {
		idx = len(c.Ins) + g.Intn(2)
	}
	k := Call{Kind: kind, Idx: idx, Ht: ht}
	switch kind {
	case "leg":
		k.Sc = hx(genScript(g))
	case "wit":
		k.Sc = hx(genScript(g))
		k.Amount = g.U64()
		if g.Chance(1, 3) {
			k.Amount = uint64(g.Intn(1 << 30))
		}
	case "tap":
		if g.Chance(1, 3) {
			k.Annex = strp("50" + hx(g.Bytes(genLen(g, false))))
		}
		if g.Bool() {
			k.Script = true
			k.Leaf = hx(g.Bytes(32))
			k.Cs = edge32(g)
		}
	}
	return k
}

func genCase(g *vlib.Rng, thorough bool, n int) *Case {
	c := genTxShape(g, thorough && n%16 == 0)
	c.Label = "random"
	var types []uint32
	if thorough && len(c.Ins)+len(c.Outs) < 40 {
		for i := 0; i < 256; i++ {
			types = append(types, uint32(i))
		}
	} else {
		types = append(types, quickTypes...)
		for i := 0; i < 4; i++ {
			types = append(types, uint32(g.Intn(256)))
		}
	}
	// shuffle so that the cache is filled in a different order each time
	for i := len(types) - 1; i > 0; i-- {
		j := g.Intn(i + 1)
		types[i], types[j] = types[j], types[i]
	}
	for _, ht := range types {
		for _, kind := range []string{"leg", "wit", "tap"} {
			c.Calls = append(c.Calls, genCall(g, c, kind, ht))
		}
	}
	// 4-byte types for legacy / BIP143
	for i := 0; i < 6; i++ {
		ht := uint32(g.U64())
		if g.Bool() {
			ht = ht&^0xff | quickTypes[g.Intn(len(quickTypes))]
		}
		c.Calls = append(c.Calls, genCall(g, c, "leg", ht), genCall(g, c, "wit", ht))
	}
	return c
}

// genCacheCase: few distinct calls repeated in random order (so that every cached field is filled by
// one kind of call and consumed by another), plus parallel callers.
func genCacheCase(g *vlib.Rng) *Case {
	c := genTxShape(g, false)
	for len(c.Ins) == 0 || len(c.Ins) > 20 {
		c = genTxShape(g, false)
	}
	c.Label = "cache"
	var pool []Call
	valid := []uint32{0, 1, 2, 3, 0x81, 0x82, 0x83}
	for i := 0; i < 10; i++ {
		kind := []string{"wit", "tap", "tap", "wit", "leg"}[g.Intn(5)]
		ht := valid[g.Intn(len(valid))]
		if g.Chance(1, 6) {
			ht = uint32(g.Intn(256))
		}
		pool = append(pool, genCall(g, c, kind, ht))
	}
	for i := 0; i < 24; i++ {
		c.Calls = append(c.Calls, pool[g.Intn(len(pool))])
	}
	c.Par = 2 + g.Intn(7)
	return c
}

// ------------------------------------------------------------ delSig

// delSig: the real script.delSig (through the verif hook script.VerifDelSig) against the reference
// FindAndDelete (the property: "signature removal") and against the Lean model's delSig (the tie),
// and the Lean Spec.findAndDelete against the Go reference.
var delSigEdges = []int{0, 1, 74, 75, 76, 77, 254, 255, 256, 257}

// realDelSig: script.delSig prints on a decode error; keep the harness's stdout clean.
func realDelSig(where, sig []byte) (res []byte, cnt int, panicked bool) {
	defer func() {
		if recover() != nil {
			panicked = true
		}
	}()
	old := os.Stdout
	if devnull != nil {
		os.Stdout = devnull
	}
	defer func() { os.Stdout = old }()
	res, cnt = script.VerifDelSig(where, sig)
	return
}

var devnull, _ = os.OpenFile(os.DevNull, os.O_WRONLY, 0)

func delSigOne(s, sig []byte, label string) {
	doc := map[string]string{"delsig_script": hx(s), "delsig_sig": hx(sig)}
	rres, rcnt, rpanic := realDelSig(s, sig)
	real := fmt.Sprintf("ok %s %d", vlib.Hex(rres), rcnt)
	if rpanic {
		real = "panic"
	}
	rep := o.MustAsk(fmt.Sprintf("delsig %s %s", vlib.Hex(s), vlib.Hex(sig)))
	res, cnt, ok := refFindAndDelete(s, sig)
	srep := o.MustAsk(fmt.Sprintf("sdel %s %s", vlib.Hex(s), vlib.Hex(sig)))
	exp := "none"
	if ok {
		exp = fmt.Sprintf("ok %s %d", vlib.Hex(res), cnt)
	}
	if srep != exp {
		r.TieFail("spec-findanddelete", "Lean Spec.findAndDelete and the Go reference disagree", doc)
	}
	class := "sig<76"
	switch {
	case len(sig) > 0xffff:
		class = "sig>=65536(PUSHDATA4)"
	case len(sig) > 0xff:
		class = "sig=256..65535(PUSHDATA2)"
	case len(sig) >= 76:
		class = "sig=76..255(PUSHDATA1)"
	}
	if !ok {
		class += ",undecodable-script"
	} else if cnt > 0 {
		class += ",removed"
	}
	key := ""
	if ok && cnt > 0 {
		key = "delsig/" + vlib.ShortHash(append(append([]byte{}, s...), sig...))
	}
	r.Eval("delsig:"+class, key)
	// the property on the real code: signature removal = FindAndDelete(script, CScript() << sig)
	if ok && real != exp {
		doc["real"], doc["reference"] = real, exp
		r.PropFail("delsig-findanddelete", fmt.Sprintf("script.delSig differs from FindAndDelete for a %d-byte signature (%s): removed %d operation(s), the reference removes %d", len(sig), label, rcnt, cnt), doc)
	}
	// model = code, decodable or not
	if rep != real {
		doc["real"], doc["model"] = real, rep
		r.TieFail("model-delsig", fmt.Sprintf("Model.delSig differs from script.delSig for a %d-byte signature (%s)", len(sig), label), doc)
	} else {
		r.TieOK()
	}
}

func delSigCorpus() {
	g := vlib.NewRng(0xde15)
	edges := append([]int{}, delSigEdges...)
	edges = append(edges, 520, 521, 65535, 65536)
	for _, n := range edges {
		sig := g.Bytes(n)
		push := refPush(sig)
		// the canonical push between two operations, twice, and the look-alikes that must stay
		delSigOne(cat([]byte{0x51}, push, []byte{0xac}), sig, "canonical push")
		delSigOne(cat(push, push, []byte{0xab}, push), sig, "three canonical pushes")
		if n < 0x10000 {
			delSigOne(cat([]byte{0x4e}, u32(uint32(n)), sig, []byte{0xac}), sig, "PUSHDATA4 form of the same data") // non-canonical unless n > 0xffff
			delSigOne(cat([]byte{0x4d, byte(n), byte(n >> 8)}, sig, []byte{0xac}), sig, "PUSHDATA2 form of the same data")
		}
		if n < 0x100 {
			delSigOne(cat([]byte{0x4c, byte(n)}, sig, []byte{0xac}), sig, "PUSHDATA1 form of the same data")
		}
		if n >= 1 && n < 0x4c {
			delSigOne(cat([]byte{byte(n)}, sig, []byte{0xac}), sig, "direct push")
		}
		if n >= 0xfd && n < 0x10000 {
			// the CompactSize prefix (fd lo hi ‖ sig) the code before fix acaf95d6 looked for: opcode 0xfd is one operation
			delSigOne(cat([]byte{0xfd, byte(n), byte(n >> 8)}, sig), sig, "CompactSize-prefixed look-alike")
		}
		// the push as DATA of a longer push: not an operation of the script
		if n < 400 {
			delSigOne(cat(refPush(cat([]byte{0x51}, push)), push), sig, "push inside the data of another push")
		}
		// truncated: the script ends inside the signature push
		delSigOne(cat([]byte{0x51}, push[:len(push)/2+1]), sig, "script ends inside the push")
	}
}

func delSigCase(g *vlib.Rng, n int) {
	var sig []byte
	switch g.Intn(12) {
	case 0:
		sig = g.Bytes(76 + g.Intn(200))
	case 1:
		sig = g.Bytes(delSigEdges[g.Intn(len(delSigEdges))])
	case 2:
		sig = g.Bytes(256 + g.Intn(300))
	default:
		sig = g.Bytes(g.Intn(76))
	}
	push := refPush(sig)
	var s []byte
	for i := 0; i < g.Intn(6); i++ {
		switch g.Intn(6) {
		case 0, 1:
			s = append(s, push...)
		case 2:
			s = append(s, genScript(g)...)
		case 3:
			s = append(append(s, byte(len(sig))), sig...) // length byte + data: a push only below 76 bytes
		case 4:
			s = append(append(s, cs(uint64(len(sig)))...), sig...) // CompactSize + data
		case 5:
			s = append(append(s, 0x4c, byte(len(sig))), sig...) // PUSHDATA1 form (canonical only for 76..255)
		}
	}
	delSigOne(s, sig, "random")
}

var _ = script.VER_P2SH
