// The signature check around the taproot digest, model against code:
//   - SigChecker.CheckSchnorrSignature (lib/script/checker.go) against Model.SigHash.schnorrPlan / checkSchnorrSignature
//     (oracle request `chk`): the model says "fail", "panic" or "btc.SchnorrVerify is asked about (pubkey, sig64, msg)";
//     the verdict of the real function must be false / a panic / what the independent BIP340 verifier (ec.go) says
//     about exactly that triple.
//   - the annex hash of lib/script/witness.go against Model.SigHash.annexHashOf (oracle request `annex`): the model's
//     value is compared with the reference computation, is what the model's `tap` / `chk` requests are given, and - in the
//     end-to-end taproot spends - the real witness.go computes its own M_annex_hash and the verdict of VerifyTxScript must
//     be the verdict the model derives from ITS annex hash.
package main

import (
	"fmt"
	"os"
	"strings"
	"time"

	"github.com/piotrnar/gocoin/lib/btc"
	"github.com/piotrnar/gocoin/lib/script"
	"verif/vlib"
)

var chkPub []byte // x-only public key of signKey
var chkSigned int // signatures made by the independent signer for schnorrTie so far

func chkPubKey() []byte {
	if chkPub == nil {
		chkPub, _ = xonlyPub(signKey)
	}
	return chkPub
}

var annexMemo = map[string]string{}

// modelAnnexHash: Model.SigHash.annexHashOf through the oracle, compared with the reference computation
// sha256(CompactSize(len) ‖ annex) once per distinct annex.
func modelAnnexHash(annex []byte) string {
	key := hx(annex)
	if h, ok := annexMemo[key]; ok {
		return h
	}
	rep := strings.Fields(o.MustAsk("annex " + vlib.Hex(annex)))
	if len(rep) != 2 || rep[0] != "ok" {
		fmt.Fprintln(os.Stderr, "ORACLE-ERROR: unexpected reply to annex:", rep)
		os.Exit(3)
	}
	want := hx(sha(cat(cs(uint64(len(annex))), annex)))
	if rep[1] != want {
		r.TieFail("model-annex", fmt.Sprintf("annex hash of a %d-byte annex: model %s, reference sha256(CompactSize(len) ‖ annex) %s", len(annex), rep[1], want), map[string]interface{}{"annex": key})
	} else {
		r.TieOK()
	}
	r.Hit("annex-hash:model=reference:len=" + bucket(len(annex)))
	annexMemo[key] = rep[1]
	return rep[1]
}

// askChk: the model's plan for CheckSchnorrSignature on the oracle's current transaction object (cache threaded).
// kind = fail | panic | verify (then pk, sig64, msg are what btc.SchnorrVerify is handed).
func askChk(sig, pk []byte, tapscript bool, annexHash string, leaf []byte, codesep uint32, idx int) (kind, mpk, msig, mmsg string) {
	rep := o.MustAsk(fmt.Sprintf("chk %s %s %s %s %s %d %d", vlib.Hex(sig), vlib.Hex(pk), b01(tapscript), annexHash, vlib.Hex(leaf), codesep, idx))
	f := strings.Fields(rep)
	switch {
	case len(f) == 1 && (f[0] == "fail" || f[0] == "panic"):
		return f[0], "", "", ""
	case len(f) == 4 && f[0] == "verify":
		return "verify", f[1], f[2], f[3]
	}
	fmt.Fprintln(os.Stderr, "ORACLE-ERROR: unexpected reply to chk:", rep)
	os.Exit(3)
	return
}

// realChk: the real CheckSchnorrSignature on this transaction object: "true" | "false" | "panic"; hung = no answer.
func realChk(tx *btc.Tx, k *Call, sig, pk []byte) (res string, hung bool) {
	ch := make(chan string, 1)
	go func() {
		defer func() {
			if e := recover(); e != nil {
				ch <- "panic"
			}
		}()
		ver := script.SIGVERSION_TAPROOT
		if k.Script {
			ver = script.SIGVERSION_TAPSCRIPT
		}
		c := &script.SigChecker{Tx: tx, Idx: k.Idx}
		ch <- fmt.Sprint(c.CheckSchnorrSignature(sig, pk, ver, k.execdata()))
	}()
	select {
	case res = <-ch:
		return res, false
	case <-time.After(callTimeout):
		return "", true
	}
}

// chkVariant: which signature the n-th request of a case is checked with. `signed` counts the signatures made by
// the independent signer for this case (each costs two to four scalar multiplications in math/big: one per case, all
// in the corpus).
func chkVariant(label string, n int, k *Call, haveDigest bool, signed *int) string {
	switch {
	case k.Ht == 0 && n%5 == 3:
		return "explicit-0x00" // 65 bytes, the hash type byte spelled out as SIGHASH_DEFAULT
	case n%11 == 7:
		return "63-bytes"
	case n%11 == 9:
		return "66-bytes"
	case n%13 == 5:
		return "empty"
	}
	if haveDigest && (*signed < 1 || label == "corpus") {
		*signed++
		chkSigned++
		if chkSigned%3 != 0 {
			return "good"
		}
		return "flip"
	}
	return "garbage"
}

// schnorrTie: one CheckSchnorrSignature on the SHARED real object and the same request to the model (both thread
// their cache), after the digest request k (model digest mdig when mk is hashed / const). false = the shared object
// is stuck.
func schnorrTie(c *Case, shared *btc.Tx, n int, k *Call, mk, mdig, got string, signed *int, one Case) bool {
	variant := chkVariant(c.Label, n, k, mk == "hashed" || mk == "const", signed)
	pk := chkPubKey()
	var sig []byte
	expectV := "" // what an honest btc.SchnorrVerify says about the triple the model names ("" = ask ec.go)
	switch variant {
	case "good", "flip":
		sig = schnorrSign(signKey, unhx(mdig), make([]byte, 32))
		if variant == "flip" {
			sig[40+n%24] ^= 1 << uint(n%8)
		}
		if chkSigned%8 != 0 {
			// by construction (the signer's signature over the model's digest; s with one bit changed is no longer the
			// one s that fits R); one in eight and the whole corpus are put to the independent verifier below
			expectV = fmt.Sprint(variant == "good")
		}
	case "empty":
		sig = []byte{}
	case "explicit-0x00":
		// once per case (always in the corpus): a GOOD signature over the digest of hash type 0 with the 0x00 spelled
		// out - a check that forgets the rule goes on to accept it
		if (mk == "hashed" || mk == "const") && (explSignedFor != c || c.Label == "corpus") {
			explSignedFor = c
			sig = schnorrSign(signKey, unhx(mdig), make([]byte, 32))
			r.Hit("chk:explicit-0x00:good-signature")
		} else {
			sig = append([]byte{}, garbageSig()...)
		}
	default:
		// 64 bytes that are a valid signature of ANOTHER message under this key (fixed): not a signature of any digest here
		sig = append([]byte{}, garbageSig()...)
		expectV = "false"
	}
	switch variant {
	case "63-bytes":
		sig = sig[:63]
	case "66-bytes":
		sig = append(sig, byte(k.Ht), byte(k.Ht))
	case "explicit-0x00":
		sig = append(sig, 0)
	case "empty":
	default:
		if byte(k.Ht) != 0 {
			sig = append(sig, byte(k.Ht))
		}
	}
	ah := "nil"
	if k.Annex != nil {
		ah = modelAnnexHash(unhx(*k.Annex))
	}
	real, hung := realChk(shared, k, sig, pk)
	if hung {
		what := fmt.Sprintf("CheckSchnorrSignature after call %d (input %d, hash type 0x%x) on the shared transaction object never returns (no answer within %v): an earlier request left hashLock locked", n, k.Idx, k.Ht, callTimeout)
		if len(c.Spent) >= len(c.Ins) {
			r.PropFail("cache-call-blocks", what, one)
		} else {
			r.TieFail("model-call-blocks", what+" - after a recovered panic (Spent_outputs shorter than the inputs); the model answers every request", one)
		}
		return false
	}
	kind, mpk, msig, mmsg := askChk(sig, pk, k.Script, ah, unhx(k.Leaf), k.Cs, k.Idx)
	want := "false"
	switch kind {
	case "panic":
		want = "panic"
	case "verify":
		if mpk != hx(pk) || len(sig) < 64 || msig != hx(sig[:64]) {
			r.TieFail("model-chk", fmt.Sprintf("the model hands SchnorrVerify a public key / signature other than the ones given (call %d)", n), one)
		}
		if (variant == "good" || variant == "flip") && mmsg != mdig {
			r.TieFail("model-chk", fmt.Sprintf("the model's signature check verifies over %s, the model's digest request for the same arguments gave %s (call %d)", mmsg, mdig, n), one)
			expectV = ""
		}
		if got != "nil" && got != "panic" && mmsg != got {
			// the digest request just before this check returned `got` on the real object
			r.TieFail("model-chk", fmt.Sprintf("the model verifies over %s, the real TaprootSigHash just returned %s (call %d)", mmsg, got, n), one)
		}
		if expectV == "" || c.Label == "corpus" {
			expectV = fmt.Sprint(schnorrVerify(unhx(mpk), unhx(msig), unhx(mmsg)))
			if variant == "good" && expectV != "true" {
				fmt.Fprintln(os.Stderr, "c02: internal error: the independent verifier refuses the independent signer's signature")
				os.Exit(3)
			}
		}
		want = expectV
	}
	r.Hit("chk:" + variant + ":model=" + kind + ":real=" + real)
	if real != want {
		what := fmt.Sprintf("CheckSchnorrSignature (%s signature of %d bytes, input %d, hash type 0x%02x, script path %v) after call %d: code %s, model %s", variant, len(sig), k.Idx, k.Ht, k.Script, n, real, kind+"→"+want)
		if real == "true" && (variant == "explicit-0x00" || variant == "63-bytes" || variant == "66-bytes" || variant == "empty") {
			r.PropFail("taproot-undefined-digest-accepted", what+": BIP341 refuses a signature of this size / a 65-byte signature whose hash type byte is 0x00", one)
		} else {
			r.TieFail("model-chk", what, one)
		}
	} else {
		r.TieOK()
	}
	return true
}

var garbage []byte
var explSignedFor *Case

func garbageSig() []byte {
	if garbage == nil {
		garbage = schnorrSign(signKey, []byte("C02: a message that is not a signature hash"), make([]byte, 32))
	}
	return garbage
}

// e2eSchnorrTie: an end-to-end taproot spend whose verdict `got` ("true" | "false" | "panic") the real VerifyTxScript
// just gave: witness.go computed M_annex_hash from the annex on the witness stack and called CheckSchnorrSignature
// (key path: with the witness program; script path: through OP_CHECKSIG of `<pk> CHECKSIG` with optional separators).
// The model is asked for its annex hash and, with it, for its plan; the verdict must be the model's.
func e2eSchnorrTie(e *E2E, c *Case, sig, pk []byte, annex []byte, hasAnnex bool, ext *refExt, got string) {
	o.MustAsk(c.oracleLine())
	ah := "nil"
	if hasAnnex {
		ah = modelAnnexHash(annex)
	}
	var leaf []byte
	var pos uint32
	if ext != nil {
		leaf, pos = ext.Leaf, ext.Pos
	}
	kind, mpk, msig, mmsg := askChk(sig, pk, ext != nil, ah, leaf, pos, e.Idx)
	want := "false"
	switch kind {
	case "panic":
		want = "panic"
	case "verify":
		want = fmt.Sprint(schnorrVerify(unhx(mpk), unhx(msig), unhx(mmsg)))
	}
	r.Hit(fmt.Sprintf("chk-e2e:%s:annex=%v:model=%s:real=%s", e.Kind, hasAnnex, kind, got))
	if got != want {
		r.TieFail("model-chk-e2e", fmt.Sprintf("%s spend of input %d, hash type 0x%02x, annex %v: VerifyTxScript (witness.go computes the annex hash, checker.go checks the signature) says %s; the model (annexHashOf, checkSchnorrSignature with the independent BIP340 verifier) says %s", e.Kind, e.Idx, e.Ht, hasAnnex, got, kind+"→"+want), map[string]interface{}{"e2e": e})
	} else {
		r.TieOK()
	}
}
