// Stream 7: a slice of the concurrent requests once more, in a child built with Go's race detector.
//
// Why: the digest functions publish their cache fields (`tx.hashPrevouts = new([32]byte)` … `copy(…)`) under hashLock.
// If the lock no longer covers the whole body, the window between publishing and filling is a few nanoseconds in
// WitnessSigHash - no start discipline of the ordinary concurrent streams hits it (only TaprootSigHash has a window wide
// enough). The race detector does not need the window to be hit: it reports two conflicting accesses that are not ordered
// by a lock / channel, whenever both happen in one run. So "each digest request is one atomic step" becomes observable:
// any access of the cache fields, of Spent_outputs or of a shared hasher outside the lock is a report.
//
// Parent: builds this very package with `go build -race -tags verif` against the tree under test (same -modfile / suffix
// as ./check uses for VERIF_REPO) while the other streams run, starts it as `-child` with GORACE=log_path=…, first asks
// for a deliberate race (canary: proves the detector is live and the log is read), then replays the queued requests
// (Group = digest requests by several callers on one / several objects; Multis = one goroutine per spent input through
// script.VerifyTxScript) and turns every new "WARNING: DATA RACE" block with a gocoin frame into a property failure
// carrying the request that was running. The node path (Chain.ProcessBlockTransactions) is not run here: C11 does that
// under its own race build.
package main

import (
	"crypto/sha1"
	"encoding/hex"
	"fmt"
	"os"
	"os/exec"
	"path/filepath"
	"regexp"
	"strings"
	"time"

	"verif/vlib"
)

type raceItem struct {
	q   *parReq
	rep map[string]interface{}
}

var raceQueue []raceItem
var raceGroups, raceMultis int

// raceNote: called where a concurrent request was just answered by the ordinary child; keeps the first few of each kind.
func raceNote(q *parReq, rep map[string]interface{}) {
	if r.Replay != "" && !raceReplay {
		return
	}
	capG, capM := r.N(16, 120), r.N(4, 16)
	if raceReplay {
		capG, capM = 1000, 1000
	}
	rounds := 2
	if raceReplay {
		rounds = 12
	}
	switch {
	case len(q.Group) > 0 && raceGroups < capG:
		raceGroups++
	case len(q.Multis) > 0 && q.Node == nil && raceMultis < capM:
		inputs := 0
		for _, b := range q.Multis {
			inputs += len(b.Idx) + len(b.Tx.Ins)/40
		}
		if inputs > 40 {
			return // signature checks are ~10x slower under the detector
		}
		raceMultis++
	default:
		return
	}
	cp := *q
	cp.Rounds = rounds
	rep2 := map[string]interface{}{"race": true}
	for k, v := range rep {
		rep2[k] = v
	}
	raceQueue = append(raceQueue, raceItem{&cp, rep2})
}

var raceReplay bool // replaying a failure found by this stream

type raceBuilt struct {
	bin string
	err error
}

var raceBuildCh chan raceBuilt

// raceBuildStart: the -race build runs while the other streams do their work.
func raceBuildStart() {
	raceBuildCh = make(chan raceBuilt, 1)
	go func() {
		work := vlib.Root() + "/.work"
		suf, modflags := "", []string{}
		if repo := strings.TrimRight(os.Getenv("VERIF_REPO"), "/"); repo != "" && repo != "/repo" {
			h := sha1.Sum([]byte(repo))
			suf = "_" + hex.EncodeToString(h[:])[:8]
			modflags = []string{"-modfile=" + work + "/go" + suf + ".mod"}
		}
		bin := work + "/bin/c02_race" + suf
		args := append([]string{"build"}, modflags...)
		args = append(args, "-race", "-tags", "verif", "-o", bin, "./cmd/c02")
		cmd := exec.Command("go", args...)
		cmd.Dir = vlib.Root() + "/go"
		cmd.Env = append(os.Environ(), "CGO_ENABLED=1")
		done := make(chan struct{})
		var out []byte
		var err error
		go func() { out, err = cmd.CombinedOutput(); close(done) }()
		select {
		case <-done:
		case <-time.After(8 * time.Minute):
			if cmd.Process != nil {
				cmd.Process.Kill()
			}
			<-done
			err = fmt.Errorf("no result within 8 minutes")
		}
		if err != nil {
			raceBuildCh <- raceBuilt{"", fmt.Errorf("go build -race failed: %v\n%s", err, string(out))}
			return
		}
		raceBuildCh <- raceBuilt{bin, nil}
	}()
}

var raceCanaryVar int

// raceCanary (child): one deliberate unsynchronised write/write pair.
func raceCanary() {
	done := make(chan struct{})
	go func() {
		raceCanaryVar = 1
		close(done)
	}()
	raceCanaryVar = 2
	<-done
}

func raceLog(dir string) string {
	files, _ := filepath.Glob(dir + "/race.*")
	var sb strings.Builder
	for _, f := range files {
		b, _ := os.ReadFile(f)
		sb.Write(b)
	}
	return sb.String()
}

var raceFrame = regexp.MustCompile(`(?m)^  (\S+)\(`)

// raceReports: the DATA RACE blocks of a piece of log; gocoin = at least one frame inside the repository's packages.
func raceReports(log string) (gocoin []string, other int) {
	for _, blk := range strings.Split(log, "==================") {
		if !strings.Contains(blk, "WARNING: DATA RACE") {
			continue
		}
		if !strings.Contains(blk, "github.com/piotrnar/gocoin/") {
			other++
			continue
		}
		// header lines ("Write at … by goroutine 12:") each followed by their top frame
		var parts []string
		lines := strings.Split(blk, "\n")
		for i, l := range lines {
			t := strings.TrimSpace(l)
			if (strings.HasPrefix(t, "Write at") || strings.HasPrefix(t, "Read at") || strings.HasPrefix(t, "Previous write at") || strings.HasPrefix(t, "Previous read at")) && i+1 < len(lines) {
				hd := t
				if j := strings.Index(hd, " at "); j > 0 {
					hd = hd[:j]
				}
				var frames []string
				for k := i + 1; k < len(lines) && k < i+8 && strings.TrimSpace(lines[k]) != ""; k++ {
					if m := raceFrame.FindStringSubmatch(lines[k]); m != nil {
						frames = append(frames, strings.TrimPrefix(m[1], "github.com/piotrnar/gocoin/"))
					}
					if len(frames) == 2 {
						break
					}
				}
				parts = append(parts, hd+" in "+strings.Join(frames, " <- "))
			}
		}
		gocoin = append(gocoin, strings.Join(parts, "; "))
	}
	return
}

// raceStream: the queued requests in the -race child.
func raceStream() {
	if len(raceQueue) == 0 {
		return
	}
	b := <-raceBuildCh
	if b.err != nil {
		fmt.Fprintln(os.Stderr, "c02: cannot build the race-detector child:", b.err)
		os.Exit(3)
	}
	dir, err := os.MkdirTemp("", "vc02race")
	if err != nil {
		fmt.Fprintln(os.Stderr, "c02:", err)
		os.Exit(3)
	}
	defer os.RemoveAll(dir)
	savedPc, savedExe, savedEnv := pc, childExe, childEnv
	pc, childExe = nil, b.bin
	childEnv = append(os.Environ(), "GORACE=log_path="+dir+"/race halt_on_error=0 exitcode=0")
	defer func() {
		if pc != nil {
			pc.in.Close()
			pc.cmd.Wait()
		}
		pc, childExe, childEnv = savedPc, savedExe, savedEnv
	}()
	// canary
	_, crash := askChild(&parReq{Canary: true, Rounds: 1})
	seen := raceLog(dir)
	if crash != "" || !strings.Contains(seen, "WARNING: DATA RACE") {
		fmt.Fprintf(os.Stderr, "c02: the race-detector child is mute (deliberate race not reported; crash=%q)\n", crash)
		os.Exit(3)
	}
	r.Hit("race-child:canary-reported")
	harnessOnly := 0
	start := time.Now()
	budget := time.Duration(r.N(20, 40)) * time.Second
	ran := 0
	for _, it := range raceQueue {
		if time.Since(start) > budget && !raceReplay {
			break
		}
		bad, crash := askChild(it.q)
		ran++
		now := raceLog(dir)
		fresh := now
		if strings.HasPrefix(now, seen) {
			fresh = now[len(seen):]
		}
		seen = now
		what := "digest requests by several callers"
		if len(it.q.Multis) > 0 {
			what = "spent inputs verified through script.VerifyTxScript by one goroutine each"
		}
		r.Eval("race-child:"+strings.Fields(what)[0], "")
		reports, other := raceReports(fresh)
		harnessOnly += other
		switch {
		case len(reports) > 0:
			r.PropFail("parallel-data-race", fmt.Sprintf("%s, under Go's race detector: %d data race(s) inside gocoin - two goroutines touch the same memory without a lock between them, so a digest request is not one atomic step: %s", what, len(reports), strings.Join(reports, " || ")), it.rep)
		case crash != "":
			r.PropFail("parallel-race-child-crash", fmt.Sprintf("%s, under Go's race detector: %s", what, crash), it.rep)
		case bad != "":
			r.PropFail("cache-parallel", bad+" (in the race-detector build)", it.rep)
		default:
			r.Hit("race-child:request-clean")
		}
	}
	r.Extra["race_child_requests"] = ran
	r.Extra["race_child_requests_queued"] = len(raceQueue)
	r.Extra["race_child_reports_without_gocoin_frame"] = harnessOnly
	if harnessOnly > 0 {
		fmt.Fprintf(os.Stderr, "c02: %d race report(s) without a gocoin frame (harness goroutines) ignored\n", harnessOnly)
	}
}
