// External BIP143 expectations (corpus/C02/bip143_external.json): digests and signatures that were NOT produced by this
// framework's reference (ref.go) or its Lean Spec, so that a misreading of BIP143 shared by the two (same author)
// is noticed even if gocoin shared it as well.
//
// Sources (recorded per vector in the corpus file):
//   - /repo/lib/test/tx_valid.json (Bitcoin Core's vector file): the four signed "BIP143 example" transactions (P2WSH
//     with executed / unexecuted OP_CODESEPARATOR, SINGLE out of range, SINGLE|ANYONECANPAY, P2SH-P2WSH 6-of-6 with six
//     hash types) - the ECDSA signatures in their witnesses were made by the BIP's authors and must verify (independent
//     math/big verifier below) over the digest computed by the real code = ref.go = Lean Spec with the script code /
//     amount / hash type of that check; and the two vectors whose comment states the BIP143 sighash outright
//     ("correct sighash (without FindAndDelete) = …").
//   - the sighash values printed in the BIP143 text for the P2WSH / P2SH-P2WSH / P2SH-P2WPKH examples, recalled offline:
//     kept only because the real code, ref.go, the Lean Spec (and, for the signed ones, the authors' signatures) all
//     reproduce them bit for bit. The native P2WPKH example of the BIP could not be reconstructed (did not reproduce)
//     and is NOT included. No BIP341 wallet-test-vectors are available offline (lib/test/bip341_script_tests.json is
//     an empty file in this snapshot): for BIP341 the reference and the Spec remain the only expectations.
package main

import (
	"encoding/json"
	"fmt"
	"math/big"
	"os"

	"verif/vlib"
)

type extCheck struct {
	Sc       string `json:"sc"`
	Amount   uint64 `json:"amount"`
	Idx      int    `json:"idx"`
	Ht       uint32 `json:"ht"`
	Sig      string `json:"sig,omitempty"`    // DER, without the hash-type byte
	Pubkey   string `json:"pubkey,omitempty"` // compressed
	Expected string `json:"expected,omitempty"`
	ExpSrc   string `json:"expected_source,omitempty"`
}
type extVec struct {
	Label   string     `json:"label"`
	Source  string     `json:"source"`
	Version uint32     `json:"version"`
	Lock    uint32     `json:"lock"`
	Ins     []JIn      `json:"ins"`
	Outs    []JOut     `json:"outs"`
	Checks  []extCheck `json:"checks"`
}

// decompress a 33-byte public key (independent arithmetic of ec.go)
func pubPoint(pk []byte) (pt, bool) {
	if len(pk) != 33 || (pk[0] != 2 && pk[0] != 3) {
		return pt{}, false
	}
	p, ok := liftX(new(big.Int).SetBytes(pk[1:]))
	if !ok {
		return pt{}, false
	}
	if p.y.Bit(0) != uint(pk[0]&1) { // liftX returns the even y
		p.y.Sub(ecP, p.y)
	}
	return p, true
}

// strict DER: 30 len 02 lr r 02 ls s
func derRS(sig []byte) (rr, ss *big.Int, ok bool) {
	if len(sig) < 8 || sig[0] != 0x30 || int(sig[1]) != len(sig)-2 || sig[2] != 2 {
		return
	}
	lr := int(sig[3])
	if 4+lr+2 > len(sig) || sig[4+lr] != 2 {
		return
	}
	ls := int(sig[5+lr])
	if 6+lr+ls != len(sig) {
		return
	}
	return new(big.Int).SetBytes(sig[4 : 4+lr]), new(big.Int).SetBytes(sig[6+lr:]), true
}

// ecdsaVerifyRef: SEC1 4.1.4, math/big, no gocoin code
func ecdsaVerifyRef(pk, der, digest []byte) bool {
	P, ok := pubPoint(pk)
	if !ok {
		return false
	}
	rr, ss, ok := derRS(der)
	if !ok || rr.Sign() <= 0 || ss.Sign() <= 0 || rr.Cmp(ecN) >= 0 || ss.Cmp(ecN) >= 0 {
		return false
	}
	w := new(big.Int).ModInverse(ss, ecN)
	u1 := new(big.Int).Mul(new(big.Int).SetBytes(digest), w)
	u1.Mod(u1, ecN)
	u2 := new(big.Int).Mul(rr, w)
	u2.Mod(u2, ecN)
	R := ptAdd(ptMul(u1, ecG()), ptMul(u2, P))
	if R.x == nil {
		return false
	}
	return new(big.Int).Mod(R.x, ecN).Cmp(rr) == 0
}

func corpusBIP143External() {
	dat, err := os.ReadFile(vlib.Root() + "/corpus/C02/bip143_external.json")
	if err != nil {
		fmt.Println("corpus missing:", err)
		os.Exit(3)
	}
	var vecs []extVec
	if json.Unmarshal(dat, &vecs) != nil || len(vecs) == 0 {
		fmt.Println("corpus unreadable: bip143_external.json")
		os.Exit(3)
	}
	nDig, nSig := 0, 0
	for vi := range vecs {
		v := &vecs[vi]
		c := Case{Label: "bip143-external", Version: v.Version, Lock: v.Lock, Ins: v.Ins, Outs: v.Outs}
		for _, x := range v.Checks {
			c.Calls = append(c.Calls, Call{Kind: "wit", Sc: x.Sc, Amount: x.Amount, Idx: x.Idx, Ht: x.Ht})
		}
		t, _ := c.ref()
		o.MustAsk(c.oracleLine())
		for n, x := range v.Checks {
			k := &c.Calls[n]
			one := Case{Label: c.Label, Version: c.Version, Lock: c.Lock, Ins: c.Ins, Outs: c.Outs, Calls: []Call{*k}}
			what := fmt.Sprintf("%s (check %d: input %d, hash type 0x%02x)", v.Label, n, x.Idx, x.Ht)
			got := realCall(c.real(), k)
			_, refDig, _ := refCall(t, nil, k)
			specDig := ""
			if sp := specCall(k); sp != "none" && sp != "one" {
				specDig = hx(dsha(unhx(sp)))
			}
			if x.Expected != "" {
				// the external value is the authority for all three
				if got != x.Expected {
					r.PropFail("digest-wit", fmt.Sprintf("%s: WitnessSigHash gives %s, the external vector (%s) says %s", what, got, x.ExpSrc, x.Expected), one)
				}
				if refDig != x.Expected {
					r.TieFail("reference-vs-vector", fmt.Sprintf("%s: the harness's own reference gives %s, the external vector (%s) says %s", what, refDig, x.ExpSrc, x.Expected), one)
				}
				if specDig != x.Expected {
					r.TieFail("spec-vs-vector", fmt.Sprintf("%s: the Lean Spec gives %s, the external vector (%s) says %s", what, specDig, x.ExpSrc, x.Expected), one)
				}
				if got == x.Expected && refDig == x.Expected && specDig == x.Expected {
					r.TieOK()
					r.Hit("external:bip143:digest=code=ref=spec")
					nDig++
				}
			}
			if x.Sig != "" {
				// the authors' signature must verify over each side's digest (and not over a digest with one bit flipped)
				okAll := true
				for _, side := range []struct{ name, dig, key string }{{"WitnessSigHash", got, "digest-wit"}, {"the harness's own reference", refDig, "reference-vs-vector"}, {"the Lean Spec", specDig, "spec-vs-vector"}} {
					d := unhx(side.dig)
					if len(d) != 32 || !ecdsaVerifyRef(unhx(x.Pubkey), unhx(x.Sig), d) {
						msg := fmt.Sprintf("%s: the signature of the BIP143 authors in the witness (%s) does not verify over the digest %s computed by %s", what, v.Source, side.dig, side.name)
						if side.key == "digest-wit" {
							r.PropFail(side.key, msg, one)
						} else {
							r.TieFail(side.key, msg, one)
						}
						okAll = false
						continue
					}
					d[31] ^= 1
					if ecdsaVerifyRef(unhx(x.Pubkey), unhx(x.Sig), d) {
						r.TieFail("reference-vs-vector", what+": the independent ECDSA verifier accepts the signature over a changed digest", one)
					}
				}
				if okAll {
					r.TieOK()
					r.Hit("external:bip143:authors-signature-verifies")
					nSig++
				}
			}
		}
		// the ordinary four-way comparison on one object (cache threaded) as well
		runCase(&c)
		specCheck(&c)
		if vi == 0 {
			s := c
			s.Calls = s.Calls[:1]
			r.Sample(s)
		}
	}
	r.Extra["corpus_bip143_external_digests"] = nDig
	r.Extra["corpus_bip143_external_signatures"] = nSig
}
