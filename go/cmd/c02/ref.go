// Independent reference implementation of the three signature-hash algorithms, written from
// the original algorithm (modified transaction copy + ordinary serialisation), BIP143 and BIP341/342.
// Does not call gocoin. Every function returns the PREIMAGE; digests are taken by the caller.
package main

import (
	"bytes"
	"crypto/sha256"
	"encoding/binary"
)

type rIn struct {
	Hash   []byte // 32 bytes
	Vout   uint32
	Script []byte
	Seq    uint32
}
type rOut struct {
	Value uint64
	Pk    []byte
}
type rTx struct {
	Version uint32
	Ins     []rIn
	Outs    []rOut
	Lock    uint32
}

func sha(b []byte) []byte  { h := sha256.Sum256(b); return h[:] }
func dsha(b []byte) []byte { return sha(sha(b)) }

func cs(n uint64) []byte { // CompactSize
	switch {
	case n <= 252:
		return []byte{byte(n)}
	case n <= 0xffff:
		return []byte{253, byte(n), byte(n >> 8)}
	case n <= 0xffffffff:
		b := make([]byte, 5)
		b[0] = 254
		binary.LittleEndian.PutUint32(b[1:], uint32(n))
		return b
	}
	b := make([]byte, 9)
	b[0] = 255
	binary.LittleEndian.PutUint64(b[1:], n)
	return b
}
func u32(x uint32) []byte { b := make([]byte, 4); binary.LittleEndian.PutUint32(b, x); return b }
func u64(x uint64) []byte { b := make([]byte, 8); binary.LittleEndian.PutUint64(b, x); return b }
func cat(parts ...[]byte) []byte {
	var o []byte
	for _, p := range parts {
		o = append(o, p...)
	}
	return o
}
func serOut(o rOut) []byte { return cat(u64(o.Value), cs(uint64(len(o.Pk))), o.Pk) }
func serTx(t *rTx) []byte {
	o := u32(t.Version)
	o = append(o, cs(uint64(len(t.Ins)))...)
	for _, i := range t.Ins {
		o = append(o, cat(i.Hash, u32(i.Vout), cs(uint64(len(i.Script))), i.Script, u32(i.Seq))...)
	}
	o = append(o, cs(uint64(len(t.Outs)))...)
	for _, x := range t.Outs {
		o = append(o, serOut(x)...)
	}
	return append(o, u32(t.Lock)...)
}

// refParse splits a script into operations (Core GetScriptOp); ok=false if it ends inside one.
func refParse(s []byte) (ops [][]byte, ok bool) {
	for len(s) > 0 {
		op := s[0]
		n := 1
		switch {
		case op < 0x4c:
			n = 1 + int(op)
		case op == 0x4c:
			if len(s) < 2 {
				return nil, false
			}
			n = 2 + int(s[1])
		case op == 0x4d:
			if len(s) < 3 {
				return nil, false
			}
			n = 3 + int(binary.LittleEndian.Uint16(s[1:]))
		case op == 0x4e:
			if len(s) < 5 {
				return nil, false
			}
			n = 5 + int(binary.LittleEndian.Uint32(s[1:]))
		}
		if n > len(s) {
			return nil, false
		}
		ops = append(ops, s[:n])
		s = s[n:]
	}
	return ops, true
}

func refPush(d []byte) []byte {
	switch {
	case len(d) < 0x4c:
		return append([]byte{byte(len(d))}, d...)
	case len(d) <= 0xff:
		return append([]byte{0x4c, byte(len(d))}, d...)
	case len(d) <= 0xffff:
		return append([]byte{0x4d, byte(len(d)), byte(len(d) >> 8)}, d...)
	}
	return append(append([]byte{0x4e}, u32(uint32(len(d)))...), d...)
}

// refFindAndDelete removes every operation equal to the canonical push of sig.
func refFindAndDelete(script, sig []byte) (res []byte, cnt int, ok bool) {
	ops, ok := refParse(script)
	if !ok {
		return nil, 0, false
	}
	p := refPush(sig)
	for _, o := range ops {
		if bytes.Equal(o, p) {
			cnt++
		} else {
			res = append(res, o...)
		}
	}
	return res, cnt, true
}

// refLegacy: ok=false when the script code does not decode or idx is out of range; one=true for the
// SIGHASH_SINGLE constant.
func refLegacy(t *rTx, sc []byte, idx int, ht uint32) (pre []byte, one bool, ok bool) {
	if idx < 0 || idx >= len(t.Ins) {
		return nil, false, false
	}
	ops, ok := refParse(sc)
	if !ok {
		return nil, false, false
	}
	var code []byte
	for _, o := range ops {
		if !(len(o) == 1 && o[0] == 0xab) {
			code = append(code, o...)
		}
	}
	base := ht & 0x1f
	if base == 3 && idx >= len(t.Outs) {
		return nil, true, true
	}
	c := rTx{Version: t.Version, Lock: t.Lock}
	for k, in := range t.Ins {
		n := rIn{Hash: in.Hash, Vout: in.Vout, Seq: in.Seq}
		if k == idx {
			n.Script = code
		} else if base == 2 || base == 3 {
			n.Seq = 0
		}
		c.Ins = append(c.Ins, n)
	}
	switch base {
	case 2:
	case 3:
		for k := 0; k < idx; k++ {
			c.Outs = append(c.Outs, rOut{Value: ^uint64(0)})
		}
		c.Outs = append(c.Outs, t.Outs[idx])
	default:
		c.Outs = t.Outs
	}
	if ht&0x80 != 0 {
		c.Ins = []rIn{c.Ins[idx]}
	}
	return append(serTx(&c), u32(ht)...), false, true
}

func refBIP143(t *rTx, sc []byte, amount uint64, idx int, ht uint32) (pre []byte, ok bool) {
	if idx < 0 || idx >= len(t.Ins) {
		return nil, false
	}
	zero := make([]byte, 32)
	hp, hs, ho := zero, zero, zero
	acp := ht&0x80 != 0
	base := ht & 0x1f
	if !acp {
		var b []byte
		for _, i := range t.Ins {
			b = append(b, cat(i.Hash, u32(i.Vout))...)
		}
		hp = dsha(b)
	}
	if !acp && base != 2 && base != 3 {
		var b []byte
		for _, i := range t.Ins {
			b = append(b, u32(i.Seq)...)
		}
		hs = dsha(b)
	}
	if base != 2 && base != 3 {
		var b []byte
		for _, o := range t.Outs {
			b = append(b, serOut(o)...)
		}
		ho = dsha(b)
	} else if base == 3 && idx < len(t.Outs) {
		ho = dsha(serOut(t.Outs[idx]))
	}
	in := t.Ins[idx]
	return cat(u32(t.Version), hp, hs, in.Hash, u32(in.Vout), cs(uint64(len(sc))), sc, u64(amount), u32(in.Seq), ho, u32(t.Lock), u32(ht)), true
}

type refExt struct {
	Leaf []byte
	Pos  uint32
}

// refBIP341: annex==nil means absent. ok=false where BIP341 defines no digest. pre includes the
// 64-byte tag prefix, i.e. digest = SHA256(pre).
func refBIP341(t *rTx, spent []rOut, idx int, ht byte, annex []byte, ext *refExt) (pre []byte, ok bool) {
	switch ht {
	case 0, 1, 2, 3, 0x81, 0x82, 0x83:
	default:
		return nil, false
	}
	if idx < 0 || idx >= len(t.Ins) || len(spent) != len(t.Ins) {
		return nil, false
	}
	outT := ht & 3
	if outT == 3 && idx >= len(t.Outs) {
		return nil, false
	}
	acp := ht&0x80 != 0
	m := []byte{0, ht}
	m = append(m, cat(u32(t.Version), u32(t.Lock))...)
	if !acp {
		var a, b, c, d []byte
		for k, i := range t.Ins {
			a = append(a, cat(i.Hash, u32(i.Vout))...)
			b = append(b, u64(spent[k].Value)...)
			c = append(c, cat(cs(uint64(len(spent[k].Pk))), spent[k].Pk)...)
			d = append(d, u32(i.Seq)...)
		}
		m = append(m, cat(sha(a), sha(b), sha(c), sha(d))...)
	}
	if outT != 2 && outT != 3 {
		var b []byte
		for _, o := range t.Outs {
			b = append(b, serOut(o)...)
		}
		m = append(m, sha(b)...)
	}
	st := byte(0)
	if ext != nil {
		st = 2
	}
	if annex != nil {
		st |= 1
	}
	m = append(m, st)
	if acp {
		in := t.Ins[idx]
		m = append(m, cat(in.Hash, u32(in.Vout), serOut(spent[idx]), u32(in.Seq))...)
	} else {
		m = append(m, u32(uint32(idx))...)
	}
	if annex != nil {
		m = append(m, sha(cat(cs(uint64(len(annex))), annex))...)
	}
	if outT == 3 {
		m = append(m, sha(serOut(t.Outs[idx]))...)
	}
	if ext != nil {
		m = append(m, cat(ext.Leaf, []byte{0}, u32(ext.Pos))...)
	}
	tg := sha([]byte("TapSighash"))
	return cat(tg, tg, m), true
}
