#!/usr/bin/env python3
"""refreeze.py [Gen/NetFacts.lean] — rewrite the frozen `Expected.*` lists of lean/GocoinV/Model/NetParseFacts.lean
from a generated NetFacts.lean (default: the one in lean/GocoinV/Gen). To be used ONLY after the model
(Model/NetParse.lean) has been re-read against the change that moved the facts: the frozen copy is the record of
what the model was written against. Everything outside the `-- BEGIN FROZEN` / `-- END FROZEN` markers is kept."""
import os, re, sys
R = os.path.dirname(os.path.dirname(os.path.dirname(os.path.dirname(os.path.abspath(__file__)))))
gen = sys.argv[1] if len(sys.argv) > 1 else os.path.join(R, "lean/GocoinV/Gen/NetFacts.lean")
dst = os.path.join(R, "lean/GocoinV/Model/NetParseFacts.lean")
g = open(gen, encoding="utf-8").read()
end = g.index("def maxMsgSize")
start = g.index("namespace GocoinV.Gen.NetFacts") + len("namespace GocoinV.Gen.NetFacts")
body = g[start:end].strip() + "\n"
keepdoc = {}
d = open(dst, encoding="utf-8").read()
a, b = d.index("-- BEGIN FROZEN"), d.index("-- END FROZEN")
for m in re.finditer(r"(/--(?:(?!-/).)*-/)\n(?:-- names:[^\n]*\n)?def (\w+)", d[a:b], re.S):
    keepdoc[m.group(2)] = m.group(1)
def adddoc(m):
    doc = keepdoc.get(m.group(2))
    return (doc + "\n" if doc else "") + m.group(0)
body = re.sub(r"^(-- names:[^\n]*\n)?def (\w+)", adddoc, body, flags=re.M)
open(dst, "w", encoding="utf-8").write(d[:a] + "-- BEGIN FROZEN (go/cmd/gen_c18/refreeze.py)\n\n" + body + "\n" + d[b:])
print("re-frozen", len(re.findall(r"^def ", body, re.M)), "lists")
