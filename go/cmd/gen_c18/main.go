// gen_c18 regenerates lean/GocoinV/Gen/NetFacts.lean from /repo/client/network/*.go (translator tie
// for C18). For every message handler it prints the SKELETON of the function as a list of facts in
// source order: every `if` condition (marked `guard` when the body leaves the function or loop),
// every `for` header, every index / slice expression on the payload (and on the two slices indexed
// with peer-chosen values), every Lock / Unlock / deferred Unlock, every return, and every call of
// a decoder or of a penalty (DoS / Misbehave with its reason). The model restates these lists
// (Model/NetParseFacts.lean) and Lean compares them, so an edited guard, a dropped Unlock or a new
// index expression breaks a proof obligation. It also evaluates maxmsgsize() into a Lean function
// and extracts the command → handler table of Run's switch. It also compares, clause by clause, the
// switch of the harness's dispatch mirror (client/network/verif_export.go VerifDispatch, the second
// stream of go/cmd/c18) with Run's `switch cmd.cmd` and exits non-zero on any difference.
package main

import (
	"bytes"
	"fmt"
	"go/ast"
	"go/printer"
	"go/token"
	"os"
	"regexp"
	"sort"
	"strconv"
	"strings"

	"verif/vlib"
	"verif/vtrans"
)

func die(err error) {
	fmt.Fprintln(os.Stderr, "TRANSLATE-ERROR:", err)
	os.Exit(2)
}

var fset *token.FileSet

func show(n ast.Node) string {
	var b bytes.Buffer
	printer.Fprint(&b, fset, n)
	s := b.String()
	s = strings.Join(strings.Fields(s), " ")
	return s
}

var payloadBases = map[string]bool{"pl": true, "cmd.pl": true, "b": true, "hdr": true, "col.Txs": true,
	"crec.Block.Txs": true, "c.recv.hdr": true, "c.recv.dat": true, "c.aesData": true}

var callNames = map[string]bool{"VLen": true, "ReadVLen": true, "TxSize": true, "NewTx": true, "NewBlock": true,
	"DoS": true, "Misbehave": true, "ProcessNewHeader": true, "Assemble": true, "ParseBytes": true, "Read": true,
	"maxmsgsize": true, "Decrypt": true, "make": true, "panic": true}

func leaves(b *ast.BlockStmt) bool {
	if b == nil || len(b.List) == 0 {
		return false
	}
	switch s := b.List[len(b.List)-1].(type) {
	case *ast.ReturnStmt:
		return true
	case *ast.BranchStmt:
		return s.Tok == token.BREAK || s.Tok == token.CONTINUE || s.Tok == token.GOTO
	case *ast.ExprStmt:
		if c, ok := s.X.(*ast.CallExpr); ok {
			if id, ok := c.Fun.(*ast.Ident); ok && id.Name == "panic" {
				return true
			}
		}
	}
	return false
}

// skeleton walks a function body in source order.
func skeleton(fd *ast.FuncDecl) []string {
	var out []string
	var walkExpr func(e ast.Node)
	walkExpr = func(e ast.Node) {
		ast.Inspect(e, func(n ast.Node) bool {
			switch x := n.(type) {
			case *ast.FuncLit:
				out = append(out, "funclit{")
				walkBlock(x.Body, &out, walkExpr)
				out = append(out, "}")
				return false
			case *ast.IndexExpr:
				if payloadBases[show(x.X)] {
					out = append(out, "index: "+show(x))
				}
			case *ast.SliceExpr:
				if payloadBases[show(x.X)] {
					out = append(out, "slice: "+show(x))
				}
			case *ast.SelectorExpr:
				if show(x.X) == "c.aesData" {
					out = append(out, "deref: "+show(x))
				}
			case *ast.CallExpr:
				name := ""
				switch f := x.Fun.(type) {
				case *ast.SelectorExpr:
					name = f.Sel.Name
					if name == "Lock" || name == "Unlock" {
						out = append(out, strings.ToLower(name)+": "+show(f.X))
						return true
					}
				case *ast.Ident:
					name = f.Name
				}
				if callNames[name] {
					if name == "make" {
						if len(x.Args) >= 2 {
							out = append(out, "call: "+show(x))
						}
					} else if name == "Read" {
						out = append(out, "call: "+show(x))
					} else if name == "DoS" || name == "Misbehave" || name == "panic" {
						out = append(out, "penalty: "+show(x))
					} else {
						out = append(out, "call: "+show(x))
					}
				}
			}
			return true
		})
	}
	walkBlock(fd.Body, &out, walkExpr)
	return out
}

func walkBlock(b *ast.BlockStmt, out *[]string, walkExpr func(ast.Node)) {
	if b == nil {
		return
	}
	for _, st := range b.List {
		walkStmt(st, out, walkExpr)
	}
}

func walkStmt(st ast.Stmt, out *[]string, walkExpr func(ast.Node)) {
	switch s := st.(type) {
	case *ast.IfStmt:
		if s.Init != nil {
			walkStmt(s.Init, out, walkExpr)
		}
		kind := "if: "
		if leaves(s.Body) {
			kind = "guard: "
		}
		*out = append(*out, kind+show(s.Cond))
		walkExpr(s.Cond)
		*out = append(*out, "{")
		walkBlock(s.Body, out, walkExpr)
		*out = append(*out, "}")
		if s.Else != nil {
			*out = append(*out, "else{")
			switch e := s.Else.(type) {
			case *ast.BlockStmt:
				walkBlock(e, out, walkExpr)
			default:
				walkStmt(e, out, walkExpr)
			}
			*out = append(*out, "}")
		}
	case *ast.ForStmt:
		h := "for: "
		if s.Init != nil {
			h += show(s.Init)
		}
		h += "; "
		if s.Cond != nil {
			h += show(s.Cond)
		}
		h += "; "
		if s.Post != nil {
			h += show(s.Post)
		}
		*out = append(*out, h)
		if s.Cond != nil {
			walkExpr(s.Cond)
		}
		*out = append(*out, "{")
		walkBlock(s.Body, out, walkExpr)
		*out = append(*out, "}")
	case *ast.RangeStmt:
		*out = append(*out, "range: "+show(s.X), "{")
		walkBlock(s.Body, out, walkExpr)
		*out = append(*out, "}")
	case *ast.SwitchStmt:
		tag := ""
		if s.Tag != nil {
			tag = show(s.Tag)
		}
		*out = append(*out, "switch: "+tag, "{")
		for _, c := range s.Body.List {
			cc := c.(*ast.CaseClause)
			var ls []string
			for _, l := range cc.List {
				ls = append(ls, show(l))
			}
			*out = append(*out, "case: "+strings.Join(ls, ","))
			for _, b := range cc.Body {
				walkStmt(b, out, walkExpr)
			}
		}
		*out = append(*out, "}")
	case *ast.TypeSwitchStmt:
		*out = append(*out, "typeswitch: "+show(s.Assign), "{")
		for _, c := range s.Body.List {
			cc := c.(*ast.CaseClause)
			for _, b := range cc.Body {
				walkStmt(b, out, walkExpr)
			}
		}
		*out = append(*out, "}")
	case *ast.BlockStmt:
		walkBlock(s, out, walkExpr)
	case *ast.LabeledStmt:
		*out = append(*out, "label: "+s.Label.Name)
		walkStmt(s.Stmt, out, walkExpr)
	case *ast.ReturnStmt:
		for _, r := range s.Results {
			walkExpr(r)
		}
		*out = append(*out, "return")
	case *ast.BranchStmt:
		*out = append(*out, strings.ToLower(s.Tok.String()))
	case *ast.DeferStmt:
		if f, ok := s.Call.Fun.(*ast.SelectorExpr); ok && f.Sel.Name == "Unlock" {
			*out = append(*out, "defer-unlock: "+show(f.X))
			return
		}
		*out = append(*out, "defer{")
		walkExpr(s.Call)
		*out = append(*out, "}")
	case *ast.SelectStmt:
		*out = append(*out, "select")
	default:
		walkExpr(st)
	}
}

func leanStr(s string) string {
	return strconv.Quote(s) // Go and Lean agree on \" \\ for the ASCII subset the sources use
}

// constant evaluation for maxmsgsize (integer and float literals, named constants of core.go)
func evalConst(e ast.Expr, consts map[string]ast.Expr) (float64, error) {
	switch x := e.(type) {
	case *ast.BasicLit:
		return strconv.ParseFloat(strings.ReplaceAll(x.Value, "_", ""), 64)
	case *ast.ParenExpr:
		return evalConst(x.X, consts)
	case *ast.Ident:
		if c, ok := consts[x.Name]; ok {
			return evalConst(c, consts)
		}
		return 0, fmt.Errorf("unknown constant %s", x.Name)
	case *ast.BinaryExpr:
		a, err := evalConst(x.X, consts)
		if err != nil {
			return 0, err
		}
		b, err := evalConst(x.Y, consts)
		if err != nil {
			return 0, err
		}
		switch x.Op {
		case token.ADD:
			return a + b, nil
		case token.SUB:
			return a - b, nil
		case token.MUL:
			return a * b, nil
		}
	}
	return 0, fmt.Errorf("unsupported constant expression %T", e)
}

type target struct{ file, recv, fn string }

// functions left out of the lock traces, with the reason
var lockTraceSkip = map[string]string{
	"OneConnection.InvStore": "writes InvDone under its documented precondition 'make sure c.Mutex is locked when calling it'; every call site is a shared access of the traces instead",
	"NewConnection":          "constructor: the object is not yet visible to any other thread",
}

func main() {
	targets := []target{
		{"client/network/ver.go", "OneConnection", "HandleVersion"},
		{"client/network/ver.go", "OneConnection", "AuthRvcd"},
		{"client/network/addr.go", "OneConnection", "ParseAddr"},
		{"client/network/invs.go", "OneConnection", "ProcessInv"},
		{"client/network/invs.go", "OneConnection", "GetBlocks"},
		{"client/network/hdrs.go", "OneConnection", "HandleHeaders"},
		{"client/network/hdrs.go", "OneConnection", "GetHeaders"},
		{"client/network/data.go", "OneConnection", "ProcessGetData"},
		{"client/network/data.go", "OneConnection", "processGetData"},
		{"client/network/data.go", "OneConnection", "netBlockReceived"},
		{"client/network/data.go", "", "parseLocatorsPayload"},
		{"client/network/cblk.go", "OneConnection", "ProcessGetBlockTxn"},
		{"client/network/cblk.go", "OneConnection", "ProcessCmpctBlock"},
		{"client/network/cblk.go", "OneConnection", "ProcessBlockTxn"},
		{"client/network/cblk.go", "CmpctBlockCollector", "Assemble"},
		{"client/network/trxs.go", "OneConnection", "ParseTxNet"},
		{"client/network/trxs.go", "OneConnection", "ProcessGetMP"},
		{"client/network/ping.go", "OneConnection", "HandlePong"},
		{"client/network/core.go", "OneConnection", "FetchMessage"},
	}
	var sb strings.Builder
	sb.WriteString("/- GENERATED by go/cmd/gen_c18 from client/network/*.go — do not edit; not in git. -/\n")
	sb.WriteString("namespace GocoinV.Gen.NetFacts\n\n")
	nfacts := 0
	files := map[string]*vtrans.File{}
	var names []string
	for _, t := range targets {
		f := files[t.file]
		if f == nil {
			var err error
			f, err = vtrans.Parse(t.file)
			if err != nil {
				die(err)
			}
			files[t.file] = f
		}
		fset = f.Fset
		fd, err := f.Func(t.recv, t.fn)
		if err != nil {
			die(err)
		}
		sk := skeleton(fd)
		nfacts += len(sk)
		fmt.Fprintf(&sb, "def %s : List String := [\n", t.fn)
		for i, s := range sk {
			sep := ","
			if i == len(sk)-1 {
				sep = ""
			}
			fmt.Fprintf(&sb, "  %s%s\n", leanStr(s), sep)
		}
		sb.WriteString("]\n\n")
		names = append(names, t.fn)
	}

	// ---- Run: the inline handlers and the dispatch table
	tick := files["client/network/tick.go"]
	if tick == nil {
		var err error
		tick, err = vtrans.Parse("client/network/tick.go")
		if err != nil {
			die(err)
		}
	}
	fset = tick.Fset
	run, err := tick.Func("OneConnection", "Run")
	if err != nil {
		die(err)
	}
	var sw *ast.SwitchStmt
	ast.Inspect(run.Body, func(n ast.Node) bool {
		if s, ok := n.(*ast.SwitchStmt); ok && s.Tag != nil && show(s.Tag) == "cmd.cmd" {
			sw = s
			return false
		}
		return true
	})
	if sw == nil {
		die(fmt.Errorf("Run: `switch cmd.cmd` not found"))
	}
	type disp struct{ cmd, first string }
	var table []disp
	inline := map[string][]string{}
	for _, c := range sw.Body.List {
		cc := c.(*ast.CaseClause)
		first := ""
		for _, b := range cc.Body {
			ast.Inspect(b, func(n ast.Node) bool {
				if first != "" {
					return false
				}
				if ce, ok := n.(*ast.CallExpr); ok {
					if se, ok := ce.Fun.(*ast.SelectorExpr); ok && show(se.X) == "c" {
						first = se.Sel.Name + "(" + argList(ce) + ")"
						return false
					}
				}
				return true
			})
		}
		var sk []string
		for _, b := range cc.Body {
			var walkExpr func(e ast.Node)
			walkExpr = func(e ast.Node) {
				ast.Inspect(e, func(n ast.Node) bool {
					switch x := n.(type) {
					case *ast.IndexExpr:
						if payloadBases[show(x.X)] {
							sk = append(sk, "index: "+show(x))
						}
					case *ast.SliceExpr:
						if payloadBases[show(x.X)] {
							sk = append(sk, "slice: "+show(x))
						}
					case *ast.CallExpr:
						if f, ok := x.Fun.(*ast.SelectorExpr); ok && (f.Sel.Name == "Lock" || f.Sel.Name == "Unlock") {
							sk = append(sk, strings.ToLower(f.Sel.Name)+": "+show(f.X))
						}
					}
					return true
				})
			}
			walkStmt(b, &sk, walkExpr)
		}
		for _, l := range cc.List {
			cmd, _ := strconv.Unquote(show(l))
			table = append(table, disp{cmd, first})
			inline[cmd] = sk
		}
		if cc.List == nil {
			table = append(table, disp{"<default>", first})
		}
	}
	sb.WriteString("def dispatch : List (String × String) := [\n")
	for i, d := range table {
		sep := ","
		if i == len(table)-1 {
			sep = ""
		}
		fmt.Fprintf(&sb, "  (%s, %s)%s\n", leanStr(d.cmd), leanStr(d.first), sep)
	}
	sb.WriteString("]\n\n")
	nfacts += len(table)
	// ---- the dispatch mirror of the harness's second stream (client/network/verif_export.go VerifDispatch)
	//      must be a clause-by-clause copy of this switch: any difference stops the run (broken tie)
	nfacts += compareMirror(sw)

	for _, cmd := range []string{"feefilter", "sendcmpct", "ping", "authack"} {
		sk, ok := inline[cmd]
		if !ok {
			die(fmt.Errorf("Run: case %q not found", cmd))
		}
		fmt.Fprintf(&sb, "def inline_%s : List String := [", cmd)
		for i, s := range sk {
			if i > 0 {
				sb.WriteString(", ")
			}
			sb.WriteString(leanStr(s))
		}
		sb.WriteString("]\n\n")
		nfacts += len(sk)
	}
	// the gate in front of the switch: version / no version yet
	gate := []string{}
	ast.Inspect(run.Body, func(n ast.Node) bool {
		if s, ok := n.(*ast.IfStmt); ok {
			c := show(s.Cond)
			if c == `cmd.cmd == "version"` || c == "!c.X.VersionReceived" || c == "c.X.VersionReceived" {
				gate = append(gate, c)
			}
		}
		return true
	})
	fmt.Fprintf(&sb, "def runGate : List String := [")
	for i, s := range gate {
		if i > 0 {
			sb.WriteString(", ")
		}
		sb.WriteString(leanStr(s))
	}
	sb.WriteString("]\n\n")
	nfacts += len(gate)

	// ---- maxmsgsize
	core := files["client/network/core.go"]
	fset = core.Fset
	consts := map[string]ast.Expr{}
	for _, d := range core.AST.Decls {
		if gd, ok := d.(*ast.GenDecl); ok && gd.Tok == token.CONST {
			for _, s := range gd.Specs {
				vs := s.(*ast.ValueSpec)
				for i, n := range vs.Names {
					if i < len(vs.Values) {
						consts[n.Name] = vs.Values[i]
					}
				}
			}
		}
	}
	mm, err := core.Func("", "maxmsgsize")
	if err != nil {
		die(err)
	}
	var msw *ast.SwitchStmt
	for _, st := range mm.Body.List {
		if s, ok := st.(*ast.SwitchStmt); ok {
			msw = s
		}
	}
	if msw == nil || len(mm.Body.List) != 1 || show(msw.Tag) != "cmd" {
		die(fmt.Errorf("maxmsgsize: unexpected shape"))
	}
	type mrow struct {
		cmd string
		v   uint64
	}
	var rows []mrow
	var def uint64
	haveDef := false
	for _, c := range msw.Body.List {
		cc := c.(*ast.CaseClause)
		if len(cc.Body) != 1 {
			die(fmt.Errorf("maxmsgsize: case with %d statements", len(cc.Body)))
		}
		rs, ok := cc.Body[0].(*ast.ReturnStmt)
		if !ok || len(rs.Results) != 1 {
			die(fmt.Errorf("maxmsgsize: case without a single return"))
		}
		v, err := evalConst(rs.Results[0], consts)
		if err != nil {
			die(fmt.Errorf("maxmsgsize: %v", err))
		}
		if v < 0 || v != float64(uint64(v)) {
			die(fmt.Errorf("maxmsgsize: non-integral limit %v", v))
		}
		if cc.List == nil {
			def, haveDef = uint64(v), true
		}
		for _, l := range cc.List {
			cmd, err := strconv.Unquote(show(l))
			if err != nil {
				die(err)
			}
			rows = append(rows, mrow{cmd, uint64(v)})
		}
	}
	if !haveDef {
		die(fmt.Errorf("maxmsgsize: no default case"))
	}
	sb.WriteString("def maxMsgSize (cmd : String) : Nat :=\n")
	for _, r := range rows {
		fmt.Fprintf(&sb, "  if cmd = %s then %d else\n", leanStr(r.cmd), r.v)
	}
	fmt.Fprintf(&sb, "  %d\n\n", def)
	nfacts += len(rows) + 1
	sort.Strings(names)

	// ---- lock traces of every function of the anchored files (locks.go)
	var traces []*lockWalker
	pkgs, globals := map[string]bool{}, map[string]bool{}
	traceFiles := []string{"tick.go", "ver.go", "addr.go", "invs.go", "hdrs.go", "data.go", "cblk.go", "trxs.go", "ping.go", "core.go"}
	for _, rel := range traceFiles {
		f := files["client/network/"+rel]
		if f == nil {
			var err error
			if f, err = vtrans.Parse("client/network/" + rel); err != nil {
				die(err)
			}
			files["client/network/"+rel] = f
		}
		for _, d := range f.AST.Decls {
			if gd, ok := d.(*ast.GenDecl); ok && gd.Tok == token.VAR {
				for _, sp := range gd.Specs {
					for _, n := range sp.(*ast.ValueSpec).Names {
						globals[n.Name] = true
					}
				}
			}
		}
		for _, im := range f.AST.Imports {
			p, _ := strconv.Unquote(im.Path.Value)
			if im.Name != nil {
				pkgs[im.Name.Name] = true
			} else {
				pkgs[p[strings.LastIndex(p, "/")+1:]] = true
			}
		}
	}
	for _, rel := range traceFiles {
		f := files["client/network/"+rel]
		fset = f.Fset
		for _, d := range f.AST.Decls {
			fd, ok := d.(*ast.FuncDecl)
			if !ok || fd.Body == nil {
				continue
			}
			name := fd.Name.Name
			if fd.Recv != nil && len(fd.Recv.List) == 1 {
				t := show(fd.Recv.List[0].Type)
				name = strings.TrimPrefix(t, "*") + "." + name
			}
			if lockTraceSkip[name] != "" {
				continue
			}
			traces = append(traces, lockTraceOf(name, fd, pkgs))
		}
	}
	resolveCalls(traces, pkgs, globals)
	if len(traces) < 60 {
		die(fmt.Errorf("lock traces: only %d functions found", len(traces)))
	}
	nfacts += writeLockTraces(&sb, traces)
	sb.WriteString("end GocoinV.Gen.NetFacts\n")
	out := vlib.Root() + "/lean/GocoinV/Gen/NetFacts.lean"
	os.Remove(out)
	if err := os.WriteFile(out, []byte(sb.String()), 0644); err != nil {
		die(err)
	}
	fmt.Printf("FACTS %d\n", nfacts)
}

// clauseText prints the body of a case clause, one statement per entry.
func clauseText(cc *ast.CaseClause) []string {
	var out []string
	for _, b := range cc.Body {
		out = append(out, show(b))
	}
	return out
}

var (
	reCmdPl      = regexp.MustCompile(`\bcmd\.pl\b`)
	reCmdTrusted = regexp.MustCompile(`\bcmd\.trusted\b`)
	reCmdCmd     = regexp.MustCompile(`\bcmd\.cmd\b`)
	reCmd        = regexp.MustCompile(`\bcmd\b`)
)

// compareMirror checks that VerifDispatch's `switch cmd` has the same clauses, in the same order, with
// the same statements as Run's `switch cmd.cmd` once Run's cmd.pl / cmd.trusted / cmd are written
// pl / trusted / m. The default clause is exempt (Run's is empty, the mirror's reports "unknown").
// Returns the number of clauses compared.
func compareMirror(runSw *ast.SwitchStmt) int {
	saved := fset
	defer func() { fset = saved }()
	runText := map[string][]string{}
	var runOrder []string
	for _, c := range runSw.Body.List {
		cc := c.(*ast.CaseClause)
		if cc.List == nil {
			continue
		}
		var labels []string
		for _, l := range cc.List {
			labels = append(labels, show(l))
		}
		key := strings.Join(labels, ",")
		var body []string
		for _, t := range clauseText(cc) {
			t = reCmdPl.ReplaceAllString(t, "pl")
			t = reCmdTrusted.ReplaceAllString(t, "trusted")
			t = reCmdCmd.ReplaceAllString(t, "cmd")
			t = reCmd.ReplaceAllString(t, "m")
			body = append(body, t)
		}
		runText[key] = body
		runOrder = append(runOrder, key)
	}
	vf, err := vtrans.Parse("client/network/verif_export.go")
	if err != nil {
		die(err)
	}
	fset = vf.Fset
	vd, err := vf.Func("OneConnection", "VerifDispatch")
	if err != nil {
		die(err)
	}
	var msw *ast.SwitchStmt
	ast.Inspect(vd.Body, func(n ast.Node) bool {
		if s, ok := n.(*ast.SwitchStmt); ok && s.Tag != nil && show(s.Tag) == "cmd" {
			msw = s
			return false
		}
		return true
	})
	if msw == nil {
		die(fmt.Errorf("VerifDispatch: `switch cmd` not found"))
	}
	var mirOrder []string
	hasDefault := false
	for _, c := range msw.Body.List {
		cc := c.(*ast.CaseClause)
		if cc.List == nil {
			hasDefault = true
			continue
		}
		var labels []string
		for _, l := range cc.List {
			labels = append(labels, show(l))
		}
		key := strings.Join(labels, ",")
		mirOrder = append(mirOrder, key)
		want, ok := runText[key]
		if !ok {
			die(fmt.Errorf("dispatch mirror: VerifDispatch has a case %s that Run does not have", key))
		}
		got := clauseText(cc)
		if strings.Join(got, "\n") != strings.Join(want, "\n") {
			die(fmt.Errorf("dispatch mirror: case %s differs between Run and VerifDispatch\n--- Run (cmd.pl/cmd.trusted/cmd written pl/trusted/m)\n%s\n--- VerifDispatch\n%s",
				key, strings.Join(want, "\n"), strings.Join(got, "\n")))
		}
	}
	if strings.Join(mirOrder, ";") != strings.Join(runOrder, ";") {
		die(fmt.Errorf("dispatch mirror: the cases of VerifDispatch (%s) are not the cases of Run (%s)", strings.Join(mirOrder, ";"), strings.Join(runOrder, ";")))
	}
	if !hasDefault {
		die(fmt.Errorf("dispatch mirror: VerifDispatch has no default clause"))
	}
	return len(runOrder)
}

func argList(ce *ast.CallExpr) string {
	var a []string
	for _, x := range ce.Args {
		a = append(a, show(x))
	}
	return strings.Join(a, ", ")
}
