// gen_c18 regenerates lean/GocoinV/Gen/NetFacts.lean from /repo/client/network/*.go (translator tie
// for C18). For every message handler it prints the SKELETON of the function as a list of facts in
// source order: every `if` condition (marked `guard` when the body leaves the function or loop),
// every `for` header, every index / slice expression on the payload (and on the slices indexed
// with peer-chosen values), every Lock / Unlock / deferred Unlock, every return, and every call of
// a decoder or of a penalty (DoS / Misbehave with its reason). The model restates these lists
// (Model/NetParseFacts.lean) and Lean compares them, so an edited guard, a dropped Unlock or a new
// index expression breaks a proof obligation. It also evaluates the message size table into a Lean function
// and extracts the command → handler table of Run's switch. It also compares, clause by clause, the
// switch of the harness's dispatch mirror (client/network/verif_export.go VerifDispatch, the second
// stream of go/cmd/c18) with Run's dispatch switch and exits non-zero on any difference.
//
// The facts are written in a CANONICAL SPELLING (canon.go) so that behaviour-preserving edits do not move
// them: names of locals / parameters / named results / labels / receivers never appear (numbered instead),
// unexported functions are followed into instead of being named (the handler of "block" is whatever Run's
// clause calls, the size table is found by its shape), conditions are in negation normal form, if/else has
// one canonical polarity, else-after-leave is flattened, a break-free switch is its if-chain, the functions
// may sit in any file of the package and in any order. What still moves a fact: any change of a guard's
// atoms or constants, of an index / slice expression on peer bytes, of the Lock / Unlock / return / penalty
// sequence, a rewrite of a decoder into different operations (new slices of the payload), renamed FIELDS or
// exported names, an ordered comparison flipped to its negation where neither operand is provably an integer.
package main

import (
	"fmt"
	"go/ast"
	"go/token"
	"os"
	"regexp"
	"sort"
	"strconv"
	"strings"

	"verif/vlib"
)

func die(err error) {
	fmt.Fprintln(os.Stderr, "TRANSLATE-ERROR:", err)
	os.Exit(2)
}

// fset / show: the file set of the instance that is being walked (locks.go)
var fset *token.FileSet

func show(n ast.Node) string { return showIn(fset, n) }

func leanStr(s string) string {
	return strconv.Quote(s) // Go and Lean agree on \" \\ for the ASCII subset the sources use
}

// constant evaluation for maxmsgsize (integer and float literals, named constants of core.go)
func evalConst(e ast.Expr, consts map[string]ast.Expr) (float64, error) {
	switch x := e.(type) {
	case *ast.BasicLit:
		return strconv.ParseFloat(strings.ReplaceAll(x.Value, "_", ""), 64)
	case *ast.ParenExpr:
		return evalConst(x.X, consts)
	case *ast.Ident:
		if c, ok := consts[x.Name]; ok {
			return evalConst(c, consts)
		}
		return 0, fmt.Errorf("unknown constant %s", x.Name)
	case *ast.BinaryExpr:
		a, err := evalConst(x.X, consts)
		if err != nil {
			return 0, err
		}
		b, err := evalConst(x.Y, consts)
		if err != nil {
			return 0, err
		}
		switch x.Op {
		case token.ADD:
			return a + b, nil
		case token.SUB:
			return a - b, nil
		case token.MUL:
			return a * b, nil
		}
	}
	return 0, fmt.Errorf("unsupported constant expression %T", e)
}

type target struct{ recv, fn, def, via string }

// functions left out of the lock traces, with the reason
var lockTraceSkip = map[string]string{
	"OneConnection.InvStore": "writes InvDone under its documented precondition 'make sure c.Mutex is locked when calling it'; every call site is a shared access of the traces instead",
	"NewConnection":          "constructor: the object is not yet visible to any other thread",
	"CachedBlocksDel":        "vars.go, not one of the ten files C18 anchors: two consistency-check panics under CachedBlocksMutex, run by the block-processing thread and not by a connection's thread (the other functions of vars.go are traced, so that a function moved there stays traced)",
}

func writeList(sb *strings.Builder, name, legend string, sk []string, oneLine bool) {
	if legend != "" {
		fmt.Fprintf(sb, "-- names: %s\n", legend)
	}
	if oneLine {
		fmt.Fprintf(sb, "def %s : List String := [", name)
		for i, s := range sk {
			if i > 0 {
				sb.WriteString(", ")
			}
			sb.WriteString(leanStr(s))
		}
		sb.WriteString("]\n\n")
		return
	}
	fmt.Fprintf(sb, "def %s : List String := [\n", name)
	for i, s := range sk {
		sep := ","
		if i == len(sk)-1 {
			sep = ""
		}
		fmt.Fprintf(sb, "  %s%s\n", leanStr(s), sep)
	}
	sb.WriteString("]\n\n")
}

// findDispatch: Run's switch over the command name (the one with a clause "inv") and the object of the
// message variable (the root of its tag expression <msg>.cmd).
func findDispatch(run *inst) (*ast.SwitchStmt, *ast.Object) {
	var sw *ast.SwitchStmt
	ast.Inspect(run.fd.Body, func(n ast.Node) bool {
		s, ok := n.(*ast.SwitchStmt)
		if !ok || s.Tag == nil || sw != nil {
			return sw == nil
		}
		for _, c := range s.Body.List {
			for _, l := range c.(*ast.CaseClause).List {
				if b, ok := l.(*ast.BasicLit); ok && b.Value == `"inv"` {
					sw = s
					return false
				}
			}
		}
		return true
	})
	if sw == nil {
		die(fmt.Errorf("Run: the switch over the command name (a clause \"inv\") was not found"))
	}
	sel, ok := sw.Tag.(*ast.SelectorExpr)
	if !ok {
		die(fmt.Errorf("Run: the dispatch switch does not switch over a field of the message"))
	}
	id, ok := sel.X.(*ast.Ident)
	if !ok || id.Obj == nil {
		die(fmt.Errorf("Run: the message of the dispatch switch is not a local variable"))
	}
	return sw, id.Obj
}

func main() {
	ix := loadPackage("client/network")
	sizeSf := sizeTableFunc(ix)

	var sb strings.Builder
	sb.WriteString("/- GENERATED by go/cmd/gen_c18 from client/network/*.go — do not edit; not in git.\n")
	sb.WriteString("   Canonical spelling: receiver = c, parameters = $p1.., named results = $r1.., other locals and labels\n")
	sb.WriteString("   = $1, $2, .. in the order of first appearance (the `names:` comments give the source names);\n")
	sb.WriteString("   unexported callees are followed into (`return^` = return of a followed callee); conditions in negation\n")
	sb.WriteString("   normal form, if/else in canonical polarity, else after a leaving branch flattened. -/\n")
	sb.WriteString("namespace GocoinV.Gen.NetFacts\n\n")
	nfacts := 0

	// ---- Run: the dispatch table (it also names the unexported handlers)
	run := instantiate(ix.must("OneConnection", "Run")).asTarget()
	sw, msgObj := findDispatch(run)
	run.setName(msgObj, "cmd")
	type disp struct{ cmd, first, raw string }
	var table []disp
	clauseOf := map[string]*ast.CaseClause{}
	for _, c := range sw.Body.List {
		cc := c.(*ast.CaseClause)
		first, raw := "", ""
		for _, b := range cc.Body {
			ast.Inspect(b, func(n ast.Node) bool {
				if first != "" {
					return false
				}
				if ce, ok := n.(*ast.CallExpr); ok {
					if se, ok := ce.Fun.(*ast.SelectorExpr); ok && showIn(run.fset, se.X) == "c" {
						raw = se.Sel.Name
						nm := raw
						if !exported(nm) {
							nm = "~" // an unexported handler is identified by its clause, not by its name
						}
						first = numberStr(nm+"("+argListIn(run, ce)+")", map[string]string{})
						return false
					}
				}
				return true
			})
		}
		for _, l := range cc.List {
			cmd, _ := strconv.Unquote(showIn(run.fset, l))
			table = append(table, disp{cmd, first, raw})
			clauseOf[cmd] = cc
		}
		if cc.List == nil {
			table = append(table, disp{"<default>", first, raw})
		}
	}

	targets := []target{
		{"OneConnection", "HandleVersion", "HandleVersion", ""},
		{"OneConnection", "AuthRvcd", "AuthRvcd", ""},
		{"OneConnection", "ParseAddr", "ParseAddr", ""},
		{"OneConnection", "ProcessInv", "ProcessInv", ""},
		{"OneConnection", "GetBlocks", "GetBlocks", ""},
		{"OneConnection", "HandleHeaders", "HandleHeaders", ""},
		{"OneConnection", "GetHeaders", "GetHeaders", ""},
		{"OneConnection", "ProcessGetData", "ProcessGetData", ""},
		{"OneConnection", "", "netBlockReceived", "block"}, // whatever Run calls for "block"
		{"OneConnection", "ProcessGetBlockTxn", "ProcessGetBlockTxn", ""},
		{"OneConnection", "ProcessCmpctBlock", "ProcessCmpctBlock", ""},
		{"OneConnection", "ProcessBlockTxn", "ProcessBlockTxn", ""},
		{"CmpctBlockCollector", "Assemble", "Assemble", ""},
		{"OneConnection", "ParseTxNet", "ParseTxNet", ""},
		{"OneConnection", "ProcessGetMP", "ProcessGetMP", ""},
		{"OneConnection", "HandlePong", "HandlePong", ""},
		{"OneConnection", "GetMPDone", "GetMPDone", ""},
		{"OneConnection", "FetchMessage", "FetchMessage", ""},
		// the once-a-second walk over the penalty history (Tick): what Model/NetParseExpire.lean mirrors
		{"OneConnection", "expire_misbehave", "expire_misbehave", ""},
	}
	noInline := map[string]bool{}
	for i, t := range targets {
		if t.via != "" {
			for _, d := range table {
				if d.cmd == t.via {
					targets[i].fn = d.raw
				}
			}
			if targets[i].fn == "" {
				die(fmt.Errorf("Run: no handler call found in case %q", t.via))
			}
		}
		noInline[ix.must(t.recv, targets[i].fn).key] = true
	}
	for _, t := range targets {
		sk, lg := skeletonOf(ix, ix.must(t.recv, t.fn), noInline, sizeSf.key)
		nfacts += len(sk)
		writeList(&sb, t.def, lg, sk, false)
	}

	// the clauses of a switch over distinct strings are a set: sorted by command
	sort.SliceStable(table, func(i, j int) bool { return table[i].cmd < table[j].cmd })
	sb.WriteString("def dispatch : List (String × String) := [\n")
	for i, d := range table {
		sep := ","
		if i == len(table)-1 {
			sep = ""
		}
		fmt.Fprintf(&sb, "  (%s, %s)%s\n", leanStr(d.cmd), leanStr(d.first), sep)
	}
	sb.WriteString("]\n\n")
	nfacts += len(table)
	// ---- the dispatch mirror of the harness's second stream (client/network/verif_export.go VerifDispatch)
	//      must be a clause-by-clause copy of this switch: any difference stops the run (broken tie)
	nfacts += compareMirror(ix, run, sw)

	// ---- Run's inline cases
	for _, cmd := range []string{"feefilter", "sendcmpct", "ping", "authack"} {
		cc, ok := clauseOf[cmd]
		if !ok {
			die(fmt.Errorf("Run: case %q not found", cmd))
		}
		k := &skel{ix: ix, noInline: noInline, sizeFn: sizeSf.key, insts: []*inst{run}}
		k.block(run, cc.Body)
		tb := map[string]string{}
		sk := number(k.out, tb)
		writeList(&sb, "inline_"+cmd, legend(tb, k.insts...), sk, true)
		nfacts += len(sk)
	}
	// the gate in front of the switch: version / no version yet
	gate := []string{}
	ast.Inspect(run.fd.Body, func(n ast.Node) bool {
		if s, ok := n.(*ast.IfStmt); ok {
			c := showIn(run.fset, s.Cond)
			if c == `cmd.cmd == "version"` || c == "!c.X.VersionReceived" || c == "c.X.VersionReceived" {
				gate = append(gate, c)
			}
		}
		return true
	})
	writeList(&sb, "runGate", "", gate, true)
	nfacts += len(gate)

	// ---- the block path behind `block` / `cmpctblock` / `blocktxn` for a block that carries the Trusted mark (state.go)
	nfacts += blockFront(&sb)

	// ---- the message size table
	mm := instantiate(sizeSf)
	msw := mm.fd.Body.List[0].(*ast.SwitchStmt)
	consts := ix.consts
	type mrow struct {
		cmd string
		v   uint64
	}
	var rows []mrow
	var def uint64
	haveDef := false
	for _, c := range msw.Body.List {
		cc := c.(*ast.CaseClause)
		rs := cc.Body[0].(*ast.ReturnStmt)
		v, err := evalConst(rs.Results[0], consts)
		if err != nil {
			die(fmt.Errorf("maxmsgsize: %v", err))
		}
		if v < 0 || v != float64(uint64(v)) {
			die(fmt.Errorf("maxmsgsize: non-integral limit %v", v))
		}
		if cc.List == nil {
			def, haveDef = uint64(v), true
		}
		for _, l := range cc.List {
			cmd, err := strconv.Unquote(showIn(mm.fset, l))
			if err != nil {
				die(err)
			}
			rows = append(rows, mrow{cmd, uint64(v)})
		}
	}
	if !haveDef {
		die(fmt.Errorf("maxmsgsize: no default case"))
	}
	sb.WriteString("def maxMsgSize (cmd : String) : Nat :=\n")
	for _, r := range rows {
		fmt.Fprintf(&sb, "  if cmd = %s then %d else\n", leanStr(r.cmd), r.v)
	}
	fmt.Fprintf(&sb, "  %d\n\n", def)
	nfacts += len(rows) + 1

	// ---- lock traces of every function of the package (locks.go)
	var traces []*lockWalker
	// every file of the package (a function moved to another file stays traced), except the verification hooks
	// first pass: the counter helpers (locks.go) - methods that touch their receiver's counters map and do not
	// lock the receiver's Mutex themselves; recognised by that shape, so a renamed or added helper is found too
	var helperKeys []string
	for _, sf := range ix.order {
		if sf.file == "verif_export.go" || lockTraceSkip[sf.key] != "" || sf.recv == "" {
			continue
		}
		w := lockTraceOf(sf, ix.imports)
		if !w.touchesCounters() {
			continue
		}
		locksOwn := false
		for _, l := range w.ownLocks() {
			locksOwn = locksOwn || l == "c.Mutex"
		}
		if !locksOwn {
			counterHelpers[sf.name] = true
			helperKeys = append(helperKeys, sf.key)
		}
	}
	sort.Strings(helperKeys)
	for _, sf := range ix.order {
		if sf.file == "verif_export.go" || lockTraceSkip[sf.key] != "" {
			continue
		}
		if sf.recv != "" && counterHelpers[sf.name] {
			if ms := ix.methods[sf.name]; len(ms) != 1 {
				die(fmt.Errorf("lock traces: counter helper %s shares its name with %d methods (call sites are matched by name)", sf.key, len(ms)))
			}
			continue // checked at its call sites
		}
		traces = append(traces, lockTraceOf(sf, ix.imports))
	}
	resolveCalls(traces, ix.imports, ix.globals)
	writeList(&sb, "counterHelpers", "", helperKeys, true)
	sb.WriteString("-- ^ methods that touch <receiver>.counters without locking <receiver>.Mutex themselves: not traced, every call is a shared access (token 9) of the caller's trace\n\n")
	nfacts += len(helperKeys)
	if len(traces) < 60 {
		die(fmt.Errorf("lock traces: only %d functions found", len(traces)))
	}
	sort.SliceStable(traces, func(i, j int) bool { return traces[i].fn < traces[j].fn })
	nfacts += writeLockTraces(&sb, traces)
	// ---- the connection's map-typed fields: who assigns what, who writes entries (state.go)
	nfacts += connMaps(&sb)
	sb.WriteString("end GocoinV.Gen.NetFacts\n")
	out := vlib.Root() + "/lean/GocoinV/Gen/NetFacts.lean"
	if o := os.Getenv("GEN_C18_OUT"); o != "" {
		out = o // scratch output (development only)
	}
	os.Remove(out)
	if err := os.WriteFile(out, []byte(sb.String()), 0644); err != nil {
		die(err)
	}
	fmt.Printf("FACTS %d\n", nfacts)
}

var (
	reCmdPl      = regexp.MustCompile(`\bcmd\.pl\b`)
	reCmdTrusted = regexp.MustCompile(`\bcmd\.trusted\b`)
	reCmdCmd     = regexp.MustCompile(`\bcmd\.cmd\b`)
	reCmd        = regexp.MustCompile(`\bcmd\b`)
)

// clauseText prints the body of a case clause, one statement per entry, locals of the clause numbered.
func clauseText(in *inst, cc *ast.CaseClause) []string {
	var out []string
	for _, b := range cc.Body {
		out = append(out, showIn(in.fset, b))
	}
	return number(out, map[string]string{})
}

// compareMirror checks that VerifDispatch's `switch cmd` has the same clauses (as a set), with
// the same statements as Run's dispatch switch once Run's <msg>.pl / <msg>.trusted / <msg> are written
// pl / trusted / m (locals declared inside a clause are numbered on both sides, so their names do not matter).
// The default clause is exempt (Run's is empty, the mirror's reports "unknown").
// Returns the number of clauses compared.
func compareMirror(ix *pkgIndex, run *inst, runSw *ast.SwitchStmt) int {
	runText := map[string][]string{}
	var runOrder []string
	for _, c := range runSw.Body.List {
		cc := c.(*ast.CaseClause)
		if cc.List == nil {
			continue
		}
		var labels []string
		for _, l := range cc.List {
			labels = append(labels, showIn(run.fset, l))
		}
		key := strings.Join(labels, ",")
		var body []string
		for _, t := range clauseText(run, cc) {
			t = reCmdPl.ReplaceAllString(t, "pl")
			t = reCmdTrusted.ReplaceAllString(t, "trusted")
			t = reCmdCmd.ReplaceAllString(t, "cmd")
			t = reCmd.ReplaceAllString(t, "m")
			body = append(body, t)
		}
		runText[key] = body
		runOrder = append(runOrder, key)
	}
	vsf := ix.funcs["OneConnection.VerifDispatch"]
	if vsf == nil {
		die(fmt.Errorf("client/network: OneConnection.VerifDispatch (verif_export.go) not found"))
	}
	vd := instantiate(vsf)
	var msw *ast.SwitchStmt
	ast.Inspect(vd.fd.Body, func(n ast.Node) bool {
		if s, ok := n.(*ast.SwitchStmt); ok && s.Tag != nil && msw == nil {
			if id, ok := s.Tag.(*ast.Ident); ok && id.Obj != nil && id.Obj.Name == "cmd" {
				msw = s
				return false
			}
		}
		return true
	})
	if msw == nil {
		die(fmt.Errorf("VerifDispatch: `switch cmd` not found"))
	}
	// everything declared outside the switch (receiver, parameters, m) keeps its own name: the hook file is ours
	seen := map[*ast.Object]bool{}
	ast.Inspect(vd.fd, func(n ast.Node) bool {
		if id, ok := n.(*ast.Ident); ok && id.Obj != nil && !seen[id.Obj] && id.Obj.Kind != ast.Fun {
			seen[id.Obj] = true
			if p := vd.declPos[id.Obj]; p < msw.Pos() || p >= msw.End() {
				vd.setName(id.Obj, id.Obj.Name)
			}
		}
		return true
	})
	var mirOrder []string
	hasDefault := false
	for _, c := range msw.Body.List {
		cc := c.(*ast.CaseClause)
		if cc.List == nil {
			hasDefault = true
			continue
		}
		var labels []string
		for _, l := range cc.List {
			labels = append(labels, showIn(vd.fset, l))
		}
		key := strings.Join(labels, ",")
		mirOrder = append(mirOrder, key)
		want, ok := runText[key]
		if !ok {
			die(fmt.Errorf("dispatch mirror: VerifDispatch has a case %s that Run does not have", key))
		}
		got := clauseText(vd, cc)
		if strings.Join(got, "\n") != strings.Join(want, "\n") {
			die(fmt.Errorf("dispatch mirror: case %s differs between Run and VerifDispatch\n--- Run (<msg>.pl/<msg>.trusted/<msg> written pl/trusted/m)\n%s\n--- VerifDispatch\n%s",
				key, strings.Join(want, "\n"), strings.Join(got, "\n")))
		}
	}
	sort.Strings(mirOrder)
	sort.Strings(runOrder)
	if strings.Join(mirOrder, ";") != strings.Join(runOrder, ";") {
		die(fmt.Errorf("dispatch mirror: the cases of VerifDispatch (%s) are not the cases of Run (%s)", strings.Join(mirOrder, ";"), strings.Join(runOrder, ";")))
	}
	if !hasDefault {
		die(fmt.Errorf("dispatch mirror: VerifDispatch has no default clause"))
	}
	return len(runOrder)
}
