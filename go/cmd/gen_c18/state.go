package main

// state.go — two groups of facts about state that outlives one message:
//
//   connMaps    the map-typed fields of the connection object (counters, GetBlockInProgress, InvDone.Map …):
//               every assignment to one of them anywhere in client/network with the KIND of the value assigned
//               (make / nil / lit / other) and every function that writes an entry into one of them. Writers of
//               such a map are guarded by run-time switches (common.NoCounters …), not by the map being there:
//               a function that stores nil (e.g. Tick "releasing" the counters while they are switched off)
//               makes the next writer panic with "assignment to entry in nil map" under c.Mutex once the
//               operator flips the switch back. Model/NetParseState.lean proves that no history of function
//               runs - whatever the switches say - meets a nil map as long as every assignment is a `make`.
//   blockFront  the head of btc.Block.BuildTxListExt (the decoding of txn_count up to the allocation of the
//               transaction list) and the front of chain.Chain.PostCheckBlock (up to the merkle-root
//               comparison) as skeletons in the canonical spelling: the part of the block path that a
//               `block` / `cmpctblock` / `blocktxn` message of an untrusted peer drives for a block that
//               carries the Trusted mark - where PostCheckBlock skips its own "no transactions" test and
//               the merkle computation indexes mtr[len(mtr)-1]. The model (NetParseState.lean, `postCheck`)
//               is written against these two lists.

import (
	"fmt"
	"go/ast"
	"go/build"
	"go/parser"
	"go/token"
	"os"
	"path/filepath"
	"sort"
	"strings"

	"verif/vtrans"
)

// parsePkg parses the files of a package the way loadPackage selects them.
func parsePkg(rel string) (*token.FileSet, map[string]*ast.File) {
	dir := vtrans.RepoRoot() + "/" + rel
	ents, err := os.ReadDir(dir)
	if err != nil {
		die(err)
	}
	ctx := build.Default
	ctx.BuildTags = append(append([]string{}, ctx.BuildTags...), "verif")
	fs := token.NewFileSet()
	files := map[string]*ast.File{}
	for _, e := range ents {
		n := e.Name()
		if e.IsDir() || !strings.HasSuffix(n, ".go") || strings.HasSuffix(n, "_test.go") {
			continue
		}
		if ok, err := ctx.MatchFile(dir, n); err != nil || !ok {
			continue
		}
		f, err := parser.ParseFile(fs, filepath.Join(dir, n), nil, 0)
		if err != nil {
			die(err)
		}
		files[n] = f
	}
	return fs, files
}

// mapFieldsOf lists the map-typed fields reachable from struct type `name` through nested struct fields
// (anonymous struct types and named struct types of the same package), as dotted paths.
func mapFieldsOf(types map[string]*ast.StructType, st *ast.StructType, prefix string, depth int, out *[]string) {
	if st == nil || depth > 3 {
		return
	}
	for _, f := range st.Fields.List {
		for _, nm := range f.Names {
			switch t := f.Type.(type) {
			case *ast.MapType:
				*out = append(*out, prefix+nm.Name)
			case *ast.StructType:
				mapFieldsOf(types, t, prefix+nm.Name+".", depth+1, out)
			case *ast.Ident:
				mapFieldsOf(types, types[t.Name], prefix+nm.Name+".", depth+1, out)
			}
		}
	}
}

// fieldPath: x.a.b with an identifier at the root -> "a.b" ("" when e is not such a chain).
func fieldPath(e ast.Expr) string {
	var parts []string
	for {
		switch x := e.(type) {
		case *ast.ParenExpr:
			e = x.X
			continue
		case *ast.SelectorExpr:
			parts = append([]string{x.Sel.Name}, parts...)
			e = x.X
			continue
		case *ast.Ident:
			if len(parts) == 0 {
				return ""
			}
			return strings.Join(parts, ".")
		}
		return ""
	}
}

func rhsKind(e ast.Expr) string {
	switch x := e.(type) {
	case *ast.ParenExpr:
		return rhsKind(x.X)
	case *ast.CallExpr:
		if id, ok := x.Fun.(*ast.Ident); ok && id.Obj == nil && id.Name == "make" {
			return "make"
		}
	case *ast.Ident:
		if x.Obj == nil && x.Name == "nil" {
			return "nil"
		}
	case *ast.CompositeLit:
		return "lit"
	}
	return "other"
}

// connMaps writes connMapFields / connMapAssigns / connMapWrites; returns the number of facts.
func connMaps(sb *strings.Builder) int {
	_, files := parsePkg("client/network")
	types := map[string]*ast.StructType{}
	for _, f := range files {
		for _, d := range f.Decls {
			if gd, ok := d.(*ast.GenDecl); ok && gd.Tok == token.TYPE {
				for _, sp := range gd.Specs {
					ts := sp.(*ast.TypeSpec)
					if st, ok := ts.Type.(*ast.StructType); ok {
						types[ts.Name.Name] = st
					}
				}
			}
		}
	}
	conn := types["OneConnection"]
	if conn == nil {
		die(fmt.Errorf("client/network: type OneConnection not found"))
	}
	var fields []string
	mapFieldsOf(types, conn, "", 0, &fields)
	sort.Strings(fields)
	if len(fields) == 0 {
		die(fmt.Errorf("client/network: OneConnection has no map-typed field any more"))
	}
	isField := map[string]bool{}
	for _, f := range fields {
		isField[f] = true
	}
	type asg struct{ fn, field, kind string }
	var asgs []asg
	writes := map[[2]string]bool{}
	// under: the map fields that live under the dotted path p (p itself excluded) - an assignment to p replaces them all
	under := func(p string) (fs []string) {
		for _, f := range fields {
			if p != "" && strings.HasPrefix(f, p+".") {
				fs = append(fs, f)
			}
		}
		return
	}
	// the struct types through which a map field is reached (OneConnection and the named types of its nested fields):
	// a composite literal of one of them that is ASSIGNED THROUGH A POINTER (`*c = OneConnection{}`) replaces every map
	enclosing := map[string]bool{"OneConnection": true}
	var walkT func(st *ast.StructType, depth int)
	walkT = func(st *ast.StructType, depth int) {
		if st == nil || depth > 3 {
			return
		}
		for _, f := range st.Fields.List {
			switch t := f.Type.(type) {
			case *ast.StructType:
				walkT(t, depth+1)
			case *ast.Ident:
				if sub := types[t.Name]; sub != nil {
					var fs []string
					mapFieldsOf(types, sub, "", 0, &fs)
					if len(fs) > 0 {
						enclosing[t.Name] = true
					}
					walkT(sub, depth+1)
				}
			}
		}
	}
	walkT(conn, 0)
	// constructors: the functions in which an object of the connection type is created (new(T), T{…}, &T{…});
	// per map field: is there a `make` assignment at the TOP LEVEL of the body (not inside if / for / switch / closure)?
	type ctorFact struct {
		fn, field string
		uncond    bool
	}
	var ctors []ctorFact
	var ctorNames []string
	var names []string
	for n := range files {
		names = append(names, n)
	}
	sort.Strings(names)
	for _, n := range names {
		if n == "verif_export.go" {
			continue // the verification hooks are not the product
		}
		for _, d := range files[n].Decls {
			fd, ok := d.(*ast.FuncDecl)
			if !ok || fd.Body == nil {
				continue
			}
			fn := fd.Name.Name
			if fd.Recv != nil && len(fd.Recv.List) == 1 {
				t := fd.Recv.List[0].Type
				if s, ok := t.(*ast.StarExpr); ok {
					t = s.X
				}
				if id, ok := t.(*ast.Ident); ok {
					fn = id.Name + "." + fn
				}
			}
			entry := func(e ast.Expr) {
				if ix, ok := e.(*ast.IndexExpr); ok {
					if p := fieldPath(ix.X); isField[p] {
						writes[[2]string{fn, p}] = true
					}
				}
			}
			creates := false
			ast.Inspect(fd.Body, func(nd ast.Node) bool {
				switch s := nd.(type) {
				case *ast.CallExpr:
					if id, ok := s.Fun.(*ast.Ident); ok && id.Obj == nil && id.Name == "new" && len(s.Args) == 1 {
						if t, ok := s.Args[0].(*ast.Ident); ok && t.Name == "OneConnection" {
							creates = true
						}
					}
				case *ast.CompositeLit:
					if t, ok := s.Type.(*ast.Ident); ok && t.Name == "OneConnection" {
						creates = true
					}
				case *ast.UnaryExpr:
					// &x.field / &x.prefix: the map can then be replaced through the pointer, out of sight of these facts
					if s.Op == token.AND {
						if p := fieldPath(s.X); isField[p] {
							asgs = append(asgs, asg{fn, p, "addr"})
						} else {
							for _, f := range under(p) {
								asgs = append(asgs, asg{fn, f, "addr"})
							}
						}
					}
				case *ast.AssignStmt:
					for i, l := range s.Lhs {
						entry(l)
						if p := fieldPath(l); isField[p] {
							k := "other"
							if len(s.Rhs) == len(s.Lhs) && s.Tok == token.ASSIGN {
								k = rhsKind(s.Rhs[i])
							}
							asgs = append(asgs, asg{fn, p, k})
						} else if fs := under(p); len(fs) > 0 {
							// an assignment to a struct that CONTAINS the map (c.InvDone = struct{…}{}): the map inside is whatever
							// the new value holds - nil unless the literal makes one, which these facts do not look into
							for _, f := range fs {
								asgs = append(asgs, asg{fn, f, "enclosing"})
							}
						} else if _, ok := l.(*ast.StarExpr); ok {
							// *x = T{…} for a type the maps live in / *x = *y inside a method of the connection
							hit := false
							if len(s.Rhs) == len(s.Lhs) {
								switch r := s.Rhs[i].(type) {
								case *ast.CompositeLit:
									if t, ok := r.Type.(*ast.Ident); ok && enclosing[t.Name] {
										hit = true
									}
								case *ast.StarExpr:
									hit = strings.HasPrefix(fn, "OneConnection.")
								}
							}
							if hit {
								for _, f := range fields {
									asgs = append(asgs, asg{fn, f, "enclosing"})
								}
							}
						}
					}
				case *ast.IncDecStmt:
					entry(s.X)
				case *ast.KeyValueExpr:
					// a composite literal of the connection type that sets the field
					if id, ok := s.Key.(*ast.Ident); ok && isField[id.Name] {
						asgs = append(asgs, asg{fn, id.Name, rhsKind(s.Value)})
					}
				}
				return true
			})
			if creates {
				ctorNames = append(ctorNames, fn)
				for _, f := range fields {
					unc := false
					for _, st := range fd.Body.List {
						if as, ok := st.(*ast.AssignStmt); ok && as.Tok == token.ASSIGN && len(as.Lhs) == len(as.Rhs) {
							for i, l := range as.Lhs {
								if fieldPath(l) == f && rhsKind(as.Rhs[i]) == "make" {
									unc = true
								}
							}
						}
					}
					ctors = append(ctors, ctorFact{fn, f, unc})
				}
			}
		}
	}
	if len(ctorNames) == 0 {
		die(fmt.Errorf("client/network: no function creates a OneConnection (new / composite literal) any more"))
	}
	sort.Strings(ctorNames)
	sort.SliceStable(ctors, func(i, j int) bool {
		if ctors[i].fn != ctors[j].fn {
			return ctors[i].fn < ctors[j].fn
		}
		return ctors[i].field < ctors[j].field
	})
	recycleMirror(files, ctorNames)
	sort.SliceStable(asgs, func(i, j int) bool {
		if asgs[i].fn != asgs[j].fn {
			return asgs[i].fn < asgs[j].fn
		}
		return asgs[i].field < asgs[j].field
	})
	sb.WriteString("/-- the map-typed fields of the connection object (dotted paths through nested structs) -/\n")
	writeList(sb, "connMapFields", "", fields, true)
	sb.WriteString("/-- every assignment to one of those fields in client/network (hooks excluded): (function, field, kind of\n    the value: make / nil / lit / other; `enclosing` = the struct that contains the map, or the whole object through a\n    pointer, is assigned; `addr` = the address of the field or of a struct containing it is taken), sorted by function -/\n")
	sb.WriteString("def connMapAssigns : List (String × String × String) := [\n")
	for i, a := range asgs {
		sep := ","
		if i == len(asgs)-1 {
			sep = ""
		}
		fmt.Fprintf(sb, "  (%s, %s, %s)%s\n", leanStr(a.fn), leanStr(a.field), leanStr(a.kind), sep)
	}
	sb.WriteString("]\n\n")
	sb.WriteString("/-- the functions that create a connection object (new(OneConnection) / a composite literal), and per map field\n    whether the function assigns it a `make` at the top level of its body, i.e. unconditionally -/\n")
	writeList(sb, "connCtors", "", ctorNames, true)
	sb.WriteString("def connCtorMakes : List (String × String × Bool) := [\n")
	for i, c := range ctors {
		sep := ","
		if i == len(ctors)-1 {
			sep = ""
		}
		fmt.Fprintf(sb, "  (%s, %s, %v)%s\n", leanStr(c.fn), leanStr(c.field), c.uncond, sep)
	}
	sb.WriteString("]\n\n")
	var ws [][2]string
	for w := range writes {
		ws = append(ws, w)
	}
	sort.Slice(ws, func(i, j int) bool { return ws[i][0]+"\x00"+ws[i][1] < ws[j][0]+"\x00"+ws[j][1] })
	sb.WriteString("/-- every function that stores an entry into one of those maps (m[k] = v, m[k]++, m[k] += v): (function, field) -/\n")
	sb.WriteString("def connMapWrites : List (String × String) := [\n")
	for i, w := range ws {
		sep := ","
		if i == len(ws)-1 {
			sep = ""
		}
		fmt.Fprintf(sb, "  (%s, %s)%s\n", leanStr(w[0]), leanStr(w[1]), sep)
	}
	sb.WriteString("]\n\n")
	return len(fields) + len(asgs) + len(ws) + len(ctors) + len(ctorNames)
}

// blockFront writes BuildTxListHead and PostCheckFront (frozen copies in Model/NetParseFacts.lean).
func blockFront(sb *strings.Builder) int {
	n := 0
	bix := loadPackage("lib/btc")
	bf := bix.funcs["Block.BuildTxListExt"]
	if bf == nil {
		die(fmt.Errorf("lib/btc: Block.BuildTxListExt not found"))
	}
	sk, lg := skeletonOf(bix, bf, map[string]bool{}, "")
	cut := -1
	for i, s := range sk {
		if strings.HasPrefix(s, "call: make(") {
			cut = i
			break
		}
	}
	if cut < 0 {
		die(fmt.Errorf("lib/btc BuildTxListExt: the allocation of the transaction list (make) was not found"))
	}
	writeList(sb, "BuildTxListHead", lg, sk[:cut+1], false)
	n += cut + 1

	cix := loadPackage("lib/chain")
	pf := cix.funcs["Chain.PostCheckBlock"]
	if pf == nil {
		die(fmt.Errorf("lib/chain: Chain.PostCheckBlock not found"))
	}
	sk, lg = skeletonOf(cix, pf, map[string]bool{}, "")
	// up to (not including) the second block that depends on the Trusted mark: the size test, the building of the
	// transaction list, the coinbase tests a trusted block skips, the merkle computation and comparison
	seen, end := 0, -1
	for i, s := range sk {
		if strings.HasPrefix(s, "if:") && strings.Contains(s, "Trusted") {
			seen++
			if seen == 2 {
				end = i
				break
			}
		}
	}
	if end < 0 {
		die(fmt.Errorf("lib/chain PostCheckBlock: the two blocks guarded by the Trusted mark were not found"))
	}
	writeList(sb, "PostCheckFront", lg, sk[:end], false)
	n += end
	return n
}

// recycleMirror: the harness's run stream re-initialises a finished connection object through
// network.VerifRecycle (verif_export.go) instead of calling the constructor (16 MB send ring per object). That
// function is a hand copy of the constructor's initialisation; what must not drift apart is compared here on
// every run: the `x.<path> = make(…)` statements at the top level of the constructor (text with the receiver
// removed) must be exactly those at the top level of VerifRecycle. A difference stops the run (broken tie).
func recycleMirror(files map[string]*ast.File, ctorNames []string) {
	tops := func(fd *ast.FuncDecl) []string {
		var out []string
		for _, st := range fd.Body.List {
			if as, ok := st.(*ast.AssignStmt); ok && as.Tok == token.ASSIGN && len(as.Lhs) == 1 && len(as.Rhs) == 1 {
				if p := fieldPath(as.Lhs[0]); p != "" && rhsKind(as.Rhs[0]) == "make" {
					out = append(out, p+" = "+showIn(token.NewFileSet(), as.Rhs[0]))
				}
			}
		}
		sort.Strings(out)
		return out
	}
	var rec *ast.FuncDecl
	if f := files["verif_export.go"]; f != nil {
		for _, d := range f.Decls {
			if fd, ok := d.(*ast.FuncDecl); ok && fd.Name.Name == "VerifRecycle" && fd.Body != nil {
				rec = fd
			}
		}
	}
	if rec == nil {
		die(fmt.Errorf("verif_export.go: VerifRecycle not found (the run stream's recycled connection objects are compared with the constructor)"))
	}
	var want []string
	for _, f := range files {
		for _, d := range f.Decls {
			if fd, ok := d.(*ast.FuncDecl); ok && fd.Body != nil && fd.Recv == nil {
				for _, n := range ctorNames {
					if fd.Name.Name == n {
						want = append(want, tops(fd)...)
					}
				}
			}
		}
	}
	sort.Strings(want)
	// VerifRecycle also re-makes what VerifNewConn adds after the constructor (writing_thread_push)
	var got []string
	for _, g := range tops(rec) {
		if !strings.HasPrefix(g, "writing_thread_push ") {
			got = append(got, g)
		}
	}
	if strings.Join(want, "\n") != strings.Join(got, "\n") {
		die(fmt.Errorf("VerifRecycle (verif_export.go) no longer re-makes exactly what the constructor makes unconditionally:\n constructor: %v\n VerifRecycle: %v", want, got))
	}
}
