package main

// canon.go — everything that makes the extracted facts independent of HOW the source spells things that
// cannot matter for the property:
//
//   * every function that is analysed is first re-parsed from its own source text into a private copy
//     ("instance"); in the copy every identifier that go/parser resolves to a declaration INSIDE the function
//     (receiver, parameters, named results, locals, labels) is renamed: the receiver to `c`, parameters to
//     $p1.., named results to $r1.., everything else to a placeholder that is numbered $1, $2, … in the order
//     of first appearance in the emitted facts. Names of locals therefore never reach a fact;
//   * an unexported function of the package is followed into (inlined, two levels) at its call site instead
//     of being named: its parameters are replaced by the argument expressions, its locals get fresh
//     placeholders, so extracting a block into a helper / inlining a helper leaves the facts unchanged;
//   * conditions are printed in negation normal form (`!` pushed inwards by De Morgan, `==`/`!=` flipped,
//     ordered comparisons flipped only when an operand is provably an integer - for floats !(a<b) is not a>=b);
//   * if/else is printed in one canonical polarity, an else after a branch that leaves is flattened, a
//     guard followed by a leaving rest is oriented by size, a switch without break/fallthrough is an if-chain.
//
// All rewrites are semantics-preserving statement-tree identities; nothing is dropped.

import (
	"bytes"
	"fmt"
	"go/ast"
	"go/build"
	"go/parser"
	"go/printer"
	"go/token"
	"os"
	"path/filepath"
	"regexp"
	"sort"
	"strconv"
	"strings"

	"verif/vtrans"
)

// ---------------------------------------------------------------- package index

type srcFunc struct {
	key, recv, name, file string
	src                   string // text of the declaration
	recvName              string
}

type pkgIndex struct {
	funcs   map[string]*srcFunc   // "Recv.name" / "name"
	methods map[string][]*srcFunc // bare method name -> declarations
	imports map[string]bool       // names under which the files import packages
	globals map[string]bool       // package-level variables
	order   []*srcFunc            // in file / declaration order
	consts  map[string]ast.Expr
	cfset   *token.FileSet
}

func exported(name string) bool { return name != "" && name[0] >= 'A' && name[0] <= 'Z' }

// loadPackage parses every Go file of dir (relative to the repository root) that belongs to a build with the
// tag `verif` on this platform, except tests.
func loadPackage(rel string) *pkgIndex {
	dir := vtrans.RepoRoot() + "/" + rel
	ents, err := os.ReadDir(dir)
	if err != nil {
		die(err)
	}
	ctx := build.Default
	ctx.BuildTags = append(append([]string{}, ctx.BuildTags...), "verif")
	ix := &pkgIndex{funcs: map[string]*srcFunc{}, methods: map[string][]*srcFunc{}, imports: map[string]bool{},
		globals: map[string]bool{}, consts: map[string]ast.Expr{}, cfset: token.NewFileSet()}
	var names []string
	for _, e := range ents {
		n := e.Name()
		if e.IsDir() || !strings.HasSuffix(n, ".go") || strings.HasSuffix(n, "_test.go") {
			continue
		}
		if ok, err := ctx.MatchFile(dir, n); err != nil || !ok {
			continue
		}
		names = append(names, n)
	}
	sort.Strings(names)
	for _, n := range names {
		p := filepath.Join(dir, n)
		data, err := os.ReadFile(p)
		if err != nil {
			die(err)
		}
		f, err := parser.ParseFile(ix.cfset, p, data, 0)
		if err != nil {
			die(err)
		}
		for _, im := range f.Imports {
			ip, _ := strconv.Unquote(im.Path.Value)
			if im.Name != nil {
				ix.imports[im.Name.Name] = true
			} else {
				ix.imports[ip[strings.LastIndex(ip, "/")+1:]] = true
			}
		}
		for _, d := range f.Decls {
			switch x := d.(type) {
			case *ast.GenDecl:
				for _, sp := range x.Specs {
					if vs, ok := sp.(*ast.ValueSpec); ok {
						for i, id := range vs.Names {
							if x.Tok == token.VAR {
								ix.globals[id.Name] = true
							}
							if x.Tok == token.CONST && i < len(vs.Values) {
								ix.consts[id.Name] = vs.Values[i]
							}
						}
					}
				}
			case *ast.FuncDecl:
				if x.Body == nil {
					continue
				}
				sf := &srcFunc{name: x.Name.Name, file: n}
				if x.Recv != nil && len(x.Recv.List) == 1 {
					t := x.Recv.List[0].Type
					if s, ok := t.(*ast.StarExpr); ok {
						t = s.X
					}
					if id, ok := t.(*ast.Ident); ok {
						sf.recv = id.Name
					}
					if len(x.Recv.List[0].Names) == 1 {
						sf.recvName = x.Recv.List[0].Names[0].Name
					}
				}
				sf.key = sf.name
				if sf.recv != "" {
					sf.key = sf.recv + "." + sf.name
				}
				sf.src = string(data[ix.cfset.Position(x.Pos()).Offset:ix.cfset.Position(x.End()).Offset])
				if _, dup := ix.funcs[sf.key]; dup {
					die(fmt.Errorf("%s: %s declared twice", rel, sf.key))
				}
				ix.funcs[sf.key] = sf
				if sf.recv != "" {
					ix.methods[sf.name] = append(ix.methods[sf.name], sf)
				}
				ix.order = append(ix.order, sf)
			}
		}
	}
	return ix
}

func (ix *pkgIndex) must(recv, name string) *srcFunc {
	k := name
	if recv != "" {
		k = recv + "." + name
	}
	f := ix.funcs[k]
	if f == nil {
		die(fmt.Errorf("client/network: func %s not found", k))
	}
	return f
}

// ---------------------------------------------------------------- instances

const (
	phOpen  = "\x02"
	phClose = "\x03"
)

var phCounter int

var rePh = regexp.MustCompile(phOpen + `(\d+)` + phClose)

type inst struct {
	sf      *srcFunc
	fset    *token.FileSet
	fd      *ast.FuncDecl
	payload map[*ast.Object]bool // locals known to hold (a part of) the peer's bytes
	intObj  map[*ast.Object]bool // locals provably of an integer type
	helper  bool                 // an inlined callee: its `return` does not leave the analysed function
	depth   int
	names   map[string]string         // canonical name -> source name (for the comment in the generated file)
	declPos map[*ast.Object]token.Pos // first occurrence = declaration
	feed    map[*ast.Object]bool      // skeleton.go feeding(): locals whose value reaches a guard / index on peer bytes
	// a followed callee whose result is assigned to a feeding local of the caller: the returned expressions feed too
	feedSeeds []ast.Expr
	feedExtra *ast.Object
}

// instantiate makes a private copy of the function. keep: objects for which the caller decides the name
// (called after the default renaming).
func instantiate(sf *srcFunc) *inst {
	fs := token.NewFileSet()
	f, err := parser.ParseFile(fs, sf.file, "package p\n"+sf.src, 0)
	if err != nil || len(f.Decls) != 1 {
		die(fmt.Errorf("re-parse of %s failed: %v", sf.key, err))
	}
	in := &inst{sf: sf, fset: fs, fd: f.Decls[0].(*ast.FuncDecl), payload: map[*ast.Object]bool{},
		intObj: map[*ast.Object]bool{}, names: map[string]string{}, declPos: map[*ast.Object]token.Pos{}}
	// struct-literal keys are field names even when a local of the same name is in scope
	fieldKeys := map[*ast.Ident]bool{}
	ast.Inspect(in.fd, func(n ast.Node) bool {
		if cl, ok := n.(*ast.CompositeLit); ok {
			switch cl.Type.(type) {
			case *ast.MapType, *ast.ArrayType:
			default:
				for _, el := range cl.Elts {
					if kv, ok := el.(*ast.KeyValueExpr); ok {
						if id, ok := kv.Key.(*ast.Ident); ok {
							fieldKeys[id] = true
						}
					}
				}
			}
		}
		return true
	})
	phOf := map[*ast.Object]string{}
	ast.Inspect(in.fd, func(n ast.Node) bool {
		id, ok := n.(*ast.Ident)
		if !ok || id.Obj == nil || id.Obj.Kind == ast.Fun || id.Name == "_" || fieldKeys[id] {
			return true
		}
		p, ok := phOf[id.Obj]
		if !ok {
			phCounter++
			p = phOpen + strconv.Itoa(phCounter) + phClose
			phOf[id.Obj] = p
			in.names[p] = id.Obj.Name
			in.declPos[id.Obj] = id.Pos()
		}
		id.Name = p
		return true
	})
	return in
}

// setName gives every identifier of obj the fixed name s.
func (in *inst) setName(obj *ast.Object, s string) {
	if obj == nil {
		return
	}
	ast.Inspect(in.fd, func(n ast.Node) bool {
		if id, ok := n.(*ast.Ident); ok && id.Obj == obj {
			if old, ok := in.names[id.Name]; ok {
				delete(in.names, id.Name)
				in.names[s] = old
			}
			id.Name = s
		}
		return true
	})
}

func fieldObjs(fl *ast.FieldList) (objs []*ast.Object, types []ast.Expr) {
	if fl == nil {
		return
	}
	for _, f := range fl.List {
		if len(f.Names) == 0 {
			objs = append(objs, nil)
			types = append(types, f.Type)
		}
		for _, n := range f.Names {
			objs = append(objs, n.Obj)
			types = append(types, f.Type)
		}
	}
	return
}

func isByteSlice(t ast.Expr) bool {
	a, ok := t.(*ast.ArrayType)
	if !ok || a.Len != nil {
		return false
	}
	id, ok := a.Elt.(*ast.Ident)
	return ok && (id.Name == "byte" || id.Name == "uint8")
}

var intTypes = map[string]bool{"int": true, "int8": true, "int16": true, "int32": true, "int64": true, "uint": true,
	"uint8": true, "uint16": true, "uint32": true, "uint64": true, "uintptr": true, "byte": true, "rune": true}

func isIntType(t ast.Expr) bool {
	id, ok := t.(*ast.Ident)
	return ok && id.Obj == nil && intTypes[id.Name]
}

// asTarget names the receiver `c`, the parameters $p1.., the named results $r1.. and marks []byte parameters
// as payload.
func (in *inst) asTarget() *inst {
	if in.fd.Recv != nil {
		objs, _ := fieldObjs(in.fd.Recv)
		for _, o := range objs {
			in.setName(o, "c")
		}
	}
	objs, types := fieldObjs(in.fd.Type.Params)
	for i, o := range objs {
		if o == nil || o.Name == "_" {
			continue
		}
		in.setName(o, "$p"+strconv.Itoa(i+1))
		if isByteSlice(types[i]) {
			in.payload[o] = true
		}
		if isIntType(types[i]) {
			in.intObj[o] = true
		}
	}
	objs, types = fieldObjs(in.fd.Type.Results)
	for i, o := range objs {
		if o == nil || o.Name == "_" {
			continue
		}
		in.setName(o, "$r"+strconv.Itoa(i+1))
		if isIntType(types[i]) {
			in.intObj[o] = true
		}
	}
	in.scanLocals()
	return in
}

// scanLocals marks locals that alias payload bytes (x := pl / cmd.pl / pl[a:b] / make([]byte, n)) and locals of
// integer type.
func (in *inst) scanLocals() {
	ast.Inspect(in.fd.Body, func(n ast.Node) bool {
		switch x := n.(type) {
		case *ast.AssignStmt:
			if x.Tok == token.DEFINE && len(x.Lhs) == len(x.Rhs) {
				for i, l := range x.Lhs {
					id, ok := l.(*ast.Ident)
					if !ok || id.Obj == nil {
						continue
					}
					if in.isPayload(x.Rhs[i]) || isMakeBytes(x.Rhs[i]) {
						in.payload[id.Obj] = true
					}
					if in.intProvable(x.Rhs[i]) || isIntLit(x.Rhs[i]) {
						in.intObj[id.Obj] = true
					}
				}
			}
		case *ast.ValueSpec:
			for i, id := range x.Names {
				if id.Obj == nil {
					continue
				}
				if x.Type != nil && isIntType(x.Type) {
					in.intObj[id.Obj] = true
				}
				if x.Type == nil && i < len(x.Values) && len(x.Names) == len(x.Values) {
					if in.isPayload(x.Values[i]) || isMakeBytes(x.Values[i]) {
						in.payload[id.Obj] = true
					}
					if in.intProvable(x.Values[i]) || isIntLit(x.Values[i]) {
						in.intObj[id.Obj] = true
					}
				}
			}
		}
		return true
	})
	in.inferInts()
}

func isIntLit(e ast.Expr) bool {
	b, ok := e.(*ast.BasicLit)
	return ok && b.Kind == token.INT
}

func isMakeBytes(e ast.Expr) bool {
	c, ok := e.(*ast.CallExpr)
	if !ok || len(c.Args) < 2 {
		return false
	}
	id, ok := c.Fun.(*ast.Ident)
	return ok && id.Name == "make" && id.Obj == nil && isByteSlice(c.Args[0])
}

// isPayload: the expression denotes bytes (or parsed pieces) chosen by the peer - an index / slice of it is a fact.
func (in *inst) isPayload(e ast.Expr) bool {
	switch x := e.(type) {
	case *ast.ParenExpr:
		return in.isPayload(x.X)
	case *ast.Ident:
		return x.Obj != nil && in.payload[x.Obj]
	case *ast.SliceExpr:
		return in.isPayload(x.X)
	case *ast.SelectorExpr:
		switch x.Sel.Name {
		case "pl", "Txs":
			return true
		case "hdr", "dat":
			if s, ok := x.X.(*ast.SelectorExpr); ok && s.Sel.Name == "recv" {
				return true
			}
		case "aesData":
			return true
		}
	}
	return false
}

// intProvable: the expression has an integer type whatever the types of the identifiers in it are.
func (in *inst) intProvable(e ast.Expr) bool {
	switch x := e.(type) {
	case *ast.ParenExpr:
		return in.intProvable(x.X)
	case *ast.Ident:
		return x.Obj != nil && in.intObj[x.Obj]
	case *ast.CallExpr:
		if id, ok := x.Fun.(*ast.Ident); ok && id.Obj == nil && (id.Name == "len" || id.Name == "cap" || intTypes[id.Name]) {
			return true
		}
		// x.Len(): every method `Len()` declared anywhere in the repository returns int (checked, lenMethodsInt), and so
		// does every Len() of the standard library (bytes, strings, container/*, sort, reflect)
		if f, ok := x.Fun.(*ast.SelectorExpr); ok && f.Sel.Name == "Len" && len(x.Args) == 0 && lenMethodsInt() {
			return true
		}
	case *ast.BinaryExpr:
		switch x.Op {
		case token.REM, token.AND, token.OR, token.XOR, token.AND_NOT:
			// defined for integers only; a variable operand makes the result a typed integer (not an untyped constant)
			return in.intProvable(x.X) || in.intProvable(x.Y) || isLocalVar(x.X) || isLocalVar(x.Y)
		case token.SHL, token.SHR:
			return in.intProvable(x.X) || isLocalVar(x.X)
		case token.ADD, token.SUB, token.MUL, token.QUO:
			return in.intProvable(x.X) || in.intProvable(x.Y) // both operands have the same type
		}
	case *ast.UnaryExpr:
		if x.Op == token.SUB || x.Op == token.ADD {
			return in.intProvable(x.X)
		}
		if x.Op == token.XOR {
			return in.intProvable(x.X) || isLocalVar(x.X)
		}
	}
	return false
}

func isLocalVar(e ast.Expr) bool {
	id, ok := stripParens(e).(*ast.Ident)
	return ok && id.Obj != nil && id.Obj.Kind == ast.Var
}

// inferInts: a local variable is of an integer type when it is used where only an integer can stand - as a
// slice bound, or combined by arithmetic / an ordered comparison / an assignment with an expression that is
// provably of an integer type (Go wants identical types there). ==, != and plain `=` towards the variable are
// not used (an interface may stand on the other side). Fixpoint over the body.
func (in *inst) inferInts() {
	changed := true
	var mark func(e ast.Expr)
	mark = func(e ast.Expr) {
		if e == nil {
			return
		}
		switch x := stripParens(e).(type) {
		case *ast.Ident:
			if x.Obj != nil && x.Obj.Kind == ast.Var && !in.intObj[x.Obj] {
				in.intObj[x.Obj] = true
				changed = true
			}
		case *ast.BinaryExpr:
			switch x.Op {
			case token.ADD, token.SUB, token.MUL, token.QUO, token.REM, token.AND, token.OR, token.XOR, token.AND_NOT:
				mark(x.X)
				mark(x.Y)
			case token.SHL, token.SHR:
				mark(x.X)
			}
		case *ast.UnaryExpr:
			if x.Op == token.SUB || x.Op == token.ADD || x.Op == token.XOR {
				mark(x.X)
			}
		}
	}
	for changed {
		changed = false
		ast.Inspect(in.fd.Body, func(n ast.Node) bool {
			switch x := n.(type) {
			case *ast.SliceExpr:
				mark(x.Low)
				mark(x.High)
				mark(x.Max)
			case *ast.BinaryExpr:
				switch x.Op {
				case token.ADD, token.SUB, token.MUL, token.QUO, token.LSS, token.LEQ, token.GTR, token.GEQ:
					if in.intProvable(x.X) {
						mark(x.Y)
					}
					if in.intProvable(x.Y) {
						mark(x.X)
					}
				}
			case *ast.AssignStmt:
				if len(x.Lhs) != len(x.Rhs) {
					return true
				}
				for i := range x.Lhs {
					switch x.Tok {
					case token.DEFINE:
						if in.intProvable(x.Rhs[i]) {
							mark(x.Lhs[i])
						}
					case token.ASSIGN:
						if in.intProvable(x.Lhs[i]) {
							mark(x.Rhs[i])
						}
					case token.ADD_ASSIGN, token.SUB_ASSIGN, token.MUL_ASSIGN, token.QUO_ASSIGN:
						if in.intProvable(x.Rhs[i]) {
							mark(x.Lhs[i])
						}
						if in.intProvable(x.Lhs[i]) {
							mark(x.Rhs[i])
						}
					case token.REM_ASSIGN, token.AND_ASSIGN, token.OR_ASSIGN, token.XOR_ASSIGN, token.SHL_ASSIGN, token.SHR_ASSIGN, token.AND_NOT_ASSIGN:
						mark(x.Lhs[i])
					}
				}
			}
			return true
		})
	}
}

// ---------------------------------------------------------------- printing

func showIn(fs *token.FileSet, n ast.Node) string {
	var b bytes.Buffer
	printer.Fprint(&b, fs, n)
	return strings.Join(strings.Fields(b.String()), " ")
}

// number replaces the placeholders of a fact list by $1, $2, … in the order of first appearance; table maps
// placeholder -> number and is shared by the lists that belong together.
func number(ss []string, table map[string]string) []string {
	out := make([]string, len(ss))
	for i, s := range ss {
		out[i] = numberStr(s, table)
	}
	return out
}

func numberStr(s string, table map[string]string) string {
	return rePh.ReplaceAllStringFunc(s, func(m string) string {
		v, ok := table[m]
		if !ok {
			v = "$" + strconv.Itoa(len(table)+1)
			table[m] = v
		}
		return v
	})
}

// legend lists canonical name = source name for the comment above a generated definition.
func legend(table map[string]string, ins ...*inst) string {
	var parts []string
	for _, in := range ins {
		for k, src := range in.names {
			c := k
			if v, ok := table[k]; ok {
				c = v
			} else if strings.HasPrefix(k, phOpen) {
				continue
			}
			if c != src {
				parts = append(parts, c+"="+src)
			}
		}
	}
	sort.Slice(parts, func(i, j int) bool {
		a, b := parts[i], parts[j]
		if len(a) > 1 && len(b) > 1 && a[0] == '$' && b[0] == '$' {
			na, ea := strconv.Atoi(a[1:strings.Index(a, "=")])
			nb, eb := strconv.Atoi(b[1:strings.Index(b, "=")])
			if ea == nil && eb == nil {
				return na < nb
			}
		}
		return a < b
	})
	return strings.Join(parts, " ")
}

// ---------------------------------------------------------------- conditions

func stripParens(e ast.Expr) ast.Expr {
	for {
		p, ok := e.(*ast.ParenExpr)
		if !ok {
			return e
		}
		e = p.X
	}
}

func boolOp(e ast.Expr) token.Token {
	if b, ok := e.(*ast.BinaryExpr); ok && (b.Op == token.LAND || b.Op == token.LOR) {
		return b.Op
	}
	return token.ILLEGAL
}

func paren(e ast.Expr) ast.Expr { return &ast.ParenExpr{X: e} }

// nnf returns e (neg = false) or its negation (neg = true) with every `!` pushed down to the atoms (nnf0), in the
// canonical operand order of canonExpr.
func (in *inst) nnf(e ast.Expr, neg bool) ast.Expr { return in.canonExpr(in.nnf0(e, neg)) }

func (in *inst) nnf0(e ast.Expr, neg bool) ast.Expr {
	e = stripParens(e)
	switch x := e.(type) {
	case *ast.UnaryExpr:
		if x.Op == token.NOT {
			return in.nnf0(x.X, !neg)
		}
	case *ast.BinaryExpr:
		switch x.Op {
		case token.LAND, token.LOR:
			op := x.Op
			if neg {
				if op == token.LAND {
					op = token.LOR
				} else {
					op = token.LAND
				}
			}
			l, r := in.nnf0(x.X, neg), in.nnf0(x.Y, neg)
			// a || b inside && needs parentheses; the right operand of the same operator too (keeps the tree shape)
			if op == token.LAND {
				if boolOp(l) == token.LOR {
					l = paren(l)
				}
				if boolOp(r) != token.ILLEGAL {
					r = paren(r)
				}
			} else if boolOp(r) == token.LOR {
				r = paren(r)
			}
			return &ast.BinaryExpr{X: l, Op: op, Y: r}
		case token.EQL, token.NEQ:
			if !neg {
				return x
			}
			op := token.EQL
			if x.Op == token.EQL {
				op = token.NEQ
			}
			return &ast.BinaryExpr{X: x.X, Op: op, Y: x.Y}
		case token.LSS, token.GTR, token.LEQ, token.GEQ:
			if !neg {
				return x
			}
			if in.intProvable(x.X) || in.intProvable(x.Y) {
				op := map[token.Token]token.Token{token.LSS: token.GEQ, token.GEQ: token.LSS, token.GTR: token.LEQ, token.LEQ: token.GTR}[x.Op]
				return &ast.BinaryExpr{X: x.X, Op: op, Y: x.Y}
			}
			return &ast.UnaryExpr{Op: token.NOT, X: paren(x)}
		}
	}
	if !neg {
		return e
	}
	if _, ok := e.(*ast.BinaryExpr); ok {
		return &ast.UnaryExpr{Op: token.NOT, X: paren(e)}
	}
	return &ast.UnaryExpr{Op: token.NOT, X: e}
}

func negCost(e ast.Expr) int {
	n := 0
	ast.Inspect(e, func(x ast.Node) bool {
		switch y := x.(type) {
		case *ast.FuncLit:
			return false
		case *ast.UnaryExpr:
			if y.Op == token.NOT {
				n += 100
			}
		case *ast.BinaryExpr:
			switch y.Op {
			case token.NEQ:
				n += 10
			case token.GTR, token.GEQ:
				n++
			}
		}
		return true
	})
	return n
}

// polarity returns the canonical one of {e, !e} (both in negation normal form) and whether it is the negation.
func (in *inst) polarity(e ast.Expr) (ast.Expr, bool) {
	p, q := in.nnf(e, false), in.nnf(e, true)
	cp, cq := negCost(p), negCost(q)
	if cp < cq || (cp == cq && showIn(in.fset, p) <= showIn(in.fset, q)) {
		return p, false
	}
	return q, true
}

// ---------------------------------------------------------------- statements

func leavesList(l []ast.Stmt) bool {
	if len(l) == 0 {
		return false
	}
	switch s := l[len(l)-1].(type) {
	case *ast.ReturnStmt:
		return true
	case *ast.BranchStmt:
		return s.Tok == token.BREAK || s.Tok == token.CONTINUE || s.Tok == token.GOTO
	case *ast.ExprStmt:
		if c, ok := s.X.(*ast.CallExpr); ok {
			if id, ok := c.Fun.(*ast.Ident); ok && id.Name == "panic" {
				return true
			}
		}
	}
	return false
}

func leaves(b *ast.BlockStmt) bool { return b != nil && leavesList(b.List) }

func nodeCount(l []ast.Stmt) int {
	n := 0
	for _, s := range l {
		ast.Inspect(s, func(x ast.Node) bool {
			if x != nil {
				n++
			}
			return true
		})
	}
	return n
}

func elseList(e ast.Stmt) []ast.Stmt {
	switch x := e.(type) {
	case nil:
		return nil
	case *ast.BlockStmt:
		return x.List
	default:
		return []ast.Stmt{x}
	}
}

// bindsBreak: the statements contain a `break` (without label) or `fallthrough` that belongs to the enclosing switch.
func bindsBreak(l []ast.Stmt) bool {
	found := false
	var visit func(n ast.Node) bool
	visit = func(n ast.Node) bool {
		switch x := n.(type) {
		case *ast.ForStmt, *ast.RangeStmt, *ast.SwitchStmt, *ast.TypeSwitchStmt, *ast.SelectStmt, *ast.FuncLit:
			// a break in there binds to that statement - but a fallthrough cannot be in there either
			return false
		case *ast.BranchStmt:
			if (x.Tok == token.BREAK && x.Label == nil) || x.Tok == token.FALLTHROUGH {
				found = true
			}
		}
		return !found
	}
	for _, s := range l {
		ast.Inspect(s, visit)
	}
	return found
}

func hasCall(e ast.Expr) bool {
	found := false
	ast.Inspect(e, func(n ast.Node) bool {
		switch x := n.(type) {
		case *ast.CallExpr, *ast.FuncLit:
			found = true
		case *ast.UnaryExpr:
			if x.Op == token.ARROW {
				found = true
			}
		}
		return !found
	})
	return found
}

// ifChain turns `switch tag { case a, b: A; case d: D; default: Z }` into if tag == a || tag == b {A} else if
// tag == d {D} else {Z}. Not done (nil) when a clause breaks out of / falls through the switch, when the tag
// calls something (it would be evaluated once per clause), or for an empty switch.
func ifChain(s *ast.SwitchStmt) *ast.IfStmt {
	if s.Tag != nil && hasCall(s.Tag) {
		return nil
	}
	var clauses []*ast.CaseClause
	var def *ast.CaseClause
	for _, c := range s.Body.List {
		cc := c.(*ast.CaseClause)
		if bindsBreak(cc.Body) {
			return nil
		}
		if cc.List == nil {
			def = cc
		} else {
			clauses = append(clauses, cc)
		}
	}
	if len(clauses) == 0 {
		return nil
	}
	var tail ast.Stmt
	if def != nil {
		tail = &ast.BlockStmt{List: def.Body}
	}
	for i := len(clauses) - 1; i >= 0; i-- {
		cc := clauses[i]
		var cond ast.Expr
		for _, v := range cc.List {
			var one ast.Expr = v
			if s.Tag != nil {
				x, y := s.Tag, v
				if _, ok := stripParens(y).(*ast.BinaryExpr); ok {
					y = paren(stripParens(y))
				}
				if _, ok := stripParens(x).(*ast.BinaryExpr); ok {
					x = paren(stripParens(x))
				}
				one = &ast.BinaryExpr{X: x, Op: token.EQL, Y: y}
			}
			if cond == nil {
				cond = one
			} else {
				cond = &ast.BinaryExpr{X: cond, Op: token.LOR, Y: one}
			}
		}
		tail = &ast.IfStmt{Cond: cond, Body: &ast.BlockStmt{List: cc.Body}, Else: tail}
	}
	return tail.(*ast.IfStmt)
}

// normList rewrites a statement list into the canonical control-flow shape (see the head of the file).
// Only if / switch statements are touched; nested blocks are normalised when they are walked.
func (in *inst) normList(l []ast.Stmt) []ast.Stmt {
	var out []ast.Stmt
	for i := 0; i < len(l); i++ {
		st := l[i]
		if sw, ok := st.(*ast.SwitchStmt); ok {
			if ch := ifChain(sw); ch != nil {
				if sw.Init != nil {
					out = append(out, sw.Init)
				}
				st = ch
			}
		}
		s, ok := st.(*ast.IfStmt)
		if !ok {
			out = append(out, st)
			continue
		}
		rest := l[i+1:]
		// bottom-up: the branches first
		body := in.normList(s.Body.List)
		els := in.normList(elseList(s.Else))
		thenL := leavesList(body)
		hasElse := len(els) > 0
		elseL := leavesList(els)
		fromRest := false
		if !hasElse && thenL && leavesList(rest) {
			// if C {A; leave}; R; leave  ==  if C {A; leave} else {R; leave}
			hasElse, els, elseL, fromRest = true, in.normList(rest), true, true
		}
		mk := func(cond ast.Expr, body []ast.Stmt, e []ast.Stmt) *ast.IfStmt {
			r := &ast.IfStmt{Init: s.Init, Cond: cond, Body: &ast.BlockStmt{List: body}}
			if e != nil {
				r.Else = &ast.BlockStmt{List: e}
			}
			return r
		}
		if !hasElse {
			out = append(out, mk(in.nnf(s.Cond, false), body, nil))
			continue
		}
		var follow []ast.Stmt
		switch {
		case thenL && elseL:
			a, b := nodeCount(body), nodeCount(els)
			_, negd := in.polarity(s.Cond)
			if a < b || (a == b && !negd) {
				out = append(out, mk(in.nnf(s.Cond, false), body, nil))
				follow = els
			} else {
				out = append(out, mk(in.nnf(s.Cond, true), els, nil))
				follow = body
			}
		case thenL:
			out = append(out, mk(in.nnf(s.Cond, false), body, nil))
			follow = els
		case elseL:
			out = append(out, mk(in.nnf(s.Cond, true), els, nil))
			follow = body
		default:
			c, negd := in.polarity(s.Cond)
			if negd {
				out = append(out, mk(c, els, body))
			} else {
				out = append(out, mk(c, body, els))
			}
			continue
		}
		// the branch that does not become the guard continues the enclosing list
		var tail []ast.Stmt
		tail = append(tail, follow...)
		if !fromRest {
			tail = append(tail, rest...)
		}
		return append(out, in.normList(tail)...)
	}
	return out
}

// ---------------------------------------------------------------- operand order

var lenInt = -1

var reLenDecl = regexp.MustCompile(`(?m)^func\s*\([^)]*\)\s*Len\(\)\s*([^{]*)\{`)

// lenMethodsInt: no Go file of the repository declares a method `Len()` with a result other than int.
func lenMethodsInt() bool {
	if lenInt >= 0 {
		return lenInt == 1
	}
	lenInt = 1
	filepath.Walk(vtrans.RepoRoot(), func(p string, fi os.FileInfo, err error) error {
		if err != nil {
			return nil
		}
		if fi.IsDir() {
			if n := fi.Name(); n == ".git" || n == "testdata" {
				return filepath.SkipDir
			}
			return nil
		}
		if !strings.HasSuffix(p, ".go") {
			return nil
		}
		data, err := os.ReadFile(p)
		if err != nil {
			lenInt = 0
			return nil
		}
		for _, m := range reLenDecl.FindAllSubmatch(data, -1) {
			if strings.TrimSpace(string(m[1])) != "int" {
				lenInt = 0
			}
		}
		return nil
	})
	return lenInt == 1
}

func builtinIntCall(x *ast.CallExpr) bool {
	id, ok := x.Fun.(*ast.Ident)
	return ok && id.Obj == nil && (id.Name == "len" || id.Name == "cap" || intTypes[id.Name])
}

// pureExpr: evaluating e changes nothing and calls nothing (but len / cap / integer conversions) - the operands of
// a comparison may then be evaluated in either order (if one of them panics, the comparison panics either way).
func pureExpr(e ast.Expr) bool {
	ok := true
	ast.Inspect(e, func(n ast.Node) bool {
		switch x := n.(type) {
		case *ast.FuncLit:
			ok = false
		case *ast.CallExpr:
			if !builtinIntCall(x) {
				ok = false
			}
		case *ast.UnaryExpr:
			if x.Op == token.ARROW {
				ok = false
			}
		}
		return ok
	})
	return ok
}

// constLike: literals, nil, named constants and arithmetic on them (no local, no selector).
func constLike(e ast.Expr) bool {
	ok := true
	ast.Inspect(e, func(n ast.Node) bool {
		switch x := n.(type) {
		case nil, *ast.BasicLit, *ast.ParenExpr, *ast.BinaryExpr, *ast.UnaryExpr:
		case *ast.Ident:
			if x.Obj != nil || strings.HasPrefix(x.Name, phOpen) || strings.HasPrefix(x.Name, "$") || x.Name == "c" {
				ok = false
			}
		default:
			ok = false
		}
		return ok
	})
	return ok
}

// totalExpr: pure and unable to panic whatever the state is - names, literals, len / cap of a name, arithmetic
// without division or shift, ordered comparisons, == / != against nil or a constant or between integers. Only such
// operands of && / || may change places (a selector may dereference nil, an index may be out of range: `p != nil &&
// p.x > 0` keeps its order).
func (in *inst) totalExpr(e ast.Expr) bool {
	switch x := e.(type) {
	case *ast.Ident, *ast.BasicLit:
		return true
	case *ast.ParenExpr:
		return in.totalExpr(x.X)
	case *ast.UnaryExpr:
		switch x.Op {
		case token.NOT, token.SUB, token.ADD, token.XOR:
			return in.totalExpr(x.X)
		}
	case *ast.CallExpr:
		if builtinIntCall(x) && len(x.Args) == 1 {
			if id, ok := x.Fun.(*ast.Ident); ok && (id.Name == "len" || id.Name == "cap") {
				_, isId := stripParens(x.Args[0]).(*ast.Ident)
				return isId
			}
			return in.totalExpr(x.Args[0]) && in.intProvable(x.Args[0]) // int -> int conversion
		}
	case *ast.BinaryExpr:
		if !in.totalExpr(x.X) || !in.totalExpr(x.Y) {
			return false
		}
		switch x.Op {
		case token.LAND, token.LOR, token.ADD, token.SUB, token.MUL, token.AND, token.OR, token.XOR, token.AND_NOT,
			token.LSS, token.LEQ, token.GTR, token.GEQ:
			return true
		case token.EQL, token.NEQ:
			// two interface values holding an uncomparable type panic in ==
			return constLike(x.X) || constLike(x.Y) || in.intProvable(x.X) || in.intProvable(x.Y)
		}
	}
	return false
}

type opKey struct {
	cls  int
	text string
	ids  []int
}

func (in *inst) keyOf(e ast.Expr) opKey {
	k := opKey{}
	if constLike(e) {
		k.cls = 1 // constants stand on the right
	}
	raw := showIn(in.fset, e)
	for _, m := range rePh.FindAllStringSubmatch(raw, -1) {
		n, _ := strconv.Atoi(m[1])
		k.ids = append(k.ids, n)
	}
	k.text = rePh.ReplaceAllString(raw, "$$")
	return k
}

func (a opKey) less(b opKey) bool {
	if a.cls != b.cls {
		return a.cls < b.cls
	}
	if a.text != b.text {
		return a.text < b.text
	}
	for i := 0; i < len(a.ids) && i < len(b.ids); i++ {
		if a.ids[i] != b.ids[i] {
			return a.ids[i] < b.ids[i] // declaration order of the locals
		}
	}
	return false
}

var mirrorOp = map[token.Token]token.Token{token.LSS: token.GTR, token.GTR: token.LSS, token.LEQ: token.GEQ, token.GEQ: token.LEQ,
	token.EQL: token.EQL, token.NEQ: token.NEQ}

// canonExpr puts the operands of a condition into one canonical order where the order cannot matter:
//   - `a == b`, `a != b`, `a < b` (written `b > a`) … with pure operands: the operand with the smaller key first
//     (constants last; names of locals do not take part in the key, their declaration order breaks ties);
//   - a chain of && (or ||) is flattened (short-circuit evaluation is associative) and every maximal run of adjacent
//     TOTAL operands is sorted by key; an operand that could panic or has an effect keeps its place, and so does
//     everything relative to it.
//
// The result denotes the same function of the state as e. Idempotent.
func (in *inst) canonExpr(e ast.Expr) ast.Expr {
	switch x := e.(type) {
	case *ast.ParenExpr:
		return &ast.ParenExpr{X: in.canonExpr(x.X)}
	case *ast.UnaryExpr:
		if x.Op == token.NOT {
			return &ast.UnaryExpr{Op: x.Op, X: in.canonExpr(x.X)}
		}
	case *ast.BinaryExpr:
		switch x.Op {
		case token.LAND, token.LOR:
			var ops []ast.Expr
			var flat func(y ast.Expr)
			flat = func(y ast.Expr) {
				y = stripParens(y)
				if b, ok := y.(*ast.BinaryExpr); ok && b.Op == x.Op {
					flat(b.X)
					flat(b.Y)
					return
				}
				ops = append(ops, in.canonExpr(y))
			}
			flat(x)
			for i := 0; i < len(ops); {
				j := i
				for j < len(ops) && in.totalExpr(ops[j]) {
					j++
				}
				if j-i > 1 {
					run := ops[i:j]
					sort.SliceStable(run, func(a, b int) bool { return in.keyOf(run[a]).less(in.keyOf(run[b])) })
				}
				if j == i {
					j++
				}
				i = j
			}
			var r ast.Expr
			for _, o := range ops {
				if x.Op == token.LAND && boolOp(o) == token.LOR {
					o = paren(o)
				}
				if r == nil {
					r = o
				} else {
					r = &ast.BinaryExpr{X: r, Op: x.Op, Y: o}
				}
			}
			return r
		case token.EQL, token.NEQ, token.LSS, token.GTR, token.LEQ, token.GEQ:
			l, r := in.canonExpr(x.X), in.canonExpr(x.Y)
			if pureExpr(l) && pureExpr(r) && in.keyOf(r).less(in.keyOf(l)) {
				return &ast.BinaryExpr{X: r, Op: mirrorOp[x.Op], Y: l}
			}
			return &ast.BinaryExpr{X: l, Op: x.Op, Y: r}
		}
	}
	return e
}
