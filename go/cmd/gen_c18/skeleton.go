package main

// skeleton.go — the SKELETON of a handler: every `if` condition (marked `guard` when the body leaves the
// function or loop), every `for` header, every index / slice expression on the peer's bytes, every
// Lock / Unlock / deferred Unlock, every return, every call of a decoder or of a penalty - in source order,
// in the canonical spelling of canon.go, with unexported callees of the package followed into.

import (
	"fmt"
	"go/ast"
	"go/token"
	"strings"
)

var callNames = map[string]bool{"VLen": true, "ReadVLen": true, "TxSize": true, "NewTx": true, "NewBlock": true,
	"DoS": true, "Misbehave": true, "ProcessNewHeader": true, "Assemble": true, "ParseBytes": true, "Read": true,
	"Decrypt": true, "make": true, "panic": true}

const maxInlineDepth = 2

type skel struct {
	ix       *pkgIndex
	out      []string
	noInline map[string]bool // functions that have a definition of their own in the generated file
	sizeFn   string          // key of the message-size table function (printed under the role name maxmsgsize)
	insts    []*inst         // every instance that contributed (for the legend)
	litDepth int             // inside a closure
}

func (k *skel) emit(s string) { k.out = append(k.out, s) }

// simpleArg: an argument that is written in place of the callee's parameter (a name, a literal, a field, &x, *x);
// any other argument is treated like a local of the callee that was assigned the value.
func simpleArg(e ast.Expr) bool {
	switch x := e.(type) {
	case *ast.Ident, *ast.BasicLit:
		return true
	case *ast.SelectorExpr:
		return simpleArg(x.X)
	case *ast.ParenExpr:
		return simpleArg(x.X)
	case *ast.StarExpr:
		return simpleArg(x.X)
	case *ast.UnaryExpr:
		return (x.Op == token.AND || x.Op == token.SUB) && simpleArg(x.X)
	}
	return false
}

// callee: the unexported function / method of the package that x calls, when it can be told from the syntax.
func (k *skel) callee(in *inst, x *ast.CallExpr) (*srcFunc, ast.Expr) {
	switch f := x.Fun.(type) {
	case *ast.Ident:
		if f.Obj != nil || exported(f.Name) {
			return nil, nil
		}
		if sf := k.ix.funcs[f.Name]; sf != nil && sf.recv == "" {
			return sf, nil
		}
	case *ast.SelectorExpr:
		if exported(f.Sel.Name) {
			return nil, nil
		}
		if id, ok := f.X.(*ast.Ident); ok && id.Obj == nil && k.ix.imports[id.Name] {
			return nil, nil
		}
		if ms := k.ix.methods[f.Sel.Name]; len(ms) == 1 {
			return ms[0], f.X
		}
	}
	return nil, nil
}

// inline walks the body of sf in place of the call x. false: the call cannot be followed.
//
// dst != nil: the call is the whole right-hand side of an assignment to the caller's local dst. The callee is then
// followed only when its body can be written without `return` (structureReturns): every `return E` becomes
// `dst = E`, so that `x := helper(a)` and the helper's if / else written out at the call site give the same facts.
func (k *skel) inline(in *inst, x *ast.CallExpr, sf *srcFunc, rx ast.Expr, dst *ast.Ident) bool {
	if in.depth >= maxInlineDepth || k.noInline[sf.key] {
		return false
	}
	h := instantiate(sf)
	h.helper, h.depth = true, in.depth+1
	pobjs, ptypes := fieldObjs(h.fd.Type.Params)
	if len(pobjs) != len(x.Args) || x.Ellipsis.IsValid() {
		return false
	}
	for _, t := range ptypes {
		if _, ok := t.(*ast.Ellipsis); ok {
			return false
		}
	}
	if dst != nil {
		robjs, _ := fieldObjs(h.fd.Type.Results)
		if len(robjs) != 1 || robjs[0] != nil {
			return false // one unnamed result only
		}
		var rets []ast.Expr
		l, term, ok := structureReturns(h.fd.Body.List, func(e ast.Expr) ast.Stmt {
			rets = append(rets, e)
			return &ast.AssignStmt{Lhs: []ast.Expr{&ast.Ident{Name: dst.Name, Obj: dst.Obj}}, Tok: token.ASSIGN, Rhs: []ast.Expr{e}}
		})
		if !ok || !term {
			return false
		}
		h.fd.Body.List = l
		if in.feeding()[dst.Obj] {
			h.feedSeeds = rets
			h.feedExtra = dst.Obj
		}
	}
	bind := func(o *ast.Object, arg ast.Expr) {
		if o == nil || o.Name == "_" {
			return
		}
		if simpleArg(arg) {
			txt := showIn(in.fset, arg)
			switch arg.(type) {
			case *ast.StarExpr, *ast.UnaryExpr:
				txt = "(" + txt + ")"
			}
			h.setName(o, txt)
			delete(h.names, txt)
		}
		h.payload[o] = in.isPayload(arg)
		h.intObj[o] = in.intProvable(arg)
	}
	// what the arguments themselves do comes first
	if rx != nil {
		k.expr(in, rx)
		if robjs, _ := fieldObjs(h.fd.Recv); len(robjs) == 1 {
			bind(robjs[0], rx)
		}
	}
	for i, a := range x.Args {
		k.expr(in, a)
		bind(pobjs[i], a)
	}
	h.scanLocals()
	k.insts = append(k.insts, h)
	saved := k.litDepth
	k.litDepth = 0
	k.body(h)
	k.litDepth = saved
	return true
}

// body walks a whole function body; the final return of an inlined callee is its end, nothing more.
func (k *skel) body(in *inst) {
	l := in.normList(in.fd.Body.List)
	if in.helper && len(l) > 0 {
		if r, ok := l[len(l)-1].(*ast.ReturnStmt); ok {
			for _, e := range r.Results {
				k.expr(in, e)
			}
			l = l[:len(l)-1]
		}
	}
	for _, st := range l {
		k.stmt(in, st)
	}
}

func (k *skel) expr(in *inst, e ast.Node) {
	if e == nil {
		return
	}
	show := func(n ast.Node) string { return showIn(in.fset, n) }
	ast.Inspect(e, func(n ast.Node) bool {
		switch x := n.(type) {
		case *ast.FuncLit:
			k.emit("funclit{")
			k.litDepth++
			k.block(in, x.Body.List)
			k.litDepth--
			k.emit("}")
			return false
		case *ast.IndexExpr:
			if in.isPayload(x.X) {
				k.emit("index: " + show(x))
			}
		case *ast.SliceExpr:
			if in.isPayload(x.X) {
				k.emit("slice: " + show(x))
			}
		case *ast.SelectorExpr:
			if s, ok := x.X.(*ast.SelectorExpr); ok && s.Sel.Name == "aesData" {
				k.emit("deref: " + show(x))
			}
		case *ast.CallExpr:
			name := ""
			switch f := x.Fun.(type) {
			case *ast.SelectorExpr:
				name = f.Sel.Name
				if (name == "Lock" || name == "Unlock") && len(x.Args) == 0 {
					k.emit(strings.ToLower(name) + ": " + show(f.X))
					return true
				}
			case *ast.Ident:
				name = f.Name
			}
			if sf, rx := k.callee(in, x); sf != nil {
				if sf.key == k.sizeFn {
					k.emit("call: maxmsgsize(" + argListIn(in, x) + ")")
					return true
				}
				if k.inline(in, x, sf, rx, nil) {
					return false
				}
				return true
			}
			if callNames[name] {
				switch {
				case name == "make":
					if len(x.Args) >= 2 {
						k.emit("call: " + show(x))
					}
				case name == "DoS" || name == "Misbehave" || name == "panic":
					k.emit("penalty: " + show(x))
				default:
					k.emit("call: " + show(x))
				}
			}
		}
		return true
	})
}

func argListIn(in *inst, ce *ast.CallExpr) string {
	var a []string
	for _, x := range ce.Args {
		a = append(a, showIn(in.fset, x))
	}
	return strings.Join(a, ", ")
}

func (k *skel) block(in *inst, l []ast.Stmt) {
	for _, st := range in.normList(l) {
		k.stmt(in, st)
	}
}

func (k *skel) stmt(in *inst, st ast.Stmt) {
	show := func(n ast.Node) string { return showIn(in.fset, n) }
	switch s := st.(type) {
	case *ast.IfStmt: // already in canonical shape (normList)
		if s.Init != nil {
			k.stmt(in, s.Init)
		}
		kind := "if: "
		if leaves(s.Body) {
			kind = "guard: "
		}
		k.emit(kind + show(s.Cond))
		k.expr(in, s.Cond)
		k.emit("{")
		for _, b := range s.Body.List {
			k.stmt(in, b)
		}
		k.emit("}")
		if s.Else != nil {
			k.emit("else{")
			for _, b := range elseList(s.Else) {
				k.stmt(in, b)
			}
			k.emit("}")
		}
	case *ast.ForStmt:
		h := "for: "
		if s.Init != nil {
			h += show(s.Init)
		}
		h += "; "
		if s.Cond != nil {
			h += show(in.nnf(s.Cond, false))
		}
		h += "; "
		if s.Post != nil {
			h += show(s.Post)
		}
		k.emit(h)
		if s.Cond != nil {
			k.expr(in, s.Cond)
		}
		k.emit("{")
		k.block(in, s.Body.List)
		k.emit("}")
	case *ast.RangeStmt:
		k.emit("range: " + show(s.X))
		k.emit("{")
		k.block(in, s.Body.List)
		k.emit("}")
	case *ast.SwitchStmt: // one that is not an if-chain (break / fallthrough / a call in the tag)
		if s.Init != nil {
			k.stmt(in, s.Init)
		}
		tag := ""
		if s.Tag != nil {
			tag = show(s.Tag)
		}
		k.emit("switch: " + tag)
		k.emit("{")
		for _, c := range s.Body.List {
			cc := c.(*ast.CaseClause)
			var ls []string
			for _, l := range cc.List {
				ls = append(ls, show(l))
			}
			k.emit("case: " + strings.Join(ls, ","))
			k.block(in, cc.Body)
		}
		k.emit("}")
	case *ast.TypeSwitchStmt:
		k.emit("typeswitch: " + show(s.Assign))
		k.emit("{")
		for _, c := range s.Body.List {
			k.block(in, c.(*ast.CaseClause).Body)
		}
		k.emit("}")
	case *ast.BlockStmt:
		k.block(in, s.List)
	case *ast.LabeledStmt:
		k.emit("label: " + s.Label.Name)
		k.block(in, []ast.Stmt{s.Stmt})
	case *ast.ReturnStmt:
		for _, r := range s.Results {
			k.expr(in, r)
		}
		if in.helper && k.litDepth == 0 {
			k.emit("return^") // leaves the followed callee only
		} else {
			k.emit("return")
		}
	case *ast.BranchStmt:
		k.emit(strings.ToLower(s.Tok.String()))
	case *ast.DeferStmt:
		if f, ok := s.Call.Fun.(*ast.SelectorExpr); ok && f.Sel.Name == "Unlock" {
			k.emit("defer-unlock: " + show(f.X))
			return
		}
		k.emit("defer{")
		k.expr(in, s.Call)
		k.emit("}")
	case *ast.SelectStmt:
		k.emit("select")
	case *ast.AssignStmt:
		if len(s.Lhs) == 1 && len(s.Rhs) == 1 && (s.Tok == token.ASSIGN || s.Tok == token.DEFINE) {
			if id, ok := s.Lhs[0].(*ast.Ident); ok && id.Obj != nil {
				if ce, ok := s.Rhs[0].(*ast.CallExpr); ok {
					if sf, rx := k.callee(in, ce); sf != nil && sf.key != k.sizeFn && k.inline(in, ce, sf, rx, id) {
						return // the callee's returns have become assignments to the local
					}
				}
			}
		}
		k.expr(in, st)
		// data flow between the facts: an assignment to a local whose value reaches a guard, a loop condition or an
		// index / slice bound on the peer's bytes (offset arithmetic, which result of a decoder goes where, the order of
		// an update relative to the test that follows), and every reset of a field to nil
		feeds, resets := false, false
		F := in.feeding()
		for _, l := range s.Lhs {
			if id, ok := l.(*ast.Ident); ok && id.Obj != nil && F[id.Obj] {
				feeds = true
			}
			if _, ok := l.(*ast.SelectorExpr); ok {
				for _, r := range s.Rhs {
					if id, ok := r.(*ast.Ident); ok && id.Obj == nil && id.Name == "nil" {
						resets = true
					}
				}
			}
		}
		// `x := E` is printed like `x = E` (every declared object has its own number, so shadowing still shows)
		cp := *s
		if cp.Tok == token.DEFINE {
			cp.Tok = token.ASSIGN
		}
		switch {
		case feeds:
			k.emit("asg: " + show(&cp))
		case resets:
			k.emit("set: " + show(&cp))
		}
	case *ast.IncDecStmt:
		k.expr(in, st)
		if id, ok := s.X.(*ast.Ident); ok && id.Obj != nil && in.feeding()[id.Obj] {
			k.emit("asg: " + show(s))
		}
	default:
		k.expr(in, st)
	}
}

// feeding: the locals (and parameters) of the function whose value reaches a guard (an `if` with a leaving branch), a
// `for` condition, a switch tag or an index / slice bound on the peer's bytes - directly, or through an assignment to
// such a local.
func (in *inst) feeding() map[*ast.Object]bool {
	if in.feed != nil {
		return in.feed
	}
	F := map[*ast.Object]bool{}
	add := func(e ast.Node) (grew bool) {
		if e == nil {
			return
		}
		ast.Inspect(e, func(n ast.Node) bool {
			if _, ok := n.(*ast.FuncLit); ok {
				return false
			}
			if id, ok := n.(*ast.Ident); ok && id.Obj != nil && id.Obj.Kind == ast.Var && !F[id.Obj] {
				F[id.Obj] = true
				grew = true
			}
			return true
		})
		return
	}
	for _, e := range in.feedSeeds {
		add(e)
	}
	if in.feedExtra != nil {
		F[in.feedExtra] = true
	}
	ast.Inspect(in.fd.Body, func(n ast.Node) bool {
		switch x := n.(type) {
		case *ast.IfStmt:
			// a GUARD: one of the branches leaves the function / loop (an `if` that only chooses what to count or print
			// is not what the peer's bytes are checked by)
			if eb, ok := x.Else.(*ast.BlockStmt); leaves(x.Body) || (ok && leaves(eb)) {
				add(x.Cond)
			}
		case *ast.ForStmt:
			if x.Cond != nil {
				add(x.Cond)
			}
		case *ast.SwitchStmt:
			if x.Tag != nil {
				add(x.Tag)
			}
		case *ast.CaseClause:
			for _, e := range x.List {
				add(e)
			}
		case *ast.IndexExpr:
			if in.isPayload(x.X) {
				add(x.Index)
			}
		case *ast.SliceExpr:
			if in.isPayload(x.X) {
				if x.Low != nil {
					add(x.Low)
				}
				if x.High != nil {
					add(x.High)
				}
				if x.Max != nil {
					add(x.Max)
				}
			}
		}
		return true
	})
	for grew := true; grew; {
		grew = false
		ast.Inspect(in.fd.Body, func(n ast.Node) bool {
			if as, ok := n.(*ast.AssignStmt); ok {
				hit := false
				for _, l := range as.Lhs {
					if id, ok := l.(*ast.Ident); ok && id.Obj != nil && F[id.Obj] {
						hit = true
					}
				}
				if hit {
					for _, r := range as.Rhs {
						if add(r) {
							grew = true
						}
					}
				}
			}
			return true
		})
	}
	in.feed = F
	return F
}

// skeletonOf returns the numbered skeleton of a function and the legend of its canonical names.
func skeletonOf(ix *pkgIndex, sf *srcFunc, noInline map[string]bool, sizeFn string) ([]string, string) {
	in := instantiate(sf).asTarget()
	k := &skel{ix: ix, noInline: noInline, sizeFn: sizeFn, insts: []*inst{in}}
	k.body(in)
	table := map[string]string{}
	out := number(k.out, table)
	return out, legend(table, k.insts...)
}

// sizeTableFunc finds the function that maps a command to its payload limit by its shape: a plain function
// of one parameter whose body is a single `switch <parameter>` in which every clause is one `return <constant>`.
func sizeTableFunc(ix *pkgIndex) *srcFunc {
	var found []*srcFunc
	for _, sf := range ix.order {
		if sf.recv != "" {
			continue
		}
		in := instantiate(sf)
		fd := in.fd
		objs, _ := fieldObjs(fd.Type.Params)
		if len(objs) != 1 || objs[0] == nil || len(fd.Body.List) != 1 {
			continue
		}
		sw, ok := fd.Body.List[0].(*ast.SwitchStmt)
		if !ok || sw.Init != nil {
			continue
		}
		id, ok := sw.Tag.(*ast.Ident)
		if !ok || id.Obj != objs[0] || len(sw.Body.List) < 5 {
			continue
		}
		good := true
		for _, c := range sw.Body.List {
			cc := c.(*ast.CaseClause)
			if len(cc.Body) != 1 {
				good = false
				break
			}
			if r, ok := cc.Body[0].(*ast.ReturnStmt); !ok || len(r.Results) != 1 {
				good = false
				break
			}
			for _, l := range cc.List {
				if b, ok := l.(*ast.BasicLit); !ok || b.Kind != token.STRING {
					good = false
				}
			}
		}
		if good {
			found = append(found, sf)
		}
	}
	if len(found) != 1 {
		die(fmt.Errorf("message size table: %d functions of the shape `switch cmd { case …: return <limit> }` found, want 1", len(found)))
	}
	return found[0]
}

// containsReturn: a `return` of the function itself (not of a closure) somewhere in n.
func containsReturn(n ast.Node) bool {
	found := false
	ast.Inspect(n, func(x ast.Node) bool {
		switch x.(type) {
		case *ast.FuncLit:
			return false
		case *ast.ReturnStmt:
			found = true
		}
		return !found
	})
	return found
}

// structureReturns rewrites the statement list of a function with one result into a list without `return`:
//
//	…; return E                        =>  …; dst = E
//	if C {A; return E}; R              =>  if C {A; dst = E} else {R'}
//	if C {A; return E} else {B}; R     =>  if C {A; dst = E} else {B; R'}       (and the mirror image)
//
// term: every path through the result ends in one of the new assignments. ok = false when a return sits where
// this cannot be done without copying code (inside a loop, a switch, a block that also falls through).
func structureReturns(l []ast.Stmt, asg func(ast.Expr) ast.Stmt) (out []ast.Stmt, term, ok bool) {
	for i, st := range l {
		switch s := st.(type) {
		case *ast.ReturnStmt:
			if len(s.Results) != 1 {
				return nil, false, false
			}
			return append(out, asg(s.Results[0])), true, true
		case *ast.IfStmt:
			if !containsReturn(s) {
				out = append(out, s)
				continue
			}
			b, bt, ok1 := structureReturns(s.Body.List, asg)
			e, et, ok2 := structureReturns(elseList(s.Else), asg)
			if !ok1 || !ok2 || (!bt && !et) {
				return nil, false, false
			}
			rt := true
			if !bt || !et {
				var r []ast.Stmt
				r, rt, ok1 = structureReturns(l[i+1:], asg)
				if !ok1 {
					return nil, false, false
				}
				if bt {
					e = append(e, r...)
				} else {
					b = append(b, r...)
				}
			}
			n := &ast.IfStmt{Init: s.Init, Cond: s.Cond, Body: &ast.BlockStmt{List: b}}
			if len(e) > 0 {
				n.Else = &ast.BlockStmt{List: e}
			}
			return append(out, n), rt, true
		default:
			if containsReturn(st) {
				return nil, false, false
			}
			out = append(out, st)
		}
	}
	return out, false, true
}
