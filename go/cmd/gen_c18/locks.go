package main

// locks.go — the LOCK TRACE of every function of the client/network files the property anchors: the
// sequence of Lock / Unlock / deferred Unlock calls, block structure (if / else / for / switch / case /
// closure), every way of leaving (return, break, continue, goto + labels, panic) and every access to
// state shared between a connection's own thread and the threads that walk the connection list
// (c.InvStore, X.InvDone.Map, X.PendingInvs, X.GetBlockInProgress writes, peersdb.PeerDB.Put/Del) with
// the lock that has to be held there. Lean (Model/NetParseLocks.lean) runs a lock-set scan over these
// traces: no exit with a lock taken in the function still held, no second Lock of a held mutex, every
// shared access inside its lock's span.

import (
	"fmt"
	"go/ast"
	"go/token"
	"strings"
)

const (
	tLock = iota
	tUnlock
	tDeferUnlock
	tOpen  // arg: if | else | for | switch | func
	tClose // arg: same
	tReturn
	tLoopExit // arg: break | continue
	tGoto
	tLabel
	tNeed // arg: the lock that must be held here
	tCase
	tPanic
)

type ltok struct {
	k   int
	arg string
}

type access struct{ fn, what, lock string }

type lockWalker struct {
	out      []ltok
	accesses []access
	fn       string
	recv     string
}

func (w *lockWalker) emit(k int, arg string) { w.out = append(w.out, ltok{k, arg}) }

func (w *lockWalker) need(what, lock string) {
	w.emit(tNeed, lock)
	w.accesses = append(w.accesses, access{w.fn, what, lock})
}

// expr walks an expression (or simple statement) in evaluation order as far as calls are concerned.
func (w *lockWalker) expr(e ast.Node) {
	if e == nil {
		return
	}
	ast.Inspect(e, func(n ast.Node) bool {
		switch x := n.(type) {
		case *ast.FuncLit:
			w.emit(tOpen, "func")
			w.block(x.Body)
			w.emit(tClose, "func")
			return false
		case *ast.CallExpr:
			if f, ok := x.Fun.(*ast.SelectorExpr); ok {
				switch f.Sel.Name {
				case "Lock", "RLock":
					if len(x.Args) == 0 {
						w.emit(tLock, show(f.X))
						return false
					}
				case "Unlock", "RUnlock":
					if len(x.Args) == 0 {
						w.emit(tUnlock, show(f.X))
						return false
					}
				case "InvStore":
					for _, a := range x.Args {
						w.expr(a)
					}
					w.need(show(f.X)+".InvStore(…)", show(f.X)+".Mutex")
					return false
				case "Put", "Del":
					if show(f.X) == "peersdb.PeerDB" {
						w.need(show(x.Fun), "peersdb")
					}
				}
			}
			if id, ok := x.Fun.(*ast.Ident); ok {
				if id.Name == "panic" {
					for _, a := range x.Args {
						w.expr(a)
					}
					w.emit(tPanic, "")
					return false
				}
				if id.Name == "delete" && len(x.Args) == 2 {
					if s, ok := x.Args[0].(*ast.SelectorExpr); ok && s.Sel.Name == "GetBlockInProgress" {
						w.need("delete("+show(s)+", …)", show(s.X)+".Mutex")
					}
				}
			}
		case *ast.SelectorExpr:
			// X.InvDone.Map / X.PendingInvs: read or written, the connection's mutex protects them
			if x.Sel.Name == "PendingInvs" {
				w.need(show(x), show(x.X)+".Mutex")
				return false
			}
			if x.Sel.Name == "Map" {
				if in, ok := x.X.(*ast.SelectorExpr); ok && in.Sel.Name == "InvDone" {
					w.need(show(x), show(in.X)+".Mutex")
					return false
				}
			}
		}
		return true
	})
}

func (w *lockWalker) block(b *ast.BlockStmt) {
	if b == nil {
		return
	}
	for _, s := range b.List {
		w.stmt(s)
	}
}

func (w *lockWalker) stmt(st ast.Stmt) {
	switch s := st.(type) {
	case nil:
	case *ast.IfStmt:
		if s.Init != nil {
			w.stmt(s.Init)
		}
		w.expr(s.Cond)
		w.emit(tOpen, "if")
		w.block(s.Body)
		w.emit(tClose, "if")
		if s.Else != nil {
			w.emit(tOpen, "else")
			w.stmt(s.Else)
			w.emit(tClose, "else")
		}
	case *ast.ForStmt:
		if s.Init != nil {
			w.stmt(s.Init)
		}
		w.expr(s.Cond)
		w.emit(tOpen, "for")
		w.block(s.Body)
		if s.Post != nil {
			w.stmt(s.Post)
		}
		w.emit(tClose, "for")
	case *ast.RangeStmt:
		w.expr(s.X)
		w.emit(tOpen, "for")
		w.block(s.Body)
		w.emit(tClose, "for")
	case *ast.SwitchStmt:
		if s.Init != nil {
			w.stmt(s.Init)
		}
		w.expr(s.Tag)
		w.clauses(s.Body)
	case *ast.TypeSwitchStmt:
		if s.Init != nil {
			w.stmt(s.Init)
		}
		w.stmt(s.Assign)
		w.clauses(s.Body)
	case *ast.SelectStmt:
		w.clauses(s.Body)
	case *ast.BlockStmt:
		w.block(s)
	case *ast.LabeledStmt:
		w.emit(tLabel, s.Label.Name)
		w.stmt(s.Stmt)
	case *ast.ReturnStmt:
		for _, r := range s.Results {
			w.expr(r)
		}
		w.emit(tReturn, "")
	case *ast.BranchStmt:
		switch s.Tok {
		case token.BREAK:
			w.emit(tLoopExit, "break")
		case token.CONTINUE:
			w.emit(tLoopExit, "continue")
		case token.GOTO:
			w.emit(tGoto, s.Label.Name)
		}
	case *ast.DeferStmt:
		if f, ok := s.Call.Fun.(*ast.SelectorExpr); ok && (f.Sel.Name == "Unlock" || f.Sel.Name == "RUnlock") {
			w.emit(tDeferUnlock, show(f.X))
			return
		}
		if fl, ok := s.Call.Fun.(*ast.FuncLit); ok {
			// a deferred closure: the Unlock calls in it run at every exit
			ast.Inspect(fl.Body, func(n ast.Node) bool {
				if c, ok := n.(*ast.CallExpr); ok {
					if f, ok := c.Fun.(*ast.SelectorExpr); ok && (f.Sel.Name == "Unlock" || f.Sel.Name == "RUnlock") && len(c.Args) == 0 {
						w.emit(tDeferUnlock, show(f.X))
					}
				}
				return true
			})
			return
		}
		w.expr(s.Call)
	case *ast.GoStmt:
		w.expr(s.Call)
	default:
		w.expr(st)
	}
}

func (w *lockWalker) clauses(b *ast.BlockStmt) {
	w.emit(tOpen, "switch")
	for _, c := range b.List {
		w.emit(tCase, "")
		switch cc := c.(type) {
		case *ast.CaseClause:
			for _, s := range cc.Body {
				w.stmt(s)
			}
		case *ast.CommClause:
			if cc.Comm != nil {
				w.stmt(cc.Comm)
			}
			for _, s := range cc.Body {
				w.stmt(s)
			}
		}
	}
	w.emit(tClose, "switch")
}

// lockTraceOf returns the trace of one function.
func lockTraceOf(name string, fd *ast.FuncDecl) *lockWalker {
	w := &lockWalker{fn: name}
	w.block(fd.Body)
	return w
}

func writeLockTraces(sb *strings.Builder, traces []*lockWalker) int {
	n := 0
	sb.WriteString("/-- lock traces: (function, tokens); token kinds 0 lock, 1 unlock, 2 deferred unlock, 3 open block,\n    4 close block, 5 return, 6 break/continue, 7 goto, 8 label, 9 shared access needing the named lock,\n    10 case, 11 panic -/\n")
	sb.WriteString("def lockTraces : List (String × List (Nat × String)) := [\n")
	for i, w := range traces {
		fmt.Fprintf(sb, "  (%s, [", leanStr(w.fn))
		for j, t := range w.out {
			if j > 0 {
				sb.WriteString(", ")
			}
			fmt.Fprintf(sb, "(%d, %s)", t.k, leanStr(t.arg))
		}
		sb.WriteString("])")
		if i < len(traces)-1 {
			sb.WriteString(",")
		}
		sb.WriteString("\n")
		n += len(w.out)
	}
	sb.WriteString("]\n\n")
	sb.WriteString("/-- every access to state shared between threads found in those functions: (function, access, lock) -/\n")
	sb.WriteString("def sharedAccesses : List (String × String × String) := [\n")
	first := true
	for _, w := range traces {
		for _, a := range w.accesses {
			if !first {
				sb.WriteString(",\n")
			}
			first = false
			fmt.Fprintf(sb, "  (%s, %s, %s)", leanStr(a.fn), leanStr(a.what), leanStr(a.lock))
			n++
		}
	}
	sb.WriteString("\n]\n\n")
	return n
}
