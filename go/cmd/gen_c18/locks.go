package main

// locks.go — the LOCK TRACE of every function of the client/network files the property anchors: the
// sequence of Lock / Unlock / deferred Unlock calls, block structure (if / else / for / switch / case /
// closure), every way of leaving (return, break, continue, goto + labels, panic) and every access to
// state shared between a connection's own thread and the threads that walk the connection list
// (c.InvStore, X.InvDone.Map, X.PendingInvs, X.GetBlockInProgress writes, peersdb.PeerDB.Put/Del, and the
// statistics map X.counters - any mention of the field, and any call of a COUNTER HELPER, i.e. a method
// that touches its receiver's counters without taking the receiver's Mutex itself: cntInc / cntAdd in the
// current source, found by that shape and not by name) with the lock that has to be held there. Lean (Model/NetParseLocks.lean) runs a lock-set scan over these
// traces: no exit with a lock taken in the function still held, no second Lock of a held mutex, every
// shared access inside its lock's span.

import (
	"fmt"
	"go/ast"
	"go/token"
	"strings"
)

const (
	tLock = iota
	tUnlock
	tDeferUnlock
	tOpen  // arg: if | else | for | switch | func
	tClose // arg: same
	tReturn
	tLoopExit // arg: break | continue
	tGoto
	tLabel
	tNeed // arg: the lock that must be held here
	tCase
	tPanic
	tCall // before resolution: arg = "<callee name>|<receiver expression>"; after: arg = a lock the callee takes itself
)

type ltok struct {
	k   int
	arg string
}

type access struct{ fn, what, lock string }

type lockWalker struct {
	out      []ltok
	accesses []access
	fn       string
	recv     string          // name of the receiver variable ("" for a plain function)
	pkgs     map[string]bool // names under which the file imports packages (x.F() with x a package is not a method call)
	skipCall *ast.CallExpr   // the call of a go / defer statement: it does not run here
	calls    []callLock      // after resolution: (callee, lock the callee takes, as named at the call site)
	callees  []string        // after resolution: the traced functions it calls directly
	in       *inst
}

type callLock struct{ callee, lock string }

// counterHelpers: bare names of the methods that read or write <receiver>.counters and do not lock
// <receiver>.Mutex themselves (main.go finds them in a first pass over the package). They are left out of
// the traces like InvStore: the contract "call with the connection's mutex held" is checked at every call
// site instead, which becomes a shared access needing <receiver expression>.Mutex. GetStats (the UI thread)
// ranges over the same map under that mutex; a write outside it is not a silent data race but a fatal
// "concurrent map iteration and map write" of the Go runtime, which no recover() catches.
var counterHelpers = map[string]bool{}

// touchesCounters: the trace mentions the receiver's counters map
func (w *lockWalker) touchesCounters() bool {
	for _, a := range w.accesses {
		if a.what == "c.counters" && a.lock == "c.Mutex" {
			return true
		}
	}
	return false
}

func (w *lockWalker) emit(k int, arg string) { w.out = append(w.out, ltok{k, arg}) }

func (w *lockWalker) need(what, lock string) {
	w.emit(tNeed, lock)
	w.accesses = append(w.accesses, access{w.fn, what, lock})
}

// expr walks an expression (or simple statement) in evaluation order as far as calls are concerned.
func (w *lockWalker) expr(e ast.Node) {
	if e == nil {
		return
	}
	ast.Inspect(e, func(n ast.Node) bool {
		switch x := n.(type) {
		case *ast.FuncLit:
			w.emit(tOpen, "func")
			w.block(x.Body)
			w.emit(tClose, "func")
			return false
		case *ast.CallExpr:
			if f, ok := x.Fun.(*ast.SelectorExpr); ok {
				switch f.Sel.Name {
				case "Lock", "RLock":
					if len(x.Args) == 0 {
						w.emit(tLock, show(f.X))
						return false
					}
				case "Unlock", "RUnlock":
					if len(x.Args) == 0 {
						w.emit(tUnlock, show(f.X))
						return false
					}
				case "InvStore":
					for _, a := range x.Args {
						w.expr(a)
					}
					w.need(show(f.X)+".InvStore(…)", show(f.X)+".Mutex")
					return false
				case "Put", "Del":
					if show(f.X) == "peersdb.PeerDB" {
						w.need(show(x.Fun), "peersdb")
					}
				default:
					if counterHelpers[f.Sel.Name] {
						for _, a := range x.Args {
							w.expr(a)
						}
						w.need(show(f.X)+"."+f.Sel.Name+"(…)", show(f.X)+".Mutex")
						return false
					}
				}
				// a call of a method / of another package's function: resolved against the traces later
				if x != w.skipCall {
					if id, ok := f.X.(*ast.Ident); !ok || id.Obj != nil || !w.pkgs[id.Name] {
						w.emit(tCall, f.Sel.Name+"|"+show(f.X))
					}
				}
			}
			if id, ok := x.Fun.(*ast.Ident); ok {
				if x != w.skipCall && id.Name != "panic" && id.Name != "delete" {
					w.emit(tCall, id.Name+"|")
				}
				if id.Name == "panic" {
					for _, a := range x.Args {
						w.expr(a)
					}
					w.emit(tPanic, "")
					return false
				}
				if id.Name == "delete" && len(x.Args) == 2 {
					if s, ok := x.Args[0].(*ast.SelectorExpr); ok && s.Sel.Name == "GetBlockInProgress" {
						w.need("delete("+show(s)+", …)", show(s.X)+".Mutex")
					}
				}
			}
		case *ast.SelectorExpr:
			// X.InvDone.Map / X.PendingInvs: read or written, the connection's mutex protects them
			if x.Sel.Name == "PendingInvs" || x.Sel.Name == "counters" {
				w.need(show(x), show(x.X)+".Mutex")
				return false
			}
			if x.Sel.Name == "Map" {
				if in, ok := x.X.(*ast.SelectorExpr); ok && in.Sel.Name == "InvDone" {
					w.need(show(x), show(in.X)+".Mutex")
					return false
				}
			}
		}
		return true
	})
}

func (w *lockWalker) block(b *ast.BlockStmt) {
	if b == nil {
		return
	}
	for _, s := range b.List {
		w.stmt(s)
	}
}

func (w *lockWalker) stmt(st ast.Stmt) {
	switch s := st.(type) {
	case nil:
	case *ast.IfStmt:
		if s.Init != nil {
			w.stmt(s.Init)
		}
		w.expr(s.Cond)
		w.emit(tOpen, "if")
		w.block(s.Body)
		w.emit(tClose, "if")
		if s.Else != nil {
			w.emit(tOpen, "else")
			w.stmt(s.Else)
			w.emit(tClose, "else")
		}
	case *ast.ForStmt:
		if s.Init != nil {
			w.stmt(s.Init)
		}
		w.expr(s.Cond)
		w.emit(tOpen, "for")
		w.block(s.Body)
		if s.Post != nil {
			w.stmt(s.Post)
		}
		w.emit(tClose, "for")
	case *ast.RangeStmt:
		w.expr(s.X)
		w.emit(tOpen, "for")
		w.block(s.Body)
		w.emit(tClose, "for")
	case *ast.SwitchStmt:
		if s.Init != nil {
			w.stmt(s.Init)
		}
		w.expr(s.Tag)
		w.clauses(s.Body)
	case *ast.TypeSwitchStmt:
		if s.Init != nil {
			w.stmt(s.Init)
		}
		w.stmt(s.Assign)
		w.clauses(s.Body)
	case *ast.SelectStmt:
		w.clauses(s.Body)
	case *ast.BlockStmt:
		w.block(s)
	case *ast.LabeledStmt:
		w.emit(tLabel, s.Label.Name)
		w.stmt(s.Stmt)
	case *ast.ReturnStmt:
		for _, r := range s.Results {
			w.expr(r)
		}
		w.emit(tReturn, "")
	case *ast.BranchStmt:
		switch s.Tok {
		case token.BREAK:
			w.emit(tLoopExit, "break")
		case token.CONTINUE:
			w.emit(tLoopExit, "continue")
		case token.GOTO:
			w.emit(tGoto, s.Label.Name)
		}
	case *ast.DeferStmt:
		if f, ok := s.Call.Fun.(*ast.SelectorExpr); ok && (f.Sel.Name == "Unlock" || f.Sel.Name == "RUnlock") {
			w.emit(tDeferUnlock, show(f.X))
			return
		}
		if fl, ok := s.Call.Fun.(*ast.FuncLit); ok {
			// a deferred closure: the Unlock calls in it run at every exit
			ast.Inspect(fl.Body, func(n ast.Node) bool {
				if c, ok := n.(*ast.CallExpr); ok {
					if f, ok := c.Fun.(*ast.SelectorExpr); ok && (f.Sel.Name == "Unlock" || f.Sel.Name == "RUnlock") && len(c.Args) == 0 {
						w.emit(tDeferUnlock, show(f.X))
					}
				}
				return true
			})
			return
		}
		w.skipCall = s.Call // runs at the exit, not here
		w.expr(s.Call)
		w.skipCall = nil
	case *ast.GoStmt:
		w.skipCall = s.Call // runs in another goroutine
		w.expr(s.Call)
		w.skipCall = nil
	default:
		w.expr(st)
	}
}

func (w *lockWalker) clauses(b *ast.BlockStmt) {
	w.emit(tOpen, "switch")
	for _, c := range b.List {
		w.emit(tCase, "")
		switch cc := c.(type) {
		case *ast.CaseClause:
			for _, s := range cc.Body {
				w.stmt(s)
			}
		case *ast.CommClause:
			if cc.Comm != nil {
				w.stmt(cc.Comm)
			}
			for _, s := range cc.Body {
				w.stmt(s)
			}
		}
	}
	w.emit(tClose, "switch")
}

// lockTraceOf returns the trace of one function, taken from a private copy in canonical spelling (canon.go:
// receiver = c, every other local a placeholder that writeLockTraces numbers in order of first appearance).
func lockTraceOf(sf *srcFunc, pkgs map[string]bool) *lockWalker {
	in := instantiate(sf).asTarget()
	w := &lockWalker{fn: sf.key, pkgs: pkgs, in: in}
	if sf.recvName != "" && sf.recvName != "_" {
		w.recv = "c"
	}
	saved := fset
	fset = in.fset
	w.block(in.fd.Body)
	fset = saved
	return w
}

// ownLocks: the mutexes a function locks itself (not inside a closure, which may run elsewhere).
func (w *lockWalker) ownLocks() (ls []string) {
	depth := 0
	seen := map[string]bool{}
	for _, t := range w.out {
		switch {
		case t.k == tOpen && t.arg == "func":
			depth++
		case t.k == tClose && t.arg == "func":
			depth--
		case t.k == tLock && depth == 0 && !seen[t.arg]:
			seen[t.arg] = true
			ls = append(ls, t.arg)
		}
	}
	return
}

// resolveCalls replaces every call token by one token per mutex the CALLEE locks itself (one level deep:
// the callee's own trace), named the way the call site names it: a lock reached through the callee's
// receiver r ("r.Mutex") becomes "<receiver expression of the call>.Mutex"; package-level mutexes keep
// their name (an identifier declared at the top level of the files, or exported); mutexes reached through the callee's local variables cannot be related by name and are
// dropped. Calls of functions outside the traces (other packages, builtins, closures) disappear.
func resolveCalls(traces []*lockWalker, pkgs, globals map[string]bool) {
	byName := map[string][]*lockWalker{}
	for _, w := range traces {
		n := w.fn
		if i := strings.LastIndex(n, "."); i >= 0 {
			if w.recv == "" {
				continue // a method without a named receiver locks nothing through it
			}
			n = "." + n[i+1:]
		}
		byName[n] = append(byName[n], w)
	}
	own := map[*lockWalker][]string{}
	for _, w := range traces {
		own[w] = w.ownLocks()
	}
	for _, w := range traces {
		var out []ltok
		for _, t := range w.out {
			if t.k != tCall {
				out = append(out, t)
				continue
			}
			i := strings.Index(t.arg, "|")
			name, rx := t.arg[:i], t.arg[i+1:]
			key := name
			if rx != "" {
				key = "." + name
			}
			for _, cal := range byName[key] {
				dup := false
				for _, c := range w.callees {
					dup = dup || c == cal.fn
				}
				if !dup {
					w.callees = append(w.callees, cal.fn)
				}
				for _, l := range own[cal] {
					base := l
					if j := strings.Index(l, "."); j >= 0 {
						base = l[:j]
					}
					switch {
					case cal.recv != "" && base == cal.recv && base != l:
						l = rx + l[len(base):]
					case pkgs[base] || (base == l && (globals[l] || (l[0] >= 'A' && l[0] <= 'Z'))):
					default:
						continue
					}
					out = append(out, ltok{tCall, l})
					w.calls = append(w.calls, callLock{cal.fn, l})
				}
			}
		}
		w.out = out
	}
}

func writeLockTraces(sb *strings.Builder, traces []*lockWalker) int {
	n := 0
	tables := map[*lockWalker]map[string]string{}
	sb.WriteString("/-- lock traces: (function, tokens); token kinds 0 lock, 1 unlock, 2 deferred unlock, 3 open block,\n    4 close block, 5 return, 6 break/continue, 7 goto, 8 label, 9 shared access needing the named lock,\n    10 case, 11 panic, 12 call of a function of these files that locks the named mutex itself.\n    Sorted by function; locals are numbered per function in order of first appearance. -/\n")
	sb.WriteString("def lockTraces : List (String × List (Nat × String)) := [\n")
	for i, w := range traces {
		tb := map[string]string{}
		tables[w] = tb
		fmt.Fprintf(sb, "  (%s, [", leanStr(w.fn))
		for j, t := range w.out {
			if j > 0 {
				sb.WriteString(", ")
			}
			fmt.Fprintf(sb, "(%d, %s)", t.k, leanStr(numberStr(t.arg, tb)))
		}
		sb.WriteString("])")
		if i < len(traces)-1 {
			sb.WriteString(",")
		}
		sb.WriteString("\n")
		n += len(w.out)
	}
	sb.WriteString("]\n\n")
	sb.WriteString("/-- every access to state shared between threads found in those functions: (function, access, lock) -/\n")
	sb.WriteString("def sharedAccesses : List (String × String × String) := [\n")
	first := true
	for _, w := range traces {
		for _, a := range w.accesses {
			if !first {
				sb.WriteString(",\n")
			}
			first = false
			fmt.Fprintf(sb, "  (%s, %s, %s)", leanStr(a.fn), leanStr(numberStr(a.what, tables[w])), leanStr(numberStr(a.lock, tables[w])))
			n++
		}
	}
	sb.WriteString("\n]\n\n")
	sb.WriteString("/-- every call of a traced function that takes a lock itself: (caller, callee, lock as named at the call site) -/\n")
	sb.WriteString("def callLocks : List (String × String × String) := [\n")
	first = true
	for _, w := range traces {
		for _, c := range w.calls {
			if !first {
				sb.WriteString(",\n")
			}
			first = false
			fmt.Fprintf(sb, "  (%s, %s, %s)", leanStr(w.fn), leanStr(c.callee), leanStr(numberStr(c.lock, tables[w])))
		}
	}
	sb.WriteString("\n]\n\n")
	sb.WriteString("/-- direct calls between traced functions: (caller, callee). Lets a theorem speak of `the function that\n    ProcessGetData calls` instead of naming an unexported function. -/\n")
	sb.WriteString("def callGraph : List (String × String) := [\n")
	first = true
	for _, w := range traces {
		for _, c := range w.callees {
			if !first {
				sb.WriteString(",\n")
			}
			first = false
			fmt.Fprintf(sb, "  (%s, %s)", leanStr(w.fn), leanStr(c))
		}
	}
	sb.WriteString("\n]\n\n")
	return n
}
