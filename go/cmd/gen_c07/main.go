// gen_c07 regenerates lean/GocoinV/Gen/C07Facts.lean from /repo (translator tie for C07): structural facts about four
// places of the start-up / snapshot path that the hand-written models mirror and whose theorems are stated about the
// GENERATED definitions (Props/C07.lean: library_clean_restart_identity, lock_never_blocks_restart,
// lazy_snapshot_is_start_state, source_facts_are_the_modelled_ones), so that an edit to one of these places changes what the
// kernel re-checks:
//
//	lockOpenMode      lib/others/sys/dblock_unix.go LockDatabaseDir: how the .lock file is obtained (open the existing file or
//	                  create it | remove, then create exclusively | create exclusively)
//	reapplyGuard      lib/chain/chain.go NewChainExt: the condition under which the blocks found on disk are re-applied
//	                  (ParseTillBlock): the farthest block is strictly HIGHER than the snapshot's block | it merely DIFFERS
//	undoAbortsSave    lib/utxo UnspentDB.UndoBlockTxs: a running snapshot is aborted (unconditionally, at the top level of the
//	commitAbortsSave  function) BEFORE the first statement that changes db.HashMap - the same for CommitBlockTxs
//	idleFlushesFirst  lib/chain/chain.go Chain.Idle: Blocks.Idle() (flush + sync) is called before Unspent.Idle() (start a snapshot)
//	flagRewriteSource lib/chain/blockdb.go BlockDB.setBlockFlag: the flag byte written back is the byte READ FROM THE FILE at the
//	                  record's position with the flag ORed in | is rebuilt from the in-memory record (round 4)
//	invalidRecordAdvances  BlockDB.LoadBlockIndex: a record flagged BLOCK_INVALID advances the index position counter like every
//	                  other record (and: ipos is taken from the counter before it advances, exactly one advance per record)
//	closeSaveGuard    lib/utxo UnspentDB.Close: UTXO.db is written when the set is dirty | dirty AND the heights differ
//
// The facts are canonical: local names, extraction of helpers (mutations / the abort reached through other methods of
// UnspentDB are followed through the package's call graph), `a > b` vs `b < a`, merged or nested ifs do not change them.
// A shape that cannot be classified is a broken tie (exit 2), never a default.
package main

import (
	"bytes"
	"fmt"
	"go/ast"
	"go/parser"
	"go/printer"
	"go/token"
	"os"
	"path/filepath"
	"sort"
	"strings"

	"verif/vlib"
	"verif/vtrans"
)

func die(err error) {
	fmt.Fprintln(os.Stderr, "TRANSLATE-ERROR:", err)
	os.Exit(2)
}

var fset = token.NewFileSet()

func src(n ast.Node) string {
	var b bytes.Buffer
	printer.Fprint(&b, fset, n)
	return strings.Join(strings.Fields(b.String()), "")
}

// parseDir: every non-test Go file of a package directory (build constraints are ignored except for the file asked for by name)
func parseDir(rel string) map[string]*ast.File {
	out := map[string]*ast.File{}
	ms, _ := filepath.Glob(vtrans.RepoRoot() + "/" + rel + "/*.go")
	sort.Strings(ms)
	for _, p := range ms {
		if strings.HasSuffix(p, "_test.go") {
			continue
		}
		f, err := parser.ParseFile(fset, p, nil, 0)
		if err != nil {
			die(err)
		}
		out[filepath.Base(p)] = f
	}
	if len(out) == 0 {
		die(fmt.Errorf("no Go files in %s", rel))
	}
	return out
}

func recvName(fd *ast.FuncDecl) string {
	if fd.Recv == nil || len(fd.Recv.List) != 1 {
		return ""
	}
	t := fd.Recv.List[0].Type
	if s, ok := t.(*ast.StarExpr); ok {
		t = s.X
	}
	if id, ok := t.(*ast.Ident); ok {
		return id.Name
	}
	return ""
}

func findFunc(files map[string]*ast.File, recv, name string) *ast.FuncDecl {
	for _, f := range files {
		for _, d := range f.Decls {
			if fd, ok := d.(*ast.FuncDecl); ok && fd.Name.Name == name && recvName(fd) == recv && fd.Body != nil {
				return fd
			}
		}
	}
	return nil
}

// ------------------------------------------------------------------------------------------ 1. the lock file

func lockMode() string {
	f, err := parser.ParseFile(fset, vtrans.RepoRoot()+"/lib/others/sys/dblock_unix.go", nil, 0)
	if err != nil {
		die(err)
	}
	fd := findFunc(map[string]*ast.File{"dblock_unix.go": f}, "", "LockDatabaseDir")
	if fd == nil {
		die(fmt.Errorf("dblock_unix.go: LockDatabaseDir not found"))
	}
	var opensExisting, creates, excl, removeFirst, sawOpen bool
	ast.Inspect(fd.Body, func(n ast.Node) bool {
		c, ok := n.(*ast.CallExpr)
		if !ok {
			return true
		}
		switch src(c.Fun) {
		case "os.Open":
			opensExisting, sawOpen = true, true
		case "os.Create":
			creates, sawOpen = true, true // O_RDWR|O_CREATE|O_TRUNC: an existing file is fine
		case "os.OpenFile":
			if len(c.Args) < 2 {
				die(fmt.Errorf("LockDatabaseDir: os.OpenFile with %d arguments", len(c.Args)))
			}
			fl := src(c.Args[1])
			sawOpen = true
			switch {
			case strings.Contains(fl, "O_EXCL"):
				excl = true
			case strings.Contains(fl, "O_CREATE") || strings.Contains(fl, "O_CREAT"):
				creates = true
			default:
				opensExisting = true
			}
		case "os.Remove":
			if !sawOpen {
				removeFirst = true
			}
		}
		return true
	})
	// every branch of the function is "the handle is nil" (no file could be opened: try the next way / give up) or the flock result:
	// a way to give up although a file was opened is not a shape the model knows
	ast.Inspect(fd.Body, func(n ast.Node) bool {
		ifs, ok := n.(*ast.IfStmt)
		if !ok {
			return true
		}
		c := src(ifs.Cond)
		switch {
		case strings.HasSuffix(c, "==nil") && ifs.Init == nil && !strings.Contains(c, "&&") && !strings.Contains(c, "||"):
		case ifs.Init != nil && strings.Contains(src(ifs.Init), "syscall.Flock(") && strings.HasSuffix(c, "!=nil") && !strings.Contains(c, "&&") && !strings.Contains(c, "||"):
		default:
			die(fmt.Errorf("LockDatabaseDir: the branch `if %s` is neither `<handle> == nil` nor the result of syscall.Flock - not a shape the model knows", c))
		}
		if ifs.Else != nil {
			die(fmt.Errorf("LockDatabaseDir: `if %s` has an else branch - not a shape the model knows", c))
		}
		return true
	})
	switch {
	case !sawOpen:
		die(fmt.Errorf("LockDatabaseDir: no os.Open / os.Create / os.OpenFile call - not a shape the model knows"))
	case opensExisting || creates:
		return "openOrCreate" // an existing file is opened (possibly with an exclusive create as a second attempt)
	case excl && removeFirst:
		return "removeThenExcl"
	case excl:
		return "createExcl"
	}
	die(fmt.Errorf("LockDatabaseDir: the way the lock file is opened is not a shape the model knows"))
	return ""
}

// ------------------------------------------------------------------------------------------ 2. NewChainExt's last step

func conjuncts(e ast.Expr) []ast.Expr {
	for {
		p, ok := e.(*ast.ParenExpr)
		if !ok {
			break
		}
		e = p.X
	}
	if b, ok := e.(*ast.BinaryExpr); ok && b.Op == token.LAND {
		return append(conjuncts(b.X), conjuncts(b.Y)...)
	}
	return []ast.Expr{e}
}

func isHeight(e ast.Expr) bool {
	s, ok := e.(*ast.SelectorExpr)
	return ok && s.Sel.Name == "Height"
}

var endArg string

// normCmp: a comparison with negations pushed inside: !(a >= b) is a < b, …
func normCmp(e ast.Expr) (*ast.BinaryExpr, bool) {
	neg := false
	for {
		switch x := e.(type) {
		case *ast.ParenExpr:
			e = x.X
			continue
		case *ast.UnaryExpr:
			if x.Op == token.NOT {
				neg = !neg
				e = x.X
				continue
			}
		}
		break
	}
	b, ok := e.(*ast.BinaryExpr)
	if !ok {
		return nil, false
	}
	op := b.Op
	if neg {
		switch op {
		case token.GTR:
			op = token.LEQ
		case token.LSS:
			op = token.GEQ
		case token.GEQ:
			op = token.LSS
		case token.LEQ:
			op = token.GTR
		case token.EQL:
			op = token.NEQ
		case token.NEQ:
			op = token.EQL
		default:
			return nil, false
		}
	}
	return &ast.BinaryExpr{X: b.X, Op: op, Y: b.Y}, true
}

func reapplyGuard(files map[string]*ast.File) string {
	fd := findFunc(files, "", "NewChainExt")
	if fd == nil {
		die(fmt.Errorf("lib/chain: NewChainExt not found"))
	}
	// the conditions of every if statement that encloses the call of ParseTillBlock
	var conds []ast.Expr
	var found int
	var walk func(n ast.Node, stack []ast.Expr)
	walk = func(n ast.Node, stack []ast.Expr) {
		switch x := n.(type) {
		case *ast.IfStmt:
			if x.Init != nil {
				walk(x.Init, stack)
			}
			walk(x.Body, append(append([]ast.Expr{}, stack...), x.Cond))
			if x.Else != nil {
				walk(x.Else, append(append([]ast.Expr{}, stack...), &ast.UnaryExpr{Op: token.NOT, X: &ast.ParenExpr{X: x.Cond}}))
			}
			return
		case *ast.CallExpr:
			if s, ok := x.Fun.(*ast.SelectorExpr); ok && s.Sel.Name == "ParseTillBlock" {
				found++
				conds = stack
				if len(x.Args) == 1 {
					endArg = src(x.Args[0])
				}
			}
		}
		ast.Inspect(n, func(m ast.Node) bool {
			if m == n || m == nil {
				return true
			}
			switch m.(type) {
			case *ast.IfStmt, *ast.CallExpr:
				walk(m, stack)
				return false
			}
			return true
		})
	}
	walk(fd.Body, nil)
	if found != 1 {
		die(fmt.Errorf("NewChainExt: %d calls of ParseTillBlock (the model was written for exactly one)", found))
	}
	kind := ""
	arg := endArg
	set := func(k string, e ast.Expr) {
		if kind != "" && kind != k {
			die(fmt.Errorf("NewChainExt: the re-apply step is guarded by two comparisons (%s)", src(e)))
		}
		kind = k
	}
	for _, c := range conds {
		for _, e := range conjuncts(c) {
			s := src(e)
			if strings.Contains(s, "DoNotRescan") || strings.Contains(s, "AbortNow") {
				continue
			}
			b, ok := normCmp(e)
			if !ok {
				die(fmt.Errorf("NewChainExt: condition %q in front of ParseTillBlock is not a shape the model knows", s))
			}
			switch {
			case (b.Op == token.GTR || b.Op == token.LSS) && isHeight(b.X) && isHeight(b.Y):
				// the higher side must be the block handed to ParseTillBlock
				hiSide := b.X
				if b.Op == token.LSS {
					hiSide = b.Y
				}
				if src(hiSide) != arg+".Height" {
					die(fmt.Errorf("NewChainExt: comparison %q does not ask whether the block handed to ParseTillBlock (%s) is the higher one", s, arg))
				}
				loSide := b.Y
				if b.Op == token.LSS {
					loSide = b.X
				}
				if !strings.HasSuffix(src(loSide), ".LastBlock().Height") {
					die(fmt.Errorf("NewChainExt: comparison %q does not compare with the height of the current block (<chain>.LastBlock().Height)", s))
				}
				set("higher", e)
			case b.Op == token.NEQ && !isHeight(b.X) && !isHeight(b.Y) && (src(b.X) == arg || src(b.Y) == arg):
				set("differs", e)
			default:
				die(fmt.Errorf("NewChainExt: condition %q in front of ParseTillBlock is not a shape the model knows", s))
			}
		}
	}
	if kind == "" {
		die(fmt.Errorf("NewChainExt: ParseTillBlock is not guarded by a comparison of the farthest block with the current one"))
	}
	return kind
}

// ------------------------------------------------------------------------------------------ 5. Chain.Idle

func idleOrder(files map[string]*ast.File) bool {
	fd := findFunc(files, "Chain", "Idle")
	if fd == nil {
		die(fmt.Errorf("lib/chain: Chain.Idle not found"))
	}
	posB, posU := token.NoPos, token.NoPos
	// the two calls must be executed where they stand: a call that is deferred, started as a goroutine or wrapped in a function
	// literal runs at another time than its position says
	ast.Inspect(fd.Body, func(n ast.Node) bool {
		var inner ast.Node
		what := ""
		switch x := n.(type) {
		case *ast.DeferStmt:
			inner, what = x.Call, "deferred"
		case *ast.GoStmt:
			inner, what = x.Call, "started as a goroutine"
		case *ast.FuncLit:
			inner, what = x.Body, "inside a function literal"
		}
		if inner != nil {
			t := src(inner)
			if strings.Contains(t, ".Blocks.Idle(") || strings.Contains(t, ".Unspent.Idle(") {
				die(fmt.Errorf("Chain.Idle: a call of Blocks.Idle / Unspent.Idle is %s - not a shape the model knows", what))
			}
		}
		return true
	})
	ast.Inspect(fd.Body, func(n ast.Node) bool {
		if c, ok := n.(*ast.CallExpr); ok {
			s := src(c.Fun)
			if strings.HasSuffix(s, ".Blocks.Idle") && posB == token.NoPos {
				posB = c.Pos()
			}
			if strings.HasSuffix(s, ".Unspent.Idle") && posU == token.NoPos {
				posU = c.Pos()
			}
		}
		return true
	})
	if posB == token.NoPos || posU == token.NoPos {
		die(fmt.Errorf("Chain.Idle: the calls of Blocks.Idle and Unspent.Idle were not found"))
	}
	return posB < posU
}

// ------------------------------------------------------------------------------------------ 3/4. abort before mutation

type utxoPkg struct {
	methods map[string]*ast.FuncDecl // methods of UnspentDB by name
	mut     map[string]bool          // … that (transitively) change db.HashMap
	abort   map[string]bool          // … that do nothing to the maps and (transitively, unconditionally at their top level or not) abort a running save
}

func mentionsHashMap(e ast.Expr) bool {
	found := false
	ast.Inspect(e, func(n ast.Node) bool {
		if s, ok := n.(*ast.SelectorExpr); ok && s.Sel.Name == "HashMap" {
			found = true
		}
		return true
	})
	return found
}

// directMutation: the subtree assigns to / deletes from db.HashMap[..] (also inside function literals)
func directMutation(n ast.Node) bool {
	found := false
	ast.Inspect(n, func(m ast.Node) bool {
		switch x := m.(type) {
		case *ast.AssignStmt:
			for _, l := range x.Lhs {
				if ix, ok := l.(*ast.IndexExpr); ok && mentionsHashMap(ix) {
					found = true
				}
			}
		case *ast.CallExpr:
			if id, ok := x.Fun.(*ast.Ident); ok && id.Name == "delete" && len(x.Args) == 2 && mentionsHashMap(x.Args[0]) {
				found = true
			}
		}
		return true
	})
	return found
}

func callsOf(n ast.Node, methods map[string]*ast.FuncDecl) []string {
	var out []string
	ast.Inspect(n, func(m ast.Node) bool {
		if c, ok := m.(*ast.CallExpr); ok {
			if s, ok := c.Fun.(*ast.SelectorExpr); ok {
				if _, ok := methods[s.Sel.Name]; ok {
					out = append(out, s.Sel.Name)
				}
			}
		}
		return true
	})
	return out
}

func sendsAbort(n ast.Node) bool {
	found := false
	ast.Inspect(n, func(m ast.Node) bool {
		if s, ok := m.(*ast.SendStmt); ok && strings.HasSuffix(src(s.Chan), ".abortwritingnow") {
			found = true
		}
		return true
	})
	return found
}

func loadUtxo() *utxoPkg {
	p := &utxoPkg{methods: map[string]*ast.FuncDecl{}, mut: map[string]bool{}, abort: map[string]bool{}}
	for _, f := range parseDir("lib/utxo") {
		for _, d := range f.Decls {
			if fd, ok := d.(*ast.FuncDecl); ok && fd.Body != nil && recvName(fd) == "UnspentDB" {
				p.methods[fd.Name.Name] = fd
			}
		}
	}
	for n, fd := range p.methods {
		if directMutation(fd.Body) {
			p.mut[n] = true
		}
		if sendsAbort(fd.Body) {
			p.abort[n] = true
		}
	}
	for changed := true; changed; {
		changed = false
		for n, fd := range p.methods {
			for _, c := range callsOf(fd.Body, p.methods) {
				if p.mut[c] && !p.mut[n] {
					p.mut[n], changed = true, true
				}
			}
		}
	}
	// thin wrappers of the abort (AbortWriting: lock, abortWriting, unlock): every top-level statement is a lock call, a defer or
	// a call of an aborting method
	for changed := true; changed; {
		changed = false
		for n, fd := range p.methods {
			if p.abort[n] || p.mut[n] {
				continue
			}
			for _, st := range fd.Body.List {
				if es, ok := st.(*ast.ExprStmt); ok {
					if c, ok := es.X.(*ast.CallExpr); ok {
						if s, ok := c.Fun.(*ast.SelectorExpr); ok && p.abort[s.Sel.Name] {
							p.abort[n], changed = true, true
						}
					}
				}
			}
		}
	}
	return p
}

// abortsBeforeMutation: at the top level of the method, an unconditional call of an aborting method precedes the first statement
// that (transitively) changes db.HashMap
func (p *utxoPkg) abortsBeforeMutation(name string) bool {
	fd := p.methods[name]
	if fd == nil {
		die(fmt.Errorf("lib/utxo: UnspentDB.%s not found", name))
	}
	firstAbort, firstMut := -1, -1
	for i, st := range fd.Body.List {
		if _, ok := st.(*ast.DeferStmt); ok {
			continue
		}
		if es, ok := st.(*ast.ExprStmt); ok && firstAbort < 0 {
			if c, ok := es.X.(*ast.CallExpr); ok {
				if s, ok := c.Fun.(*ast.SelectorExpr); ok && p.abort[s.Sel.Name] && !p.mut[s.Sel.Name] {
					firstAbort = i
					continue
				}
			}
		}
		if firstMut < 0 {
			m := directMutation(st)
			for _, c := range callsOf(st, p.methods) {
				if p.mut[c] {
					m = true
				}
			}
			if m {
				firstMut = i
			}
		}
	}
	if firstMut < 0 {
		die(fmt.Errorf("UnspentDB.%s: no statement that changes db.HashMap was found - not a shape the model knows", name))
	}
	return firstAbort >= 0 && firstAbort < firstMut
}

// ------------------------------------------------------------------------------------------ 6. setBlockFlag

func blockDBMethod(files map[string]*ast.File, name string) *ast.FuncDecl {
	fd := findFunc(files, "BlockDB", name)
	if fd == nil {
		die(fmt.Errorf("lib/chain: BlockDB.%s not found", name))
	}
	return fd
}

// flagSource: where the byte that setBlockFlag writes back into blockchain.new comes from.
//
//	disk    the byte is read from the index file at the record's position (ReadAt on the same buffer, same position, before the
//	        WriteAt) and the only other change of the buffer ORs the function's flag parameter into it
//	memory  no read of the file precedes the write: the byte is rebuilt from what the process has in memory
//
// Anything else (a read at another position, an assignment that drops the byte read, several writes) is not a shape the model knows.
func flagSource(files map[string]*ast.File) string {
	fd := blockDBMethod(files, "setBlockFlag")
	if fd.Type.Params == nil || len(fd.Type.Params.List) != 2 || len(fd.Type.Params.List[1].Names) != 1 {
		die(fmt.Errorf("BlockDB.setBlockFlag: parameters (record, flag) expected"))
	}
	flag := fd.Type.Params.List[1].Names[0].Name
	type ev struct {
		kind, buf, pos, rhs string
		at                  token.Pos
	}
	var evs []ev
	ast.Inspect(fd.Body, func(n ast.Node) bool {
		switch x := n.(type) {
		case *ast.CallExpr:
			if s, ok := x.Fun.(*ast.SelectorExpr); ok && (s.Sel.Name == "ReadAt" || s.Sel.Name == "WriteAt") && strings.HasSuffix(src(s.X), ".blockindx") && len(x.Args) == 2 {
				evs = append(evs, ev{kind: s.Sel.Name, buf: strings.TrimSuffix(src(x.Args[0]), "[:]"), pos: src(x.Args[1]), at: x.Pos()})
			}
		case *ast.AssignStmt:
			if len(x.Lhs) == 1 && len(x.Rhs) == 1 {
				if ix, ok := x.Lhs[0].(*ast.IndexExpr); ok {
					evs = append(evs, ev{kind: x.Tok.String(), buf: src(ix.X), pos: src(ix.Index), rhs: src(x.Rhs[0]), at: x.Pos()})
					return true
				}
			}
			// the buffer variable itself (or a slice / element of it) on the left of any other assignment
			for _, l := range x.Lhs {
				base := l
				for {
					switch y := base.(type) {
					case *ast.IndexExpr:
						base = y.X
						continue
					case *ast.SliceExpr:
						base = y.X
						continue
					case *ast.ParenExpr:
						base = y.X
						continue
					case *ast.StarExpr:
						base = y.X
						continue
					}
					break
				}
				if id, ok := base.(*ast.Ident); ok {
					evs = append(evs, ev{kind: "whole", buf: id.Name, at: x.Pos()})
				}
			}
		case *ast.IncDecStmt:
			if ix, ok := x.X.(*ast.IndexExpr); ok {
				evs = append(evs, ev{kind: "whole", buf: src(ix.X), at: x.Pos()})
			}
		}
		if c, ok := n.(*ast.CallExpr); ok {
			if id, ok := c.Fun.(*ast.Ident); ok && id.Name == "copy" && len(c.Args) == 2 {
				evs = append(evs, ev{kind: "whole", buf: strings.TrimSuffix(src(c.Args[0]), "[:]"), at: c.Pos()})
			}
		}
		return true
	})
	sort.Slice(evs, func(i, j int) bool { return evs[i].at < evs[j].at })
	var wr *ev
	for i := range evs {
		if evs[i].kind == "WriteAt" {
			if wr != nil {
				die(fmt.Errorf("BlockDB.setBlockFlag: more than one WriteAt on the index file"))
			}
			wr = &evs[i]
		}
	}
	if wr == nil {
		die(fmt.Errorf("BlockDB.setBlockFlag: no WriteAt on the index file"))
	}
	read, ored := false, false
	for _, e := range evs {
		if e.at >= wr.at || e.buf != wr.buf {
			continue
		}
		switch e.kind {
		case "whole":
			if read {
				die(fmt.Errorf("BlockDB.setBlockFlag: the buffer %s is assigned between the read of the byte and its write", e.buf))
			}
			ored = false
		case "ReadAt":
			if e.pos != wr.pos {
				die(fmt.Errorf("BlockDB.setBlockFlag: the byte is read at %s and written at %s", e.pos, wr.pos))
			}
			read, ored = true, false
		case "|=":
			if e.pos != "0" || e.rhs != flag {
				die(fmt.Errorf("BlockDB.setBlockFlag: %s[%s] |= %s is not the flag parameter ORed into the byte", e.buf, e.pos, e.rhs))
			}
			ored = true
		case "=":
			b0 := e.buf + "[" + e.pos + "]"
			if read && (e.rhs == b0+"|"+flag || e.rhs == flag+"|"+b0) {
				ored = true
				break
			}
			if read {
				die(fmt.Errorf("BlockDB.setBlockFlag: the byte read from the file is overwritten by %s", e.rhs))
			}
			ored = strings.Contains(e.rhs, flag)
		default:
			die(fmt.Errorf("BlockDB.setBlockFlag: %s %s on the buffer is not a shape the model knows", e.buf, e.kind))
		}
	}
	if !ored {
		die(fmt.Errorf("BlockDB.setBlockFlag: the flag parameter does not reach the byte written"))
	}
	if read {
		return "disk"
	}
	return "memory"
}

// ------------------------------------------------------------------------------------------ 7. LoadBlockIndex's position counter

func isPosIncr(st ast.Stmt) bool {
	a, ok := st.(*ast.AssignStmt)
	if !ok || len(a.Lhs) != 1 || len(a.Rhs) != 1 || !strings.HasSuffix(src(a.Lhs[0]), ".maxidxfilepos") {
		return false
	}
	l := src(a.Lhs[0])
	switch {
	case a.Tok == token.ADD_ASSIGN && src(a.Rhs[0]) == "136":
		return true
	case a.Tok == token.ASSIGN && (src(a.Rhs[0]) == l+"+136" || src(a.Rhs[0]) == "136+"+l):
		return true
	}
	die(fmt.Errorf("BlockDB.LoadBlockIndex: %s changes the index position by something else than one record", src(a)))
	return false
}

// invalidAdvances: does a record flagged BLOCK_INVALID advance db.maxidxfilepos by its 136 bytes like every other record? The
// function also insists on what the model takes for granted about the valid path: `ipos` is taken from the counter BEFORE the
// counter advances, and the counter advances exactly once.
func invalidAdvances(files map[string]*ast.File) bool {
	fd := blockDBMethod(files, "LoadBlockIndex")
	var loop *ast.ForStmt
	ast.Inspect(fd.Body, func(n ast.Node) bool {
		if f, ok := n.(*ast.ForStmt); ok && loop == nil && strings.Contains(src(f.Body), "io.ReadFull(") {
			loop = f
		}
		return true
	})
	if loop == nil {
		die(fmt.Errorf("BlockDB.LoadBlockIndex: the loop reading 136-byte records was not found"))
	}
	before, inInvalid, after, iposAt, invAt := 0, 0, 0, -1, -1
	for i, st := range loop.Body.List {
		if isPosIncr(st) {
			if invAt < 0 {
				before++
			} else {
				after++
				if iposAt < 0 {
					die(fmt.Errorf("BlockDB.LoadBlockIndex: the index position advances before a record's ipos is taken from it"))
				}
			}
			continue
		}
		if ifs, ok := st.(*ast.IfStmt); ok && strings.Contains(src(ifs.Cond), "BLOCK_INVALID") && invAt < 0 {
			invAt = i
			endsInContinue := false
			if n := len(ifs.Body.List); n > 0 {
				if br, ok := ifs.Body.List[n-1].(*ast.BranchStmt); ok && br.Tok == token.CONTINUE {
					endsInContinue = true
				}
			}
			if !endsInContinue || ifs.Else != nil {
				die(fmt.Errorf("BlockDB.LoadBlockIndex: the branch for records flagged invalid does not end in `continue`"))
			}
			for _, s2 := range ifs.Body.List {
				if isPosIncr(s2) {
					inInvalid++
				}
			}
			continue
		}
		if a, ok := st.(*ast.AssignStmt); ok && len(a.Lhs) == 1 && len(a.Rhs) == 1 && strings.HasSuffix(src(a.Lhs[0]), ".ipos") && strings.HasSuffix(src(a.Rhs[0]), ".maxidxfilepos") {
			iposAt = i
			continue
		}
		// a position change hidden in a nested statement of the valid path is not a shape the model knows
		nested := false
		ast.Inspect(st, func(n ast.Node) bool {
			if s, ok := n.(ast.Stmt); ok && s != st {
				if a, ok := s.(*ast.AssignStmt); ok && len(a.Lhs) == 1 && strings.HasSuffix(src(a.Lhs[0]), ".maxidxfilepos") {
					nested = true
				}
			}
			return true
		})
		if nested {
			die(fmt.Errorf("BlockDB.LoadBlockIndex: the index position is changed inside a nested statement (%s…)", src(st)[:40]))
		}
	}
	if invAt < 0 {
		die(fmt.Errorf("BlockDB.LoadBlockIndex: the branch for records flagged invalid was not found"))
	}
	if iposAt < 0 {
		die(fmt.Errorf("BlockDB.LoadBlockIndex: `<record>.ipos = db.maxidxfilepos` was not found at the top level of the loop"))
	}
	if before > 0 {
		die(fmt.Errorf("BlockDB.LoadBlockIndex: the index position advances before the record is looked at (ipos would be one record too high)"))
	}
	if after != 1 {
		die(fmt.Errorf("BlockDB.LoadBlockIndex: a valid record advances the index position %d times", after))
	}
	if inInvalid > 1 {
		die(fmt.Errorf("BlockDB.LoadBlockIndex: an invalid record advances the index position %d times", inInvalid))
	}
	return inInvalid == 1
}

// ------------------------------------------------------------------------------------------ 8. UnspentDB.Close

// closeGuard: under which condition UnspentDB.Close writes UTXO.db before it waits for the writer:
//
//	dirty                   db.DirtyDB.Get() alone (the unspent set in memory was changed since the last complete snapshot)
//	dirtyAndHeightDiffers   the condition (directly or through methods of UnspentDB it calls) also looks at the height in memory
//	                        and / or the height on disk
func closeGuard(p *utxoPkg) string {
	fd := p.methods["Close"]
	if fd == nil {
		die(fmt.Errorf("lib/utxo: UnspentDB.Close not found"))
	}
	// the conditions of EVERY if statement that encloses the call of Save (an inner `if heights differ { Save() }` under an outer
	// `if dirty` is a guard by height as well)
	var conds []ast.Expr
	saves := 0
	isSave := func(n ast.Node) bool {
		for _, c := range callsOf(n, p.methods) {
			if c == "Save" || c == "save" {
				return true
			}
		}
		return false
	}
	var walk func(st ast.Stmt, stack []ast.Expr)
	walk = func(st ast.Stmt, stack []ast.Expr) {
		if !isSave(st) {
			return
		}
		switch x := st.(type) {
		case *ast.BlockStmt:
			for _, s2 := range x.List {
				walk(s2, stack)
			}
		case *ast.IfStmt:
			if x.Else != nil && isSave(x.Else) {
				die(fmt.Errorf("UnspentDB.Close: the save is in an else branch - not a shape the model knows"))
			}
			if x.Init != nil && isSave(x.Init) {
				die(fmt.Errorf("UnspentDB.Close: the save is called in the init statement of an if - not a shape the model knows"))
			}
			if isSave(x.Cond) {
				die(fmt.Errorf("UnspentDB.Close: the save is called inside a condition - not a shape the model knows"))
			}
			walk(x.Body, append(append([]ast.Expr{}, stack...), x.Cond))
		case *ast.ExprStmt:
			if len(stack) == 0 {
				die(fmt.Errorf("UnspentDB.Close: an unconditional save - not a shape the model knows"))
			}
			saves++
			conds = append(conds, stack...)
		default:
			die(fmt.Errorf("UnspentDB.Close: the save is called inside %T - not a shape the model knows", st))
		}
	}
	walk(fd.Body, nil)
	if saves != 1 {
		die(fmt.Errorf("UnspentDB.Close: %d conditional saves (the model was written for exactly one)", saves))
	}
	var all1 []ast.Expr
	for _, c := range conds {
		all1 = append(all1, conjuncts(c)...)
	}
	onlyDirty := true
	for _, c := range all1 {
		t := src(c)
		if !(strings.HasSuffix(t, ".DirtyDB.Get()") && strings.Count(t, "(") == 1 && !strings.HasPrefix(t, "!")) {
			onlyDirty = false
		}
	}
	if onlyDirty && len(all1) > 0 {
		return "dirty"
	}
	var cond ast.Expr = all1[0]
	for _, c := range all1[1:] {
		cond = &ast.BinaryExpr{X: cond, Op: token.LAND, Y: c}
	}
	text := src(cond)
	// everything the condition can reach through methods of UnspentDB
	seen := map[string]bool{}
	all := text
	var follow func(n ast.Node)
	follow = func(n ast.Node) {
		for _, c := range callsOf(n, p.methods) {
			if !seen[c] {
				seen[c] = true
				all += src(p.methods[c].Body)
				follow(p.methods[c].Body)
			}
		}
	}
	follow(cond)
	if !strings.Contains(all, ".DirtyDB.Get()") {
		die(fmt.Errorf("UnspentDB.Close: the condition %q of the save does not ask whether the set is dirty", text))
	}
	if strings.Contains(all, "LastBlockHeight") || strings.Contains(all, "CurrentHeightOnDisk") {
		return "dirtyAndHeightDiffers"
	}
	die(fmt.Errorf("UnspentDB.Close: the condition %q of the save is not a shape the model knows", text))
	return ""
}

// ------------------------------------------------------------------------------------------ 9-11. the dirty flag

func isDirtyCall(n ast.Node, what string) bool {
	es, ok := n.(*ast.ExprStmt)
	if !ok {
		return false
	}
	c, ok := es.X.(*ast.CallExpr)
	return ok && strings.HasSuffix(src(c.Fun), ".DirtyDB."+what) && len(c.Args) == 0
}

// setsDirty: the method marks the set dirty on every path that returns normally: `db.DirtyDB.Set()` is a plain statement at the
// top level of the method (not under an if / loop / defer / go / function literal), no `return` stands in front of it (outside
// function literals) and the method never clears the flag.
func (p *utxoPkg) setsDirty(name string) bool {
	fd := p.methods[name]
	if fd == nil {
		die(fmt.Errorf("lib/utxo: UnspentDB.%s not found", name))
	}
	at := token.NoPos
	for _, st := range fd.Body.List {
		if isDirtyCall(st, "Set") && at == token.NoPos {
			at = st.Pos()
		}
	}
	if strings.Contains(src(fd.Body), ".DirtyDB.Clr()") {
		die(fmt.Errorf("UnspentDB.%s clears the dirty flag - not a shape the model knows", name))
	}
	if at == token.NoPos {
		if strings.Contains(src(fd.Body), ".DirtyDB.Set()") {
			die(fmt.Errorf("UnspentDB.%s: DirtyDB.Set() is not a plain top-level statement (conditional / deferred / in a goroutine) - not a shape the model knows", name))
		}
		return false
	}
	early := false
	var scan func(n ast.Node)
	scan = func(n ast.Node) {
		ast.Inspect(n, func(m ast.Node) bool {
			switch x := m.(type) {
			case *ast.FuncLit:
				return false
			case *ast.ReturnStmt:
				if x.Pos() < at {
					early = true
				}
			case *ast.BranchStmt:
				if x.Tok == token.GOTO && x.Pos() < at {
					early = true
				}
			}
			return true
		})
	}
	scan(fd.Body)
	if early {
		die(fmt.Errorf("UnspentDB.%s: a return / goto stands in front of DirtyDB.Set() - not a shape the model knows", name))
	}
	return true
}

// clearsOnlyWhenComplete: the dirty flag is cleared nowhere in lib/utxo but in UnspentDB.save, and there only under `if !abort`
// (the walk over the maps was not aborted)
func (p *utxoPkg) clearsOnlyWhenComplete() bool {
	n := 0
	for name, fd := range p.methods {
		if name != "save" && strings.Contains(src(fd.Body), ".DirtyDB.Clr()") {
			die(fmt.Errorf("UnspentDB.%s clears the dirty flag (only save() is expected to) - not a shape the model knows", name))
		}
	}
	fd := p.methods["save"]
	if fd == nil {
		die(fmt.Errorf("lib/utxo: UnspentDB.save not found"))
	}
	ok := true
	var walk func(m ast.Node, guarded bool)
	walk = func(m ast.Node, guarded bool) {
		ast.Inspect(m, func(x ast.Node) bool {
			if x == m {
				return true
			}
			if ifs, isIf := x.(*ast.IfStmt); isIf {
				g := guarded
				for _, c := range conjuncts(ifs.Cond) {
					if src(c) == "!abort" {
						g = true
					}
				}
				if ifs.Init != nil {
					walk(ifs.Init, guarded)
				}
				walk(ifs.Body, g)
				if ifs.Else != nil {
					walk(ifs.Else, guarded)
				}
				return false
			}
			if st, isSt := x.(ast.Stmt); isSt && isDirtyCall(st, "Clr") {
				n++
				if !guarded {
					ok = false
				}
			}
			return true
		})
	}
	walk(fd.Body, false)
	if n == 0 {
		die(fmt.Errorf("UnspentDB.save never clears the dirty flag - not a shape the model knows"))
	}
	return ok
}

// ------------------------------------------------------------------------------------------ 12. LoadBlockIndex: where the index handle is left

// loadSeeks: after the loop that reads the records, LoadBlockIndex positions the handle of blockchain.new at db.maxidxfilepos
// (BlockDB.writeOne appends with blockindx.Write - at the HANDLE's offset; the models identify the two) and does not move it again
func loadSeeks(files map[string]*ast.File) bool {
	fd := blockDBMethod(files, "LoadBlockIndex")
	loopAt := -1
	for i, st := range fd.Body.List {
		if f, ok := st.(*ast.ForStmt); ok && strings.Contains(src(f.Body), "io.ReadFull(") {
			loopAt = i
		}
	}
	if loopAt < 0 {
		die(fmt.Errorf("BlockDB.LoadBlockIndex: the loop reading 136-byte records is not a top-level statement"))
	}
	seeks, good := 0, false
	for _, st := range fd.Body.List[loopAt+1:] {
		t := src(st)
		if !strings.Contains(t, ".blockindx.") {
			continue
		}
		es, ok := st.(*ast.ExprStmt)
		if !ok {
			die(fmt.Errorf("BlockDB.LoadBlockIndex: the index handle is used after the loop in %q - not a shape the model knows", t))
		}
		c, ok := es.X.(*ast.CallExpr)
		if !ok || !strings.HasSuffix(src(c.Fun), ".blockindx.Seek") || len(c.Args) != 2 {
			die(fmt.Errorf("BlockDB.LoadBlockIndex: the index handle is used after the loop in %q - not a shape the model knows", t))
		}
		seeks++
		wh := src(c.Args[1])
		good = strings.HasSuffix(src(c.Args[0]), ".maxidxfilepos") && (wh == "os.SEEK_SET" || wh == "io.SeekStart" || wh == "0")
	}
	if seeks > 1 {
		die(fmt.Errorf("BlockDB.LoadBlockIndex: the index handle is positioned %d times after the loop", seeks))
	}
	return seeks == 1 && good
}

// ------------------------------------------------------------------------------------------ 13/14. the client's side of the restart

// clientFacts: the two places of the client that the harness re-implements instead of running (child.go clientRecover / childMain):
// client/init.go opens the chain with DoNotRescan: true (key of the NewChanOpts literal); client/main.go LocalAcceptBlock calls, as
// plain statements in this order, Unspent.AbortWriting(), Blocks.BlockAdd(..), BlockChain.CommitBlock(..).
func clientFacts() (doNotRescan, acceptOrder bool) {
	files := parseDir("client")
	initF := files["init.go"]
	if initF == nil {
		die(fmt.Errorf("client/init.go not found"))
	}
	n := 0
	ast.Inspect(initF, func(m ast.Node) bool {
		if kv, ok := m.(*ast.KeyValueExpr); ok && src(kv.Key) == "DoNotRescan" {
			n++
			doNotRescan = src(kv.Value) == "true"
		}
		if a, ok := m.(*ast.AssignStmt); ok {
			for _, l := range a.Lhs {
				if strings.HasSuffix(src(l), ".DoNotRescan") {
					die(fmt.Errorf("client/init.go: DoNotRescan is assigned outside the options literal - not a shape the model knows"))
				}
			}
		}
		return true
	})
	if n != 1 {
		die(fmt.Errorf("client/init.go: %d `DoNotRescan:` keys (one expected)", n))
	}
	fd := findFunc(files, "", "LocalAcceptBlock")
	if fd == nil {
		die(fmt.Errorf("client: LocalAcceptBlock not found"))
	}
	pos := map[string]int{}
	for i, st := range fd.Body.List {
		var call ast.Expr
		switch x := st.(type) {
		case *ast.ExprStmt:
			call = x.X
		case *ast.AssignStmt:
			if len(x.Rhs) == 1 {
				call = x.Rhs[0]
			}
		}
		t := ""
		if call != nil {
			t = src(call)
		}
		for _, k := range []string{".Unspent.AbortWriting(", ".Blocks.BlockAdd(", ".BlockChain.CommitBlock("} {
			if strings.Contains(src(st), k) {
				if call == nil || !strings.Contains(t, k) || pos[k] != 0 {
					die(fmt.Errorf("client.LocalAcceptBlock: %s is not called exactly once as a plain top-level statement - not a shape the model knows", strings.Trim(k, ".(")))
				}
				pos[k] = i + 1
			}
		}
	}
	a, b, c := pos[".Unspent.AbortWriting("], pos[".Blocks.BlockAdd("], pos[".BlockChain.CommitBlock("]
	if a == 0 || b == 0 || c == 0 {
		die(fmt.Errorf("client.LocalAcceptBlock: AbortWriting / BlockAdd / CommitBlock not all found at the top level"))
	}
	return doNotRescan, a < b && b < c
}

// replayStart: where client/main.go do_the_blocks(end) starts its walk to `end` (the farthest node on disk, set by host_init when it is
// higher than the tip). Shapes understood, on the top level of the function in front of the loop `for <cur> != <end>`:
//
//	<cur> := ….LastBlock()
//	if <cur> != <end> { <cur> = <cur>.FindFirstFather(<end>) }      (or the assignment without the test)     -> commonAncestor
//	no FindFirstFather at all                                                                                 -> tip
//
// FindPathTo(end) panics when it is asked for the way from a block that is not an ancestor of end: after a reorganisation the
// snapshot's block is such a block until the next snapshot is complete.
func replayStart() string {
	files := parseDir("client")
	fd := findFunc(files, "", "do_the_blocks")
	if fd == nil || fd.Type.Params == nil || len(fd.Type.Params.List) != 1 || len(fd.Type.Params.List[0].Names) != 1 {
		die(fmt.Errorf("client: do_the_blocks(end) not found"))
	}
	end := fd.Type.Params.List[0].Names[0].Name
	cur, found, loop := "", 0, false
	for _, st := range fd.Body.List {
		if f, ok := st.(*ast.ForStmt); ok {
			if cur == "" || f.Init != nil || f.Post != nil || f.Cond == nil || src(f.Cond) != cur+"!="+end {
				die(fmt.Errorf("client.do_the_blocks: the loop is not `for <block> != %s` over the variable set from LastBlock() - not a shape the model knows", end))
			}
			loop = true
			break
		}
		if a, ok := st.(*ast.AssignStmt); ok && len(a.Lhs) == 1 && len(a.Rhs) == 1 && strings.HasSuffix(src(a.Rhs[0]), ".LastBlock()") {
			if cur != "" {
				die(fmt.Errorf("client.do_the_blocks: LastBlock() is read twice in front of the loop - not a shape the model knows"))
			}
			cur = src(a.Lhs[0])
			continue
		}
		if cur != "" && (strings.HasPrefix(src(st), cur+"=") || strings.Contains(src(st), "{"+cur+"=") || strings.Contains(src(st), ";"+cur+"=")) && !strings.Contains(src(st), "FindFirstFather") {
			die(fmt.Errorf("client.do_the_blocks: %s is reassigned in front of the loop by something else than FindFirstFather - not a shape the model knows", cur))
		}
		if !strings.Contains(src(st), "FindFirstFather") {
			continue
		}
		asg := st
		if is, ok := st.(*ast.IfStmt); ok {
			c := src(is.Cond)
			if is.Init != nil || is.Else != nil || len(is.Body.List) != 1 || (c != cur+"!="+end && c != end+"!="+cur) {
				die(fmt.Errorf("client.do_the_blocks: FindFirstFather under a test that is not `%s != %s` - not a shape the model knows", cur, end))
			}
			asg = is.Body.List[0]
		}
		a, ok := asg.(*ast.AssignStmt)
		if !ok || cur == "" || a.Tok != token.ASSIGN || len(a.Lhs) != 1 || len(a.Rhs) != 1 || src(a.Lhs[0]) != cur || src(a.Rhs[0]) != cur+".FindFirstFather("+end+")" {
			die(fmt.Errorf("client.do_the_blocks: FindFirstFather is not used as `%s = %s.FindFirstFather(%s)` - not a shape the model knows", cur, cur, end))
		}
		found++
	}
	if !loop || cur == "" {
		die(fmt.Errorf("client.do_the_blocks: `<block> := ….LastBlock()` followed by the loop not found at the top level"))
	}
	if n := strings.Count(src(fd.Body), "FindFirstFather"); n != found || found > 1 {
		die(fmt.Errorf("client.do_the_blocks: %d uses of FindFirstFather, %d of them in front of the loop - not a shape the model knows", n, found))
	}
	if found == 1 {
		return "commonAncestor"
	}
	return "tip"
}

func main() {
	chainFiles := parseDir("lib/chain")
	lm := lockMode()
	rg := reapplyGuard(chainFiles)
	io := idleOrder(chainFiles)
	up := loadUtxo()
	ua := up.abortsBeforeMutation("UndoBlockTxs")
	ca := up.abortsBeforeMutation("CommitBlockTxs")
	fs := flagSource(chainFiles)
	ia := invalidAdvances(chainFiles)
	cg := closeGuard(up)
	cd := up.setsDirty("CommitBlockTxs")
	ud := up.setsDirty("UndoBlockTxs")
	sc := up.clearsOnlyWhenComplete()
	ls := loadSeeks(chainFiles)
	dnr, cao := clientFacts()
	rs := replayStart()

	var sb strings.Builder
	sb.WriteString("/- GENERATED by go/cmd/gen_c07 from lib/others/sys/dblock_unix.go, lib/chain/chain.go, lib/chain/blockdb.go, lib/utxo/*.go, client/init.go, client/main.go — do not edit; not in git. -/\n")
	sb.WriteString("namespace GocoinV.Gen.C07Facts\n\n")
	sb.WriteString("/-- how LockDatabaseDir (unix) obtains <datadir>/.lock -/\ninductive LockOpenMode | openOrCreate | removeThenExcl | createExcl\nderiving Repr, DecidableEq\n\n")
	fmt.Fprintf(&sb, "def lockOpenMode : LockOpenMode := .%s\n\n", lm)
	sb.WriteString("/-- the comparison in front of NewChainExt's ParseTillBlock(end): end is strictly higher than the current block / merely another block -/\ninductive ReapplyGuard | higher | differs\nderiving Repr, DecidableEq\n\n")
	fmt.Fprintf(&sb, "def reapplyGuard : ReapplyGuard := .%s\n\n", rg)
	fmt.Fprintf(&sb, "/-- UnspentDB.UndoBlockTxs aborts a running snapshot before its first change of db.HashMap -/\ndef undoAbortsSave : Bool := %v\n", ua)
	fmt.Fprintf(&sb, "/-- UnspentDB.CommitBlockTxs aborts a running snapshot before its first change of db.HashMap -/\ndef commitAbortsSave : Bool := %v\n", ca)
	fmt.Fprintf(&sb, "/-- Chain.Idle: Blocks.Idle() before Unspent.Idle() -/\ndef idleFlushesFirst : Bool := %v\n", io)
	sb.WriteString("\n/-- BlockDB.setBlockFlag: the byte written back into blockchain.new is the byte read from the file at the record's position with the flag ORed in / is rebuilt from the in-memory record -/\ninductive FlagSource | disk | memory\nderiving Repr, DecidableEq\n\n")
	fmt.Fprintf(&sb, "def flagRewriteSource : FlagSource := .%s\n\n", fs)
	fmt.Fprintf(&sb, "/-- BlockDB.LoadBlockIndex: a record flagged BLOCK_INVALID advances the index position by its 136 bytes -/\ndef invalidRecordAdvances : Bool := %v\n\n", ia)
	sb.WriteString("/-- UnspentDB.Close writes UTXO.db when the set is dirty / when it is dirty and the heights in memory and on disk differ -/\ninductive CloseGuard | dirty | dirtyAndHeightDiffers\nderiving Repr, DecidableEq\n\n")
	fmt.Fprintf(&sb, "def closeSaveGuard : CloseGuard := .%s\n\n", cg)
	fmt.Fprintf(&sb, "/-- UnspentDB.CommitBlockTxs marks the set dirty on every path that returns (plain top-level DirtyDB.Set()) -/\ndef commitSetsDirty : Bool := %v\n", cd)
	fmt.Fprintf(&sb, "/-- UnspentDB.UndoBlockTxs marks the set dirty on every path that returns -/\ndef undoSetsDirty : Bool := %v\n", ud)
	fmt.Fprintf(&sb, "/-- the dirty flag is cleared only by UnspentDB.save and only when its walk was not aborted -/\ndef saveClearsDirtyOnlyWhenComplete : Bool := %v\n", sc)
	fmt.Fprintf(&sb, "/-- client/init.go opens the chain with DoNotRescan: true -/\ndef clientDoNotRescan : Bool := %v\n", dnr)
	fmt.Fprintf(&sb, "/-- client/main.go LocalAcceptBlock: AbortWriting, then BlockAdd, then CommitBlock (plain top-level statements) -/\ndef clientAcceptOrder : Bool := %v\n", cao)
	fmt.Fprintf(&sb, "/-- BlockDB.LoadBlockIndex leaves the handle of blockchain.new at maxidxfilepos (Seek after the loop): the next record is appended there -/\ndef loadSeeksAppendPos : Bool := %v\n", ls)
	sb.WriteString("\n/-- client/main.go do_the_blocks(end) walks to `end` from the first common ancestor of the tip and `end` / from the tip itself -/\ninductive ReplayStart | commonAncestor | tip\nderiving Repr, DecidableEq\n\n")
	fmt.Fprintf(&sb, "def clientReplayStart : ReplayStart := .%s\n", rs)
	sb.WriteString("\nend GocoinV.Gen.C07Facts\n")
	out := vlib.Root() + "/lean/GocoinV/Gen/C07Facts.lean"
	if o := os.Getenv("GEN_C07_OUT"); o != "" { // experiments: leave the shared Gen/ file alone
		out = o
	}
	os.Remove(out)
	if err := os.WriteFile(out, []byte(sb.String()), 0644); err != nil {
		die(err)
	}
	fmt.Printf("FACTS 15\n")
}
