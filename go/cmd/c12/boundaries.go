package main

// boundaries.go — the boundaries named in processTx's guards, each from both sides, as corpus scenarios AND as generated
// families / extra operations of the random histories (own PRNG stream World.gx):
//
//   coinbase maturity : spends of setup coinbases with 98, 99, 100, 101 confirmations (tip+1-height), through the net,
//                       trusted and local paths, while the tip moves up (blocks) and down (undo): 99 is refused
//                       CB_INMATURE, 100 is pooled; a spend pooled at exactly 100 has to go when the tip block is undone and
//                       is refused when it comes again right after.
//   output index      : children naming vout = #outputs of their parent exactly, one more, and 0xffffffff; the parent
//                       pooled, confirmed, or on the rejected list with its data (orphan / RBF_LOWFEE / CB_INMATURE); parents
//                       with 1, 2 and many outputs; the parent reaching the pool later through txAccepted or a block.
//   AllowMemInputs=0  : worlds in which untrusted peers may only spend confirmed outputs (NOT_MINED), trusted peers and
//                       the local wallet may spend anything; orphans accepted from a trusted source are re-submitted by
//                       txAccepted as UNtrusted.
//   usif.LoadRawTx    : the real function (world.go submit, mode local) on transactions that are already pooled (made
//                       "own": Local set), already own, on the rejected list with / without data, mined.
//   deep orphans      : an orphan with k inputs, one from each member of a chain P1←…←Pk of unconfirmed transactions that
//                       are themselves staged (waiting for the root X), in every arrival order, several orphans over one
//                       chain, the root arriving through the network or in a block: txAccepted's loop runs ≈ 3k times.

import (
	"fmt"
	"os"

	"github.com/piotrnar/gocoin/client/txpool"
	"github.com/piotrnar/gocoin/lib/btc"
	"github.com/piotrnar/gocoin/lib/chain"
	"verif/chainkit"
	"verif/vlib"
)

// expect: the harness's own reading of the code for a corpus input (third opinion next to the model and the predicate).
// Pooling something that must be refused is a failure of the property itself; any other difference is a tie failure.
func (w *World) expect(name string, got, want int) {
	if w.dead || got == -1 {
		return // (a panic / hang has been reported by submit)
	}
	w.r.Hit("boundary:" + name + ":" + codeName(got, want))
	if got == want || got == -2 {
		return
	}
	what := fmt.Sprintf("%s: gocoin answers %s, the code as read by the harness says %s", name, codeName(got, got), codeName(want, want))
	if got == 0 {
		w.propFail("boundary:"+name, what)
	} else {
		w.tieFail("boundary-result:"+name, what)
	}
}

// feeX / spendX: randFee / spend on the extras' stream (the operation generator's stream w.g is left alone).
func (w *World) feeX(nin, nout int) uint64 {
	rate := uint64(2 + w.gx.Intn(60))
	return rate*uint64(60+150*nin+35*nout) + uint64(w.gx.Intn(97))
}

func (w *World) spendX(coins []*chainkit.Coin, nOut int, fee uint64) *txInfo {
	var in uint64
	for _, c := range coins {
		in += c.Value
	}
	if fee+uint64(nOut)*1000 > in {
		fee = in / 2
	}
	rest := in - fee
	var outs []chainkit.OutSpec
	for i := 0; i < nOut; i++ {
		v := rest / uint64(nOut-i)
		rest -= v
		outs = append(outs, chainkit.OutSpec{Value: v, Script: w.scriptKind(w.gx.Intn(4))})
	}
	return w.mkTx(coins, nil, outs, false)
}

func (w *World) modeX() string {
	switch w.gx.Intn(6) {
	case 0, 1:
		return "trusted"
	case 2, 3:
		return "local"
	}
	return "net"
}

// ------------------------------------------------------------------------------------------ coinbase maturity

// cbCoin returns the output of the setup coinbase of height h (9 … 108; 1 … 8 were spent by the fan-out), described to
// the oracle and entered into the harness ledger the first time; nil when it is gone or a pooled tx spends it.
func (w *World) cbCoin(h uint32) *chainkit.Coin {
	if h < 9 || int(h) > len(w.setupCb) {
		return nil
	}
	cb := chainkit.OutCoins(w.setupCb[h-1], w.keys, h, true)[0]
	if !w.cbTold[cb.Out.Hash] {
		w.cbTold[cb.Out.Hash] = true
		w.mustOK(fmt.Sprintf("coin %s %d %d %d 1", hid(cb.Out.Hash), cb.Out.Vout, cb.Value, h))
		w.ledger[cb.Out] = cb
	}
	if w.ledger[cb.Out] == nil || w.isSpentInPool(cb.Out) {
		return nil
	}
	return w.ledger[cb.Out]
}

// cbAged: the setup coinbase that has exactly `conf` confirmations for the next block (tip+1-height = conf).
func (w *World) cbAged(conf uint32) *chainkit.Coin {
	tip := w.k.Ch.LastBlock().Height
	if tip+1 < conf+9 {
		return nil
	}
	return w.cbCoin(tip + 1 - conf)
}

// scCoinbaseBoundary: COINBASE_MATURITY from both sides, on every submission path, the tip moving up in between.
func scCoinbaseBoundary(w *World) {
	const M = chain.COINBASE_MATURITY
	one := func(c *chainkit.Coin) []*chainkit.Coin { return []*chainkit.Coin{c} }
	var plain []*chainkit.Coin
	for _, c := range w.freeCoins(true) {
		if !c.Coinbase {
			plain = append(plain, c)
		}
	}
	for round, mode := range []string{"net", "trusted", "local"} {
		if w.failed || w.dead {
			return
		}
		young, ripe := w.cbAged(M-1), w.cbAged(M)
		if young == nil || ripe == nil {
			w.r.Hit("gen:no-boundary-coinbase")
			return
		}
		// one block short: refused on every path (the first one is this round's, kept for later)
		x := w.spend(one(young), 1, 4000, nil, false)
		w.expect("cb-99-"+mode, w.submit(x, mode), txpool.TX_REJECTED_CB_INMATURE)
		for i2, m2 := range []string{"net", "trusted", "local"} {
			if m2 != mode {
				t := w.spend([]*chainkit.Coin{plain[round], young}, 2, 5000+uint64(100*i2), nil, false) // (the coinbase as second input)
				w.expect("cb-99-2nd-input-"+m2, w.submit(t, m2), txpool.TX_REJECTED_CB_INMATURE)
			}
		}
		// exactly mature: pooled
		y := w.spend(one(ripe), 2, 4000, nil, false)
		w.expect("cb-100-"+mode, w.submit(y, mode), 0)
		w.submit(w.spend(y.outs[:1], 1, 3000, nil, false), "trusted") // a child
		// two short / one over
		if c := w.cbAged(M - 2); c != nil {
			w.expect("cb-98-"+mode, w.submit(w.spend(one(c), 1, 4000, nil, false), mode), txpool.TX_REJECTED_CB_INMATURE)
		}
		if c := w.cbAged(M + 1); c != nil {
			w.expect("cb-101-"+mode, w.submit(w.spend(one(c), 1, 4000, nil, false), mode), 0)
		}
		// the next block: `young` has matured. x is remembered as rejected (with its data): not wanted from the network,
		// but LoadRawTx drops the record and tries again
		if !w.mine(nil) {
			return
		}
		w.expect("cb-now-100-remembered-net", w.submit(x, "net"), 1002)
		if round == 1 {
			w.reload() // (the CB_INMATURE record goes through the pool file)
		}
		w.expect("cb-now-100-again-local", w.submit(x, "local"), 0)
		if !w.mine(w.pooled()) { // (the next round's coinbases are untouched ones)
			return
		}
	}
	// the tip block is undone: what was pooled at exactly 100 confirmations is one short again
	var at100 []*txInfo
	if c := w.cbAged(M); c != nil {
		t := w.spend(one(c), 1, 4700, nil, false) // (not the transaction that was refused when this coinbase had 98 confirmations)
		w.expect("cb-100-before-undo", w.submit(t, "net"), 0)
		at100 = append(at100, t)
	}
	if !w.undoBare() {
		return
	}
	for _, t := range at100 {
		if w.inPool(t) {
			w.propFail("boundary:cb-99-after-undo-pooled", "a spend of a coinbase that has 99 confirmations after the undo is still pooled")
		}
		w.expect("cb-99-after-undo-net", w.submit(t, "net"), txpool.TX_REJECTED_CB_INMATURE)
		w.expect("cb-99-after-undo-local", w.submit(t, "local"), txpool.TX_REJECTED_CB_INMATURE)
	}
	if c := w.cbAged(M - 1); c != nil {
		w.expect("cb-99-after-undo-trusted", w.submit(w.spend(one(c), 1, 4500, nil, false), "trusted"), txpool.TX_REJECTED_CB_INMATURE)
	}
	w.mine(nil)
	w.mine(w.pooled())
}

// coinbaseNear — random histories: a spend of the setup coinbase whose age is 98 … 101 at the current tip (alone or next to
// another free coin), on a random path. As the tip moves up and down both sides of the boundary are met again and again.
func (w *World) coinbaseNear() {
	conf := uint32(chain.COINBASE_MATURITY - 2 + w.gx.Intn(4))
	c := w.cbAged(conf)
	if c == nil {
		w.r.Hit("gen:coinbase-near:none")
		return
	}
	coins := []*chainkit.Coin{c}
	if free := w.freeCoins(false); len(free) > 0 && w.gx.Chance(1, 3) {
		o := free[w.gx.Intn(len(free))]
		if o.Out != c.Out {
			coins = append(coins, o)
			if w.gx.Bool() {
				coins[0], coins[1] = coins[1], coins[0]
			}
		}
	}
	nout := 1 + w.gx.Intn(2)
	w.r.Hit(fmt.Sprintf("gen:coinbase-age-%d", conf))
	w.submit(w.spendX(coins, nout, w.feeX(len(coins), nout)), w.modeX())
}

// ------------------------------------------------------------------------------------------ output index

// ghostAt: a coin naming output `vout` of the transaction that created c (spendable without a signature as far as the
// harness is concerned: it never gets that far).
func ghostAt(c *chainkit.Coin, vout uint32) *chainkit.Coin {
	gc := *c
	gc.Out.Vout = vout
	gc.Kind = "anyone"
	gc.Key = nil
	gc.Script = chainkit.AnyoneScript
	return &gc
}

var voutsBeyond = []struct {
	name string
	off  func(n int) uint32
}{
	{"len", func(n int) uint32 { return uint32(n) }},
	{"len+1", func(n int) uint32 { return uint32(n + 1) }},
	{"max", func(n int) uint32 { return 0xffffffff }},
}

// scVoutBoundary: for parents with 1, 2 and 7 outputs (and the 12-output funding transactions), children naming the
// first output index the parent does not have, the next one and the largest one.
func scVoutBoundary(w *World) {
	fc := w.freeCoins(true)
	next := 0
	coin := func() *chainkit.Coin { next++; return fc[next-1] }
	modes := []string{"net", "trusted", "local"}
	mi := 0
	mode := func() string { mi++; return modes[mi%3] }
	nfee := uint64(2000)
	fee := func() uint64 { nfee += 13; return nfee } // (no two children alike)
	for _, n := range []int{1, 2, 7} {
		if w.failed || w.dead {
			return
		}
		tag := fmt.Sprintf("%d-outs", n)
		// (i) the parent is pooled
		p := w.spend([]*chainkit.Coin{coin()}, n, 6000, nil, false)
		w.expect("parent-"+tag, w.submit(p, "net"), 0)
		for _, v := range voutsBeyond {
			for _, m := range modes {
				ch := w.spend([]*chainkit.Coin{ghostAt(p.outs[0], v.off(n))}, 1, fee(), nil, false)
				w.expect("pooled-parent-"+tag+"-vout-"+v.name+"-"+m, w.submit(ch, m), txpool.TX_REJECTED_BAD_INPUT)
			}
			// ... as the second input, behind a good one
			ch := w.spend([]*chainkit.Coin{coin(), ghostAt(p.outs[0], v.off(n))}, 1, 3000, nil, false)
			w.expect("pooled-parent-"+tag+"-2nd-input-vout-"+v.name, w.submit(ch, "net"), txpool.TX_REJECTED_BAD_INPUT)
		}
		last := w.spend(p.outs[n-1:n], 1, 2500, nil, false) // the last output it does have
		w.expect("pooled-parent-"+tag+"-vout-len-1", w.submit(last, mode()), 0)

		// (iii) the parent is on the rejected list with its data: an orphan (waiting for its own parent, held back) ...
		gp := w.spend([]*chainkit.Coin{coin()}, 1, 4000, nil, false)
		op := w.spend(gp.outs[:1], n, 5000, nil, false)
		w.expect("orphan-parent-"+tag, w.submit(op, "net"), txpool.TX_REJECTED_NO_TXOU)
		var kids []*txInfo
		for _, v := range voutsBeyond {
			ch := w.spend([]*chainkit.Coin{ghostAt(op.outs[0], v.off(n))}, 1, fee(), nil, false)
			w.expect("orphan-parent-"+tag+"-vout-"+v.name, w.submit(ch, mode()), txpool.TX_REJECTED_NO_TXOU)
			kids = append(kids, ch)
		}
		good := w.spend(op.outs[n-1:n], 1, 2500, nil, false)
		w.submit(good, "net")
		// ... the grandparent arrives: txAccepted pools the orphan parent and re-submits its children
		if n == 2 {
			w.mine([]*txInfo{gp}) // (in a block)
		} else {
			w.expect("grandparent-"+tag, w.submit(gp, "net"), 0)
		}
		if !w.dead && !w.failed {
			if !w.inPool(op) || !w.inPool(good) {
				w.tieFail("boundary-result:orphan-parent-"+tag+"-resolved", "the orphan parent and its good child are not pooled after the grandparent has arrived")
			}
			for _, k := range kids {
				if w.inPool(k) {
					w.propFail("boundary:orphan-parent-"+tag+"-bad-vout-pooled", "a child naming an output its parent does not have is pooled")
				}
			}
		}
		// ... refused RBF_LOWFEE (data kept, not waiting): its children are BAD_PARENT
		lf := w.spend(p.tx2coins(w)[:1], n, uint64(400+120*n), nil, false) // (above the fee floor, far below p's rate)
		if code := w.submit(lf, "net"); code == txpool.TX_REJECTED_RBF_LOWFEE {
			for _, v := range voutsBeyond {
				ch := w.spend([]*chainkit.Coin{ghostAt(lf.outs[0], v.off(n))}, 1, fee(), nil, false)
				w.expect("lowfee-parent-"+tag+"-vout-"+v.name, w.submit(ch, mode()), txpool.TX_REJECTED_BAD_PARENT)
			}
		} else {
			w.r.Hit("gen:vout-boundary:no-rbf-lowfee-parent")
		}

		// (ii) the parent is confirmed (a transaction of a harness block)
		q := w.spend([]*chainkit.Coin{coin()}, n, 5000, nil, false)
		if n == 7 {
			w.submit(q, "net") // (known to the pool before it is mined)
		}
		if !w.mine([]*txInfo{q, p}) {
			return
		}
		for _, par := range []*txInfo{q, p} {
			for _, v := range voutsBeyond {
				ch := w.spend([]*chainkit.Coin{ghostAt(par.outs[0], v.off(n))}, 1, fee(), nil, false)
				w.expect("confirmed-parent-"+tag+"-vout-"+v.name, w.submit(ch, mode()), txpool.TX_REJECTED_NO_TXOU)
			}
		}
		w.expect("confirmed-parent-"+tag+"-vout-len-1", w.submit(w.spend(q.outs[n-1:n], 1, 2500, nil, false), mode()), 0)
	}
	// the funding transactions of the setup chain: 12 outputs each
	for i, v := range voutsBeyond {
		ch := w.spend([]*chainkit.Coin{ghostAt(fc[len(fc)-1-i], v.off(12))}, 1, 2000, nil, false)
		w.expect("confirmed-parent-12-outs-vout-"+v.name, w.submit(ch, mode()), txpool.TX_REJECTED_NO_TXOU)
	}
	// the parent arrives in a block while the child waits for it (exactly the first missing index)
	for _, n := range []int{1, 3} {
		p := w.spend([]*chainkit.Coin{coin()}, n, 3000, nil, false)
		o := w.spend([]*chainkit.Coin{ghostAt(p.outs[0], uint32(n))}, 1, 1000, nil, false)
		w.expect(fmt.Sprintf("unknown-parent-%d-outs-vout-len", n), w.submit(o, "net"), txpool.TX_REJECTED_NO_TXOU)
		w.mine([]*txInfo{p})
	}
	w.reload()
	w.mine(w.pooled())
}

// tx2coins: the coins ti spends (as far as the harness knows them).
func (ti *txInfo) tx2coins(w *World) (l []*chainkit.Coin) {
	for _, in := range ti.tx.TxIn {
		if c := w.coinOf(in.Input); c != nil {
			l = append(l, c)
		}
	}
	return
}

// ghostChild — random histories: a child naming output len / len+1 / 0xffffffff of a pooled, a confirmed or a
// rejected-with-data parent (or of a transaction nobody has seen), alone or behind / in front of a good input.
func (w *World) ghostChild(held []*txInfo) {
	var par *txInfo
	var class string
	pick := func(l []*txInfo) *txInfo {
		if len(l) == 0 {
			return nil
		}
		return l[w.gx.Intn(len(l))]
	}
	switch w.gx.Intn(8) {
	case 0, 1, 2:
		par, class = pick(w.pooled()), "pooled"
	case 3, 4:
		var conf []*txInfo
		for _, b := range w.blocks {
			conf = append(conf, b.txs...)
		}
		par, class = pick(conf), "confirmed"
	case 5, 6:
		var rej []*txInfo
		for _, ti := range w.order {
			if rec := txpool.TransactionsRejected[ti.tx.Hash.BIdx()]; rec != nil && rec.Tx != nil {
				rej = append(rej, ti)
			}
		}
		par, class = pick(rej), "rejected-with-data"
	default:
		par, class = pick(held), "held"
	}
	if par == nil || len(par.outs) == 0 {
		w.r.Hit("gen:ghost-child:no-" + class + "-parent")
		return
	}
	n := len(par.outs)
	v := voutsBeyond[w.gx.Intn(len(voutsBeyond))]
	if w.gx.Chance(1, 2) {
		v = voutsBeyond[0]
	}
	coins := []*chainkit.Coin{ghostAt(par.outs[0], v.off(n))}
	if free := w.freeCoins(false); len(free) > 0 && w.gx.Chance(1, 2) {
		coins = append(coins, free[w.gx.Intn(len(free))])
		if w.gx.Bool() {
			coins[0], coins[1] = coins[1], coins[0]
		}
	}
	w.r.Hit("gen:ghost-child:" + class + "-parent:vout-" + v.name)
	w.r.Hit("gen:ghost-child:parent-outs:" + bucket(n))
	code := w.submit(w.spendX(coins, 1, w.feeX(len(coins), 1)), w.modeX())
	if code == 0 {
		w.propFail("boundary:ghost-child-pooled", "a transaction naming an output that does not exist is pooled")
	}
}

// ------------------------------------------------------------------------------------------ AllowMemInputs = false

// scNotMined runs in a world with CFG.TXPool.AllowMemInputs = false.
func scNotMined(w *World) {
	if !w.noMem {
		panic("scNotMined needs a world with AllowMemInputs off")
	}
	const NM = txpool.TX_REJECTED_NOT_MINED
	fc := w.freeCoins(true)
	one := func(c *chainkit.Coin) []*chainkit.Coin { return []*chainkit.Coin{c} }
	p := w.spend(fc[:1], 3, 5000, nil, false)
	w.expect("nomem-confirmed-inputs-net", w.submit(p, "net"), 0)
	// children of a pooled parent
	c1 := w.spend(p.outs[:1], 2, 3000, nil, false)
	w.expect("nomem-child-net", w.submit(c1, "net"), NM)
	w.expect("nomem-child-net-again", w.submit(c1, "net"), 1002)  // remembered (with data)
	w.expect("nomem-child-again-local", w.submit(c1, "local"), 0) // LoadRawTx drops the record; local = trusted
	c2 := w.spend(p.outs[1:2], 1, 3000, nil, false)
	w.expect("nomem-child-trusted", w.submit(c2, "trusted"), 0)
	mix := w.spend([]*chainkit.Coin{fc[1], p.outs[2]}, 1, 4000, nil, false) // a confirmed and an unconfirmed input
	w.expect("nomem-mixed-inputs-net", w.submit(mix, "net"), NM)
	mix2 := w.spend([]*chainkit.Coin{p.outs[2], fc[1]}, 1, 4500, nil, false)
	w.expect("nomem-mixed-inputs-local", w.submit(mix2, "local"), 0)
	g1 := w.spend(c1.outs[:1], 1, 2000, nil, false)
	w.expect("nomem-grandchild-net", w.submit(g1, "net"), NM)
	// a missing output of a pooled parent: BAD_INPUT comes before the NOT_MINED test
	bv := w.spend(one(ghostAt(p.outs[0], 3)), 1, 2000, nil, false)
	w.expect("nomem-child-vout-len-net", w.submit(bv, "net"), txpool.TX_REJECTED_BAD_INPUT)
	// a child of the NOT_MINED-refused grandchild: untrusted NOT_MINED again, trusted BAD_PARENT
	gg := w.spend(g1.outs[:1], 1, 1500, nil, false)
	w.expect("nomem-child-of-refused-net", w.submit(gg, "net"), NM)
	gg2 := w.spend(g1.outs[:1], 1, 1600, nil, false)
	w.expect("nomem-child-of-refused-trusted", w.submit(gg2, "trusted"), txpool.TX_REJECTED_BAD_PARENT)
	// orphans: the parent h is held back
	h := w.spend(fc[2:3], 3, 5000, nil, false)
	o1 := w.spend(h.outs[:1], 1, 2000, nil, false)
	o2 := w.spend(h.outs[1:2], 1, 2000, nil, false)
	o3 := w.spend(h.outs[2:3], 1, 2000, nil, false)
	w.expect("nomem-orphan-net", w.submit(o1, "net"), NM)
	w.expect("nomem-orphan-trusted", w.submit(o2, "trusted"), txpool.TX_REJECTED_NO_TXOU)
	w.expect("nomem-orphan-local", w.submit(o3, "local"), txpool.TX_REJECTED_NO_TXOU)
	// the parent arrives: txAccepted re-submits the waiting orphans as UNtrusted transactions
	w.expect("nomem-orphans-parent-net", w.submit(h, "net"), 0)
	if !w.dead && !w.failed {
		for _, o := range []*txInfo{o2, o3} {
			if w.inPool(o) {
				w.r.Hit("nomem:waiting-orphan-pooled-by-txAccepted")
			} else {
				w.r.Hit("nomem:waiting-orphan-refused-by-txAccepted")
			}
		}
	}
	wantO2 := codeIf(w.inPool(o2), 1001, 0)
	w.expect("nomem-former-orphan-again-local", w.submit(o2, "local"), wantO2)
	// the same with the parent arriving in a block: the orphans then spend confirmed outputs
	h2 := w.spend(fc[3:4], 2, 5000, nil, false)
	q1 := w.spend(h2.outs[:1], 1, 2000, nil, false)
	q2 := w.spend(h2.outs[1:2], 1, 2000, nil, false)
	w.expect("nomem-orphan2-trusted", w.submit(q1, "trusted"), txpool.TX_REJECTED_NO_TXOU)
	w.expect("nomem-orphan2-net", w.submit(q2, "net"), NM)
	w.mine([]*txInfo{h2, p})
	if !w.dead && !w.failed && !w.inPool(q1) {
		w.tieFail("boundary-result:nomem-orphan-after-block", "an orphan accepted from a trusted peer is not pooled after its parent has been mined")
	}
	w.expect("nomem-refused-after-block-net", w.submit(q2, "net"), 1002) // still remembered as NOT_MINED
	w.expect("nomem-refused-after-block-local", w.submit(q2, "local"), 0)
	// replacement of a pooled tx by an untrusted peer: confirmed inputs only
	var nf []uint32
	if w.notFullRBF {
		nf = []uint32{0xfffffffd} // (replaceable under NotFullRBF)
	}
	r1 := w.spend(fc[4:5], 1, 3000, nf, false)
	w.submit(r1, "net")
	r2 := w.spend(fc[4:5], 1, 30000, nf, false)
	w.expect("nomem-rbf-confirmed-net", w.submit(r2, "net"), 0)
	r3 := w.spend([]*chainkit.Coin{fc[4], c2.outs[0]}, 1, 90000, nil, false)
	w.expect("nomem-rbf-with-mem-input-net", w.submit(r3, "net"), NM)
	w.undoBare() // p and h2 come back (BlockUndone: trusted, unmined)
	w.reload()
	w.mine(w.pooled())
}

func codeIf(b bool, x, y int) int {
	if b {
		return x
	}
	return y
}

// ------------------------------------------------------------------------------------------ usif.LoadRawTx

// scLoadRawPooled: the web / text UI's "load transaction" on transactions the pool already knows.
func scLoadRawPooled(w *World) {
	fc := w.freeCoins(true)
	isLocal := func(ti *txInfo) bool {
		t2s := txpool.TransactionsToSend[ti.tx.Hash.BIdx()]
		return t2s != nil && t2s.Local
	}
	own := func(name string, ti *txInfo, want bool) {
		if w.dead || w.failed {
			return
		}
		if isLocal(ti) != want {
			w.tieFail("boundary-result:"+name, fmt.Sprintf("%s: Local flag of the pooled record is %v", name, !want))
		}
	}
	// pooled from the network, then loaded by the operator: made "own"
	a := w.spend(fc[:1], 2, 3000, nil, false)
	w.submit(a, "net")
	own("loadraw-net-pooled-before", a, false)
	ch := w.spend(a.outs[:1], 1, 2500, nil, false)
	w.submit(ch, "net")
	w.expect("loadraw-pooled-by-net", w.submit(a, "local"), 1001)
	own("loadraw-net-pooled-made-own", a, true)
	own("loadraw-child-untouched", ch, false)
	w.expect("loadraw-pooled-own-already", w.submit(a, "local"), 1001) // Local is set already
	own("loadraw-own-stays-own", a, true)
	w.expect("loadraw-pooled-own-net-again", w.submit(a, "net"), 1001)
	own("loadraw-own-stays-own-after-net", a, true)
	// pooled by a trusted peer / by the operator
	b := w.spend(fc[1:2], 1, 3000, nil, false)
	w.submit(b, "trusted")
	w.expect("loadraw-pooled-by-trusted", w.submit(b, "local"), 1001)
	own("loadraw-trusted-pooled-made-own", b, true)
	c := w.spend(fc[2:3], 1, 3000, nil, false)
	w.expect("loadraw-fresh", w.submit(c, "local"), 0)
	w.expect("loadraw-pooled-by-local", w.submit(c, "local"), 1001)
	// the flag goes through the pool file and through a block that is undone
	w.reload()
	own("loadraw-own-after-reload", a, true)
	own("loadraw-child-after-reload", ch, false)
	// rejected, id only (OVERSPEND): the record is dropped, the tx tried again, refused again
	over := w.mkTx(fc[3:4], nil, []chainkit.OutSpec{{Value: fc[3].Value + 1, Script: chainkit.AnyoneScript}}, false)
	w.expect("loadraw-overspend-net", w.submit(over, "net"), txpool.TX_REJECTED_OVERSPEND)
	w.expect("loadraw-rejected-nodata", w.submit(over, "local"), txpool.TX_REJECTED_OVERSPEND)
	// rejected with data: RBF_LOWFEE from the network, accepted from the operator (no fee comparison for own txs)
	lf := w.spend(fc[:1], 1, 200, nil, false) // conflicts with a (and so with ch)
	w.expect("loadraw-rbf-lowfee-net", w.submit(lf, "net"), txpool.TX_REJECTED_RBF_LOWFEE)
	w.expect("loadraw-rejected-withdata", w.submit(lf, "local"), 0)
	own("loadraw-replacement-own", lf, true)
	// a was replaced (REPLACED record with data): loaded again it replaces the replacement
	w.expect("loadraw-replaced-again", w.submit(a, "local"), 0)
	// an orphan: waits again
	hp := w.spend(fc[4:5], 1, 3000, nil, false)
	o := w.spend(hp.outs[:1], 1, 2000, nil, false)
	w.expect("loadraw-orphan-net", w.submit(o, "net"), txpool.TX_REJECTED_NO_TXOU)
	w.expect("loadraw-rejected-orphan", w.submit(o, "local"), txpool.TX_REJECTED_NO_TXOU)
	w.submit(hp, "net")
	own("loadraw-resolved-orphan-not-own", o, false) // (txAccepted re-submits it as a network transaction)
	w.expect("loadraw-pooled-former-orphan", w.submit(o, "local"), 1001)
	own("loadraw-former-orphan-made-own", o, true)
	// below the fee floor: not remembered; the operator's copy goes in
	low := w.spend(fc[5:6], 1, 5, nil, false)
	w.expect("loadraw-lowfee-net", w.submit(low, "net"), txpool.TX_REJECTED_LOW_FEE)
	w.expect("loadraw-lowfee-local", w.submit(low, "local"), 0)
	// mined: not wanted (4); nothing pooled to flag
	w.mine([]*txInfo{b, c})
	w.expect("loadraw-mined", w.submit(b, "local"), 1004)
	w.undoBare() // b and c are back as unmined records (not own any more)
	w.expect("loadraw-unmined", w.submit(b, "local"), 1001)
	own("loadraw-unmined-made-own", b, true)
	w.mine(w.pooled())
}

// loadRawAgain — random histories: LoadRawTx on a transaction the pool has (not own yet / own already) or has refused.
func (w *World) loadRawAgain() {
	var notOwn, isOwn, rej []*txInfo
	for _, ti := range w.order {
		b := ti.tx.Hash.BIdx()
		if t2s := txpool.TransactionsToSend[b]; t2s != nil {
			if t2s.Local {
				isOwn = append(isOwn, ti)
			} else {
				notOwn = append(notOwn, ti)
			}
		} else if txpool.TransactionsRejected[b] != nil {
			rej = append(rej, ti)
		}
	}
	try := func(l []*txInfo, key string) bool {
		if len(l) == 0 {
			return false
		}
		ti := l[w.gx.Intn(len(l))]
		if !ti.scriptOK {
			return false
		}
		w.r.Hit("gen:loadraw-" + key)
		w.submit(ti, "local")
		return true
	}
	switch x := w.gx.Intn(6); {
	case x < 3 && try(notOwn, "pooled-not-own"):
	case x < 4 && try(isOwn, "pooled-own"):
	case try(rej, "rejected"):
	case try(notOwn, "pooled-not-own"):
	default:
		w.r.Hit("gen:loadraw-again:nothing")
	}
}

// ------------------------------------------------------------------------------------------ deep orphans

type deepParams struct {
	k       int  // length of the staged chain P1 ← … ← Pk (P1 spends the root X)
	orphans int  // orphans, each spending one output of EVERY Pi
	order   int  // the parents arrive 0 = in chain order, 1 = in reverse order, 2 = in random order
	late    int  // that many of the orphans arrive in the middle of the parents instead of first
	byBlock bool // the root arrives in a block (BlockMined → txAccepted) instead of through the network
	mode    func() string
	g       *vlib.Rng
	must    bool // corpus: everything has to be pooled in the end
}

// deepOrphan builds and submits the family; true when every member ended up in the pool.
func (w *World) deepOrphan(p deepParams) bool {
	const pfee, oval = 3000, 20000
	need := uint64(p.k*(pfee+p.orphans*oval) + 100000)
	var src *chainkit.Coin
	for _, c := range w.freeCoins(true) {
		if !c.Coinbase && c.Value >= need {
			src = c
			break
		}
	}
	if src == nil {
		w.r.Hit("gen:deep-orphan:no-coin")
		return false
	}
	kind := func() []byte { return w.scriptKind(p.g.Intn(4)) }
	x := w.mkTx([]*chainkit.Coin{src}, nil, []chainkit.OutSpec{{Value: src.Value - 4000, Script: kind()}}, false)
	prev := x.outs[0]
	var ps []*txInfo
	oins := make([][]*chainkit.Coin, p.orphans)
	for i := 0; i < p.k; i++ {
		outs := []chainkit.OutSpec{{Value: prev.Value - pfee - uint64(p.orphans*oval), Script: kind()}}
		for j := 0; j < p.orphans; j++ {
			outs = append(outs, chainkit.OutSpec{Value: oval, Script: kind()})
		}
		pi := w.mkTx([]*chainkit.Coin{prev}, nil, outs, false)
		ps = append(ps, pi)
		prev = pi.outs[0]
		for j := 0; j < p.orphans; j++ {
			oins[j] = append(oins[j], pi.outs[1+j])
		}
	}
	var os_ []*txInfo
	for j := 0; j < p.orphans; j++ {
		ins := oins[j]
		if j%2 == 1 { // (the inputs of every second orphan in reverse chain order: it waits for Pk first)
			ins = nil
			for i := len(oins[j]) - 1; i >= 0; i-- {
				ins = append(ins, oins[j][i])
			}
		}
		fee := uint64(2500*p.k + 5000 + 100*j)
		os_ = append(os_, w.mkTx(ins, nil, []chainkit.OutSpec{{Value: uint64(p.k*oval) - fee, Script: kind()}}, false))
	}
	w.r.Hit("gen:deep-orphan:k-" + bucket(p.k))
	w.r.Hit(fmt.Sprintf("gen:deep-orphan:order-%d", p.order))
	w.r.Hit(fmt.Sprintf("gen:deep-orphan:orphans-%d", p.orphans))
	// arrival
	late := p.late
	if late > len(os_) {
		late = len(os_)
	}
	for _, o := range os_[:len(os_)-late] {
		w.submit(o, p.mode())
	}
	idx := make([]int, p.k)
	for i := range idx {
		idx[i] = i
	}
	switch p.order {
	case 1:
		for i := range idx {
			idx[i] = p.k - 1 - i
		}
	case 2:
		for i := p.k - 1; i > 0; i-- {
			j := p.g.Intn(i + 1)
			idx[i], idx[j] = idx[j], idx[i]
		}
	}
	for n, i := range idx {
		if n == p.k/2 {
			for _, o := range os_[len(os_)-late:] {
				w.submit(o, p.mode())
			}
		}
		if w.failed || w.dead {
			return false
		}
		w.submit(ps[i], p.mode())
	}
	staged := 0
	for _, ti := range append(append([]*txInfo{}, ps...), os_...) {
		if rec := txpool.TransactionsRejected[ti.tx.Hash.BIdx()]; rec != nil && rec.Tx != nil && rec.Waiting4 != nil {
			staged++
		}
	}
	w.r.Hit("gen:deep-orphan:staged-" + bucket(staged))
	if p.byBlock {
		w.r.Hit("gen:deep-orphan:root-in-block")
		if !w.mine([]*txInfo{x}) {
			return false
		}
	} else {
		w.submit(x, p.mode())
	}
	if w.failed || w.dead {
		return false
	}
	all := p.byBlock || w.inPool(x)
	for _, ti := range append(append([]*txInfo{}, ps...), os_...) {
		all = all && w.inPool(ti)
	}
	if all {
		w.r.Hit("gen:deep-orphan:all-pooled")
	} else {
		w.r.Hit("gen:deep-orphan:not-all-pooled")
		if os.Getenv("VERIF_C12_DEBUG") != "" {
			for i, ti := range append(append([]*txInfo{x}, ps...), os_...) {
				rec := txpool.TransactionsRejected[ti.tx.Hash.BIdx()]
				fmt.Fprintln(realErr, "DEEP", i, btc.BIdxString(ti.tx.Hash.BIdx()), "pooled", w.inPool(ti), "rej", rec != nil, func() string {
					if rec == nil {
						return ""
					}
					return fmt.Sprint(rec.Reason, rec.Tx != nil, rec.Waiting4 != nil)
				}())
			}
		}
		if p.must {
			w.tieFail("boundary-result:deep-orphan-incomplete", fmt.Sprintf("deep orphan family (k=%d, %d orphans, order %d): not every member is pooled after the root has arrived", p.k, p.orphans, p.order))
		}
	}
	return all
}

// scDeepOrphan20: the auditor's input (k = 20, orphan first, parents in chain order, root last) and its variations.
func scDeepOrphan20(w *World) {
	net := func() string { return "net" }
	for i, p := range []deepParams{
		{k: 20, orphans: 1, order: 0},
		{k: 20, orphans: 1, order: 1, byBlock: true},
		{k: 20, orphans: 2, order: 2},
		{k: 20, orphans: 2, order: 0, late: 1, byBlock: true},
	} {
		// with the harness's small reject ring (24 slots, every re-submission of the orphan takes a new one) only the
		// chain-order arrival keeps every staged record alive; a ring of the size the client's configuration allows
		// (>= 100) keeps them in every order
		p.mode, p.g, p.must = net, w.g, w.ring >= 100 || p.order == 0 && p.late == 0
		if w.ring < 100 && i >= 2 {
			break // (the small ring: the auditor's input and its mirror image are enough)
		}
		w.deepOrphan(p)
		if w.failed || w.dead {
			return
		}
		if i%2 == 1 {
			w.reload()
		}
		w.mine(w.pooled())
	}
}

// scDeepOrphanK: the family with parameters from the PRNG (k in 2 … 24; with k + orphans beyond the reject ring's
// capacity the oldest staged records are overwritten - then not everything can come back, model and gocoin must still agree).
func scDeepOrphanK(w *World) {
	for round := 0; round < 3 && !w.failed && !w.dead; round++ {
		p := deepParams{k: 2 + w.g.Intn(23), orphans: 1 + w.g.Intn(3), order: w.g.Intn(3), byBlock: w.g.Chance(1, 3), mode: w.randMode, g: w.g}
		if round == 0 {
			p.k = 14 + w.g.Intn(7) // (one that fits into the ring for sure, with several orphans)
			p.orphans = 2
			p.mode = func() string { return "net" }
		}
		p.late = w.g.Intn(p.orphans + 1)
		p.must = p.k+p.orphans+p.k*p.orphans <= w.ring-2 && !w.noMem // (every arrival and every re-submission takes a new ring slot)
		if p.must {                                                  // (a trusted / local submission of a staged member is fine, but must not be below the floor etc.: keep to what is certain)
			p.mode = func() string { return "net" }
		}
		w.deepOrphan(p)
		if w.g.Bool() {
			w.mine(w.listingOrder()[:len(w.pooled())/2])
		}
	}
	w.mine(w.pooled())
}

// ------------------------------------------------------------------------------------------ random histories

// extra: now and then (own stream) one of the boundary operations is put in front of a step of a random history.
func (w *World) extra(held []*txInfo) {
	if w.failed || w.dead {
		return
	}
	switch x := w.gx.Intn(1000); {
	case x < 25:
		w.coinbaseNear()
	case x < 50:
		w.ghostChild(held)
	case x < 70:
		w.loadRawAgain()
	case x < 78: // a multi-parent orphan over 3 … 8 staged parents
		p := deepParams{k: 3 + w.gx.Intn(6), orphans: 1 + w.gx.Intn(2), order: w.gx.Intn(3), byBlock: w.gx.Chance(1, 3), g: w.gx}
		p.late = w.gx.Intn(p.orphans + 1)
		p.mode = w.modeX
		if !w.noMem && w.gx.Bool() {
			p.mode = func() string { return "net" }
		}
		w.r.Hit("gen:deep-orphan:in-random-history")
		w.deepOrphan(p)
	}
}

var _ = btc.BIdxString
