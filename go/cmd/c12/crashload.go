package main

// crashload.go — MempoolLoad() on a mempool.dmp that is NOT the complete file of the current tip: cut short at any byte
// (the node died while MempoolSave was writing the file in place), END marker damaged, unsupported version, written for
// another tip (the node died after connecting blocks, before saving the pool again), or missing. client/main.go ignores
// MempoolLoad's result and goes on with whatever the pool holds, so the state after a refused load is a state of the
// property's quantifier ("save and reload of the pool file"): it must be the freshly initialised pool (the model's
// `loadfail` = Model/MempoolLoad.lean loadRefused) and the history continues from there.
//
//   refusedLoads : inside every reload(), between MempoolSave and the good MempoolLoad: a handful of damaged variants of
//                  the file just written are loaded first; each must be refused and leave nothing behind
//   crashLoad    : an operation of its own: the damaged file is what the node starts with; the model is told `loadfail`
//                  and the emptied pool is verified and used by the rest of the history

import (
	"bytes"
	"fmt"
	"os"
	"sort"
	"strings"

	"github.com/piotrnar/gocoin/client/common"
	"github.com/piotrnar/gocoin/client/txpool"
	"verif/chainkit"
)

// poolResidue describes what a pool that should be as InitMempool() leaves it still holds ("" = nothing). TxMutex locked.
func poolResidue() string {
	var r []string
	add := func(n int, what string) {
		if n != 0 {
			r = append(r, fmt.Sprintf("%d %s", n, what))
		}
	}
	add(len(txpool.TransactionsToSend), "records in TransactionsToSend")
	add(len(txpool.SpentOutputs), "entries in SpentOutputs")
	add(len(txpool.TransactionsRejected), "records in TransactionsRejected")
	add(len(txpool.WaitingForInputs), "lists in WaitingForInputs")
	add(len(txpool.RejectedSpentOutputs), "lists in RejectedSpentOutputs")
	add(len(txpool.FeePackages), "fee packages")
	add(int(txpool.TransactionsToSendSize), "bytes in TransactionsToSendSize")
	add(int(txpool.TransactionsToSendWeight), "in TransactionsToSendWeight")
	if txpool.BestT2S != nil || txpool.WorstT2S != nil {
		r = append(r, "a non-empty sorted list")
	}
	return strings.Join(r, ", ")
}

// cutPoints returns interesting offsets of the file just written, derived from the data in it (no knowledge of the
// record layout): around the header fields, start / middle / end of every pooled transaction's bytes and a little
// behind them (the fixed fields of the record), the ids of the rejected records, around the END marker.
func cutPoints(full []byte) (fixed, data []int) {
	n := len(full)
	for _, o := range []int{0, 1, 31, 32, 33, 36, 37, 38, n - len(txpool.END_MARKER) - 1, n - len(txpool.END_MARKER), n - len(txpool.END_MARKER) + 1, n - 1} {
		if o >= 0 && o < n {
			fixed = append(fixed, o)
		}
	}
	txpool.TxMutex.Lock()
	for _, t := range txpool.TransactionsToSend {
		if i := bytes.Index(full, t.Raw); i >= 0 {
			data = append(data, i, i+len(t.Raw)/2, i+len(t.Raw), i+len(t.Raw)+1, i+len(t.Raw)+30)
		}
	}
	for _, rec := range txpool.TransactionsRejected {
		if i := bytes.LastIndex(full, rec.Id.Hash[:]); i >= 0 {
			data = append(data, i, i+32, i+36, i+41)
		}
	}
	txpool.TxMutex.Unlock()
	var d2 []int
	for _, o := range data {
		if o > 0 && o < n {
			d2 = append(d2, o)
		}
	}
	sort.Ints(d2) // (map order above)
	return fixed, d2
}

// damaged returns a variant of the complete file that MempoolLoad must refuse, and a description.
func (w *World) damaged(full []byte, kind string, g interface{ Intn(int) int }) ([]byte, string) {
	switch kind {
	case "cut":
		fixed, data := cutPoints(full)
		var off int
		switch x := g.Intn(10); {
		case x < 2 || len(data) == 0 && x < 6:
			off = fixed[g.Intn(len(fixed))]
		case x < 8 && len(data) > 0:
			off = data[g.Intn(len(data))]
		default:
			off = g.Intn(len(full))
		}
		return full[:off], fmt.Sprintf("cut at %d of %d", off, len(full))
	case "marker": // everything is read, the last check fails
		b := append([]byte(nil), full...)
		b[len(b)-1-g.Intn(len(txpool.END_MARKER))] ^= 0x20
		return b, "END marker damaged"
	case "version":
		b := append([]byte(nil), full...)
		b[33] ^= byte(1 + g.Intn(5)) // low byte of the version vlen (0xfe + 4 bytes LE)
		return b, "unsupported file version"
	case "tip":
		b := append([]byte(nil), full...)
		b[g.Intn(32)] ^= 0x01
		return b, "file written for another tip"
	}
	return nil, "file missing"
}

// writeDump puts b in place of the pool file (nil = no file); false = the environment did not let us (a full /tmp,
// shared by many harnesses, must not look like a defect of the loader).
func writeDump(b []byte) bool {
	name := common.GocoinHomeDir + txpool.MEMPOOL_FILE_NAME
	if b == nil {
		os.Remove(name)
		_, err := os.Stat(name)
		return os.IsNotExist(err)
	}
	if os.WriteFile(name, b, 0600) != nil {
		return false
	}
	back, err := os.ReadFile(name)
	return err == nil && bytes.Equal(back, b)
}

// loadMustRefuse runs MempoolLoad on the damaged file and judges the real pool: the load is refused and nothing stays
// behind. Returns false when that is not so (reported).
func (w *World) loadMustRefuse(what string) bool {
	ok := true
	var pan string
	func() {
		defer func() {
			if x := recover(); x != nil {
				pan = fmt.Sprint(x)
			}
		}()
		ok = txpool.MempoolLoad()
	}()
	w.r.Hit("refused-load:" + what[:strings.IndexByte(what+" ", ' ')])
	if pan != "" {
		w.propFail("panic:load", "MempoolLoad ("+what+") panics: "+pan)
		return false
	}
	if ok {
		w.propFail("damaged-load-accepted", "MempoolLoad accepts a damaged mempool.dmp ("+what+")")
		return false
	}
	txpool.TxMutex.Lock()
	defer txpool.TxMutex.Unlock()
	if res := poolResidue(); res != "" {
		// what the property says about such a pool
		w.note = "after MempoolLoad refused mempool.dmp (" + what + ", pool left with " + res + "): "
		before := w.propFailed
		var listing []*txpool.OneTxToSend
		func() {
			defer func() { recover() }()
			listing = txpool.GetSortedMempoolRBF()
		}()
		w.checkProperty(listing, true)
		if !w.propFailed || before {
			w.tieFail("model-mismatch:refused-load", "a refused MempoolLoad ("+what+") does not leave the pool as InitMempool() makes it: "+res)
		}
		w.note = ""
		return false
	}
	w.r.TieOK()
	return true
}

// refusedLoads: part of reload() - `full` is the file MempoolSave has just written.
func (w *World) refusedLoads(full []byte) bool {
	kinds := []string{"cut", "cut", "cut", "cut", "cut", "cut", "marker", "version", "tip", "missing"}
	n := 3 + w.gv.Intn(6)
	for i := 0; i < n; i++ {
		b, what := w.damaged(full, kinds[w.gv.Intn(len(kinds))], w.gv)
		if !writeDump(b) {
			w.r.Hit("env:mempool-file-not-written")
			break
		}
		if !w.loadMustRefuse(what) {
			writeDump(full)
			return false
		}
	}
	return writeDump(full)
}

// crashLoad: the node restarts on a damaged mempool.dmp; kind "stale" = the file is complete but blocks were connected
// after it was written.
func (w *World) crashLoad(kind string) {
	if w.dead {
		return
	}
	var full []byte
	envFail := false
	pan, hung := w.guarded("MempoolSave", func() {
		txpool.MempoolSave(true)
		b, err := os.ReadFile(common.GocoinHomeDir + txpool.MEMPOOL_FILE_NAME)
		if err != nil || !bytes.HasSuffix(b, txpool.END_MARKER) {
			envFail = true
		}
		full = b
	})
	if envFail {
		w.r.Hit("env:mempool-file-not-written")
		return // (nothing has been told to the model yet)
	}
	if hung || pan != "" {
		w.propFail("panic:save", "MempoolSave: "+pan)
		return
	}
	var b []byte
	var what string
	k, j := 0, "-"
	if kind == "stale" {
		pool := w.pooled()
		if !w.mine(pool[:len(pool)/2]) { // an ordinary, verified operation; nobody saves the pool after it
			return
		}
		b, what = full, "file written before the last block"
	} else {
		b, what = w.damaged(full, kind, w.g)
		// what the loader gets to see before it fails (an input of the model's loadfail; the result does not depend on it)
		txpool.TxMutex.Lock()
		for _, t := range txpool.TransactionsToSend {
			if i := bytes.Index(full, t.Raw); i >= 0 && i+len(t.Raw)+56 <= len(b) {
				k++
			}
		}
		if k == len(txpool.TransactionsToSend) && len(b) > 38 {
			nj := 0
			for _, rec := range txpool.TransactionsRejected {
				if i := bytes.LastIndex(full, rec.Id.Hash[:]); i >= 0 && i+40 <= len(b) {
					nj++
				}
			}
			j = fmt.Sprint(nj)
		}
		txpool.TxMutex.Unlock()
		if kind != "cut" && kind != "marker" {
			k, j = 0, "-"
		}
	}
	w.steps++
	w.mustOK(fmt.Sprintf("loadfail %d %s", k, j))
	good := false
	pan, hung = w.guarded("MempoolLoad", func() {
		if !writeDump(b) {
			w.r.Hit("env:mempool-file-not-written")
			txpool.InitMempool() // (the model has been told: keep the two in step without judging the loader)
			return
		}
		good = w.loadMustRefuse(what)
	})
	w.r.Hit("op:crash-load-" + kind)
	if hung {
		w.propFail("hang:load", "MempoolLoad ("+what+") does not return")
		return
	}
	if pan != "" {
		w.propFail("panic:load", "MempoolLoad ("+what+"): "+pan)
		return
	}
	_ = good
	w.verify()
}

// the pool of a node that restarts on a damaged pool file, and what happens to it afterwards
func scCrashLoad(w *World) {
	build := func(off int) (a, b *txInfo) {
		fc := w.freeCoins(true)
		a = w.spend(fc[off:off+1], 2, 3000, nil, false)
		w.submit(a, "net")
		b = w.spend(a.outs[:1], 2, 5000, nil, false)
		w.submit(b, "net")
		c := w.spend([]*chainkit.Coin{a.outs[1], b.outs[0]}, 1, 2500, nil, false) // two pooled parents
		w.submit(c, "trusted")
		d := w.spend(fc[off+1:off+2], 1, 4000, nil, false)
		w.submit(d, "local")
		lo := w.spend(fc[off+1:off+2], 1, 1500, nil, false) // RBF_LOWFEE: rejected, kept with its data
		w.submit(lo, "net")
		p := w.spend(fc[off+2:off+3], 1, 3000, nil, false) // held back
		o := w.spend(p.outs[:1], 1, 2000, nil, false)
		w.submit(o, "net") // orphan: waiting for p
		over := w.mkTx(fc[off+3:off+4], nil, []chainkit.OutSpec{{Value: fc[off+3].Value + 1, Script: chainkit.AnyoneScript}}, false)
		w.submit(over, "net") // rejected without data
		return a, b
	}
	a, b := build(0)
	w.crashLoad("cut")
	// the emptied pool takes a conflicting spend of a's coin, a's child is an orphan now, a itself has to fight the conflict
	fc := w.freeCoins(true)
	var ac *chainkit.Coin
	if c := w.coinOf(a.tx.TxIn[0].Input); c != nil {
		ac = c
	} else {
		ac = fc[0]
	}
	a2 := w.spend([]*chainkit.Coin{ac}, 1, 2000, nil, false)
	w.submit(a2, "net")
	w.submit(b, "net")
	w.submit(a, "net")
	w.mine(w.pooled()[:1])
	for _, kind := range []string{"marker", "cut", "stale", "version", "cut", "missing", "tip", "cut"} {
		build(0)
		w.crashLoad(kind)
		if kind == "cut" {
			w.reload() // ... and the emptied pool is saved and loaded
		}
	}
	build(0)
	w.mine(w.pooled())
}
