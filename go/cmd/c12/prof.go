package main

// prof.go — optional wall-time accounting of the harness's own phases (VERIF_PROF=1), printed to the real stderr.

import (
	"fmt"
	"os"
	"sort"
	"time"
)

var profOn = os.Getenv("VERIF_PROF") != ""
var profAcc = map[string]time.Duration{}
var profCnt = map[string]int{}

func prof(name string) func() {
	if !profOn {
		return func() {}
	}
	t := time.Now()
	return func() { profAcc[name] += time.Since(t); profCnt[name]++ }
}

func profPrint() {
	if !profOn {
		return
	}
	var ks []string
	for k := range profAcc {
		ks = append(ks, k)
	}
	sort.Strings(ks)
	for _, k := range ks {
		fmt.Fprintf(realErr, "PROF %-28s %8.2fs  n=%d\n", k, profAcc[k].Seconds(), profCnt[k])
	}
}
