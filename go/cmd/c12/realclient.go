package main

// realclient.go — the REPLICA NODE: the wiring between the chain and the pool that lives in gocoin's `client` program
// itself (package main: blockMined / blockUndone of client/main.go, installed by client/init.go as the chain's callbacks;
// LocalAcceptBlock, which stamps every block with the height of the best known header before it commits it) cannot be
// imported, and the in-process world of world.go therefore applies that wiring itself. Here the client is compiled with
// clientdrv.go.txt added to its package through `go build -overlay` (the repository tree is not touched) and run as a
// child process; every operation of a scenario's history is handed to it as well, and after each the child's pool
// (txid, fee, MemInputs of every record; size of SpentOutputs) must equal the in-process pool - which has just been
// compared with the Lean model and judged by the property's predicate - and the child's own evaluation of the predicate
// (inputs spendable against ITS UTXO db, nothing pooled confirmed, no double spend, MempoolCheck) must be clean.
//
// What the in-process world cannot vary is the node's SYNC STATE: there every block arrives alone and LastKnownHeight
// is 0. The replica learns the headers of a whole stretch of blocks before the blocks come (header-first download: a node
// that was off, a node catching up, a branch announced ahead), so each block is committed while the best known header is
// 0 … several hundred blocks above it - on both sides of every "am I syncing?" threshold of the client - with a pool
// that is not empty (it was loaded from mempool.dmp at start-up, or the node simply fell behind).

import (
	"bufio"
	_ "embed"
	"encoding/hex"
	"encoding/json"
	"fmt"
	"io"
	"os"
	"os/exec"
	"path/filepath"
	"sort"
	"strings"
	"time"

	"github.com/piotrnar/gocoin/client/common"
	"github.com/piotrnar/gocoin/client/txpool"
	"verif/chainkit"
	"verif/vtrans"
)

//go:embed clientdrv.go.txt
var clientDrvSrc []byte

type drvBuild struct {
	dir, bin, err string
}

var theDrv *drvBuild

// buildDrv compiles <repo>/client with clientdrv.go.txt added to the package through an overlay (once per run)
func buildDrv() *drvBuild {
	if theDrv != nil {
		return theDrv
	}
	defer prof("replica.build")()
	d := &drvBuild{}
	theDrv = d
	dir, err := os.MkdirTemp("", "vc12drv")
	if err != nil {
		d.err = "env: " + err.Error()
		return d
	}
	d.dir = dir
	src := filepath.Join(dir, "drv.go")
	os.WriteFile(src, clientDrvSrc, 0600)
	root := vtrans.RepoRoot()
	ov, _ := json.Marshal(map[string]interface{}{"Replace": map[string]string{filepath.Join(root, "client", "zz_verif_c12_drv.go"): src}})
	ovf := filepath.Join(dir, "overlay.json")
	os.WriteFile(ovf, ov, 0600)
	d.bin = filepath.Join(dir, "client")
	cmd := exec.Command("go", "build", "-tags", "verif", "-overlay", ovf, "-o", d.bin, "./client")
	cmd.Dir = root
	cmd.Env = append(os.Environ(), "GOFLAGS=-mod=mod")
	if out, err := cmd.CombinedOutput(); err != nil {
		d.err = err.Error() + ": " + string(out)
	}
	return d
}

func cleanDrv() {
	if theDrv != nil && theDrv.dir != "" {
		os.RemoveAll(theDrv.dir)
	}
}

// mirror: the replica node of one world
type mirror struct {
	w        *World
	cmd      *exec.Cmd
	in       io.WriteCloser
	out      *bufio.Reader
	dir      string
	deferred bool  // operations are queued (the stretch of blocks whose headers the replica learns first)
	queue    []mop // … with the in-process pool after each
	off      bool  // given up (reported)
	ahead    int   // headers known above the block being committed (for messages)
}

type mop struct {
	lines []string
	what  string
	want  string
	hdr   string // header of the block (blk operations)
}

func (m *mirror) ask(line string) string {
	if m.cmd == nil {
		return "crash"
	}
	if _, err := io.WriteString(m.in, line+"\n"); err != nil {
		m.kill()
		return "crash"
	}
	ans, err := m.out.ReadString('\n')
	if err != nil {
		m.kill()
		return "crash"
	}
	return strings.TrimSpace(ans)
}

func (m *mirror) kill() {
	if m.cmd != nil {
		m.in.Close()
		m.cmd.Process.Kill()
		m.cmd.Wait()
		m.cmd = nil
	}
}

func (m *mirror) close() {
	if m.cmd != nil {
		m.in.Close() // the driver closes its chain and exits
		done := make(chan bool, 1)
		go func() { m.cmd.Wait(); done <- true }()
		select {
		case <-done:
		case <-time.After(10 * time.Second):
			m.cmd.Process.Kill()
			<-done
		}
		m.cmd = nil
	}
	if m.dir != "" {
		os.RemoveAll(m.dir)
	}
}

// startMirror starts the replica of w's node and brings it to w's tip (every block of the setup chain goes through the
// client's LocalAcceptBlock, one at a time: a node in sync). false = no replica (reported where it is a finding).
func (w *World) startMirror() bool {
	defer prof("replica.start")()
	d := buildDrv()
	if d.err != "" {
		if strings.HasPrefix(d.err, "env:") {
			w.r.Hit("env:replica-not-built")
		} else {
			// client/main.go no longer has the functions the replica is made of (blockMined, blockUndone, LocalAcceptBlock)
			w.tieFail("client-replica-build", "gocoin's client does not build with the replica driver (blockMined / blockUndone / LocalAcceptBlock of client/main.go as chain callbacks and block entry): "+head1(d.err, 600))
		}
		return false
	}
	dir, err := os.MkdirTemp("", "vc12rep")
	if err != nil {
		w.r.Hit("env:replica-not-built")
		return false
	}
	m := &mirror{w: w, dir: dir + string(os.PathSeparator)}
	m.cmd = exec.Command(d.bin)
	m.cmd.Env = append(os.Environ(), "VERIF_C12_DRV=1")
	m.cmd.Dir = dir
	m.in, _ = m.cmd.StdinPipe()
	so, _ := m.cmd.StdoutPipe()
	if err := m.cmd.Start(); err != nil {
		w.r.Hit("env:replica-not-started")
		os.RemoveAll(dir)
		return false
	}
	m.out = bufio.NewReaderSize(so, 1<<22)
	open := fmt.Sprintf("open %s %s %d %s %s %d %d", m.dir, w.k.Genesis.String(), w.k.Opts.GenesisTime, b01(!w.noMem), b01(w.notFullRBF), w.ring, int64(common.TxExpireAfter))
	if rep := m.ask(open); rep != "ok" {
		w.tieFail("client-replica-open", "the replica node does not open its chain: "+rep)
		m.close()
		return false
	}
	// the chain so far
	var path []*blockRaw
	for n := w.k.Ch.LastBlock(); n != nil && n.Height > 0; n = n.Parent {
		raw, _, e := w.k.Ch.Blocks.BlockGet(n.BlockHash)
		if e != nil {
			w.r.Hit("env:replica-block-missing")
			m.close()
			return false
		}
		path = append(path, &blockRaw{raw})
	}
	for i := len(path) - 1; i >= 0; i-- {
		if rep := m.ask("blk " + hex.EncodeToString(path[i].raw)); !strings.HasPrefix(rep, "ok ") {
			w.tieFail("client-replica-setup", fmt.Sprintf("the replica node (client/main.go LocalAcceptBlock) refuses block %d of the setup chain: %s", len(path)-i, rep))
			m.close()
			return false
		}
	}
	w.mir = m
	w.r.Hit("replica:started")
	m.op(nil, "start", "")
	return !m.off
}

type blockRaw struct{ raw []byte }

func head1(s string, n int) string {
	s = strings.ReplaceAll(s, "\n", " | ")
	if len(s) > n {
		s = s[:n] + "…"
	}
	return s
}

// poolDump: the in-process pool in the replica's format
func (w *World) poolDump() string {
	txpool.TxMutex.Lock()
	defer txpool.TxMutex.Unlock()
	var ids []string
	for _, t := range txpool.TransactionsToSend {
		var mask strings.Builder
		for i := range t.TxIn {
			if t.MemInputs != nil && t.MemInputs[i] {
				mask.WriteByte('1')
			} else {
				mask.WriteByte('0')
			}
		}
		ids = append(ids, fmt.Sprintf("%s:%d:%s", hex.EncodeToString(t.Hash.Hash[:]), t.Fee, mask.String()))
	}
	sort.Strings(ids)
	pool := "-"
	if len(ids) > 0 {
		pool = strings.Join(ids, ",")
	}
	return fmt.Sprintf("tip=%d n=%d spent=%d pool=%s", w.k.Ch.LastBlock().Height, len(txpool.TransactionsToSend), len(txpool.SpentOutputs), pool)
}

// op: one operation of the history has just been done (and verified) in process; the replica does it too - now, or when
// the queued stretch is played.
func (m *mirror) op(lines []string, what, hdr string) {
	if m == nil || m.off || m.w.dead || m.w.failed {
		return
	}
	o := mop{lines: lines, what: what, want: m.w.poolDump(), hdr: hdr}
	if m.deferred {
		m.queue = append(m.queue, o)
		return
	}
	m.play(o)
}

func (m *mirror) play(o mop) {
	w := m.w
	for _, l := range o.lines {
		rep := m.ask(l)
		if rep == "crash" || strings.HasPrefix(rep, "panic") || strings.HasPrefix(rep, "err") || rep == "bad-op" || rep == "refused" {
			m.off = true
			w.propFail("client-node:"+word(l)+"-"+word(rep), fmt.Sprintf("replica node (gocoin's client: LocalAcceptBlock, blockMined / blockUndone as the chain's callbacks), operation %s%s: %s", o.what, m.where(), head1(rep, 300)))
			return
		}
	}
	rep := m.ask("dump")
	vi := strings.Index(rep, " viol=")
	ki := strings.Index(rep, " known=")
	ni := strings.Index(rep, " n=")
	if vi < 0 || ki < 0 || ni < ki {
		m.off = true
		w.propFail("client-node:dump-"+word(rep), "replica node: no pool dump after "+o.what+m.where()+": "+head1(rep, 300))
		return
	}
	got, viol := rep[:ki]+rep[ni:vi], rep[vi+6:]
	w.r.Hit("replica:op-" + word(o.what))
	if viol != "-" {
		m.off = true
		kind := viol
		if i := strings.IndexByte(viol, ':'); i > 0 {
			kind = viol[:i]
		}
		w.propFail("client-node:"+kind, fmt.Sprintf("the same history on a replica node driven through gocoin's client (blocks through client/main.go LocalAcceptBlock, blockMined / blockUndone as the chain's callbacks), after %s%s: %s", o.what, m.where(), viol))
		return
	}
	if got != o.want {
		m.off = true
		w.tieFail("client-replica-mismatch", fmt.Sprintf("after %s%s the replica node's pool differs from the in-process pool (which agrees with the model): %s", o.what, m.where(), firstDiffC12(o.want, got)))
		return
	}
	w.r.TieOK()
}

func (m *mirror) where() string {
	if m.ahead > 0 {
		return fmt.Sprintf(" (the best known header is %d blocks above this block)", m.ahead)
	}
	return ""
}

func word(s string) string {
	if i := strings.IndexAny(s, " :"); i > 0 {
		s = s[:i]
	}
	return s
}

func firstDiffC12(a, b string) string {
	i := 0
	for i < len(a) && i < len(b) && a[i] == b[i] {
		i++
	}
	lo := i - 40
	if lo < 0 {
		lo = 0
	}
	cut := func(s string) string {
		hi := i + 100
		if hi > len(s) {
			hi = len(s)
		}
		return s[lo:hi]
	}
	return fmt.Sprintf("at %d: in-process …%s… replica …%s…", i, cut(a), cut(b))
}

// behind: from here the operations are queued; catchUp() plays them with every queued block's header announced first.
func (m *mirror) behind() {
	if m != nil && !m.off {
		m.deferred = true
	}
}

// catchUp: the replica learns the headers of all queued blocks (header-first download), then the operations come in
// their order; block i of n is committed while the best known header is n-i blocks above it.
func (m *mirror) catchUp() {
	if m == nil {
		return
	}
	defer prof("replica.catchup")()
	m.deferred = false
	q := m.queue
	m.queue = nil
	if m.off || m.w.failed || m.w.dead {
		return
	}
	nb := 0
	for _, o := range q {
		if o.hdr != "" {
			if rep := m.ask("hdr " + o.hdr); !strings.HasPrefix(rep, "ok ") {
				m.off = true
				m.w.tieFail("client-replica-header", "the replica node refuses the header of a block the in-process chain has connected: "+head1(rep, 200))
				return
			}
			nb++
		}
	}
	m.w.r.Hit("replica:catch-up-" + bucket(nb))
	for _, o := range q {
		if m.off {
			break
		}
		if o.hdr != "" {
			nb--
			m.ahead = nb
			if nb >= 144 {
				m.w.r.Hit("replica:block-while-144+-behind")
			} else if nb > 0 {
				m.w.r.Hit("replica:block-while-1..143-behind")
			}
		}
		m.play(o)
	}
	m.ahead = 0
}

// ------------------------------------------------------------------------------------------ the scenario family

// conflictOf: a transaction (never submitted) spending a confirmed coin that a pooled transaction spends
func (w *World) conflictOf(pool []*txInfo) *txInfo {
	for try := 0; try < 6 && len(pool) > 0; try++ {
		v := pool[w.g.Intn(len(pool))]
		if vc := w.coinOf(v.tx.TxIn[w.g.Intn(len(v.tx.TxIn))].Input); vc != nil && vc.Kind != "raw" && vc.Height != 0 {
			return w.spend([]*chainkit.Coin{vc}, 1+w.g.Intn(2), w.randFee(1, 2)+11, nil, false)
		}
	}
	return nil
}

// stretch connects n blocks in process (queued for the replica): `busy` of them - at drawn positions, the first one
// early - take pooled transactions in listing order, a conflicting and an unknown transaction; the others are empty.
func (w *World) stretch(n, busy int) {
	at := map[int]bool{w.g.Intn(3): true}
	for len(at) < busy && len(at) < n {
		at[w.g.Intn(n)] = true
	}
	for i := 0; i < n && !w.failed && !w.dead; i++ {
		var cands []*txInfo
		if at[i] {
			l := w.listingOrder()
			if len(l) > 0 {
				cands = append(cands, l[:1+w.g.Intn(len(l))]...)
				if w.g.Chance(1, 3) {
					cands = cands[:1+w.g.Intn(len(cands))]
				}
			}
			if w.g.Bool() {
				if cx := w.conflictOf(w.pooled()); cx != nil {
					cands = append(cands, cx)
					w.r.Hit("gen:stretch-conflicting-tx")
				}
			}
			if fc := w.freeCoins(true); len(fc) > 0 && w.g.Bool() {
				cands = append(cands, w.spend(fc[:1], 2, w.randFee(1, 2), nil, false)) // unknown to the pool
			}
		}
		if !w.mine(cands) {
			return
		}
	}
}

// scClientNode(lo, hi): a history on a node in sync, the node falls behind by lo..hi blocks (and is mostly restarted:
// pool saved, process "started", pool file loaded), catches up header-first, lives on in sync.
func scClientNode(lo, hi int) func(w *World) {
	return func(w *World) {
		if !w.startMirror() {
			return
		}
		defer func() { w.mir.close(); w.mir = nil }()
		m := w.mir
		// in sync
		w.grow(3+w.g.Intn(5), 60)
		if w.g.Bool() {
			l := w.listingOrder()
			w.mine(l[:len(l)/3])
			if w.g.Chance(1, 3) {
				w.undoLast(w.g.Bool())
			}
			w.grow(1+w.g.Intn(3), 60)
		}
		for round := 0; round < 2 && !w.failed && !w.dead && !m.off; round++ {
			if w.g.Chance(3, 4) {
				w.reload() // the node is stopped and started again: mempool.dmp matches the tip and is loaded
			}
			n := lo + w.g.Intn(hi-lo+1)
			m.behind()
			w.stretch(n, 1+w.g.Intn(3))
			if n > 3 && w.g.Chance(1, 4) { // the last block is replaced while the node is still behind
				w.undoLast(false)
				w.mine(nil)
			}
			m.catchUp()
			// in sync again: the families live on
			w.grow(1+w.g.Intn(3), 70)
			if w.g.Bool() {
				l := w.listingOrder()
				w.mine(l[:(len(l)+1)/2])
			}
			lo, hi = 1, 6 // a short gap the second time
		}
		w.mine(w.pooled())
	}
}
