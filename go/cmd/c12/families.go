package main

// families.go — two scenario families (generated per seed, not fixed inputs):
//
//   undo-sorting-on : families of unconfirmed transactions across the boundary of a block that is then undone WHILE THE
//                     SORTED LIST IS LIVE (text-UI `undo slow` = UndoLastBlock without BlockCommitInProgress(true); the
//                     last round uses the ordinary `undo`): BlockUndone's processTx inserts every put-back transaction
//                     into BestT2S…WorstT2S by its own fee rate, unmined() re-flags the pooled children (with and without
//                     other unconfirmed parents, better and worse fee rates than the put-back parent), and the very next
//                     listing is judged (parents first, template accepted) and compared with the model.
//   aged-reload     : wall-clock time. Parts of the pool (or all of it: the node was off) have not been seen for spans
//                     around TXPool.ExpireInDays, and the pool is saved / reloaded / restarted on a damaged file / mined
//                     from BEFORE the hourly expiry comes by: every record must come through whatever its age; the expiry
//                     tick then removes the old ones with their descendants (the model's `expire` over the harness's own
//                     time ledger, World.old).

import (
	"time"

	"verif/chainkit"
)

// pooledOuts: unspent outputs of pooled transactions, in a deterministic order.
func (w *World) pooledOuts() []*chainkit.Coin {
	var po []*chainkit.Coin
	for _, c := range w.freeCoins(false) {
		if c.Height == 0 {
			po = append(po, c)
		}
	}
	return po
}

// grow submits n transactions on top of what is there: each spends 1..3 free coins, an unspent output of a pooled
// transaction with probability bias % per input (chains, diamonds, joins of families), a confirmed coin otherwise.
func (w *World) grow(n, bias int) (acc []*txInfo) {
	for i := 0; i < n && !w.failed && !w.dead; i++ {
		conf, po := w.freeCoins(true), w.pooledOuts()
		var coins []*chainkit.Coin
		for k := 1 + w.g.Intn(3); k > 0; k-- {
			src := conf
			if len(po) > 0 && w.g.Intn(100) < bias {
				src = po
			}
			if len(src) == 0 {
				continue
			}
			c := src[w.g.Intn(len(src))]
			dup := false
			for _, x := range coins {
				dup = dup || x.Out == c.Out
			}
			if !dup {
				coins = append(coins, c)
			}
		}
		if len(coins) == 0 {
			return
		}
		nout := 1 + w.g.Intn(3)
		t := w.spend(coins, nout, w.randFee(len(coins), nout), nil, false)
		if w.submit(t, w.randMode()) == 0 {
			acc = append(acc, t)
		}
	}
	return
}

func scUndoFamilies(w *World) {
	for round := 0; round < 4 && !w.failed && !w.dead; round++ {
		// the block: 1..3 transactions on confirmed coins, some chained inside the block, each known to the pool or not
		conf := w.freeCoins(true)
		var blk []*txInfo
		var inner []*chainkit.Coin // outputs of the block's transactions that nothing spends yet
		for i, nb := 0, 1+w.g.Intn(3); i < nb && len(conf) > 0; i++ {
			j := w.g.Intn(len(conf))
			coins := []*chainkit.Coin{conf[j]}
			conf = append(conf[:j:j], conf[j+1:]...)
			if len(inner) > 0 && w.g.Chance(1, 3) {
				coins = append(coins, inner[0])
				inner = inner[1:]
			}
			nout := 2 + w.g.Intn(2)
			t := w.spend(coins, nout, w.randFee(len(coins), nout), nil, false)
			if w.g.Bool() {
				w.submit(t, w.randMode())
			}
			blk = append(blk, t)
			inner = append(inner, t.outs...)
		}
		w.grow(1+w.g.Intn(3), 40) // other unconfirmed transactions: they stay in the pool
		if !w.mine(blk) {
			return
		}
		// pooled children of the block's transactions: 1..2 of the outputs just confirmed and, mostly, an output of a
		// pooled transaction as well (the child then has MemInputs allocated before the block is undone)
		var bouts []*chainkit.Coin
		for _, c := range w.freeCoins(true) {
			if w.createdIn(blk, c.Out.Hash) {
				bouts = append(bouts, c)
			}
		}
		for i, nk := 0, 1+w.g.Intn(3); i < nk && len(bouts) > 0; i++ {
			j := w.g.Intn(len(bouts))
			coins := []*chainkit.Coin{bouts[j]}
			bouts = append(bouts[:j:j], bouts[j+1:]...)
			if len(bouts) > 0 && w.g.Chance(1, 4) {
				coins = append(coins, bouts[0])
				bouts = bouts[1:]
			}
			if po := w.pooledOuts(); len(po) > 0 && w.g.Chance(3, 4) {
				coins = append(coins, po[w.g.Intn(len(po))])
				w.r.Hit("gen:undo-child-with-other-unconfirmed-parent")
			} else {
				w.r.Hit("gen:undo-child-of-confirmed-only")
			}
			nout := 1 + w.g.Intn(2)
			fee := w.randFee(len(coins), nout) * uint64(1+w.g.Intn(3)) // (children tend to pay more: child pays for parent)
			w.submit(w.spend(coins, nout, fee, nil, false), w.randMode())
		}
		if !w.undoLast(round != 3) { // `undo slow` (the sorted list is live while the block's txs come back), at last `undo`
			return
		}
		w.grow(1, 60) // the families live on
		switch w.g.Intn(3) {
		case 0:
			w.mine(blk) // the same block again
		case 1:
			l := w.listingOrder()
			w.mine(l[:len(l)/2])
		}
	}
	w.mine(w.pooled())
}

func scAgedReload(w *World) {
	day := 24 * time.Hour
	for round := 0; round < 3 && !w.failed && !w.dead; round++ {
		w.grow(5+w.g.Intn(4), 65)
		w.ageRandom()
		if w.g.Bool() {
			w.ageRandom()
		}
		w.reload()    // every record is back, whatever its age
		w.grow(2, 80) // fresh children of old parents
		if w.g.Bool() {
			w.age(w.pooled(), time.Duration(1+w.g.Intn(20))*day) // the node stays off for some days
		}
		switch w.g.Intn(3) {
		case 0:
			w.reload()
		case 1:
			w.crashLoad("cut")
			w.grow(2, 50)
		case 2:
			l := w.listingOrder()
			w.mine(l[:len(l)/3])
			w.reload()
		}
		w.tickExpire(nil) // the hourly expiry comes by: the old ones go, with their descendants
		w.reload()
	}
	w.mine(w.pooled())
}
