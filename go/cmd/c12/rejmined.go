package main

// rejmined.go — histories of the shape "a transaction the pool has REFUSED (for any reason) conflicts with pooled
// ones, and then it (or, when it can never be valid, another conflicting transaction) shows up in a block".
// The pooled transaction it conflicts with has a child and a grandchild: all three have to leave the pool.

import (
	"fmt"

	"verif/chainkit"
)

// bigScript is a 9000-byte output script starting with OP_TRUE (consensus-valid as an output, never spent here).
func bigScript() []byte {
	big := make([]byte, 9000)
	big[0] = 0x51
	for i := 1; i < len(big); i++ {
		big[i] = 0x61
	}
	return big
}

// heavyTx spends coins into one OP_TRUE output plus nbig outputs with a 9000-byte script: with nbig >= 12 it is
// heavier than CFG.TXPool.MaxTxWeight (400e3) but far below the block weight limit — policy-refused, consensus-valid.
func (w *World) heavyTx(coins []*chainkit.Coin, fee uint64, nbig int) *txInfo {
	var in uint64
	for _, c := range coins {
		in += c.Value
	}
	dust := uint64(nbig) * 1000
	if fee+dust+1000 > in {
		fee = (in - dust) / 2
	}
	outs := []chainkit.OutSpec{{Value: in - fee - dust, Script: chainkit.AnyoneScript}}
	big := bigScript()
	for j := 0; j < nbig; j++ {
		outs = append(outs, chainkit.OutSpec{Value: 1000, Script: big})
	}
	return w.mkTx(coins, nil, outs, false)
}

// family pools x spending u (two outputs), a child of x and a grandchild. nonFinal makes x and its descendants
// replaceable under CFG.TXPool.NotFullRBF.
func (w *World) family(u *chainkit.Coin, nonFinal bool) (x, c, g *txInfo) {
	var seqs []uint32
	if nonFinal {
		seqs = []uint32{0xfffffffd}
	}
	x = w.spend([]*chainkit.Coin{u}, 2, 3000+uint64(w.g.Intn(500)), seqs, false)
	w.submit(x, "net")
	c = w.spend(x.outs[:1], 2, 2000+uint64(w.g.Intn(500)), seqs, false)
	w.submit(c, w.randMode())
	g = w.spend(c.outs[:1], 1, 1500+uint64(w.g.Intn(500)), seqs, false)
	w.submit(g, "net")
	return
}

func ghostOf(ti *txInfo, vout uint32) *chainkit.Coin {
	gc := *ti.outs[0]
	gc.Out.Vout = vout
	gc.Kind = "anyone"
	gc.Key = nil
	return &gc
}

// refusedThenMined: submit the refused transaction, then connect the block.
func (w *World) refusedThenMined(name string, refused *txInfo, mode string, block []*txInfo, viaReorg bool) {
	code := w.submit(refused, mode)
	w.r.Hit(fmt.Sprintf("gen:refused-then-block:%s:%s", name, codeName(code, code)))
	if viaReorg {
		if len(w.blocks) == 0 {
			w.mine(nil)
		}
		w.reorg(1, block)
	} else {
		w.mine(block)
	}
}

// scRejectMined — corpus: every refusal kind of processTx that a conflicting transaction can run into, followed by
// a block. Kinds that keep only the id (reason < 200): TOO_BIG (can be mined itself), OVERSPEND and BAD_INPUT
// (never valid: a different conflicting tx is mined). Kinds that keep the data (reason >= 200): RBF_LOWFEE, NO_TXOU,
// BAD_PARENT (mined themselves), CB_INMATURE (another one is mined); under NotFullRBF also RBF_FINAL.
func scRejectMined(w *World) {
	fc := w.freeCoins(true)
	next := 0
	coin := func() *chainkit.Coin { next++; return fc[next-1] }
	nf := w.notFullRBF // make the victims replaceable so that the refusal is the one the case is about
	one := func(c *chainkit.Coin) []*chainkit.Coin { return []*chainkit.Coin{c} }

	// --- id only, consensus-valid: heavier than MaxTxWeight; an unrelated (empty) block first, then mined
	u := coin()
	w.family(u, nf)
	t := w.heavyTx(one(u), 150000, 12)
	w.refusedThenMined("too-big", t, "net", nil, false)
	w.mine([]*txInfo{t})

	// the heavy one spends the inputs of two families; sent by a trusted peer
	u, v := coin(), coin()
	w.family(u, nf)
	w.family(v, nf)
	t = w.heavyTx([]*chainkit.Coin{u, v}, 250000, 13)
	w.refusedThenMined("too-big-2", t, "trusted", []*txInfo{t}, false)

	// the heavy one arrives in the new branch of a reorganisation, together with an unknown tx
	u = coin()
	w.family(u, nf)
	t = w.heavyTx(one(u), 90000, 12)
	w.refusedThenMined("too-big-reorg", t, "net", []*txInfo{w.spend(one(coin()), 1, 2000, nil, false), t}, true)

	// the heavy one conflicts with the grandchild only; x and the child are mined in the same block
	u = coin()
	x, c, _ := w.family(u, nf)
	t = w.heavyTx(c.outs[:1], 60000, 12)
	w.refusedThenMined("too-big-grandchild", t, "net", []*txInfo{x, c, t}, false)

	// --- id only, never valid: a different conflicting transaction is mined
	u = coin()
	w.family(u, nf)
	over := w.mkTx(one(u), nil, []chainkit.OutSpec{{Value: u.Value + 5, Script: chainkit.AnyoneScript}}, false)
	w.refusedThenMined("overspend", over, "net", []*txInfo{w.spend(one(u), 1, 4000, nil, false)}, false)

	u, v = coin(), coin()
	w.family(u, nf)
	dup := w.spend([]*chainkit.Coin{u, v, u}, 1, 4000, nil, false)
	w.refusedThenMined("dup-input", dup, "net", []*txInfo{w.spend([]*chainkit.Coin{u, v}, 2, 4000, nil, false)}, false)

	u = coin()
	x, _, _ = w.family(u, nf)
	bv := w.spend([]*chainkit.Coin{u, ghostOf(x, 7)}, 1, 4000, nil, false) // vout beyond the pooled parent's outputs
	w.refusedThenMined("bad-vout", bv, "net", []*txInfo{w.spend(one(u), 2, 900, nil, false)}, false)

	u = coin()
	x, c, _ = w.family(u, nf)
	own := w.spend([]*chainkit.Coin{u, c.outs[1]}, 1, 80000, nil, false) // replacement spending what it replaces
	w.refusedThenMined("spends-own-conflict", own, "net", []*txInfo{w.spend(one(u), 1, 1200, nil, false)}, false)

	// --- data kept
	u = coin()
	w.family(u, nf)
	t = w.spend(one(u), 1, 400, nil, false)
	w.refusedThenMined("rbf-lowfee", t, "net", []*txInfo{t}, false)

	u = coin()
	w.family(u, nf)
	p := w.spend(one(coin()), 2, 2500, nil, false) // never sent to the pool
	t = w.spend([]*chainkit.Coin{u, p.outs[0]}, 1, 5000, nil, false)
	w.refusedThenMined("no-txou", t, "net", []*txInfo{p, t}, false)

	u, v = coin(), coin()
	w.family(u, nf)
	z, _, _ := w.family(v, nf)
	_ = z
	r := w.spend(one(v), 1, 300, nil, false) // softly refused parent (RBF_LOWFEE against z)
	w.submit(r, "net")
	t = w.spend([]*chainkit.Coin{u, r.outs[0]}, 1, 5000, nil, false) // BAD_PARENT
	w.refusedThenMined("bad-parent", t, "net", []*txInfo{r, t}, false)

	u = coin()
	w.family(u, nf)
	im := w.spend([]*chainkit.Coin{u, w.immature}, 1, 5000, nil, false)
	w.refusedThenMined("cb-immature", im, "net", []*txInfo{w.spend(one(u), 1, 700, nil, false)}, false)

	if w.notFullRBF {
		// final victims: any conflicting tx is RBF_FINAL (data kept); TOO_BIG still comes first
		u = coin()
		w.family(u, false)
		t = w.spend(one(u), 1, 90000, nil, false)
		w.refusedThenMined("rbf-final", t, "net", []*txInfo{t}, false)
		u = coin()
		w.family(u, false)
		t = w.heavyTx(one(u), 150000, 12)
		w.refusedThenMined("too-big-vs-final", t, "net", []*txInfo{t}, false)
		// only the grandchild is final
		u = coin()
		x = w.spend(one(u), 2, 3000, []uint32{0xfffffffd}, false)
		w.submit(x, "net")
		c = w.spend(x.outs[:1], 1, 2000, nil, false)
		w.submit(c, "net")
		t = w.spend(one(u), 1, 90000, nil, false)
		w.refusedThenMined("rbf-final-child", t, "net", []*txInfo{t}, false)
	}
	w.reload()
	w.mine(w.pooled())
}
